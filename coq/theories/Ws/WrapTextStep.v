(* C03 at width > 0: TextWrappingSerializer._serialize_text for a text with content between siblings
   (all branches, including _serialize_text_over_lines from a partially filled line).  Facts only.
   Everything the step writes is esc_text of an unescaped string, so the data a parser reads back is
   known exactly; what is proved of it is stated at the level of `collapse`. *)
From Coq Require Import List NArith ZArith Bool Lia.
From Delb.Base Require Import PyStr PyStrW PyStrFacts.
From Delb.Gen Require Import GenNames GenPretty GenWrap.
From Delb.Tree Require Import ATree Merge MergeFacts.
From Delb.Ws Require Import Reduce ReduceFacts Pretty SimplePP WsVariant WsVariantFacts PrettyFacts PrettyVariant Wrap WrapFacts WrapSerFacts WrapTextOnly WrapVariant.
Import ListNotations.

(* ------------------------------------------------------------------------------------------ *)
(* a calculus for collapse over concatenations *)

(* is the character before the rest whitespace: the state collapse_aux is in after x, started in state b *)
Definition endws (b : bool) (x : str) : bool := match rev x with c :: _ => is_ws c | [] => b end.

Lemma endws_cons b c x : endws b (c :: x) = endws (is_ws c) x.
Proof.
  unfold endws. cbn [rev]. destruct (rev x) as [|d r] eqn:E; [reflexivity|]. reflexivity.
Qed.

Lemma collapse_aux_app x : forall b y, collapse_aux b (x ++ y) = collapse_aux b x ++ collapse_aux (endws b x) y.
Proof.
  induction x as [|c r IH]; intros b y; [reflexivity|]. cbn [app collapse_aux]. rewrite endws_cons.
  destruct (is_ws c); [destruct b|]; rewrite IH; reflexivity.
Qed.

Lemma endws_app b x y : endws b (x ++ y) = endws (endws b x) y.
Proof.
  revert b. induction x as [|c r IH]; intros b; [reflexivity|]. cbn [app]. rewrite !endws_cons. apply IH.
Qed.

Lemma collapse_aux_ws b w : all_ws w -> collapse_aux b w = if (b || null w)%bool then [] else [SP].
Proof.
  intros H. revert b. induction H as [|c r Hc _ IH]; intros b; [cbn; rewrite orb_true_r; reflexivity|].
  cbn [collapse_aux null]. rewrite Hc, orb_false_r. rewrite (IH true). cbn [orb]. destruct b; reflexivity.
Qed.
Lemma endws_ws b w : all_ws w -> endws b w = (b || negb (null w))%bool.
Proof.
  intros H. unfold endws. destruct (rev w) as [|c r] eqn:E.
  - assert (w = []) as -> by (rewrite <- (rev_involutive w), E; reflexivity). cbn. rewrite orb_false_r. reflexivity.
  - assert (Hin : In c w) by (apply in_rev; rewrite E; left; reflexivity).
    unfold all_ws in H. rewrite Forall_forall in H. rewrite (H c Hin).
    destruct w; [discriminate|]. cbn. rewrite orb_true_r. reflexivity.
Qed.
Lemma endws_last_nows b x : last_nows x -> endws b x = false.
Proof. unfold last_nows, head_nows, endws. destruct (rev x); [tauto|]. intros ->. reflexivity. Qed.

(* ------------------------------------------------------------------------------------------ *)
(* from the collapsed form of the data to the shape ws_variant wants *)

Lemma lstrip_split s : exists w, all_ws w /\ s = w ++ lstrip s /\ (lstrip s = [] \/ head_nows (lstrip s)).
Proof.
  induction s as [|c r IH]; [exists []; repeat split; [constructor|left; reflexivity]|].
  cbn [lstrip]. destruct (is_ws c) eqn:E.
  - destruct IH as (w & Hw & Es & Hh). exists (c :: w). split; [constructor; assumption|]. split; [cbn; f_equal; exact Es|exact Hh].
  - exists []. split; [constructor|]. split; [reflexivity|right; exact E].
Qed.

Lemma ws_decompose D : exists pre m suf, D = pre ++ m ++ suf /\ all_ws pre /\ all_ws suf /\ (m = [] \/ (head_nows m /\ last_nows m)).
Proof.
  destruct (lstrip_split D) as (pre & Hpre & ED & HX). set (X := lstrip D) in *.
  destruct (lstrip_split (rev X)) as (sufr & Hs & EX & HY).
  exists pre, (rev (lstrip (rev X))), (rev sufr).
  assert (EX' : X = rev (lstrip (rev X)) ++ rev sufr) by (rewrite <- rev_app_distr, <- EX, rev_involutive; reflexivity).
  split; [rewrite <- EX'; exact ED|]. split; [exact Hpre|]. split.
  - unfold all_ws in *. rewrite Forall_forall in *. intros c Hc. apply Hs. apply in_rev. exact Hc.
  - destruct HY as [E|Hh]; [left; rewrite E; reflexivity|right]. split.
    + destruct HX as [E|Hx]; [rewrite E in *; cbn in Hh; tauto|].
      (* the head of X survives *)
      rewrite EX' in Hx. destruct (rev (lstrip (rev X))) as [|c r] eqn:Er.
      * exfalso. assert (lstrip (rev X) = []) by (rewrite <- (rev_involutive (lstrip (rev X))), Er; reflexivity).
        rewrite H in Hh. cbn in Hh. tauto.
      * exact Hx.
    + unfold last_nows. rewrite rev_involutive. exact Hh.
Qed.

Lemma collapse_head_nows m : head_nows m -> head_nows (collapse m).
Proof. destruct m as [|c r]; cbn; [tauto|]. intros H. unfold collapse. cbn [collapse_aux]. rewrite H. exact H. Qed.
Lemma collapse_aux_snoc_nows x c : is_ws c = false -> forall b, collapse_aux b (x ++ [c]) = collapse_aux b x ++ [c].
Proof. intros Hc b. rewrite collapse_aux_app. cbn [collapse_aux]. rewrite Hc. reflexivity. Qed.
Lemma collapse_last_nows m : last_nows m -> last_nows (collapse m).
Proof.
  unfold last_nows at 1. destruct (rev m) as [|c r] eqn:E; cbn; [tauto|]. intros Hc.
  assert (Em : m = rev r ++ [c]) by (rewrite <- (rev_involutive m), E; reflexivity).
  rewrite Em. unfold collapse. rewrite (collapse_aux_snoc_nows _ c Hc). apply last_nows_app. unfold last_nows. cbn. exact Hc.
Qed.

Lemma optsp_head_unique a a' x y : optsp a ++ x = optsp a' ++ y -> head_nows x -> head_nows y -> a = a' /\ x = y.
Proof.
  intros E Hx Hy. destruct a, a'; cbn [optsp app] in E.
  - injection E as E. auto.
  - exfalso. destruct y as [|c r]; [cbn in Hy; tauto|]. cbn in E, Hy. injection E as <- _. rewrite is_ws_SP in Hy. discriminate.
  - exfalso. destruct x as [|c r]; [cbn in Hx; tauto|]. cbn in E, Hx. injection E as -> _. rewrite is_ws_SP in Hx. discriminate.
  - auto.
Qed.

Lemma optsp_form_unique a k b a' k2 b' : optsp a ++ k ++ optsp b = optsp a' ++ k2 ++ optsp b' ->
  head_nows k -> last_nows k -> head_nows k2 -> last_nows k2 -> a = a' /\ k = k2 /\ b = b'.
Proof.
  intros E Hh Hl Hh2 Hl2.
  destruct (optsp_head_unique a a' (k ++ optsp b) (k2 ++ optsp b') E) as [Ea E2]; [apply head_nows_app; exact Hh|apply head_nows_app; exact Hh2|].
  split; [exact Ea|]. apply (f_equal (@rev char)) in E2. rewrite !rev_app_distr in E2.
  replace (rev (optsp b)) with (optsp b) in E2 by (destruct b; reflexivity).
  replace (rev (optsp b')) with (optsp b') in E2 by (destruct b'; reflexivity).
  destruct (optsp_head_unique b b' (rev k) (rev k2) E2 Hl Hl2) as [Eb Er]. split; [|exact Eb].
  rewrite <- (rev_involutive k), Er, rev_involutive. reflexivity.
Qed.

Theorem variant_of_collapse D k a b : core k -> collapse D = optsp a ++ k ++ optsp b ->
  exists pre k' suf, D = pre ++ k' ++ suf /\ all_ws pre /\ all_ws suf /\ inner_variant k k' /\
                     null pre = negb a /\ null suf = negb b.
Proof.
  intros Hk E. destruct (ws_decompose D) as (pre & m & suf & ED & Hp & Hs & Hm).
  exists pre, m, suf. split; [exact ED|]. split; [exact Hp|]. split; [exact Hs|].
  destruct Hm as [->|[Hh Hl]].
  - exfalso. cbn [app] in ED. rewrite ED in E. rewrite collapse_all_ws in E by (apply all_ws_app; assumption).
    pose proof Hk as (Hkh & _). destruct (negb (null (pre ++ suf))); destruct a; cbn [optsp app] in E;
      destruct k as [|c r]; try (cbn in Hkh; tauto); cbn in E; try discriminate.
    injection E as <- _. cbn in Hkh. rewrite is_ws_SP in Hkh. discriminate.
  - rewrite ED in E. rewrite (collapse_pad' pre (collapse m) m suf Hp Hs) in E by (repeat split; assumption).
    pose proof Hk as (Hkh & Hkl & _).
    destruct (optsp_form_unique _ _ _ _ _ _ E (collapse_head_nows m Hh) (collapse_last_nows m Hl) Hkh Hkl) as (Ea & Ek & Eb).
    split; [repeat split; assumption|]. split.
    + rewrite <- Ea. rewrite negb_involutive. reflexivity.
    + rewrite <- Eb. rewrite negb_involutive. reflexivity.
Qed.

(* ------------------------------------------------------------------------------------------ *)
(* everything the text step writes is esc_text of an unescaped string *)

Lemma esc_lf : cce_lookup pp_cce_text LF = [LF]. Proof. reflexivity. Qed.
Lemma esc_head_not_lf c : c <> LF -> match cce_lookup pp_cce_text c with d :: _ => d <> LF | [] => False end.
Proof.
  intros Hc. unfold pp_cce_text. cbn [cce_lookup].
  destruct (N.eqb_spec c 38) as [->|H1]; [discriminate|].
  destruct (N.eqb_spec c 62) as [->|H2]; [discriminate|].
  destruct (N.eqb_spec c 60) as [->|H3]; [discriminate|exact Hc].
Qed.

Lemma lstrip_char_esc X : py_lstrip_char (esc_text X) 10%N = esc_text (py_lstrip_char X 10%N).
Proof.
  induction X as [|c r IH]; [reflexivity|].
  change (esc_text (c :: r)) with (cce_lookup pp_cce_text c ++ esc_text r). cbn [py_lstrip_char].
  destruct (N.eqb_spec c 10) as [->|Hc].
  - change (cce_lookup pp_cce_text 10%N) with [10%N]. cbn [app py_lstrip_char N.eqb Pos.eqb]. exact IH.
  - pose proof (esc_head_not_lf c Hc) as Hh. destruct (cce_lookup pp_cce_text c) as [|d x] eqn:E; [destruct Hh|].
    cbn [app py_lstrip_char]. destruct (N.eqb_spec d 10) as [->|_]; [exfalso; apply Hh; reflexivity|].
    change (esc_text (c :: r)) with (cce_lookup pp_cce_text c ++ esc_text r). rewrite E. reflexivity.
Qed.

(* one write of escaped data: what is read back is the data, or the data without its leading newlines when the
   stream stood at the start of a line *)
Lemma emit_esc st X : exists X',
  fst (emit_raw st (esc_text X)) = [KRaw (esc_text X')] /\ sees [KRaw (esc_text X')] X' /\
  (X' = X \/ (w_off st = 0%Z /\ X' = py_lstrip_char X 10%N)) /\
  (X' = [] -> snd (emit_raw st (esc_text X)) = st).
Proof.
  unfold emit_raw, emit.
  destruct (writer_shape (w_pres st) (w_off st) (esc_text X)) as (d' & Hd & H).
  assert (Hx : exists X', d' = esc_text X' /\ (X' = X \/ (w_off st = 0%Z /\ X' = py_lstrip_char X 10%N))).
  { destruct Hd as [->|(_ & Ho & ->)]; [exists X; auto|]. exists (py_lstrip_char X 10%N). rewrite lstrip_char_esc. auto. }
  destruct Hx as (X' & -> & HX). exists X'.
  assert (Hs : sees [KRaw (esc_text X')] X') by (pose proof (sees_raw (esc_text X')) as Hs; rewrite unesc_esc_text in Hs; exact Hs).
  destruct H as [[E0 Ew]|(Hn & Ef & _)].
  - rewrite Ew. cbn [fst snd]. rewrite E0. apply esc_text_nil in E0. subst X'. repeat split; try assumption.
    intros _. destruct st; reflexivity.
  - destruct (writer_call (w_pres st) (w_off st) (esc_text X)) as [d o]. cbn [fst snd] in *. subst d.
    repeat split; try assumption. intros ->. exfalso. apply Hn. reflexivity.
Qed.

Lemma lstrip_char_nolf X : match X with c :: _ => c <> LF | [] => True end -> py_lstrip_char X 10%N = X.
Proof. apply lstrip_char_id. Qed.

(* the offset after a write *)
Lemma emit_raw_snd st d : snd (emit_raw st d) = snd (emit st d).
Proof. unfold emit_raw. destruct (emit st d). reflexivity. Qed.
Lemma emit_raw_fst st d : fst (emit_raw st d) = [KRaw (fst (emit st d))].
Proof. unfold emit_raw. destruct (emit st d). reflexivity. Qed.

Lemma ends_lf_app_NL d : ends_lf (d ++ NL) = true.
Proof. unfold NL. rewrite ends_lf_snoc. reflexivity. Qed.

(* data ending in a newline: the offset is 0 afterwards *)
Lemma emit_off_lf st d : ends_lf d = true -> match d with c :: _ => c <> LF | [] => True end ->
  w_off (snd (emit st d)) = 0%Z.
Proof.
  intros Hl Hh. unfold emit. destruct (writer_shape (w_pres st) (w_off st) d) as (d' & Hd & H).
  assert (Ed : d' = d) by (destruct Hd as [->|(_ & _ & ->)]; [reflexivity|apply lstrip_char_id; exact Hh]). subst d'.
  destruct H as [[-> _]|(_ & _ & [[_ Es]|[El _]])]; [discriminate| |unfold ends_lf in Hl; congruence].
  destruct (writer_call (w_pres st) (w_off st) d). exact Es.
Qed.

(* ------------------------------------------------------------------------------------------ *)
(* the text step *)

Lemma last_nows_not_lf d : last_nows d -> ends_lf d = false.
Proof.
  unfold last_nows, head_nows, ends_lf, py_last1. destruct (rev d) as [|c r]; [tauto|]. intros H. cbn.
  destruct (N.eqb_spec c 10) as [->|]; [exfalso; revert H; vm_compute; discriminate|reflexivity].
Qed.

Lemma ws_indent_optsp x : ws_indent (optsp x) = true. Proof. destruct x; reflexivity. Qed.

Lemma esc_text_last_nows x : x <> [] -> last_nows x -> last_nows (esc_text x).
Proof.
  intros Hn Hl. destruct (rev x) as [|c r] eqn:Er; [exfalso; apply Hn; rewrite <- (rev_involutive x), Er; reflexivity|].
  assert (Ek : x = rev r ++ [c]) by (rewrite <- (rev_involutive x), Er; reflexivity).
  unfold last_nows in Hl. rewrite Er in Hl. cbn in Hl. rewrite Ek. rewrite esc_text_app. apply last_nows_app.
  change (esc_text [c]) with (cce_lookup pp_cce_text c ++ []). rewrite app_nil_r.
  destruct (esc_char_cases c) as [[Hw _]|[_ (d & y & E & HF)]]; [congruence|]. rewrite E. apply all_nows_last; [discriminate|exact HF].
Qed.

(* ------------------------------------------------------------------------------------------ *)
(* the lines of the generated _wrap_text on escaped text, as segments of the unescaped text *)

(* wl w t us c: the lines us are t cut at single spaces; c = the last cut consumed the final space of t *)
Inductive wl (w : nat) : str -> list str -> bool -> Prop :=
| wl_one t : t <> [] -> wl w t [t] false
| wl_consumed ta : (w <= length (esc_text ta))%nat -> wl w (ta ++ [SP]) [ta] true
| wl_step ta tb us c : tb <> [] -> wl w tb us c -> wl w (ta ++ SP :: tb) (ta :: us) c.

Lemma wl_nonempty w t us c : wl w t us c -> us <> [].
Proof. intros H. inversion H; discriminate. Qed.

Lemma lines_spec_nil w ls : lines_spec w [] ls -> ls = [].
Proof. intros H. inversion H; subst; try reflexivity; try congruence; cbn in *; lia. Qed.

Lemma lines_spec_wl w text ls : lines_spec w text ls -> forall t, text = esc_text t -> t <> [] ->
  exists us c, ls = map esc_text us /\ wl w t us c.
Proof.
  induction 1 as [| text Hne Hl | text out rest lines Hlen Hs Hr IH | text out Hlen Hs]; intros t Et Hn.
  - symmetry in Et. apply esc_text_nil in Et. congruence.
  - exists [t], false. subst text. split; [reflexivity|apply wl_one; exact Hn].
  - subst text.
    assert (Hsp : exists line, out = [line] /\ esc_text t = line ++ SP :: rest).
    { inversion Hs as [line0 rest0 E0 _ _ _|line0 rest0 E0 _ _|]; subst; exists line0; split; try reflexivity; exact E0. }
    destruct Hsp as (line & -> & Etext).
    destruct (esc_split t _ _ Etext) as (ta & tb & -> & Ea & Eb).
    destruct tb as [|c0 tb'].
    + cbn in Eb. subst rest. rewrite (lines_spec_nil w lines Hr). exists [ta], true. subst line.
      split; [reflexivity|]. apply wl_consumed. rewrite esc_text_app in Hlen. rewrite app_length in Hlen. cbn in Hlen. lia.
    + destruct (IH (c0 :: tb') (eq_sym Eb) ltac:(discriminate)) as (us & c & -> & Hw).
      exists (ta :: us), c. subst line. split; [reflexivity|]. apply wl_step; [discriminate|exact Hw].
  - inversion Hs; subst. exists [t], false. split; [reflexivity|apply wl_one; exact Hn].
Qed.

Lemma wrap_lines_wl t (width : Z) : (1 <= width)%Z -> t <> [] ->
  exists us c, wrap_text (esc_text t) width = Some (map esc_text us) /\ wl (Z.to_nat width) t us c.
Proof.
  intros Hw Hn. destruct (wrap_text_total_and_greedy (esc_text t) (Z.to_nat width) ltac:(lia)) as (ls & E & Hs).
  rewrite Z2Nat.id in E by lia. destruct (lines_spec_wl _ _ _ Hs t eq_refl Hn) as (us & c & -> & Hwl).
  exists us, c. split; [exact E|exact Hwl].
Qed.

(* collapsing does not see where the lines were cut *)
Lemma wl_collapse w t us c sep : wl w t us c -> all_ws sep -> sep <> [] ->
  exists t0, t = t0 ++ optsp c /\
    forall b, collapse_aux b (py_join sep us) = collapse_aux b t0 /\ endws b (py_join sep us) = endws b t0.
Proof.
  intros H Hs Hn. induction H as [t Ht | ta Hl | ta tb us c Htb Hw IH].
  - exists t. split; [cbn; rewrite app_nil_r; reflexivity|]. intros b. split; reflexivity.
  - exists ta. split; [reflexivity|]. intros b. split; reflexivity.
  - destruct IH as (t0 & -> & IH). exists (ta ++ SP :: t0). split; [rewrite <- app_assoc; reflexivity|].
    pose proof (wl_nonempty _ _ _ _ Hw) as Hne. intros b.
    assert (Ej : py_join sep (ta :: us) = ta ++ sep ++ py_join sep us) by (destruct us; [congruence|reflexivity]).
    rewrite Ej. rewrite !collapse_aux_app, !endws_app. rewrite (endws_ws _ sep Hs).
    replace (negb (null sep)) with true by (destruct sep; [congruence|reflexivity]). rewrite orb_true_r.
    destruct (IH true) as [E1 E2]. split.
    + f_equal. rewrite (collapse_aux_ws _ sep Hs). replace (null sep) with false by (destruct sep; [congruence|reflexivity]).
      rewrite orb_false_r. change (SP :: t0) with ([SP] ++ t0). rewrite collapse_aux_app.
      rewrite (collapse_aux_ws _ [SP]) by (constructor; [exact is_ws_SP|constructor]). cbn [null orb].
      rewrite orb_false_r. f_equal.
      replace (endws (endws b ta) [SP]) with true by (unfold endws; cbn; rewrite is_ws_SP; reflexivity). exact E1.
    + change (SP :: t0) with ([SP] ++ t0). rewrite endws_app.
      replace (endws (endws b ta) [SP]) with true by (unfold endws; cbn; rewrite is_ws_SP; reflexivity). exact E2.
Qed.

Lemma esc_core_head t : t <> [] -> head_nows t -> head_nows (esc_text t) /\ esc_text t <> [].
Proof.
  intros Hn Hh. destruct t as [|c r]; [congruence|]. cbn in Hh.
  change (esc_text (c :: r)) with (cce_lookup pp_cce_text c ++ esc_text r).
  destruct (esc_char_cases c) as [[Hw _]|[_ (d & x & E & HF)]]; [congruence|]. rewrite E. cbn. inversion HF; subst. split; [assumption|discriminate].
Qed.
Lemma elen_nonneg' s : (0 <= elen s)%Z. Proof. unfold elen, py_len. lia. Qed.

(* _wrap_text terminates for every width (also 0 and negative ones, which occur as "remaining space - 1") *)
Lemma skipn_shorter {A} (l : list A) n : l <> [] -> (0 < n)%nat -> (length (skipn n l) < length l)%nat.
Proof. intros Hl Hn. rewrite skipn_length. destruct l; [congruence|cbn [length]; lia]. Qed.

Lemma py_find1_pos_nonempty (s : str) c start : (py_find1 s c start > 0)%Z -> s <> [].
Proof.
  unfold py_find1. intros H Hs. subst s. rewrite skipn_nil in H. cbn in H. lia.
Qed.

Lemma wrap_loop_total fuel : forall text wz, (length text < fuel)%nat -> exists ls, wrap_text_loop fuel text wz = Some ls.
Proof.
  induction fuel as [|f IH]; intros text wz Hf; [lia|]. cbn [wrap_text_loop].
  destruct (py_len text >? wz)%Z; [|eexists; reflexivity].
  unfold wrap_text_step.
  destruct (py_rfind1 text 32%N (wz + 1) >? -1)%Z eqn:E1.
  - apply Z.gtb_lt in E1. pose proof (py_rfind1_bounds text 32%N (wz + 1) ltac:(lia)) as [Hb _].
    assert (Hne : text <> []) by (intros ->; unfold py_len in Hb; cbn in Hb; lia).
    destruct (IH (py_slice_from text (py_rfind1 text 32%N (wz + 1) + 1)) wz) as (ls & El).
    { unfold py_slice_from. pose proof (skipn_shorter text (Z.to_nat (py_rfind1 text 32%N (wz + 1) + 1)) Hne ltac:(lia)). lia. }
    rewrite El. eexists. reflexivity.
  - destruct (py_find1 text 32%N wz >? 0)%Z eqn:E2.
    + apply Z.gtb_lt in E2. assert (Hne : text <> []) by (apply (py_find1_pos_nonempty text 32%N wz); lia).
      destruct (IH (py_slice_from text (py_find1 text 32%N wz + 1)) wz) as (ls & El).
      { unfold py_slice_from. pose proof (skipn_shorter text (Z.to_nat (py_find1 text 32%N wz + 1)) Hne ltac:(lia)). lia. }
      rewrite El. eexists. reflexivity.
    + eexists. reflexivity.
Qed.

(* the segments of a text without adjacent whitespace that begins with a non-whitespace character begin that way too *)
Lemma wl_segs_ok w t us c : wl w t us c -> naw false t = true -> head_nows t -> Forall head_nows us.
Proof.
  induction 1 as [t Ht | ta Hl | ta tb us c Htb Hw IH]; intros Hn Hh.
  - constructor; [exact Hh|constructor].
  - constructor; [|constructor]. destruct ta as [|c0 r]; [cbn in Hh; rewrite is_ws_SP in Hh; discriminate|exact Hh].
  - destruct (naw_split ta tb false Hn) as (_ & Hb & Hc).
    constructor.
    + destruct ta as [|c0 r]; [cbn in Hh; rewrite is_ws_SP in Hh; discriminate|exact Hh].
    + apply IH; [exact Hc|]. destruct tb as [|c0 r]; [congruence|exact Hb].
Qed.

Lemma naw_snoc_sp k : forall b, naw b k = true -> last_nows k -> naw b (k ++ [SP]) = true.
Proof.
  induction k as [|c r IH]; intros b Hn Hl; [unfold last_nows in Hl; cbn in Hl; tauto|].
  cbn [app naw] in *. apply andb_prop in Hn as [H1 H2]. rewrite H1. cbn [andb].
  destruct r as [|d r'].
  - unfold last_nows in Hl. cbn in Hl. cbn [app naw]. rewrite Hl. reflexivity.
  - apply IH; [exact H2|]. unfold last_nows in *. cbn [rev] in *.
    destruct (rev r' ++ [d]) eqn:E; [destruct (rev r'); discriminate|]. cbn in *. exact Hl.
Qed.

Lemma text_tail_naw k trail : core k -> naw false (k ++ optsp trail) = true /\ head_nows (k ++ optsp trail) /\ k ++ optsp trail <> [].
Proof.
  intros (Hh & Hl & Hc). assert (Hn : naw false k = true) by (apply collapse_fix_naw; exact Hc).
  split; [|split].
  - destruct trail; cbn [optsp]; [apply naw_snoc_sp; assumption|rewrite app_nil_r; exact Hn].
  - apply head_nows_app. exact Hh.
  - destruct k; [cbn in Hh; tauto|discriminate].
Qed.

Lemma head_nows_ok u : head_nows u -> u <> [] /\ match u with c :: _ => c <> LF | [] => True end.
Proof.
  destruct u as [|c r]; [cbn; tauto|]. cbn. intros H. split; [discriminate|]. intros ->. revert H. vm_compute. discriminate.
Qed.

(* more string facts *)
Lemma rstrip_app_ws a w : (a = [] \/ last_nows a) -> all_ws w -> rstrip (a ++ w) = a.
Proof.
  intros [->|Ha] Hw; [apply rstrip_all_ws; exact Hw|].
  unfold rstrip. rewrite rev_app_distr.
  assert (El : lstrip (rev w ++ rev a) = rev a).
  { assert (Hrw : all_ws (rev w)).
    { unfold all_ws in *. rewrite Forall_forall in *. intros c Hc. apply Hw. apply in_rev. exact Hc. }
    clear Hw. induction Hrw as [|c r Hc _ IH]; cbn [app lstrip].
    - unfold last_nows in Ha. destruct (rev a) as [|c r]; [cbn in Ha; tauto|]. cbn in Ha. cbn. rewrite Ha. reflexivity.
    - rewrite Hc. exact IH. }
  rewrite El. apply rev_involutive.
Qed.

Lemma rstrip_split u : exists w, all_ws w /\ u = rstrip u ++ w /\ (rstrip u = [] \/ last_nows (rstrip u)).
Proof.
  destruct (lstrip_split (rev u)) as (w & Hw & E & Hh). exists (rev w). split.
  - unfold all_ws in *. rewrite Forall_forall in *. intros c Hc. apply Hw. apply in_rev. exact Hc.
  - split.
    + unfold rstrip. rewrite <- rev_app_distr, <- E, rev_involutive. reflexivity.
    + unfold rstrip. destruct Hh as [E0|Hh]; [left; rewrite E0; reflexivity|right]. unfold last_nows. rewrite rev_involutive. exact Hh.
Qed.

Lemma esc_all_ws w : all_ws w -> esc_text w = w.
Proof.
  induction 1 as [|c r Hc _ IH]; [reflexivity|]. change (esc_text (c :: r)) with (cce_lookup pp_cce_text c ++ esc_text r).
  destruct (esc_char_cases c) as [[_ E]|[Hn _]]; [|congruence]. rewrite E, IH. reflexivity.
Qed.

Lemma rstrip_esc u : rstrip (esc_text u) = esc_text (rstrip u).
Proof.
  destruct (rstrip_split u) as (w & Hw & E & Hl). rewrite E at 1. rewrite esc_text_app, (esc_all_ws w Hw).
  apply rstrip_app_ws; [|exact Hw]. destruct Hl as [->|Hl]; [left; reflexivity|right].
  apply esc_text_last_nows; [|exact Hl]. intros E0. rewrite E0 in Hl. unfold last_nows in Hl. cbn in Hl. tauto.
Qed.

Lemma join_snoc sep ini x w : py_join sep (ini ++ [x ++ w]) = py_join sep (ini ++ [x]) ++ w.
Proof.
  induction ini as [|y r IH]; [reflexivity|]. destruct r as [|z r'].
  - cbn [app py_join]. rewrite <- !app_assoc. reflexivity.
  - change ((y :: z :: r') ++ [x ++ w]) with (y :: (z :: r') ++ [x ++ w]).
    change ((y :: z :: r') ++ [x]) with (y :: (z :: r') ++ [x]).
    assert (Hc : forall q, py_join sep (y :: (z :: r') ++ [q]) = y ++ sep ++ py_join sep ((z :: r') ++ [q])) by reflexivity.
    rewrite !Hc, IH. rewrite <- !app_assoc. reflexivity.
Qed.

Lemma ws_block w g : all_ws w -> all_ws g -> g <> [] -> forall b Y,
  collapse_aux b (w ++ g ++ Y) = collapse_aux b (g ++ Y) /\ endws b (w ++ g) = endws b g.
Proof.
  intros Hw Hg Hn b Y. rewrite !collapse_aux_app, !endws_app. rewrite (endws_ws b w Hw), !(endws_ws _ g Hg).
  replace (negb (null g)) with true by (destruct g; [congruence|reflexivity]). rewrite !orb_true_r.
  rewrite (collapse_aux_ws b w Hw), !(collapse_aux_ws _ g Hg).
  replace (null g) with false by (destruct g; [congruence|reflexivity]). rewrite !orb_false_r.
  split; [|reflexivity]. destruct b; cbn [orb negb app]; [reflexivity|]. destruct (null w); reflexivity.
Qed.

Lemma collapse_replace J t0 g0 g1 : (forall b, collapse_aux b J = collapse_aux b t0 /\ endws b J = endws b t0) ->
  collapse (g0 ++ J ++ g1) = collapse (g0 ++ t0 ++ g1).
Proof.
  intros H. unfold collapse. rewrite !collapse_aux_app. destruct (H (endws false g0)) as [E1 E2]. rewrite E1, E2. reflexivity.
Qed.

Lemma head_nows_rstrip u : head_nows u -> rstrip u <> [] /\ head_nows (rstrip u).
Proof.
  intros Hh. destruct (rstrip_split u) as (w & Hw & E & _). destruct (rstrip u) as [|c r] eqn:Er.
  - exfalso. cbn in E. rewrite E in Hh. destruct w as [|c r]; [cbn in Hh; tauto|]. cbn in Hh. inversion Hw; subst. congruence.
  - split; [discriminate|]. rewrite E in Hh. exact Hh.
Qed.

(* the first line of _wrap_text, for every width *)
Lemma first_line_any t (wz : Z) : t <> [] -> head_nows t -> naw false t = true ->
  exists f rem, hd [] (match wrap_text (esc_text t) wz with Some l => l | None => [] end) = esc_text f /\
    f <> [] /\ head_nows f /\ t = f ++ rem /\
    (rem = [] \/ exists tb, rem = SP :: tb /\ (tb = [] -> (wz <= elen (esc_text f))%Z) /\
                            (tb <> [] -> head_nows tb /\ naw false tb = true)).
Proof.
  intros Hne Hh Hn. destruct (Z_le_gt_dec 1 wz) as [Hw|Hw].
  - destruct (wrap_lines_wl t wz Hw Hne) as (us & c & E & Hwl). rewrite E.
    pose proof (wl_segs_ok _ _ _ _ Hwl Hn Hh) as HF.
    inversion Hwl as [t' Ht' Et Eu | ta Hl Et Eu | ta tb us' c' Htb Hw' Et Eu]; subst.
    + exists t, []. cbn [map hd]. rewrite app_nil_r. repeat split; auto.
    + inversion HF; subst. exists ta, [SP]. cbn [map hd]. split; [reflexivity|]. split; [apply head_nows_ok; assumption|].
      split; [assumption|]. split; [reflexivity|]. right. exists []. split; [reflexivity|]. split; [|congruence].
      intros _. unfold elen, py_len. lia.
    + inversion HF; subst. exists ta, (SP :: tb). cbn [map hd]. split; [reflexivity|]. split; [apply head_nows_ok; assumption|].
      split; [assumption|]. split; [reflexivity|]. right. exists tb. split; [reflexivity|]. split; [congruence|]. intros _.
      destruct (naw_split ta tb false Hn) as (_ & Hb & Hc). split; [destruct tb; [congruence|exact Hb]|exact Hc].
  - (* width <= 0: the line is the first word *)
    assert (Het : esc_text t <> []) by (intros E; apply esc_text_nil in E; congruence).
    assert (Hhe : head_nows (esc_text t)) by (apply (proj1 (esc_core_head t Hne Hh))).
    unfold wrap_text. cbn [wrap_text_loop].
    replace (py_len (esc_text t) >? wz)%Z with true by (symmetry; apply Z.gtb_lt; unfold py_len; destruct (esc_text t); [congruence|cbn [length]; lia]).
    unfold wrap_text_step.
    assert (E1 : py_rfind1 (esc_text t) 32%N (wz + 1) = (-1)%Z).
    { unfold py_rfind1. assert (Hf : firstn (Z.to_nat (wz + 1)) (esc_text t) = [] \/ exists c0, firstn (Z.to_nat (wz + 1)) (esc_text t) = [c0] /\ is_ws c0 = false).
      { destruct (Z.to_nat (wz + 1)) as [|[|n]] eqn:En; [left; reflexivity| |lia].
        right. destruct (esc_text t) as [|c0 r]; [congruence|]. exists c0. split; [reflexivity|exact Hhe]. }
      destruct Hf as [->|(c0 & -> & Hc0)]; [reflexivity|]. cbn [rfind_nat].
      destruct (N.eqb_spec c0 32) as [->|_]; [exfalso; revert Hc0; vm_compute; discriminate|reflexivity]. }
    rewrite E1. replace (-1 >? -1)%Z with false by reflexivity.
    assert (E2 : py_find1 (esc_text t) 32%N wz = match find_nat SP (esc_text t) with Some i => Z.of_nat i | None => (-1)%Z end).
    { unfold py_find1. replace (Z.to_nat wz) with O by lia. cbn [skipn]. replace (Z.max 0 wz) with 0%Z by lia.
      change 32%N with SP. destruct (find_nat SP (esc_text t)); [rewrite Z.add_0_l|]; reflexivity. }
    rewrite E2. destruct (find_nat SP (esc_text t)) as [i|] eqn:Ef.
    + destruct (find_nat_spec _ _ _ Ef) as [Hnth _].
      assert (Hi : i <> O) by (intros ->; destruct (esc_text t) as [|c0 r]; [discriminate|]; cbn in Hnth, Hhe; injection Hnth as ->; rewrite is_ws_SP in Hhe; discriminate).
      replace (Z.of_nat i >? 0)%Z with true by (symmetry; apply Z.gtb_lt; lia).
      pose proof (firstn_skipn_mid _ _ _ Hnth) as Esplit.
      destruct (esc_split t _ _ Esplit) as (ta & tb & Et & Ea & Eb).
      destruct (wrap_loop_total (length (esc_text t)) (py_slice_from (esc_text t) (Z.of_nat i + 1)) wz) as (ls & El).
      { unfold py_slice_from. apply skipn_shorter; [exact Het|lia]. }
      rewrite El. cbn [option_map app hd]. unfold py_slice_to. rewrite Nat2Z.id.
      assert (Hta : ta <> []).
      { intros ->. cbn in Ea. destruct i; [congruence|]. destruct (esc_text t); [congruence|discriminate]. }
      exists ta, (SP :: tb). split; [symmetry; exact Ea|]. split; [exact Hta|].
      split; [rewrite Et in Hh; destruct ta; [congruence|exact Hh]|]. split; [exact Et|].
      right. exists tb. split; [reflexivity|]. split.
      * intros _. pose proof (elen_nonneg' (esc_text ta)). lia.
      * intros Htb. rewrite Et in Hn. destruct (naw_split ta tb false Hn) as (_ & Hb & Hc). split; [destruct tb; [congruence|exact Hb]|exact Hc].
    + replace (-1 >? 0)%Z with false by reflexivity. cbn [hd]. exists t, []. rewrite app_nil_r. repeat split; auto.
Qed.

(* exact offsets, for the case that the trailing space of a text was consumed by a line break *)
Lemma rfind_nat_notin c (s : str) : ~ In c s -> rfind_nat c s = None.
Proof.
  induction s as [|x r IH]; [reflexivity|]. intros H. cbn [rfind_nat]. rewrite IH by (intros Hi; apply H; right; exact Hi).
  destruct (N.eqb_spec x c) as [->|]; [exfalso; apply H; left; reflexivity|reflexivity].
Qed.
Lemma py_rfind1_notin (s : str) c stop : ~ In c s -> py_rfind1 s c stop = (-1)%Z.
Proof.
  intros H. unfold py_rfind1. rewrite rfind_nat_notin; [reflexivity|]. intros Hi. apply H.
  rewrite <- (firstn_skipn (Z.to_nat stop) s). apply in_or_app. left. exact Hi.
Qed.

Lemma emit_off_exact st d : d <> [] -> match d with c :: _ => c <> LF | [] => True end -> ~ In LF d ->
  w_off (snd (emit st d)) = (w_off st + elen d)%Z.
Proof.
  intros Hn Hh Hl. unfold emit. destruct (writer_shape (w_pres st) (w_off st) d) as (d' & Hd & H).
  assert (Ed : d' = d) by (destruct Hd as [->|(_ & _ & ->)]; [reflexivity|apply lstrip_char_id; exact Hh]). subst d'.
  destruct H as [[E _]|(_ & _ & [[El _]|[_ Es]])]; [congruence| |].
  - exfalso. apply str_eqb_eq in El. apply py_last1_nth in El as [_ El]. apply Hl. eapply nth_error_In. exact El.
  - destruct (writer_call (w_pres st) (w_off st) d) as [x o']. cbn [snd w_off] in *. rewrite Es.
    rewrite (py_rfind1_notin d 10%N (py_len d) Hl). reflexivity.
Qed.

(* ---- indentation strings that contain newlines --------------------------------------------------------------
   The writer drops the leading newlines of what is written at offset 0, and counts the offset from the last newline
   written; _line_offset subtracts the part of the indentation behind its last newline (tail_line, e1f59b7). *)
Lemma lstrip_lf_collapse X Y : collapse_aux true (py_lstrip_char X 10%N ++ Y) = collapse_aux true (X ++ Y).
Proof.
  induction X as [|c r IH]; [reflexivity|]. cbn [py_lstrip_char]. destruct (N.eqb_spec c 10) as [->|Hc]; [|reflexivity].
  rewrite IH. cbn [app collapse_aux]. reflexivity.
Qed.
Lemma lstrip_lf_endws X : endws true (py_lstrip_char X 10%N) = endws true X.
Proof.
  induction X as [|c r IH]; [reflexivity|]. cbn [py_lstrip_char]. destruct (N.eqb_spec c 10) as [->|Hc]; [|reflexivity].
  rewrite IH, endws_cons. reflexivity.
Qed.
Lemma lstrip_lf_app_head (i e : str) : e <> [] -> match e with c :: _ => c <> LF | [] => True end ->
  py_lstrip_char (i ++ e) 10%N = py_lstrip_char i 10%N ++ e.
Proof.
  intros Hn Hh. induction i as [|c r IH]; [apply lstrip_char_id; exact Hh|].
  cbn [app py_lstrip_char]. destruct (N.eqb c 10); [exact IH|reflexivity].
Qed.
Lemma lstrip_lf_all_ws i : all_ws i -> all_ws (py_lstrip_char i 10%N).
Proof.
  induction 1 as [|c r Hc Hr IH]; [constructor|]. cbn [py_lstrip_char]. destruct (N.eqb c 10); [exact IH|constructor; assumption].
Qed.

Lemma rfind_nat_app_notin c (a e : str) : ~ In c e -> rfind_nat c (a ++ e) = rfind_nat c a.
Proof.
  intros He. induction a as [|x r IH]; [exact (rfind_nat_notin c e He)|]. cbn [app rfind_nat]. rewrite IH. reflexivity.
Qed.
Lemma rfind_nat_lt c (s : str) j : rfind_nat c s = Some j -> (j < length s)%nat.
Proof.
  revert j. induction s as [|x r IH]; intros j H; [discriminate|]. cbn [rfind_nat] in H.
  destruct (rfind_nat c r) as [i|]; [injection H as <-; specialize (IH i eq_refl); cbn [length]; lia|].
  destruct (N.eqb x c); [injection H as <-; cbn [length]; lia|discriminate].
Qed.
Lemma tail_line_nolf s : ~ In LF s -> tail_line s = s.
Proof. intros H. unfold tail_line. rewrite (rfind_nat_notin LF s H). reflexivity. Qed.
Lemma tail_line_app_nolf (a e : str) : ~ In LF e -> tail_line (a ++ e) = tail_line a ++ e.
Proof.
  intros He. unfold tail_line. rewrite (rfind_nat_app_notin LF a e He). destruct (rfind_nat LF a) as [j|] eqn:E; [|reflexivity].
  pose proof (rfind_nat_lt LF a j E) as Hj. rewrite skipn_app. replace (S j - length a)%nat with O by lia. reflexivity.
Qed.
Lemma tail_line_cons_lf r : tail_line (LF :: r) = tail_line r.
Proof.
  unfold tail_line. cbn [rfind_nat]. destruct (rfind_nat LF r) as [j|]; [reflexivity|]. reflexivity.
Qed.
Lemma tail_line_lstrip i : tail_line (py_lstrip_char i 10%N) = tail_line i.
Proof.
  induction i as [|c r IH]; [reflexivity|]. cbn [py_lstrip_char]. destruct (N.eqb_spec c 10) as [->|Hc]; [|reflexivity].
  rewrite IH. symmetry. exact (tail_line_cons_lf r).
Qed.

(* the offset after writing, from the start of a line, something that does not end in a newline *)
Lemma emit_off_tail st d : w_off st = 0%Z ->
  exists d', (d' = d \/ d' = py_lstrip_char d 10%N) /\
    (d' <> [] -> ends_lf d' = false -> w_off (snd (emit st d)) = elen (tail_line d')).
Proof.
  intros Ho. unfold emit. destruct (writer_shape (w_pres st) (w_off st) d) as (d' & Hd & H).
  exists d'. split; [destruct Hd as [->|(_ & _ & ->)]; auto|]. intros Hn Hl.
  destruct H as [[E _]|(_ & _ & [[El _]|[_ Es]])]; [congruence|unfold ends_lf in Hl; congruence|].
  destruct (writer_call (w_pres st) (w_off st) d) as [x o']. cbn [snd w_off] in *. rewrite Es, Ho.
  unfold tail_line, py_rfind1, py_len. rewrite Nat2Z.id, firstn_all. change 10%N with LF.
  destruct (rfind_nat LF d') as [j|] eqn:E.
  - pose proof (rfind_nat_lt LF d' j E) as Hj.
    replace (Z.of_nat j =? -1)%Z with false by (symmetry; apply Z.eqb_neq; lia).
    unfold elen, py_len. rewrite skipn_length. lia.
  - rewrite Z.eqb_refl. unfold elen, py_len. lia.
Qed.

(* a line  i ++ e  (indentation, then text without a newline) written from the start of a line *)
Lemma emit_off_line st (i e : str) : w_off st = 0%Z -> e <> [] -> match e with c :: _ => c <> LF | [] => True end -> ~ In LF e ->
  w_off (snd (emit st (i ++ e))) = (elen (tail_line i) + elen e)%Z.
Proof.
  intros Ho Hn Hh Hl. destruct (emit_off_tail st (i ++ e) Ho) as (d' & Hd & H).
  assert (Hd' : exists i', d' = i' ++ e /\ tail_line i' = tail_line i).
  { destruct Hd as [->| ->]; [exists i; split; reflexivity|].
    exists (py_lstrip_char i 10%N). split; [apply lstrip_lf_app_head; assumption|apply tail_line_lstrip]. }
  destruct Hd' as (i' & -> & Et). rewrite H.
  - rewrite (tail_line_app_nolf i' e Hl), Et. unfold elen, py_len. rewrite app_length. lia.
  - destruct i'; [exact Hn|discriminate].
  - destruct (exists_last Hn) as (e0 & c & ->). rewrite app_assoc, ends_lf_snoc.
    destruct (N.eqb_spec c 10) as [->|]; [|reflexivity]. exfalso. apply Hl. apply in_or_app. right. left. reflexivity.
Qed.

(* a line ended by a newline: the offset is 0 afterwards, also when leading newlines of the indentation are dropped *)
Lemma emit_off_line_lf st (i e : str) : e <> [] -> match e with c :: _ => c <> LF | [] => True end ->
  w_off (snd (emit st (i ++ e ++ NL))) = 0%Z.
Proof.
  intros Hn Hh. unfold emit. destruct (writer_shape (w_pres st) (w_off st) (i ++ e ++ NL)) as (d' & Hd & H).
  assert (Hd' : exists i', d' = i' ++ e ++ NL).
  { destruct Hd as [->|(_ & _ & ->)]; [exists i; reflexivity|]. exists (py_lstrip_char i 10%N).
    apply lstrip_lf_app_head; [destruct e; [congruence|discriminate]|destruct e; [congruence|exact Hh]]. }
  destruct Hd' as (i' & ->).
  destruct H as [[E _]|(_ & _ & [[_ Es]|[El _]])].
  - exfalso. destruct i'; [destruct e; [congruence|discriminate]|discriminate].
  - destruct (writer_call (w_pres st) (w_off st) (i ++ e ++ NL)). exact Es.
  - exfalso. rewrite !app_assoc in El. change (str_eqb (py_last1 ((i' ++ e) ++ NL)) [10%N]) with (ends_lf ((i' ++ e) ++ NL)) in El.
    rewrite ends_lf_app_NL in El. discriminate.
Qed.

Lemma esc_no_lf x : ~ In LF x -> ~ In LF (esc_text x).
Proof.
  induction x as [|c r IH]; [exact (fun _ H => H)|]. intros H Hi.
  change (esc_text (c :: r)) with (cce_lookup pp_cce_text c ++ esc_text r) in Hi. apply in_app_or in Hi as [Hi|Hi].
  - assert (Hc : c <> LF) by (intros ->; apply H; left; reflexivity). revert Hi. unfold pp_cce_text. cbn [cce_lookup].
    destruct (N.eqb_spec c 38) as [->|H1]; [cbn; intuition discriminate|].
    destruct (N.eqb_spec c 62) as [->|H2]; [cbn; intuition discriminate|].
    destruct (N.eqb_spec c 60) as [->|H3]; [cbn; intuition discriminate|]. cbn. intros [E|[]]. congruence.
  - apply IH; [|exact Hi]. intros Hr. apply H. right. exact Hr.
Qed.

Lemma collapse_fix_no_lf s : forall b, collapse_aux b s = s -> ~ In LF s.
Proof.
  induction s as [|c r IH]; intros b H; [exact (fun H => H)|]. cbn [collapse_aux] in H.
  destruct (is_ws c) eqn:Ec.
  - destruct b.
    + exfalso. pose proof (collapse_aux_len true r) as Hl. rewrite H in Hl. cbn in Hl. lia.
    + injection H as Hc H. intros [E|Hi]; [subst c; discriminate|]. exact (IH true H Hi).
  - injection H as H. intros [E|Hi]; [subst c; revert Ec; vm_compute; discriminate|]. exact (IH false H Hi).
Qed.

Lemma wl_incl w t us c : wl w t us c -> forall u, In u us -> forall x, In x u -> In x t.
Proof.
  induction 1 as [t Ht | ta Hl | ta tb us c Htb Hw IH]; intros u Hu x Hx.
  - destruct Hu as [<-|[]]. exact Hx.
  - destruct Hu as [<-|[]]. apply in_or_app. left. exact Hx.
  - destruct Hu as [<-|Hu]; apply in_or_app; [left; exact Hx|right; right; exact (IH u Hu x Hx)].
Qed.

Lemma wl_consumed_last w t us : wl w t us true -> (w <= length (esc_text (last us [])))%nat.
Proof.
  intros H. remember true as c eqn:Ec. induction H as [t Ht | ta Hl | ta tb us c Htb Hw IH]; [discriminate|exact Hl|].
  specialize (IH Ec). pose proof (wl_nonempty _ _ _ _ Hw) as Hne. destruct us as [|u r]; [congruence|]. exact IH.
Qed.

Lemma esc_head_ok X : match X with c :: _ => c <> LF | [] => True end -> match esc_text X with c :: _ => c <> LF | [] => True end.
Proof.
  destruct X as [|c r]; [intros _; exact I|]. intros Hc. change (esc_text (c :: r)) with (cce_lookup pp_cce_text c ++ esc_text r).
  pose proof (esc_head_not_lf c Hc) as H. destruct (cce_lookup pp_cce_text c); [destruct H|exact H].
Qed.

Lemma lstrip_app_ne x y : lstrip x <> [] -> lstrip (x ++ y) = lstrip x ++ y.
Proof.
  induction x as [|c r IH]; [cbn; congruence|]. cbn [app lstrip]. destruct (is_ws c); [exact IH|reflexivity].
Qed.
Lemma rstrip_cons_nows c y : head_nows y -> rstrip (c :: y) = c :: rstrip y /\ rstrip y <> [].
Proof.
  intros Hh. destruct (head_nows_rstrip y Hh) as [Hne _]. split; [|exact Hne].
  unfold rstrip in *. cbn [rev]. rewrite lstrip_app_ne.
  - rewrite rev_app_distr. reflexivity.
  - intros E. apply Hne. rewrite E. reflexivity.
Qed.
Lemma ends_lf_cons c (r : str) : r <> [] -> ends_lf (c :: r) = ends_lf r.
Proof.
  intros Hr. destruct (exists_last Hr) as (r0 & x & ->). change (c :: r0 ++ [x]) with ((c :: r0) ++ [x]). rewrite !ends_lf_snoc. reflexivity.
Qed.
Lemma lstrip_lf_not_ends d : d <> [] -> ends_lf d = false -> py_lstrip_char d 10%N <> [] /\ ends_lf (py_lstrip_char d 10%N) = false.
Proof.
  induction d as [|c r IH]; intros Hn Hl; [congruence|]. cbn [py_lstrip_char]. destruct (N.eqb_spec c 10) as [->|Hc]; [|split; [discriminate|exact Hl]].
  destruct r as [|c2 r2]; [exfalso; revert Hl; vm_compute; discriminate|]. rewrite ends_lf_cons in Hl by discriminate.
  apply IH; [discriminate|exact Hl].
Qed.
(* writing something that does not end in a newline leaves a positive offset *)
Lemma emit_pos st d : (0 <= w_off st)%Z -> d <> [] -> ends_lf d = false -> (0 < w_off (snd (emit st d)))%Z.
Proof.
  intros Ho Hn Hl. unfold emit. destruct (writer_shape (w_pres st) (w_off st) d) as (d' & Hd & H).
  assert (Hd' : d' <> [] /\ ends_lf d' = false) by (destruct Hd as [->|(_ & _ & ->)]; [split; assumption|apply lstrip_lf_not_ends; assumption]).
  destruct Hd' as [Hn' Hl']. destruct H as [[E _]|(_ & Ef & [[El _]|[_ Es]])]; [congruence|unfold ends_lf in Hl'; congruence|].
  destruct (writer_call (w_pres st) (w_off st) d) as [x o']. cbn [fst snd w_off] in *.
  rewrite Es. destruct (py_rfind1 d' 10%N (py_len d') =? -1)%Z eqn:Er.
  - unfold py_len. destruct d'; [congruence|cbn [length]; lia].
  - apply Z.eqb_neq in Er. pose proof (py_rfind1_bounds d' 10%N (py_len d') Er) as [Hb Hnth].
    pose proof (ends_lf_false_last d' Hn' Hl') as Hlast. unfold py_len in *.
    assert (Z.to_nat (py_rfind1 d' 10%N (Z.of_nat (length d'))) <> length d' - 1)%nat by (intros E; rewrite E in Hnth; exact (Hlast Hnth)).
    lia.
Qed.

Lemma skipn_app_len {A} (a b : list A) n : skipn (length a + n) (a ++ b) = skipn n b.
Proof. induction a as [|x r IH]; [reflexivity|]. cbn [length Nat.add app skipn]. exact IH. Qed.

Section TextStep.
  Variable ind : str.
  Variable width : Z.
  Variable req : rpath -> Z -> option Z.
  Hypothesis ind_ws : ws_indent ind = true.
  Hypothesis width_pos : (1 <= width)%Z.

  Definition owed (L : nat) (st : wst) : Prop := w_off st <> 0%Z /\ available ind width L st = 0%Z.

  (* one write of  pre ++ k ++ sfx  (whitespace, a text in normal form, whitespace) *)
  Lemma emit_one st pre k sfx : core k -> ws_indent pre = true -> ws_indent sfx = true -> (0 <= w_off st)%Z ->
    exists pre', (pre' = pre \/ (w_off st = 0%Z /\ pre' = py_lstrip_char pre 10%N)) /\
    sees (fst (emit_raw st (esc_text (pre ++ k ++ sfx)))) (pre' ++ k ++ sfx) /\
    collapse (pre' ++ k ++ sfx) = optsp (negb (null pre')) ++ k ++ optsp (negb (null sfx)) /\
    (0 <= w_off (snd (emit_raw st (esc_text (pre ++ k ++ sfx)))))%Z /\
    (w_off (snd (emit_raw st (esc_text (pre ++ k ++ sfx)))) = 0%Z -> null sfx = false).
  Proof.
    intros Hk Hp Hs Ho. pose proof Hk as (Hkh & Hkl & _).
    assert (Hkn : k <> []) by (destruct k; [cbn in Hkh; tauto|discriminate]).
    assert (Hkhead : match k ++ sfx with c :: _ => c <> LF | [] => True end).
    { destruct k as [|c r]; [congruence|]. cbn [app]. cbn in Hkh. intros ->. revert Hkh. vm_compute. discriminate. }
    destruct (emit_esc st (pre ++ k ++ sfx)) as (X' & E & Hsee & HX & _).
    assert (EX : exists pre', (pre' = pre \/ (w_off st = 0%Z /\ pre' = py_lstrip_char pre 10%N)) /\ X' = pre' ++ k ++ sfx).
    { destruct HX as [->|[H0 ->]]; [exists pre; auto|]. exists (py_lstrip_char pre 10%N). split; [auto|].
      apply lstrip_lf_app_head; [destruct k; [congruence|discriminate]|exact Hkhead]. }
    destruct EX as (pre' & Hpre' & ->). exists pre'. split; [exact Hpre'|].
    assert (Hp' : ws_indent pre' = true) by (destruct Hpre' as [->|[_ ->]]; [exact Hp|apply lstrip_char_ws; exact Hp]).
    rewrite E. split; [exact Hsee|]. split.
    - apply collapse_pad; [apply all_ws_ws_indent; exact Hp'|apply all_ws_ws_indent; exact Hs|exact Hk].
    - rewrite emit_raw_snd. split; [apply emit_nonneg; exact Ho|].
      intros Hz. destruct sfx as [|c r]; [|reflexivity]. exfalso. rewrite app_nil_r in Hz.
      assert (Hne : pre ++ k <> []) by (destruct pre; [exact Hkn|discriminate]).
      assert (Hl : last_nows (esc_text (pre ++ k))) by (apply esc_text_last_nows; [exact Hne|apply last_nows_app; exact Hkl]).
      pose proof (emit_pos st (esc_text (pre ++ k)) Ho ltac:(intros E0; apply esc_text_nil in E0; exact (Hne E0)) (last_nows_not_lf _ Hl)) as Hpos.
      lia.
  Qed.

  (* ---- writing lines: the data read back, up to what collapse can see ------------------------------------- *)

  (* the rendering of a list of (unescaped) lines without any stripping *)
  Fixpoint WR (i : str) (us : list str) : str :=
    match us with
    | [] => []
    | [u] => if null u then [] else i ++ u
    | u :: r => (if null u then NL else i ++ u ++ NL) ++ WR i r
    end.
  Lemma WR_cons i u r : r <> [] -> WR i (u :: r) = (if null u then NL else i ++ u ++ NL) ++ WR i r.
  Proof. destruct r; [congruence|reflexivity]. Qed.

  Definition head_ok (u : str) : Prop := match u with c :: _ => c <> LF | [] => True end.

  Lemma null_esc u : null (esc_text u) = null u.
  Proof.
    destruct u as [|c r]; [reflexivity|]. change (esc_text (c :: r)) with (cce_lookup pp_cce_text c ++ esc_text r).
    destruct (esc_char_cases c) as [[_ E]|[_ (d & x & E & _)]]; rewrite E; reflexivity.
  Qed.

  (* the rendering with the indentation of the first line as it was written (its leading newlines are dropped when
     the line is written at offset 0) *)
  Definition WR1 (i0 i : str) (us : list str) : str :=
    match us with
    | [] => []
    | [u] => if null u then [] else i0 ++ u
    | u :: r => (if null u then NL else i0 ++ u ++ NL) ++ WR i r
    end.
  Lemma WR1_cons i0 i u r : r <> [] -> WR1 i0 i (u :: r) = (if null u then NL else i0 ++ u ++ NL) ++ WR i r.
  Proof. destruct r; [congruence|reflexivity]. Qed.
  Lemma WR1_same i us : WR1 i i us = WR i us.
  Proof. destruct us as [|u [|u2 r]]; reflexivity. Qed.

  Lemma WR1_true (i0 i : str) us Y : i0 = i \/ i0 = py_lstrip_char i 10%N ->
    collapse_aux true (WR1 i0 i us ++ Y) = collapse_aux true (WR i us ++ Y) /\ endws true (WR1 i0 i us) = endws true (WR i us).
  Proof.
    intros [->| ->]; [rewrite WR1_same; split; reflexivity|].
    destruct us as [|u [|u2 r]]; [split; reflexivity| |].
    - cbn [WR1 WR]. destruct (null u); [split; reflexivity|]. rewrite <- !app_assoc. split; [apply lstrip_lf_collapse|].
      rewrite !endws_app, lstrip_lf_endws. reflexivity.
    - rewrite (WR1_cons _ i u (u2 :: r)) by discriminate. rewrite (WR_cons i u (u2 :: r)) by discriminate.
      destruct (null u); [split; reflexivity|]. rewrite <- !app_assoc. split; [apply lstrip_lf_collapse|].
      rewrite !(endws_app true), lstrip_lf_endws. reflexivity.
  Qed.

  Lemma line_strip L (u x : str) : head_ok u -> u <> [] ->
    py_lstrip_char (indent ind L ++ u ++ x) 10%N = py_lstrip_char (indent ind L) 10%N ++ u ++ x.
  Proof.
    intros Hu Hn. apply lstrip_lf_app_head; [destruct u; [congruence|discriminate]|]. destruct u as [|c r]; [congruence|exact Hu].
  Qed.

  Lemma write_lines_calc L us : Forall head_ok us -> forall st, (0 <= w_off st)%Z ->
    exists D i0, (i0 = indent ind L \/ (w_off st = 0%Z /\ i0 = py_lstrip_char (indent ind L) 10%N)) /\
      sees (fst (write_lines ind L st (map esc_text us))) D /\
      (forall b Y, (w_off st = 0%Z -> null (hd [SP] us) = true -> b = true) ->
         collapse_aux b (D ++ Y) = collapse_aux b (WR1 i0 (indent ind L) us ++ Y) /\
         endws b D = endws b (WR1 i0 (indent ind L) us)) /\
      (0 <= w_off (snd (write_lines ind L st (map esc_text us))))%Z.
  Proof.
    induction 1 as [|u r Hu Hr IH]; intros st Ho.
    - exists [], (indent ind L). cbn [map write_lines fst snd WR1]. split; [left; reflexivity|]. split; [apply sees_nil|].
      split; [intros b Y _; split; reflexivity|exact Ho].
    - destruct r as [|u2 r'].
      + (* the last line *)
        cbn [map write_lines WR1]. rewrite null_esc. destruct (null u) eqn:En.
        * exists [], (indent ind L). cbn [fst snd]. split; [left; reflexivity|]. split; [apply sees_nil|].
          split; [intros b Y _; split; reflexivity|exact Ho].
        * assert (Hun : u <> []) by (destruct u; [discriminate|discriminate]).
          replace (indent ind L ++ esc_text u) with (esc_text (indent ind L ++ u))
            by (rewrite esc_text_app, (esc_ws_indent _ (ws_indent_indent ind ind_ws L)); reflexivity).
          destruct (emit_esc st (indent ind L ++ u)) as (X' & E & Hs & HX & _).
          assert (EX : exists i0, (i0 = indent ind L \/ (w_off st = 0%Z /\ i0 = py_lstrip_char (indent ind L) 10%N)) /\ X' = i0 ++ u).
          { destruct HX as [->|[H0 ->]]; [exists (indent ind L); auto|]. exists (py_lstrip_char (indent ind L) 10%N). split; [auto|].
            pose proof (line_strip L u [] Hu Hun) as H. rewrite !app_nil_r in H. exact H. }
          destruct EX as (i0 & Hi0 & ->). exists (i0 ++ u), i0. rewrite E. split; [exact Hi0|]. split; [exact Hs|].
          split; [intros b Y _; split; reflexivity|].
          rewrite emit_raw_snd. apply emit_nonneg. exact Ho.
      + (* a line followed by more *)
        change (map esc_text (u :: u2 :: r')) with (esc_text u :: map esc_text (u2 :: r')).
        rewrite (write_lines_cons ind L st (esc_text u) (map esc_text (u2 :: r'))) by discriminate.
        rewrite null_esc.
        destruct (null u) eqn:En.
        * (* an empty line: a bare newline, dropped at the start of a line *)
          change (emit_raw st NL) with (emit_raw st (esc_text NL)).
          destruct (emit_esc st NL) as (X' & E & Hs & HX & Hsame).
          pose proof (emit_raw_nonneg st (esc_text NL) Ho) as Hn1.
          destruct (emit_raw st (esc_text NL)) as [c0 st1]. cbn [fst snd] in *. subst c0.
          destruct (IH st1 Hn1) as (D & i1 & Hi1 & HsD & Hc & Hn2).
          destruct (write_lines ind L st1 (map esc_text (u2 :: r'))) as [cs st2]. cbn [fst snd] in *.
          exists (X' ++ D), (indent ind L). split; [left; reflexivity|]. split; [apply sees_app; assumption|]. split; [|exact Hn2].
          intros b Y Hb. rewrite (WR1_cons (indent ind L) (indent ind L) u (u2 :: r')) by discriminate. rewrite En.
          assert (Hi1' : i1 = indent ind L \/ i1 = py_lstrip_char (indent ind L) 10%N) by (destruct Hi1 as [->|[_ ->]]; auto).
          destruct HX as [->|[H0 ->]].
          -- rewrite <- !app_assoc. rewrite !(collapse_aux_app NL), !(endws_app _ NL).
             replace (endws b NL) with true by (unfold endws; reflexivity).
             destruct (Hc true Y (fun _ _ => eq_refl)) as [E1 E2].
             destruct (WR1_true i1 (indent ind L) (u2 :: r') Y Hi1') as [E3 E4].
             split; [f_equal; rewrite E1; exact E3|rewrite E2; exact E4].
          -- assert (Estrip : py_lstrip_char NL 10%N = []) by reflexivity. rewrite Estrip in *.
             specialize (Hsame eq_refl). subst st1.
             specialize (Hb H0 En). subst b. destruct (Hc true Y (fun _ _ => eq_refl)) as [E1 E2].
             destruct (WR1_true i1 (indent ind L) (u2 :: r') Y Hi1') as [E3 E4].
             change ([] ++ D) with D. rewrite <- (app_assoc NL). rewrite (collapse_aux_app NL), (endws_app _ NL).
             replace (collapse_aux true NL) with (@nil char) by reflexivity.
             replace (endws true NL) with true by reflexivity. cbn [app]. split; [rewrite E1; exact E3|rewrite E2; exact E4].
        * assert (Hun : u <> []) by (destruct u; [discriminate|discriminate]).
          replace (indent ind L ++ esc_text u ++ NL) with (esc_text (indent ind L ++ u ++ NL))
            by (rewrite !esc_text_app, (esc_ws_indent _ (ws_indent_indent ind ind_ws L)); reflexivity).
          destruct (emit_esc st (indent ind L ++ u ++ NL)) as (X' & E & Hs & HX & _).
          assert (EX : exists i0, (i0 = indent ind L \/ (w_off st = 0%Z /\ i0 = py_lstrip_char (indent ind L) 10%N)) /\ X' = i0 ++ u ++ NL).
          { destruct HX as [->|[H0 ->]]; [exists (indent ind L); auto|]. exists (py_lstrip_char (indent ind L) 10%N). split; [auto|].
            exact (line_strip L u NL Hu Hun). }
          destruct EX as (i0 & Hi0 & ->).
          pose proof (emit_raw_nonneg st (esc_text (indent ind L ++ u ++ NL)) Ho) as Hn1.
          destruct (emit_raw st (esc_text (indent ind L ++ u ++ NL))) as [c0 st1]. cbn [fst snd] in *. subst c0.
          destruct (IH st1 Hn1) as (D & i1 & Hi1 & HsD & Hc & Hn2).
          destruct (write_lines ind L st1 (map esc_text (u2 :: r'))) as [cs st2]. cbn [fst snd] in *.
          exists ((i0 ++ u ++ NL) ++ D), i0. split; [exact Hi0|]. split; [apply sees_app; assumption|]. split; [|exact Hn2].
          intros b Y _. rewrite (WR1_cons i0 (indent ind L) u (u2 :: r')) by discriminate. rewrite En.
          assert (Hi1' : i1 = indent ind L \/ i1 = py_lstrip_char (indent ind L) 10%N) by (destruct Hi1 as [->|[_ ->]]; auto).
          rewrite <- !(app_assoc (i0 ++ u ++ NL)).
          rewrite !(collapse_aux_app (i0 ++ u ++ NL)), !(endws_app _ (i0 ++ u ++ NL)).
          assert (Ee : endws b (i0 ++ u ++ NL) = true).
          { rewrite !endws_app. unfold endws at 1. reflexivity. }
          rewrite Ee. destruct (Hc true Y (fun _ _ => eq_refl)) as [E1 E2].
          destruct (WR1_true i1 (indent ind L) (u2 :: r') Y Hi1') as [E3 E4].
          split; [f_equal; rewrite E1; exact E3|rewrite E2; exact E4].
  Qed.

  Lemma WR_nonempty i us : Forall (fun u : str => u <> []) us -> us <> [] ->
    WR i us = i ++ py_join (NL ++ i) us /\ WR i (us ++ [[]]) = i ++ py_join (NL ++ i) us ++ NL.
  Proof.
    induction 1 as [|u r Hu Hr IH]; intros Hn; [congruence|]. destruct r as [|u2 r'].
    - cbn [WR app py_join]. replace (null u) with false by (destruct u; [congruence|reflexivity]).
      split; [reflexivity|]. cbn [null]. rewrite app_nil_r. reflexivity.
    - destruct (IH ltac:(discriminate)) as [E1 E2].
      change ((u :: u2 :: r') ++ [[]]) with (u :: (u2 :: r') ++ [[]]).
      rewrite (WR_cons i u (u2 :: r')) by discriminate. rewrite (WR_cons i u ((u2 :: r') ++ [[]])) by discriminate.
      replace (null u) with false by (destruct u; [congruence|reflexivity]). rewrite E1, E2.
      rewrite join_cons2. rewrite <- !app_assoc. split; reflexivity.
  Qed.

  Lemma WR1_nonempty i0 i us : Forall (fun u : str => u <> []) us -> us <> [] ->
    WR1 i0 i us = i0 ++ py_join (NL ++ i) us /\ WR1 i0 i (us ++ [[]]) = i0 ++ py_join (NL ++ i) us ++ NL.
  Proof.
    intros HF Hn. destruct us as [|u r]; [congruence|]. inversion HF as [|? ? Hu Hr]; subst.
    assert (Enu : null u = false) by (destruct u; [congruence|reflexivity]).
    destruct r as [|u2 r'].
    - cbn [WR1 WR app py_join null]. rewrite Enu. rewrite app_nil_r. split; reflexivity.
    - change ((u :: u2 :: r') ++ [[]]) with (u :: (u2 :: r') ++ [[]]).
      rewrite (WR1_cons i0 i u (u2 :: r')) by discriminate. rewrite (WR1_cons i0 i u ((u2 :: r') ++ [[]])) by discriminate.
      rewrite Enu. destruct (WR_nonempty i (u2 :: r') Hr ltac:(discriminate)) as [E1 E2]. rewrite E1, E2.
      rewrite join_cons2. rewrite <- !app_assoc. split; reflexivity.
  Qed.


  (* the state before the last line of a list of lines is written *)
  Lemma write_lines_last L ini u : u <> [] -> Forall head_ok ini -> forall st,
    exists stb, snd (write_lines ind L st (map esc_text (ini ++ [u]))) = snd (emit stb (indent ind L ++ esc_text u)) /\
      ((0 <= w_off st)%Z -> (0 <= w_off stb)%Z) /\ (ini = [] -> stb = st) /\ (ini <> [] -> w_off stb = 0%Z).
  Proof.
    intros Hu. induction 1 as [|x r Hx Hr IH]; intros st.
    - exists st. cbn [app map write_lines]. rewrite null_esc. replace (null u) with false by (destruct u; [congruence|reflexivity]).
      rewrite emit_raw_snd. repeat split; auto. congruence.
    - change (map esc_text ((x :: r) ++ [u])) with (esc_text x :: map esc_text (r ++ [u])).
      rewrite (write_lines_cons ind L st (esc_text x) (map esc_text (r ++ [u]))) by (destruct r; discriminate).
      rewrite null_esc.
      assert (H1 : w_off (snd (if null x then emit_raw st NL else emit_raw st (indent ind L ++ esc_text x ++ NL))) = 0%Z).
      { destruct (null x) eqn:En; rewrite emit_raw_snd; [apply emit_NL_off|].
        assert (Hxn : x <> []) by (destruct x; [discriminate|discriminate]).
        apply emit_off_line_lf; [intros E0; apply esc_text_nil in E0; exact (Hxn E0)|apply esc_head_ok; exact Hx]. }
      destruct (if null x then emit_raw st NL else emit_raw st (indent ind L ++ esc_text x ++ NL)) as [c0 st1]. cbn [snd] in H1.
      destruct (IH st1) as (stb & E & Hn & He & Hne).
      destruct (write_lines ind L st1 (map esc_text (r ++ [u]))) as [cs st2]. cbn [snd] in *.
      exists stb. split; [exact E|]. split; [|split; [discriminate|]].
      + intros _. destruct r as [|y r']; [rewrite (He eq_refl); lia|rewrite (Hne ltac:(discriminate)); lia].
      + intros _. destruct r as [|y r']; [rewrite (He eq_refl); exact H1|apply Hne; discriminate].
  Qed.

  (* ---- _consolidate_text_lines on the line lists that occur ------------------------------------------------ *)

  Definition upd (us : list str) (T : bool) : list str :=
    if T then removelast us ++ [rstrip (last us [])] else us.

  Definition c3 (lines : list str) : list str :=
    if (Nat.leb 2 (length lines) && null (last lines [SP]))%bool then
      match rev lines with
      | e :: l2 :: more => rev more ++ [rstrip l2; e]
      | _ => lines
      end
    else lines.
  Lemma c3_T (A : list str) (x : str) : c3 (A ++ [x; []]) = A ++ [rstrip x; []].
  Proof.
    unfold c3. replace (Nat.leb 2 (length (A ++ [x; []]))) with true by (rewrite app_length; cbn [length]; symmetry; apply Nat.leb_le; lia).
    replace (last (A ++ [x; []]) [SP]) with (@nil char) by (change [x; []] with ([x] ++ [[]]); rewrite app_assoc; symmetry; apply last_last).
    cbn [null andb]. rewrite rev_app_distr. cbn [rev app]. rewrite rev_involutive. reflexivity.
  Qed.
  Lemma c3_F (A : list str) (x : str) : x <> [] -> c3 (A ++ [x]) = A ++ [x].
  Proof.
    intros Hx. unfold c3. rewrite last_last. replace (null x) with false by (destruct x; [congruence|reflexivity]).
    rewrite andb_false_r. reflexivity.
  Qed.
  Lemma consolidate_unfold L st is_last la lines :
    consolidate L st is_last la lines =
    c3 (let l1 := if (null (hd [SP] lines) && is_last && la)%bool then lines ++ [[]] else lines in
        if ((w_off st =? 0)%Z && null (hd [SP] l1))%bool then tl l1 else l1).
  Proof. reflexivity. Qed.

  Lemma c3_T1 (A : list str) (x : str) : c3 ((A ++ [x]) ++ [[]]) = A ++ [rstrip x] ++ [[]].
  Proof. rewrite <- app_assoc. exact (c3_T A x). Qed.
  Lemma c3_T2 (h : str) (A : list str) (x : str) : c3 (h :: (A ++ [x]) ++ [[]]) = h :: A ++ [rstrip x] ++ [[]].
  Proof. rewrite <- app_assoc. exact (c3_T (h :: A) x). Qed.
  Lemma c3_F2 (h : str) (A : list str) (x : str) : x <> [] -> c3 (h :: A ++ [x]) = h :: A ++ [x].
  Proof. exact (c3_F (h :: A) x). Qed.

  Lemma consolidate_form L st is_last la (X : bool) us : us <> [] -> last us [] <> [] -> (X = true -> is_last = false) ->
    consolidate L st is_last la (([] :: map esc_text us) ++ (if X then [[]] else []))
    = (if (w_off st =? 0)%Z then [] else [[]]) ++ map esc_text (upd us (X || (is_last && la)))
      ++ (if (X || (is_last && la))%bool then [[]] else []).
  Proof.
    intros Hne Hlast HX. destruct (exists_last Hne) as (ini & un & ->). rewrite last_last in Hlast.
    rewrite consolidate_unfold. unfold upd. rewrite removelast_last, last_last, map_app. cbn [map].
    assert (Hun : esc_text un <> []) by (intros E; apply esc_text_nil in E; congruence).
    destruct X.
    - rewrite (HX eq_refl). cbn [andb orb app hd null]. rewrite ?andb_false_r. cbn zeta.
      destruct (w_off st =? 0)%Z; cbn [andb hd null tl app].
      + rewrite c3_T1, rstrip_esc, map_app. cbn [map]. rewrite <- app_assoc. reflexivity.
      + rewrite c3_T2, rstrip_esc, map_app. cbn [map]. rewrite <- app_assoc. reflexivity.
    - cbn [orb app hd null andb]. rewrite app_nil_r. destruct (is_last && la)%bool; cbn zeta.
      + destruct (w_off st =? 0)%Z; cbn [andb hd null tl app].
        * rewrite c3_T1, rstrip_esc, map_app. cbn [map]. rewrite <- app_assoc. reflexivity.
        * rewrite c3_T2, rstrip_esc, map_app. cbn [map]. rewrite <- app_assoc. reflexivity.
      + destruct (w_off st =? 0)%Z; cbn [andb hd null tl app].
        * rewrite c3_F by exact Hun. rewrite app_nil_r, map_app. reflexivity.
        * rewrite c3_F2 by exact Hun. rewrite app_nil_r, map_app. reflexivity.
  Qed.

  (* ---- the common end of _serialize_text_over_lines, from a line that is already partly filled ------------- *)
  Definition finish_e (L : nat) (is_last la : bool) (next_sib : option rpath) (pre : list chunk) (st : wst) (lines : list str)
    : list chunk * wst :=
    let lines := if (py_endswith (last lines []) [SP] && la
                     && match next_sib with Some f => req_falsy req f (width - elen (last lines [])) | None => false end)%bool
                 then lines ++ [[]] else lines in
    let lines := consolidate L st is_last la lines in
    let '(cs, st') := write_lines ind L st lines in (pre ++ cs, st').

  Lemma tol_unfold L st rp content lb la is_last next_sib :
    text_over_lines ind width req L st rp content lb la is_last next_sib =
    if (w_off st =? 0)%Z then finish_e L is_last la next_sib [] st ((if lb then [[]] else []) ++ wrap_lines (lstrip content) width)
    else
      let filling := if py_startswith content [SP]
                     then [SP] ++ hd [] (wrap_lines (py_slice_from content 1) (available ind width L st - 1))
                     else hd [] (wrap_lines content (available ind width L st)) in
      if ((elen filling >? available ind width L st)%Z && lb)%bool then finish_e L is_last la next_sib [] st ([[]] ++ wrap_lines content width)
      else let '(c, st1) := emit_raw st filling in
           if null (py_slice_from content (elen filling + 1)) then (c, st1)
           else finish_e L is_last la next_sib c st1 ([[]] ++ wrap_lines (py_slice_from content (elen filling + 1)) width).
  Proof. reflexivity. Qed.

  Lemma finish_nz L is_last la next_sib pre st us i0 :
    (0 < w_off st)%Z -> (is_last = true -> la = true) -> (next_sib <> None -> is_last = false) ->
    us <> [] -> last us [] <> [] -> ~ In LF (last us []) -> head_ok (last us []) -> Forall head_ok (removelast us) -> all_ws i0 ->
    (forall T, Forall head_ok (upd us T) /\
               WR (indent ind L) (upd us T) = i0 ++ py_join (NL ++ indent ind L) (upd us T) /\
               WR (indent ind L) (upd us T ++ [[]]) = i0 ++ py_join (NL ++ indent ind L) (upd us T) ++ NL /\
               exists w, all_ws w /\ py_join (NL ++ indent ind L) us = py_join (NL ++ indent ind L) (upd us T) ++ w) ->
    exists cs2 D (T : bool), fst (finish_e L is_last la next_sib pre st ([[]] ++ map esc_text us)) = pre ++ cs2 /\ sees cs2 D /\
      (forall b Y, collapse_aux b (D ++ Y)
                   = collapse_aux b (NL ++ i0 ++ py_join (NL ++ indent ind L) us ++ (if T then NL else []) ++ Y)) /\
      (T = true -> la = true) /\
      (0 <= w_off (snd (finish_e L is_last la next_sib pre st ([[]] ++ map esc_text us))))%Z /\
      (T = false -> w_off (snd (finish_e L is_last la next_sib pre st ([[]] ++ map esc_text us)))
                    = (ilen ind L + elen (esc_text (last us [])))%Z).
  Proof.
    intros Ho Hla Hns Hne Hlast Hnolf Hhl Hhr Hi0 Hpipe. unfold finish_e. cbn [app].
    match goal with |- context [consolidate L st _ _ (if ?c then _ else _)] => set (X := c) end.
    assert (HX : X = true -> is_last = false).
    { unfold X. intros H. apply andb_prop in H as [_ H]. apply Hns. destruct next_sib; [discriminate|discriminate]. }
    assert (HXla : X = true -> la = true) by (unfold X; intros H; apply andb_prop in H as [H _]; apply andb_prop in H as [_ H]; exact H).
    match goal with |- context [consolidate L st _ _ ?ll] =>
      replace ll with (([] :: map esc_text us) ++ (if X then [[]] else []))
        by (destruct X; [reflexivity|cbn [app]; rewrite app_nil_r; reflexivity]) end.
    rewrite (consolidate_form L st is_last la X us Hne Hlast HX).
    replace (w_off st =? 0)%Z with false by (symmetry; apply Z.eqb_neq; lia).
    set (T := (X || (is_last && la))%bool).
    assert (HTla : T = true -> la = true).
    { unfold T. intros H. apply orb_prop in H as [H|H]; [exact (HXla H)|apply andb_prop in H as [_ H]; exact H]. }
    destruct (Hpipe T) as (Hok & EW1 & EW2 & w & Hw & Ej).
    replace ([[]] ++ map esc_text (upd us T) ++ (if T then [[]] else [])) with (map esc_text ([] :: upd us T ++ (if T then [[]] else [])))
      by (cbn [map app]; rewrite map_app; destruct T; reflexivity).
    assert (Hok2 : Forall head_ok ([] :: upd us T ++ (if T then [[]] else []))).
    { constructor; [exact I|]. apply Forall_app. split; [exact Hok|]. destruct T; [constructor; [exact I|constructor]|constructor]. }
    destruct (write_lines_calc L _ Hok2 st ltac:(lia)) as (D & i0w & _ & HsD & HcD & HnD).
    exists (fst (write_lines ind L st (map esc_text ([] :: upd us T ++ (if T then [[]] else []))))), D, T.
    destruct (write_lines ind L st (map esc_text ([] :: upd us T ++ (if T then [[]] else [])))) as [cs st'] eqn:Ewl. cbn [fst snd] in *.
    split; [reflexivity|]. split; [exact HsD|]. split; [|split; [exact HTla|split; [exact HnD|]]].
    - intros b Y. destruct (HcD b Y ltac:(intros H; lia)) as [E _]. rewrite E.
      assert (Hune : upd us T ++ (if T then [[]] else []) <> []).
      { unfold upd. destruct T; [intros E0; apply app_eq_nil in E0 as [_ E0]; discriminate|rewrite app_nil_r; exact Hne]. }
      match goal with |- context [WR1 i0w (indent ind L) (?h :: ?XX)] =>
        replace (WR1 i0w (indent ind L) (h :: XX)) with (NL ++ WR (indent ind L) XX) by (symmetry; exact (WR1_cons i0w (indent ind L) [] XX Hune)) end.
      rewrite <- !app_assoc. rewrite !(collapse_aux_app NL). f_equal.
      destruct T.
      + rewrite EW2, <- !app_assoc. rewrite !(collapse_aux_app i0). f_equal. rewrite Ej, <- !app_assoc.
        rewrite !(collapse_aux_app (py_join (NL ++ indent ind L) (upd us true))). f_equal.
        destruct (ws_block w NL Hw all_ws_NL ltac:(discriminate)
                    (endws (endws (endws b NL) i0) (py_join (NL ++ indent ind L) (upd us true))) Y) as [Hb _].
        symmetry. exact Hb.
      + rewrite app_nil_r, EW1. change (upd us false) with us. rewrite <- !app_assoc. reflexivity.
    - intros ET. rewrite ET in Ewl. change (upd us false ++ []) with (us ++ []) in Ewl. rewrite app_nil_r in Ewl.
      destruct (exists_last Hne) as (ini & un & Eus). rewrite Eus, last_last in *. rewrite removelast_last in Hhr.
      assert (Hun : un <> []) by exact Hlast.
      destruct (write_lines_last L ([] :: ini) un Hun ltac:(constructor; [exact I|exact Hhr]) st) as (stb & Estb & _ & _ & Hb1).
      assert (E3 : snd (write_lines ind L st (map esc_text ([] :: ini ++ [un]))) = snd (emit stb (indent ind L ++ esc_text un))) by exact Estb.
      rewrite Ewl in E3. cbn [snd] in E3. rewrite E3.
      rewrite (emit_off_line stb (indent ind L) (esc_text un) (Hb1 ltac:(discriminate))
                 ltac:(intros E; apply esc_text_nil in E; congruence) (esc_head_ok un Hhl) (esc_no_lf un Hnolf)).
      reflexivity.
  Qed.

  (* the facts finish_nz needs, for the line lists that occur: a first line that is empty, or begins with the text's
     leading space, or is an ordinary segment; then ordinary segments *)
  Lemma upd_cons (x0 : str) (us' : list str) T : us' <> [] -> upd (x0 :: us') T = x0 :: upd us' T.
  Proof.
    intros Hn. unfold upd. destruct T; [|reflexivity]. destruct us' as [|u r]; [congruence|].
    change (removelast (x0 :: u :: r)) with (x0 :: removelast (u :: r)). reflexivity.
  Qed.

  Lemma head_nows_all_ok l : Forall head_nows l -> Forall head_ok l /\ Forall (fun u : str => u <> []) l.
  Proof.
    induction 1 as [|u r Hu _ [IH1 IH2]]; [split; constructor|]. destruct (head_nows_ok u Hu) as [H1 H2].
    split; constructor; assumption.
  Qed.

  Lemma upd_ok_gen L us T : Forall head_nows us -> us <> [] ->
    Forall head_ok (upd us T) /\ Forall (fun u : str => u <> []) (upd us T) /\ upd us T <> [] /\
    exists w, all_ws w /\ py_join (NL ++ indent ind L) us = py_join (NL ++ indent ind L) (upd us T) ++ w.
  Proof.
    intros HF Hne. unfold upd. destruct T.
    - destruct (exists_last Hne) as (ini & un & ->). rewrite removelast_last, last_last.
      apply Forall_app in HF as [Hi Hu]. inversion Hu as [|? ? Hun _]; subst.
      destruct (head_nows_rstrip un Hun) as [Hr1 Hr2]. destruct (rstrip_split un) as (w & Hw & Eun & _).
      assert (HF2 : Forall head_nows (ini ++ [rstrip un])) by (apply Forall_app; split; [exact Hi|constructor; [exact Hr2|constructor]]).
      destruct (head_nows_all_ok _ HF2) as [A1 A2]. split; [exact A1|]. split; [exact A2|]. split; [destruct ini; discriminate|].
      exists w. split; [exact Hw|]. rewrite Eun at 1. apply join_snoc.
    - destruct (head_nows_all_ok _ HF) as [A1 A2]. split; [exact A1|]. split; [exact A2|]. split; [exact Hne|].
      exists []. split; [constructor|rewrite app_nil_r; reflexivity].
  Qed.

  Lemma pipe_gen L (x0 : str) (us' : list str) : Forall head_nows us' ->
    ((x0 = [] /\ us' <> []) \/ (x0 <> [] /\ head_ok x0 /\ rstrip x0 <> [] /\ head_ok (rstrip x0))) ->
    forall T, Forall head_ok (upd (x0 :: us') T) /\
      WR (indent ind L) (upd (x0 :: us') T) = (if null x0 then [] else indent ind L) ++ py_join (NL ++ indent ind L) (upd (x0 :: us') T) /\
      WR (indent ind L) (upd (x0 :: us') T ++ [[]])
      = (if null x0 then [] else indent ind L) ++ py_join (NL ++ indent ind L) (upd (x0 :: us') T) ++ NL /\
      exists w, all_ws w /\ py_join (NL ++ indent ind L) (x0 :: us') = py_join (NL ++ indent ind L) (upd (x0 :: us') T) ++ w.
  Proof.
    intros HF Hx T. destruct us' as [|u r].
    - destruct Hx as [[_ H]|(Hx0 & Hok & Hr & Hrok)]; [congruence|].
      replace (null x0) with false by (destruct x0; [congruence|reflexivity]).
      destruct (rstrip_split x0) as (w & Hw & Ex & _).
      unfold upd. destruct T; cbn [removelast last app WR py_join].
      + replace (null (rstrip x0)) with false by (destruct (rstrip x0); [congruence|reflexivity]).
        split; [constructor; [exact Hrok|constructor]|]. split; [reflexivity|]. split; [cbn [null]; rewrite app_nil_r; reflexivity|].
        exists w. split; [exact Hw|exact Ex].
      + replace (null x0) with false by (destruct x0; [congruence|reflexivity]).
        split; [constructor; [exact Hok|constructor]|]. split; [reflexivity|]. split; [cbn [null]; rewrite app_nil_r; reflexivity|].
        exists []. split; [constructor|rewrite app_nil_r; reflexivity].
    - rewrite (upd_cons x0 (u :: r) T) by discriminate.
      destruct (upd_ok_gen L (u :: r) T HF ltac:(discriminate)) as (Hok & Hnn & Hune & w & Hw & Ej).
      destruct (WR_nonempty (indent ind L) (upd (u :: r) T) Hnn Hune) as [EW1 EW2].
      assert (Hx0ok : head_ok x0) by (destruct Hx as [[-> _]|(_ & H & _)]; [exact I|exact H]).
      split; [constructor; assumption|].
      assert (Ejc : forall Y, Y <> [] -> py_join (NL ++ indent ind L) (x0 :: Y) = x0 ++ (NL ++ indent ind L) ++ py_join (NL ++ indent ind L) Y)
        by (intros Y HY; destruct Y; [congruence|reflexivity]).
      split; [|split].
      + rewrite (WR_cons (indent ind L) x0 _ Hune), EW1, (Ejc _ Hune).
        destruct (null x0) eqn:En; [destruct x0; [|discriminate]|]; rewrite <- ?app_assoc; reflexivity.
      + change ((x0 :: upd (u :: r) T) ++ [[]]) with (x0 :: (upd (u :: r) T ++ [[]])).
        rewrite (WR_cons (indent ind L) x0 (upd (u :: r) T ++ [[]])) by (intros E0; apply app_eq_nil in E0 as [_ E0]; discriminate).
        rewrite EW2, (Ejc _ Hune).
        destruct (null x0) eqn:En; [destruct x0; [|discriminate]|]; rewrite <- ?app_assoc; reflexivity.
      + exists w. split; [exact Hw|]. rewrite (Ejc (u :: r) ltac:(discriminate)), (Ejc _ Hune), Ej. rewrite <- !app_assoc. reflexivity.
  Qed.

  Definition tstep_post (L : nat) (st st' : wst) (cs : list chunk) (p : str) (prev next : option node)
             (lead trail : bool) (k : str) : Prop :=
    exists D a b, sees cs D /\ collapse D = optsp a ++ k ++ optsp b /\
      (lead = true -> a = true \/ p <> []) /\
      (prev <> None -> lead = false -> a = false) /\
      (b = true -> legit_after (Text (optsp lead ++ k ++ optsp trail)) next = true) /\
      (trail = true -> b = true \/ owed L st') /\
      (0 <= w_off st')%Z /\ (w_off st' = 0%Z -> b = true).

  Section OneText.
    Variables (L : nat) (st : wst) (p : str) (prev next : option node) (lead trail : bool) (k : str).
    Hypothesis Hk : core k.
    Notation s := (optsp lead ++ k ++ optsp trail).
    Hypothesis Hinv : winv st p prev (Some (Text s)).
    Hypothesis Hprev : prev = None -> lead = false.

    Lemma s_starts : starts_ws s = lead.
    Proof. apply starts_ws_form. exact (proj1 Hk). Qed.
    Lemma s_ends : ends_ws s = trail.
    Proof. apply (ends_ws_form (optsp lead)). exact (proj1 (proj2 Hk)). Qed.
    Lemma la_trail : trail = true -> legit_after (Text s) next = true.
    Proof. intros Ht. destruct next; [|reflexivity]. cbn [legit_after]. rewrite s_ends. exact Ht. Qed.
    Lemma lb_lead : prev <> None -> legit_before prev (Text s) = lead.
    Proof. destruct prev; [|congruence]. intros _. cbn [legit_before]. apply s_starts. Qed.
    Lemma off0_lb : w_off st = 0%Z -> legit_before prev (Text s) = true /\ p <> [].
    Proof. intros H. destruct Hinv as (_ & _ & H1 & H2). specialize (H1 H). split; [exact (H2 H1)|exact H1]. Qed.
    Lemma nolead_off : prev <> None -> lead = false -> w_off st <> 0%Z.
    Proof. intros Hp Hl H0. destruct (off0_lb H0) as [Hlb _]. rewrite (lb_lead Hp) in Hlb. congruence. Qed.

    Definition pre_of : str := if (w_off st =? 0)%Z then indent ind L else optsp lead.
    Lemma pre_of_ws : ws_indent pre_of = true.
    Proof. unfold pre_of. destruct (w_off st =? 0)%Z; [apply ws_indent_indent; exact ind_ws|apply ws_indent_optsp]. Qed.
    (* the text written in one piece, followed by a newline (if that is legal) or by its own trailing space *)
    Lemma one_piece_post sfx : (sfx = NL /\ legit_after (Text s) next = true) \/ sfx = optsp trail ->
      tstep_post L st (snd (emit_raw st (esc_text (pre_of ++ k ++ sfx)))) (fst (emit_raw st (esc_text (pre_of ++ k ++ sfx))))
                 p prev next lead trail k.
    Proof.
      intros Hsfx.
      assert (Hws : ws_indent sfx = true) by (destruct Hsfx as [[-> _]| ->]; [reflexivity|apply ws_indent_optsp]).
      destruct (emit_one st pre_of k sfx Hk pre_of_ws Hws (proj1 Hinv)) as (pre' & Hpre' & Hs & Hc & Hn & Hz).
      assert (Hnz : w_off st <> 0%Z -> pre' = optsp lead).
      { intros H0. destruct Hpre' as [->|[H1 _]]; [|congruence]. unfold pre_of.
        replace (w_off st =? 0)%Z with false by (symmetry; apply Z.eqb_neq; exact H0). reflexivity. }
      exists (pre' ++ k ++ sfx), (negb (null pre')), (negb (null sfx)).
      split; [exact Hs|]. split; [exact Hc|]. split; [|split; [|split; [|split; [|split]]]].
      - intros Hl. destruct (Z.eq_dec (w_off st) 0) as [E0|E0].
        + right. exact (proj2 (off0_lb E0)).
        + left. rewrite (Hnz E0), Hl. reflexivity.
      - intros Hp Hl. pose proof (nolead_off Hp Hl) as H0. rewrite (Hnz H0), Hl. reflexivity.
      - intros Hb. destruct Hsfx as [[_ Hla]| ->]; [exact Hla|]. apply la_trail. destruct trail; [reflexivity|discriminate].
      - intros Ht. left. destruct Hsfx as [[-> _]| ->]; [reflexivity|rewrite Ht; reflexivity].
      - exact Hn.
      - intros H0. rewrite (Hz H0). reflexivity.
    Qed.

    (* the forms of the data *)
    Notation K := (esc_text k).
    Lemma esc_optsp x : esc_text (optsp x) = optsp x. Proof. destruct x; reflexivity. Qed.
    Lemma coreK : core K. Proof. apply esc_core. exact Hk. Qed.
    Lemma e_form : esc_text (collapse s) = optsp lead ++ K ++ optsp trail.
    Proof. rewrite (collapse_nf lead k trail Hk). rewrite !esc_text_app, !esc_optsp. reflexivity. Qed.
    Lemma rstrip_e : rstrip (optsp lead ++ K ++ optsp trail) = optsp lead ++ K.
    Proof. apply rstrip_optsp. exact (proj1 (proj2 coreK)). Qed.
    Lemma lstrip_e : lstrip (optsp lead ++ K ++ optsp trail) = K ++ optsp trail.
    Proof. apply lstrip_optsp. exact (proj1 coreK). Qed.
    Lemma cprime_form :
      (if (w_off st =? 0)%Z then indent ind L ++ lstrip (optsp lead ++ K ++ optsp trail) else optsp lead ++ K ++ optsp trail)
      = pre_of ++ K ++ optsp trail.
    Proof. unfold pre_of. rewrite lstrip_e. destruct (w_off st =? 0)%Z; reflexivity. Qed.
    Lemma rstrip_cprime : rstrip (pre_of ++ K ++ optsp trail) = pre_of ++ K.
    Proof. apply rstrip_optsp. exact (proj1 (proj2 coreK)). Qed.
    Lemma esc_piece sfx : ws_indent sfx = true -> pre_of ++ K ++ sfx = esc_text (pre_of ++ k ++ sfx).
    Proof. intros H. rewrite !esc_text_app. rewrite (esc_ws_indent _ pre_of_ws), (esc_ws_indent _ H). reflexivity. Qed.
    Lemma e_not_sp : str_eqb (optsp lead ++ K ++ optsp trail) [SP] = false.
    Proof. apply core_not_sp. exact coreK. Qed.

    (* ---- _serialize_text_over_lines --------------------------------------------------------------------- *)
    Variable rp : rpath.
    Notation t := (k ++ optsp trail).
    Notation sep := (NL ++ indent ind L).
    Notation is_last := (match next with None => true | Some _ => false end).
    Notation la := (legit_after (Text s) next).
    Notation next_sib := (match next, rp with Some _, i :: pp => Some (S i :: pp) | _, _ => @None rpath end).

    Lemma esc_t : K ++ optsp trail = esc_text t.
    Proof. rewrite esc_text_app, esc_optsp. reflexivity. Qed.

    Lemma all_ws_sep : all_ws sep /\ sep <> [].
    Proof. split; [apply all_ws_app; [apply all_ws_NL|apply all_ws_indent; exact ind_ws]|discriminate]. Qed.

    (* the cut of t into lines, with everything that is needed about it *)
    Lemma lines_of_t : exists us c t0,
      wrap_lines (esc_text t) width = map esc_text us /\ wl (Z.to_nat width) t us c /\ Forall head_nows us /\ us <> [] /\
      t = t0 ++ optsp c /\ (c = true -> trail = true /\ t0 = k) /\ (c = false -> t0 = t) /\
      (forall b, collapse_aux b (py_join sep us) = collapse_aux b t0 /\ endws b (py_join sep us) = endws b t0).
    Proof.
      destruct (text_tail_naw k trail Hk) as (Hn & Hh & Hne).
      destruct (wrap_lines_wl t width width_pos Hne) as (us & c & E & Hw).
      destruct (wl_collapse _ _ _ _ sep Hw (proj1 all_ws_sep) (proj2 all_ws_sep)) as (t0 & Et & Hc).
      exists us, c, t0. unfold wrap_lines. rewrite E. split; [reflexivity|]. split; [exact Hw|].
      split; [exact (wl_segs_ok _ _ _ _ Hw Hn Hh)|]. split; [exact (wl_nonempty _ _ _ _ Hw)|]. split; [exact Et|].
      split; [|split; [|exact Hc]].
      - intros ->. cbn [optsp] in Et. destruct trail; cbn [optsp] in Et.
        + apply app_inj_tail in Et as [Et _]. auto.
        + exfalso. rewrite app_nil_r in Et. pose proof (proj1 (proj2 Hk)) as Hl. rewrite Et in Hl.
          unfold last_nows in Hl. rewrite rev_app_distr in Hl. cbn in Hl. rewrite is_ws_SP in Hl. discriminate.
      - intros ->. cbn [optsp] in Et. rewrite app_nil_r in Et. symmetry. exact Et.
    Qed.

    Lemma upd_ok us T : Forall head_nows us -> us <> [] ->
      Forall head_ok (upd us T) /\ Forall (fun u : str => u <> []) (upd us T) /\ upd us T <> [] /\
      exists w, all_ws w /\ py_join sep us = py_join sep (upd us T) ++ w.
    Proof.
      intros HF Hne. assert (Hall : forall l, Forall head_nows l -> Forall head_ok l /\ Forall (fun u : str => u <> []) l).
      { induction 1 as [|u r Hu _ [IH1 IH2]]; [split; constructor|]. destruct (head_nows_ok u Hu) as [H1 H2].
        split; constructor; assumption. }
      unfold upd. destruct T.
      - destruct (exists_last Hne) as (ini & un & ->). rewrite removelast_last, last_last.
        apply Forall_app in HF as [Hi Hu]. inversion Hu as [|? ? Hun _]; subst.
        destruct (head_nows_rstrip un Hun) as [Hr1 Hr2]. destruct (rstrip_split un) as (w & Hw & Eun & _).
        assert (HF2 : Forall head_nows (ini ++ [rstrip un])) by (apply Forall_app; split; [exact Hi|constructor; [exact Hr2|constructor]]).
        destruct (Hall _ HF2) as [A1 A2]. split; [exact A1|]. split; [exact A2|]. split; [destruct ini; discriminate|].
        exists w. split; [exact Hw|]. rewrite Eun at 1. apply join_snoc.
      - destruct (Hall _ HF) as [A1 A2]. split; [exact A1|]. split; [exact A2|]. split; [exact Hne|].
        exists []. split; [constructor|rewrite app_nil_r; reflexivity].
    Qed.

    Lemma tol_off0 : w_off st = 0%Z ->
      tstep_post L st
        (snd (text_over_lines ind width req L st rp (optsp lead ++ K ++ optsp trail) (legit_before prev (Text s)) la is_last next_sib))
        (fst (text_over_lines ind width req L st rp (optsp lead ++ K ++ optsp trail) (legit_before prev (Text s)) la is_last next_sib))
        p prev next lead trail k.
    Proof.
      intros H0. destruct (off0_lb H0) as [Hlb Hp]. unfold text_over_lines. cbv beta zeta.
      replace (w_off st =? 0)%Z with true by (rewrite H0; reflexivity). rewrite Hlb. cbn [app].
      rewrite lstrip_e, esc_t.
      destruct lines_of_t as (us & c & t0 & Ewrap & Hwl & HF & Hne & Et & Hc1 & Hc0 & Hcol). rewrite Ewrap.
      match goal with |- context [consolidate L st _ _ (if ?c then _ else _)] => set (X := c) end.
      assert (HX : X = true -> is_last = false).
      { unfold X. intros H. apply andb_prop in H as [_ H]. destruct next; [reflexivity|discriminate]. }
      assert (HXla : X = true -> la = true) by (unfold X; intros H; apply andb_prop in H as [H _]; apply andb_prop in H as [_ H]; exact H).
      match goal with |- context [consolidate L st _ _ ?ll] =>
        replace ll with (([] :: map esc_text us) ++ (if X then [[]] else []))
          by (destruct X; [reflexivity|cbn [app]; rewrite app_nil_r; reflexivity]) end.
      assert (Hlast : last us [] <> []).
      { destruct (exists_last Hne) as (ini & un & ->). rewrite last_last. apply Forall_app in HF as [_ Hu].
        inversion Hu; subst. apply head_nows_ok. assumption. }
      rewrite (consolidate_form L st is_last la X us Hne Hlast HX).
      replace (w_off st =? 0)%Z with true by (rewrite H0; reflexivity). cbn [app].
      set (T := (X || (is_last && la))%bool).
      assert (HTla : T = true -> la = true).
      { unfold T. intros H. apply orb_prop in H as [H|H]; [exact (HXla H)|apply andb_prop in H as [_ H]; exact H]. }
      destruct (upd_ok us T HF Hne) as (Hok & Hnn & Hune & w & Hw & Ej).
      replace (map esc_text (upd us T) ++ (if T then [[]] else [])) with (map esc_text (upd us T ++ (if T then [[]] else [])))
        by (rewrite map_app; destruct T; reflexivity).
      assert (Hok2 : Forall head_ok (upd us T ++ (if T then [[]] else []))).
      { apply Forall_app. split; [exact Hok|]. destruct T; [constructor; [exact I|constructor]|constructor]. }
      destruct (write_lines_calc L _ Hok2 st (proj1 Hinv)) as (D & i0 & Hi0 & HsD & HcD & HnD).
      assert (Hi0ws : all_ws i0).
      { destruct Hi0 as [->|[_ ->]]; [apply all_ws_indent; exact ind_ws|apply lstrip_lf_all_ws; apply all_ws_indent; exact ind_ws]. }
      assert (Hhd : null (hd [SP] (upd us T ++ (if T then [[]] else []))) = false).
      { destruct (upd us T) as [|u0 r0] eqn:Eu; [congruence|]. inversion Hnn; subst. cbn. destruct u0; [congruence|reflexivity]. }
      destruct (HcD false [] ltac:(intros _ H; rewrite Hhd in H; discriminate)) as [EcD _]. rewrite !app_nil_r in EcD.
      destruct (write_lines ind L st (map esc_text (upd us T ++ (if T then [[]] else [])))) as [cs st'] eqn:Ewl. cbn [fst snd] in *.
      (* the collapsed form of what was written *)
      assert (Ht0 : exists tr0, t0 = k ++ optsp tr0 /\ (tr0 = true -> trail = true) /\ (c = false -> tr0 = trail) /\ (c = true -> tr0 = false)).
      { destruct c; [destruct (Hc1 eq_refl) as [Htr ->]; exists false; rewrite app_nil_r; repeat split; congruence|].
        exists trail. rewrite (Hc0 eq_refl). repeat split; congruence. }
      destruct Ht0 as (tr0 & Et0 & Htr0 & Hc0' & Hc1').
      destruct (WR1_nonempty i0 (indent ind L) (upd us T) Hnn Hune) as [EW1 EW2].
      assert (Hform : collapse D = optsp (negb (null i0)) ++ k ++ optsp (T || tr0)).
      { unfold collapse. rewrite EcD. fold (collapse (WR1 i0 (indent ind L) (upd us T ++ (if T then [[]] else [])))).
        destruct T.
        - rewrite EW2.
          (* the stripped trailing whitespace does not show next to the newline *)
          assert (E1 : collapse (i0 ++ py_join sep (upd us true) ++ NL) = collapse (i0 ++ py_join sep us ++ NL)).
          { unfold collapse. rewrite !(collapse_aux_app i0). f_equal. rewrite Ej, <- app_assoc.
            rewrite !(collapse_aux_app (py_join sep (upd us true))). f_equal.
            destruct (ws_block w NL Hw all_ws_NL ltac:(discriminate)
                        (endws (endws false i0) (py_join sep (upd us true))) []) as [Hb _].
            rewrite !app_nil_r in Hb. symmetry. exact Hb. }
          rewrite E1. rewrite (collapse_replace _ t0 i0 NL Hcol). rewrite Et0, <- app_assoc.
          rewrite (collapse_pad i0 k (optsp tr0 ++ NL)); [|exact Hi0ws|apply all_ws_app; [apply all_ws_optsp|apply all_ws_NL]|exact Hk].
          replace (null (optsp tr0 ++ NL)) with false by (destruct tr0; reflexivity). reflexivity.
        - rewrite app_nil_r, EW1. change (upd us false) with us. rewrite <- (app_nil_r (py_join sep us)).
          rewrite (collapse_replace _ t0 i0 [] Hcol). rewrite app_nil_r, Et0.
          rewrite (collapse_pad i0 k (optsp tr0)); [|exact Hi0ws|apply all_ws_optsp|exact Hk].
          destruct tr0; reflexivity. }
      exists D, (negb (null i0)), (T || tr0)%bool.
      split; [exact HsD|]. split; [exact Hform|]. split; [intros _; right; exact Hp|]. split.
      { intros Hpn Hl. exfalso. exact (nolead_off Hpn Hl H0). }
      split.
      { intros Hb. apply orb_prop in Hb as [Hb|Hb]; [exact (HTla Hb)|apply la_trail; exact (Htr0 Hb)]. }
      destruct T eqn:ET; [split; [intros _; left; reflexivity|split; [exact HnD|reflexivity]]|].
      (* no trailing empty line: the last line stands without a newline *)
      change (upd us false ++ []) with (us ++ []) in Ewl. rewrite app_nil_r in Ewl.
      destruct (exists_last Hne) as (ini & un & Eus).
      assert (Hun : head_nows un) by (rewrite Eus in HF; apply Forall_app in HF as [_ Hu]; inversion Hu; assumption).
      destruct (head_nows_ok un Hun) as [Hun1 Hun2].
      assert (Hini : Forall head_ok ini).
      { rewrite Eus in HF. apply Forall_app in HF as [Hi _]. clear - Hi. induction Hi as [|u r Hu _ IH]; constructor; [apply head_nows_ok; exact Hu|exact IH]. }
      assert (Hnolf : ~ In LF (esc_text un)).
      { apply esc_no_lf. intros Hi. pose proof (wl_incl _ _ _ _ Hwl un ltac:(rewrite Eus; apply in_or_app; right; left; reflexivity) LF Hi) as Ht.
        apply in_app_or in Ht as [Ht|Ht]; [exact (collapse_fix_no_lf k false (proj2 (proj2 Hk)) Ht)|destruct trail; [destruct Ht as [E|[]]; discriminate|destruct Ht]]. }
      destruct (write_lines_last L ini un Hun1 Hini st) as (stb & Estb & Hnb & Hb0 & Hb1).
      assert (E3 : snd (write_lines ind L st (map esc_text us)) = snd (emit stb (indent ind L ++ esc_text un)))
        by (rewrite Eus; exact Estb).
      rewrite Ewl in E3. cbn [snd] in E3. clear Estb. rename E3 into Estb.
      assert (Hob : w_off stb = 0%Z) by (destruct ini; [rewrite (Hb0 eq_refl); exact H0|apply Hb1; discriminate]).
      assert (Eoff : w_off st' = (ilen ind L + elen (esc_text un))%Z).
      { rewrite Estb.
        rewrite (emit_off_line stb (indent ind L) (esc_text un) Hob
                   ltac:(intros E; apply esc_text_nil in E; congruence) (esc_head_ok un Hun2) Hnolf).
        reflexivity. }
      assert (Hpos : (0 < elen (esc_text un))%Z).
      { unfold elen, py_len. destruct (esc_text un) eqn:E; [apply esc_text_nil in E; congruence|cbn [length]; lia]. }
      assert (Hil : (0 <= ilen ind L)%Z) by (unfold ilen, elen, py_len; lia).
      split; [|split; [exact HnD|intros Hz; lia]].
      intros Htrail. cbn [orb]. destruct tr0; [left; reflexivity|right].
      assert (Ec : c = true) by (destruct c; [reflexivity|rewrite (Hc0' eq_refl) in *; congruence]). subst c.
      pose proof (wl_consumed_last _ _ _ Hwl) as Hcons. rewrite Eus, last_last in Hcons.
      unfold owed, available, line_offset. split; [lia|].
      replace (w_off st' =? 0)%Z with false by (symmetry; apply Z.eqb_neq; lia).
      unfold elen, py_len in *. lia.
    Qed.

    (* ---- the partial-line branch ------------------------------------------------------------------------- *)

    (* collapsing lines cut from  lw ++ t  (lw: nothing, or the leading space of the text) *)
    Lemma join_form (lw : str) us c : (lw = [] \/ lw = [SP]) -> wl (Z.to_nat width) (lw ++ t) us c ->
      exists tr0, (tr0 = true -> trail = true) /\ (c = false -> tr0 = trail) /\ (c = true -> tr0 = false) /\
        forall g0 g1, all_ws g0 -> all_ws g1 ->
          collapse (g0 ++ py_join sep us ++ g1) = optsp (negb (null (g0 ++ lw))) ++ k ++ optsp (negb (null (optsp tr0 ++ g1))).
    Proof.
      intros Hlw Hwl. destruct (wl_collapse _ _ _ _ sep Hwl (proj1 all_ws_sep) (proj2 all_ws_sep)) as (t0 & Et & Hc).
      assert (Ht0 : exists tr0, t0 = lw ++ k ++ optsp tr0 /\ (tr0 = true -> trail = true) /\ (c = false -> tr0 = trail) /\ (c = true -> tr0 = false)).
      { destruct c; cbn [optsp] in Et.
        - destruct trail; cbn [optsp] in Et.
          + exists false. replace (lw ++ k ++ [SP]) with ((lw ++ k) ++ [SP]) in Et by (rewrite <- app_assoc; reflexivity).
            apply app_inj_tail in Et as [Et _]. rewrite app_nil_r. repeat split; congruence.
          + exfalso. rewrite app_nil_r in Et. pose proof (proj1 (proj2 Hk)) as Hl.
            assert (Hl2 : last_nows (lw ++ k)) by (apply last_nows_app; exact Hl). rewrite Et in Hl2.
            unfold last_nows in Hl2. rewrite rev_app_distr in Hl2. cbn in Hl2. rewrite is_ws_SP in Hl2. discriminate.
        - rewrite app_nil_r in Et. exists trail. repeat split; congruence. }
      destruct Ht0 as (tr0 & -> & H1 & H2 & H3). exists tr0. split; [exact H1|]. split; [exact H2|]. split; [exact H3|].
      intros g0 g1 Hg0 Hg1. rewrite (collapse_replace _ _ g0 g1 Hc).
      replace (g0 ++ (lw ++ k ++ optsp tr0) ++ g1) with ((g0 ++ lw) ++ k ++ (optsp tr0 ++ g1)) by (rewrite <- !app_assoc; reflexivity).
      apply collapse_pad; [|apply all_ws_app; [apply all_ws_optsp|exact Hg1]|exact Hk].
      apply all_ws_app; [exact Hg0|]. destruct Hlw as [->| ->]; [constructor|apply (all_ws_optsp true)].
    Qed.

    Lemma s_no_lf : ~ In LF s.
    Proof.
      intros Hi. apply in_app_or in Hi as [Hi|Hi]; [destruct lead; [destruct Hi as [E|[]]; discriminate|destruct Hi]|].
      apply in_app_or in Hi as [Hi|Hi]; [exact (collapse_fix_no_lf k false (proj2 (proj2 Hk)) Hi)|].
      destruct trail; [destruct Hi as [E|[]]; discriminate|destruct Hi].
    Qed.

    Lemma ends_lf_notin d : ~ In LF d -> ends_lf d = false.
    Proof.
      intros H. unfold ends_lf, py_last1. destruct (rev d) as [|c r] eqn:E; [reflexivity|].
      cbn. destruct (N.eqb_spec c 10) as [->|]; [|reflexivity]. exfalso. apply H. apply in_rev. rewrite E. left. reflexivity.
    Qed.

    (* packaging a postcondition *)
    Lemma post_pack st' cs D a b : sees cs D -> collapse D = optsp a ++ k ++ optsp b ->
      (lead = true -> a = true) -> (prev <> None -> lead = false -> a = false) ->
      (b = true -> la = true) -> (trail = true -> b = true \/ owed L st') -> (0 <= w_off st')%Z -> (w_off st' = 0%Z -> b = true) ->
      tstep_post L st st' cs p prev next lead trail k.
    Proof.
      intros H1 H2 H3 H4 H5 H6 H7 H8. exists D, a, b. repeat split; try assumption. intros Hl. left. exact (H3 Hl).
    Qed.
    (* the lines that follow the filling, or replace it: common treatment *)
    Lemma lines_after (tt : str) (x0 : str) (us' : list str) c pre st1 :
      wl (Z.to_nat width) tt (x0 :: us') c -> ~ In LF tt -> Forall head_nows us' ->
      ((x0 = [] /\ us' <> []) \/ (x0 <> [] /\ head_ok x0 /\ rstrip x0 <> [] /\ head_ok (rstrip x0))) ->
      (0 < w_off st1)%Z ->
      exists cs2 D2 (T : bool),
        fst (finish_e L is_last la next_sib pre st1 ([[]] ++ map esc_text (x0 :: us'))) = pre ++ cs2 /\ sees cs2 D2 /\
        (forall b Y, collapse_aux b (D2 ++ Y)
                     = collapse_aux b (NL ++ (if null x0 then [] else indent ind L) ++ py_join sep (x0 :: us') ++ (if T then NL else []) ++ Y)) /\
        (T = true -> la = true) /\
        (0 <= w_off (snd (finish_e L is_last la next_sib pre st1 ([[]] ++ map esc_text (x0 :: us')))))%Z /\
        (w_off (snd (finish_e L is_last la next_sib pre st1 ([[]] ++ map esc_text (x0 :: us')))) = 0%Z -> T = true) /\
        (T = false -> c = true -> owed L (snd (finish_e L is_last la next_sib pre st1 ([[]] ++ map esc_text (x0 :: us'))))).
    Proof.
      intros Hwl Hnolf HF Hx Hpos.
      assert (Hlastfacts : last (x0 :: us') [] <> [] /\ head_ok (last (x0 :: us') []) /\ Forall head_ok (removelast (x0 :: us'))).
      { destruct (head_nows_all_ok _ HF) as [Hok Hnn].
        assert (Hx0 : head_ok x0) by (destruct Hx as [[-> _]|(_ & H & _)]; [exact I|exact H]).
        destruct us' as [|u r].
        - destruct Hx as [[_ H]|(Hx0n & _)]; [congruence|]. cbn [last removelast]. repeat split; [exact Hx0n|exact Hx0|constructor].
        - destruct (exists_last (l:=u :: r) ltac:(discriminate)) as (ini & un & Eu). rewrite Eu in *.
          change (x0 :: ini ++ [un]) with ((x0 :: ini) ++ [un]). rewrite last_last, removelast_last.
          apply Forall_app in Hok as [Hoi Hou]. apply Forall_app in Hnn as [_ Hnu]. inversion Hou; inversion Hnu; subst.
          repeat split; [assumption|assumption|constructor; assumption]. }
      destruct Hlastfacts as (Hl1 & Hl2 & Hl3).
      assert (Hnolf2 : ~ In LF (last (x0 :: us') [])).
      { intros Hi. apply Hnolf. apply (wl_incl _ _ _ _ Hwl (last (x0 :: us') [])); [|exact Hi].
        destruct (exists_last (l:=x0 :: us') ltac:(discriminate)) as (ini & un & Eu). rewrite Eu, last_last. apply in_or_app. right. left. reflexivity. }
      assert (Hla' : is_last = true -> la = true) by (destruct next; [discriminate|reflexivity]).
      assert (Hns : next_sib <> None -> is_last = false) by (destruct next; [reflexivity|congruence]).
      destruct (finish_nz L is_last la next_sib pre st1 (x0 :: us') (if null x0 then [] else indent ind L)
                  Hpos Hla' Hns ltac:(discriminate) Hl1 Hnolf2 Hl2 Hl3
                  ltac:(destruct (null x0); [constructor|apply all_ws_indent; exact ind_ws])
                  (fun T => pipe_gen L x0 us' HF Hx T))
        as (cs2 & D2 & T & E1 & Hs & Hc & HT & Hn & Hoff).
      exists cs2, D2, T. split; [exact E1|]. split; [exact Hs|]. split; [exact Hc|]. split; [exact HT|]. split; [exact Hn|].
      assert (Hpe : (0 < elen (esc_text (last (x0 :: us') [])))%Z).
      { unfold elen, py_len. destruct (esc_text (last (x0 :: us') [])) eqn:E; [apply esc_text_nil in E; congruence|cbn [length]; lia]. }
      assert (Hil : (0 <= ilen ind L)%Z) by (unfold ilen, elen, py_len; lia).
      split.
      - intros Hz. destruct T; [reflexivity|]. rewrite (Hoff eq_refl) in Hz. exfalso.
        match type of Hz with (_ + ?e = 0)%Z => assert (Hpe' : (0 < e)%Z) by exact Hpe end. lia.
      - intros ET Ec. subst c. pose proof (wl_consumed_last _ _ _ Hwl) as Hcons.
        unfold owed, available, line_offset. rewrite (Hoff ET).
        match goal with |- ((_ + ?e)%Z <> _ /\ _) =>
          assert (Hpe' : (0 < e)%Z) by exact Hpe;
          assert (Hc' : (width <= e)%Z) by (apply Nat2Z.inj_le in Hcons; rewrite Z2Nat.id in Hcons by lia; exact Hcons) end.
        split; [lia|].
        match goal with |- context [(?x =? 0)%Z] => replace (x =? 0)%Z with false by (symmetry; apply Z.eqb_neq; lia) end.
        lia.
    Qed.

    Definition hx (x0 : str) (us' : list str) : Prop :=
      (x0 = [] /\ us' <> []) \/ (x0 <> [] /\ head_ok x0 /\ rstrip x0 <> [] /\ head_ok (rstrip x0)).

    Lemma hx_head_nows u r : head_nows u -> hx u r.
    Proof.
      intros Hu. right. destruct (head_nows_ok u Hu) as [H1 H2]. destruct (head_nows_rstrip u Hu) as [H3 H4].
      split; [exact H1|]. split; [exact H2|]. split; [exact H3|]. exact (proj2 (head_nows_ok _ H4)).
    Qed.
    Lemma hx_sp y r : head_nows y -> hx (SP :: y) r.
    Proof.
      intros Hy. right. destruct (rstrip_cons_nows SP y Hy) as [E Hne]. split; [discriminate|]. split; [discriminate|].
      rewrite E. split; discriminate.
    Qed.

    (* the lines cut from the text with its leading space (the branch that gives up the filling) *)
    Lemma lead_shape us c : wl (Z.to_nat width) (optsp lead ++ t) us c ->
      exists x0 us', us = x0 :: us' /\ Forall head_nows us' /\ hx x0 us'.
    Proof.
      intros Hwl. destruct (text_tail_naw k trail Hk) as (Hn & Hh & Hne).
      destruct lead; cbn [optsp app] in Hwl.
      - inversion Hwl as [t' Ht' Et Eu | ta Hl Et Eu | ta tb us' c' Htb Hw' Et Eu]; subst.
        + exists (SP :: t), []. split; [reflexivity|]. split; [constructor|apply hx_sp; exact Hh].
        + destruct ta as [|c0 ta']; [cbn in Et; injection Et as Et; rewrite <- Et in Hne; congruence|].
          cbn [app] in Et. injection Et as -> Et.
          exists (SP :: ta'), []. split; [reflexivity|]. split; [constructor|apply hx_sp].
          rewrite <- Et in Hh. destruct ta'; [cbn in Hh; rewrite is_ws_SP in Hh; discriminate|exact Hh].
        + destruct ta as [|c0 ta']; cbn [app] in Et.
          * injection Et as Et. subst tb. exists [], us'. split; [reflexivity|].
            split; [exact (wl_segs_ok _ _ _ _ Hw' Hn Hh)|left; split; [reflexivity|exact (wl_nonempty _ _ _ _ Hw')]].
          * injection Et as -> Et. rewrite <- Et in Hn, Hh.
            destruct (naw_split ta' tb false Hn) as (_ & Hb & Hc).
            exists (SP :: ta'), us'. split; [reflexivity|]. split.
            -- apply (wl_segs_ok _ _ _ _ Hw' Hc). destruct tb; [congruence|exact Hb].
            -- apply hx_sp. destruct ta'; [cbn in Hh; rewrite is_ws_SP in Hh; discriminate|exact Hh].
      - pose proof (wl_segs_ok _ _ _ _ Hwl Hn Hh) as HF. destruct us as [|u r]; [exfalso; exact (wl_nonempty _ _ _ _ Hwl eq_refl)|].
        inversion HF; subst. exists u, r. split; [reflexivity|]. split; [assumption|apply hx_head_nows; assumption].
    Qed.

    Lemma t_no_lf : ~ In LF t.
    Proof. intros Hi. apply s_no_lf. apply in_or_app. right. exact Hi. Qed.

    Lemma tol_nz : w_off st <> 0%Z ->
      tstep_post L st
        (snd (text_over_lines ind width req L st rp (optsp lead ++ K ++ optsp trail) (legit_before prev (Text s)) la is_last next_sib))
        (fst (text_over_lines ind width req L st rp (optsp lead ++ K ++ optsp trail) (legit_before prev (Text s)) la is_last next_sib))
        p prev next lead trail k.
    Proof.
      intros H0. pose proof (proj1 Hinv) as Hnn. assert (Hpos : (0 < w_off st)%Z) by lia.
      rewrite tol_unfold. replace (w_off st =? 0)%Z with false by (symmetry; apply Z.eqb_neq; exact H0). cbv zeta.
      assert (Esw : py_startswith (optsp lead ++ K ++ optsp trail) [SP] = lead).
      { change [SP] with [32%N]. rewrite py_startswith_sp. destruct lead; cbn [optsp app]; [reflexivity|apply startswith_core; exact (proj1 coreK)]. }
      rewrite Esw.
      set (avail := available ind width L st).
      set (wz := (avail - (if lead then 1 else 0))%Z).
      assert (Efill : (if lead then [SP] ++ hd [] (wrap_lines (py_slice_from (optsp lead ++ K ++ optsp trail) 1) (avail - 1))
                       else hd [] (wrap_lines (optsp lead ++ K ++ optsp trail) avail))
                      = optsp lead ++ hd [] (wrap_lines (esc_text t) wz)).
      { unfold wz. destruct lead; cbn [optsp app].
        - unfold py_slice_from. change (Z.to_nat 1) with 1%nat. cbn [skipn]. rewrite esc_t. reflexivity.
        - rewrite esc_t, Z.sub_0_r. reflexivity. }
      rewrite Efill.
      destruct (text_tail_naw k trail Hk) as (Hn & Hh & Hne).
      destruct (first_line_any t wz Hne Hh Hn) as (f & rem & Ehd & Hf & Hfh & Et & Hrem).
      assert (Ehd' : hd [] (wrap_lines (esc_text t) wz) = esc_text f) by exact Ehd. rewrite !Ehd'.
      set (X := optsp lead ++ f).
      assert (EX : optsp lead ++ esc_text f = esc_text X) by (unfold X; rewrite esc_text_app, esc_optsp; reflexivity).
      rewrite EX.
      assert (Ee : optsp lead ++ K ++ optsp trail = esc_text (optsp lead ++ t)) by (rewrite esc_text_app, esc_optsp, esc_t; reflexivity).
      destruct ((elen (esc_text X) >? avail)%Z && legit_before prev (Text s))%bool eqn:Ed.
      - (* the filling is given up: newline first *)
        apply andb_prop in Ed as [_ Hlb]. rewrite Ee.
        assert (Hnett : optsp lead ++ t <> []) by (destruct lead; [discriminate|exact Hne]).
        destruct (wrap_lines_wl (optsp lead ++ t) width width_pos Hnett) as (us & c & Ew & Hwl).
        unfold wrap_lines. rewrite Ew.
        destruct (lead_shape us c Hwl) as (x0 & us' & -> & HF & Hx).
        destruct (lines_after (optsp lead ++ t) x0 us' c [] st Hwl
                    ltac:(intros Hi; apply s_no_lf; rewrite app_assoc in Hi; rewrite app_assoc; exact Hi) HF Hx Hpos)
          as (cs2 & D2 & T & E1 & Hs & Hc & HT & Hn2 & Hz & How).
        destruct (join_form (optsp lead) (x0 :: us') c ltac:(destruct lead; auto) Hwl) as (tr0 & Ht1 & Ht2 & Ht3 & Hjf).
        destruct (finish_e L is_last la next_sib [] st ([[]] ++ map esc_text (x0 :: us'))) as [cs st'] eqn:Efin. cbn [fst snd app] in *. subst cs.
        apply (post_pack st' cs2 D2 true (T || tr0)%bool Hs).
        + unfold collapse. pose proof (Hc false []) as Ec. rewrite !app_nil_r in Ec. rewrite Ec.
          fold (collapse (NL ++ (if null x0 then [] else indent ind L) ++ py_join sep (x0 :: us') ++ (if T then NL else []))).
          replace (NL ++ (if null x0 then [] else indent ind L) ++ py_join sep (x0 :: us') ++ (if T then NL else []))
            with ((NL ++ (if null x0 then [] else indent ind L)) ++ py_join sep (x0 :: us') ++ (if T then NL else [])) by (rewrite <- app_assoc; reflexivity).
          rewrite Hjf; [|apply all_ws_app; [apply all_ws_NL|destruct (null x0); [constructor|apply all_ws_indent; exact ind_ws]]|destruct T; [apply all_ws_NL|constructor]].
          f_equal. f_equal. destruct T, tr0; reflexivity.
        + reflexivity.
        + intros Hpn Hl. rewrite (lb_lead Hpn) in Hlb. congruence.
        + intros Hb. apply orb_prop in Hb as [Hb|Hb]; [exact (HT Hb)|apply la_trail; exact (Ht1 Hb)].
        + intros Htr. destruct T; [left; reflexivity|]. destruct tr0; [left; reflexivity|right]. apply How; [reflexivity|].
          destruct c; [reflexivity|]. rewrite (Ht2 eq_refl) in *. congruence.
        + exact Hn2.
        + intros H0'. rewrite (Hz H0'). reflexivity.
      - (* the filling is written *)
        clear Ed.
        assert (HXne : X <> []) by (unfold X; destruct lead; [discriminate|exact Hf]).
        assert (HXh : match X with c :: _ => c <> LF | [] => True end).
        { unfold X. destruct lead; cbn [optsp app]; [discriminate|]. exact (proj2 (head_nows_ok f Hfh)). }
        assert (HXs : optsp lead ++ t = X ++ rem) by (unfold X; rewrite Et, <- app_assoc; reflexivity).
        assert (HXnolf : ~ In LF (esc_text X)).
        { apply esc_no_lf. intros Hi. apply s_no_lf. change s with (optsp lead ++ t). rewrite HXs. apply in_or_app. left. exact Hi. }
        assert (HeX : esc_text X <> []) by (intros E; apply esc_text_nil in E; congruence).
        destruct (emit_esc st X) as (X' & Ee1 & Hs1 & HX' & _).
        assert (X' = X) as -> by (destruct HX' as [->|[H00 _]]; [reflexivity|congruence]).
        pose proof (emit_off_exact st (esc_text X) HeX (esc_head_ok X HXh) HXnolf) as Eoff.
        pose proof (emit_raw_snd st (esc_text X)) as Esnd.
        destruct (emit_raw st (esc_text X)) as [c0 st1]. cbn [fst snd] in *. subst c0. rewrite <- Esnd in Eoff. clear Esnd.
        assert (Hpos1 : (0 < w_off st1)%Z) by (pose proof (elen_nonneg' (esc_text X)); lia).
        replace (optsp lead ++ K ++ optsp trail) with (esc_text X ++ esc_text rem) by (rewrite Ee, HXs, esc_text_app; reflexivity).
        assert (Eslice : py_slice_from (esc_text X ++ esc_text rem) (elen (esc_text X) + 1) = skipn 1 (esc_text rem)).
        { unfold py_slice_from, elen, py_len. replace (Z.to_nat (Z.of_nat (length (esc_text X)) + 1)) with (length (esc_text X) + 1)%nat by lia.
          apply skipn_app_len. }
        rewrite !Eslice.
        destruct Hrem as [->|(tb & -> & Hcons & Htb)].
        + (* the whole text was the filling *)
          cbn [esc_text translate flat_map skipn null fst snd].
          rewrite app_nil_r in HXs.
          apply (post_pack st1 [KRaw (esc_text X)] X lead trail Hs1).
          * rewrite <- HXs. exact (collapse_nf lead k trail Hk).
          * auto.
          * intros _ Hl. exact Hl.
          * intros Hb. apply la_trail. exact Hb.
          * intros Htr. left. exact Htr.
          * lia.
          * intros Hz. lia.
        + change (esc_text (SP :: tb)) with ([SP] ++ esc_text tb). cbn [app skipn]. rewrite null_esc.
          destruct tb as [|c1 tb'].
          * (* the break consumed the trailing space: the line is full *)
            cbn [null fst snd]. specialize (Hcons eq_refl).
            assert (Etk : trail = true /\ f = k).
            { destruct trail; cbn [optsp] in Et; [apply app_inj_tail in Et as [Et _]; auto|].
              exfalso. rewrite app_nil_r in Et. pose proof (proj1 (proj2 Hk)) as Hl. rewrite Et in Hl.
              unfold last_nows in Hl. rewrite rev_app_distr in Hl. cbn in Hl. rewrite is_ws_SP in Hl. discriminate. }
            destruct Etk as [Etr ->].
            apply (post_pack st1 [KRaw (esc_text X)] X lead false Hs1).
            -- unfold X. rewrite <- (app_nil_r k) at 1. change (@nil char) with (optsp false). exact (collapse_nf lead k false Hk).
            -- auto.
            -- intros _ Hl. exact Hl.
            -- discriminate.
            -- intros _. right. unfold owed. split; [lia|].
               assert (Hav : (avail <= elen (esc_text X))%Z).
               { unfold X. rewrite esc_text_app, esc_optsp. unfold elen, py_len. rewrite app_length, Nat2Z.inj_add.
                 unfold wz, elen, py_len in Hcons. destruct lead; cbn [optsp length] in *; lia. }
               unfold avail, available, line_offset in *. replace (w_off st =? 0)%Z with false in Hav by (symmetry; apply Z.eqb_neq; lia).
               replace (w_off st1 =? 0)%Z with false by (symmetry; apply Z.eqb_neq; lia). lia.
            -- lia.
            -- intros Hz. lia.
          * (* further lines follow the filling *)
            cbn [null].
            destruct (Htb ltac:(discriminate)) as [Htbh Htbn].
            destruct (wrap_lines_wl (c1 :: tb') width width_pos ltac:(discriminate)) as (us2 & c2 & Ew & Hwl2).
            unfold wrap_lines. rewrite Ew.
            pose proof (wl_segs_ok _ _ _ _ Hwl2 Htbn Htbh) as HF2.
            destruct us2 as [|u r]; [exfalso; exact (wl_nonempty _ _ _ _ Hwl2 eq_refl)|].
            inversion HF2 as [|? ? Hu HFr]; subst.
            destruct (lines_after (c1 :: tb') u r c2 [KRaw (esc_text X)] st1 Hwl2
                        ltac:(intros Hi; apply t_no_lf; rewrite Et; apply in_or_app; right; right; exact Hi) HFr (hx_head_nows u r Hu) Hpos1)
              as (cs2 & D2 & T & E1 & Hs2 & Hc & HT & Hn2 & Hz & How).
            assert (Hwlc : wl (Z.to_nat width) ([] ++ t) (f :: u :: r) c2) by (cbn [app]; rewrite Et; apply wl_step; [discriminate|exact Hwl2]).
            destruct (join_form [] (f :: u :: r) c2 (or_introl eq_refl) Hwlc) as (tr0 & Ht1 & Ht2 & Ht3 & Hjf).
            change ([[]] ++ map esc_text (u :: r)) with ([] :: map esc_text (u :: r)) in *.
            destruct (finish_e L is_last la next_sib [KRaw (esc_text X)] st1 ([] :: map esc_text (u :: r))) as [cs st'] eqn:Efin.
            cbn [fst snd] in *. subst cs.
            apply (post_pack st' ([KRaw (esc_text X)] ++ cs2) (X ++ D2) lead (T || tr0)%bool (sees_app _ _ _ _ Hs1 Hs2)).
            -- unfold collapse. rewrite collapse_aux_app. pose proof (Hc (endws false X) []) as Ec. rewrite !app_nil_r in Ec. rewrite Ec.
               rewrite <- collapse_aux_app. fold (collapse (X ++ NL ++ (if null u then [] else indent ind L) ++ py_join sep (u :: r) ++ (if T then NL else []))).
               replace (null u) with false by (destruct u; [destruct (head_nows_ok _ Hu); congruence|reflexivity]).
               replace (X ++ NL ++ indent ind L ++ py_join sep (u :: r) ++ (if T then NL else []))
                 with (optsp lead ++ py_join sep (f :: u :: r) ++ (if T then NL else [])).
               2:{ unfold X. rewrite join_cons2. rewrite <- !app_assoc. reflexivity. }
               rewrite Hjf; [|apply all_ws_optsp|destruct T; [apply all_ws_NL|constructor]].
               rewrite app_nil_r. f_equal; [destruct lead; reflexivity|]. f_equal. destruct T, tr0; reflexivity.
            -- auto.
            -- intros _ Hl. exact Hl.
            -- intros Hb. apply orb_prop in Hb as [Hb|Hb]; [exact (HT Hb)|apply la_trail; exact (Ht1 Hb)].
            -- intros Htr. destruct T; [left; reflexivity|]. destruct tr0; [left; reflexivity|right]. apply How; [reflexivity|].
               destruct c2; [reflexivity|]. rewrite (Ht2 eq_refl) in *. congruence.
            -- exact Hn2.
            -- intros H0'. rewrite (Hz H0'). reflexivity.
    Qed.

    (* _serialize_text as a whole, given the partial-line branch of _serialize_text_over_lines *)
    Variable foll : option rpath.
    Hypothesis Hnext : match next with Some y => is_text y = false | None => True end.

    Lemma cond_la (c : rpath -> bool) :
      (is_last || match next with
                  | Some y => match foll with Some f => legit_before (Some (Text s)) y && c f | None => false end
                  | None => false end)%bool = true -> la = true.
    Proof.
      destruct next as [y|]; [|reflexivity]. cbn [orb]. destruct foll; [|discriminate]. intros H. apply andb_prop in H as [H _].
      cbn [legit_after]. destruct y; try discriminate; exact H.
    Qed.

    Lemma w_text_step_from (Hover : (w_off st <> 0)%Z ->
        tstep_post L st
          (snd (text_over_lines ind width req L st rp (optsp lead ++ K ++ optsp trail) (legit_before prev (Text s)) la is_last next_sib))
          (fst (text_over_lines ind width req L st rp (optsp lead ++ K ++ optsp trail) (legit_before prev (Text s)) la is_last next_sib))
          p prev next lead trail k) :
      tstep_post L st (snd (w_text ind width req L st rp prev s next foll)) (fst (w_text ind width req L st rp prev s next foll))
                 p prev next lead trail k.
    Proof.
      unfold w_text. cbv zeta. rewrite !e_form. rewrite rstrip_e. rewrite !cprime_form, !rstrip_cprime.
      replace ((pre_of ++ K) ++ NL) with (esc_text (pre_of ++ k ++ NL)) by (rewrite <- (esc_piece NL eq_refl), <- app_assoc; reflexivity).
      replace (pre_of ++ K ++ optsp trail) with (esc_text (pre_of ++ k ++ optsp trail)) by (rewrite <- (esc_piece _ (ws_indent_optsp trail)); reflexivity).
      destruct ((available ind width L st =? elen (optsp lead ++ K))%Z && la)%bool eqn:E1.
      - apply andb_prop in E1 as [_ E1]. apply one_piece_post. left. split; [reflexivity|exact E1].
      - destruct (available ind width L st >? elen (optsp lead ++ K ++ optsp trail))%Z.
        + match goal with |- context [if ?c then esc_text (pre_of ++ k ++ NL) else _] => destruct c eqn:Ec end.
          * apply one_piece_post. left. split; [reflexivity|exact (cond_la (fun f => req_is_none req f _) Ec)].
          * apply one_piece_post. right. reflexivity.
        + rewrite e_not_sp. destruct (Z.eq_dec (w_off st) 0) as [H0|H0]; [exact (tol_off0 H0)|exact (Hover H0)].
    Qed.
  End OneText.
End TextStep.
