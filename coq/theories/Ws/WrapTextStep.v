(* C03 at width > 0: TextWrappingSerializer._serialize_text for a text with content between siblings
   (all branches, including _serialize_text_over_lines from a partially filled line).  Facts only.
   Everything the step writes is esc_text of an unescaped string, so the data a parser reads back is
   known exactly; what is proved of it is stated at the level of `collapse`. *)
From Coq Require Import List NArith ZArith Bool Lia.
From Delb.Base Require Import PyStr PyStrW PyStrFacts.
From Delb.Gen Require Import GenNames GenPretty GenWrap.
From Delb.Tree Require Import ATree Merge MergeFacts.
From Delb.Ws Require Import Reduce ReduceFacts Pretty SimplePP WsVariant WsVariantFacts PrettyFacts PrettyVariant Wrap WrapFacts WrapSerFacts WrapTextOnly WrapVariant.
Import ListNotations.

(* ------------------------------------------------------------------------------------------ *)
(* a calculus for collapse over concatenations *)

(* is the character before the rest whitespace: the state collapse_aux is in after x, started in state b *)
Definition endws (b : bool) (x : str) : bool := match rev x with c :: _ => is_ws c | [] => b end.

Lemma endws_cons b c x : endws b (c :: x) = endws (is_ws c) x.
Proof.
  unfold endws. cbn [rev]. destruct (rev x) as [|d r] eqn:E; [reflexivity|]. reflexivity.
Qed.

Lemma collapse_aux_app x : forall b y, collapse_aux b (x ++ y) = collapse_aux b x ++ collapse_aux (endws b x) y.
Proof.
  induction x as [|c r IH]; intros b y; [reflexivity|]. cbn [app collapse_aux]. rewrite endws_cons.
  destruct (is_ws c); [destruct b|]; rewrite IH; reflexivity.
Qed.

Lemma endws_app b x y : endws b (x ++ y) = endws (endws b x) y.
Proof.
  revert b. induction x as [|c r IH]; intros b; [reflexivity|]. cbn [app]. rewrite !endws_cons. apply IH.
Qed.

Lemma collapse_aux_ws b w : all_ws w -> collapse_aux b w = if (b || null w)%bool then [] else [SP].
Proof.
  intros H. revert b. induction H as [|c r Hc _ IH]; intros b; [cbn; rewrite orb_true_r; reflexivity|].
  cbn [collapse_aux null]. rewrite Hc, orb_false_r. rewrite (IH true). cbn [orb]. destruct b; reflexivity.
Qed.
Lemma endws_ws b w : all_ws w -> endws b w = (b || negb (null w))%bool.
Proof.
  intros H. unfold endws. destruct (rev w) as [|c r] eqn:E.
  - assert (w = []) as -> by (rewrite <- (rev_involutive w), E; reflexivity). cbn. rewrite orb_false_r. reflexivity.
  - assert (Hin : In c w) by (apply in_rev; rewrite E; left; reflexivity).
    unfold all_ws in H. rewrite Forall_forall in H. rewrite (H c Hin).
    destruct w; [discriminate|]. cbn. rewrite orb_true_r. reflexivity.
Qed.
Lemma endws_last_nows b x : last_nows x -> endws b x = false.
Proof. unfold last_nows, head_nows, endws. destruct (rev x); [tauto|]. intros ->. reflexivity. Qed.

(* ------------------------------------------------------------------------------------------ *)
(* from the collapsed form of the data to the shape ws_variant wants *)

Lemma lstrip_split s : exists w, all_ws w /\ s = w ++ lstrip s /\ (lstrip s = [] \/ head_nows (lstrip s)).
Proof.
  induction s as [|c r IH]; [exists []; repeat split; [constructor|left; reflexivity]|].
  cbn [lstrip]. destruct (is_ws c) eqn:E.
  - destruct IH as (w & Hw & Es & Hh). exists (c :: w). split; [constructor; assumption|]. split; [cbn; f_equal; exact Es|exact Hh].
  - exists []. split; [constructor|]. split; [reflexivity|right; exact E].
Qed.

Lemma ws_decompose D : exists pre m suf, D = pre ++ m ++ suf /\ all_ws pre /\ all_ws suf /\ (m = [] \/ (head_nows m /\ last_nows m)).
Proof.
  destruct (lstrip_split D) as (pre & Hpre & ED & HX). set (X := lstrip D) in *.
  destruct (lstrip_split (rev X)) as (sufr & Hs & EX & HY).
  exists pre, (rev (lstrip (rev X))), (rev sufr).
  assert (EX' : X = rev (lstrip (rev X)) ++ rev sufr) by (rewrite <- rev_app_distr, <- EX, rev_involutive; reflexivity).
  split; [rewrite <- EX'; exact ED|]. split; [exact Hpre|]. split.
  - unfold all_ws in *. rewrite Forall_forall in *. intros c Hc. apply Hs. apply in_rev. exact Hc.
  - destruct HY as [E|Hh]; [left; rewrite E; reflexivity|right]. split.
    + destruct HX as [E|Hx]; [rewrite E in *; cbn in Hh; tauto|].
      (* the head of X survives *)
      rewrite EX' in Hx. destruct (rev (lstrip (rev X))) as [|c r] eqn:Er.
      * exfalso. assert (lstrip (rev X) = []) by (rewrite <- (rev_involutive (lstrip (rev X))), Er; reflexivity).
        rewrite H in Hh. cbn in Hh. tauto.
      * exact Hx.
    + unfold last_nows. rewrite rev_involutive. exact Hh.
Qed.

Lemma collapse_head_nows m : head_nows m -> head_nows (collapse m).
Proof. destruct m as [|c r]; cbn; [tauto|]. intros H. unfold collapse. cbn [collapse_aux]. rewrite H. exact H. Qed.
Lemma collapse_aux_snoc_nows x c : is_ws c = false -> forall b, collapse_aux b (x ++ [c]) = collapse_aux b x ++ [c].
Proof. intros Hc b. rewrite collapse_aux_app. cbn [collapse_aux]. rewrite Hc. reflexivity. Qed.
Lemma collapse_last_nows m : last_nows m -> last_nows (collapse m).
Proof.
  unfold last_nows at 1. destruct (rev m) as [|c r] eqn:E; cbn; [tauto|]. intros Hc.
  assert (Em : m = rev r ++ [c]) by (rewrite <- (rev_involutive m), E; reflexivity).
  rewrite Em. unfold collapse. rewrite (collapse_aux_snoc_nows _ c Hc). apply last_nows_app. unfold last_nows. cbn. exact Hc.
Qed.

Lemma optsp_head_unique a a' x y : optsp a ++ x = optsp a' ++ y -> head_nows x -> head_nows y -> a = a' /\ x = y.
Proof.
  intros E Hx Hy. destruct a, a'; cbn [optsp app] in E.
  - injection E as E. auto.
  - exfalso. destruct y as [|c r]; [cbn in Hy; tauto|]. cbn in E, Hy. injection E as <- _. rewrite is_ws_SP in Hy. discriminate.
  - exfalso. destruct x as [|c r]; [cbn in Hx; tauto|]. cbn in E, Hx. injection E as -> _. rewrite is_ws_SP in Hx. discriminate.
  - auto.
Qed.

Lemma optsp_form_unique a k b a' k2 b' : optsp a ++ k ++ optsp b = optsp a' ++ k2 ++ optsp b' ->
  head_nows k -> last_nows k -> head_nows k2 -> last_nows k2 -> a = a' /\ k = k2 /\ b = b'.
Proof.
  intros E Hh Hl Hh2 Hl2.
  destruct (optsp_head_unique a a' (k ++ optsp b) (k2 ++ optsp b') E) as [Ea E2]; [apply head_nows_app; exact Hh|apply head_nows_app; exact Hh2|].
  split; [exact Ea|]. apply (f_equal (@rev char)) in E2. rewrite !rev_app_distr in E2.
  replace (rev (optsp b)) with (optsp b) in E2 by (destruct b; reflexivity).
  replace (rev (optsp b')) with (optsp b') in E2 by (destruct b'; reflexivity).
  destruct (optsp_head_unique b b' (rev k) (rev k2) E2 Hl Hl2) as [Eb Er]. split; [|exact Eb].
  rewrite <- (rev_involutive k), Er, rev_involutive. reflexivity.
Qed.

Theorem variant_of_collapse D k a b : core k -> collapse D = optsp a ++ k ++ optsp b ->
  exists pre k' suf, D = pre ++ k' ++ suf /\ all_ws pre /\ all_ws suf /\ inner_variant k k' /\
                     null pre = negb a /\ null suf = negb b.
Proof.
  intros Hk E. destruct (ws_decompose D) as (pre & m & suf & ED & Hp & Hs & Hm).
  exists pre, m, suf. split; [exact ED|]. split; [exact Hp|]. split; [exact Hs|].
  destruct Hm as [->|[Hh Hl]].
  - exfalso. cbn [app] in ED. rewrite ED in E. rewrite collapse_all_ws in E by (apply all_ws_app; assumption).
    pose proof Hk as (Hkh & _). destruct (negb (null (pre ++ suf))); destruct a; cbn [optsp app] in E;
      destruct k as [|c r]; try (cbn in Hkh; tauto); cbn in E; try discriminate.
    injection E as <- _. cbn in Hkh. rewrite is_ws_SP in Hkh. discriminate.
  - rewrite ED in E. rewrite (collapse_pad' pre (collapse m) m suf Hp Hs) in E by (repeat split; assumption).
    pose proof Hk as (Hkh & Hkl & _).
    destruct (optsp_form_unique _ _ _ _ _ _ E (collapse_head_nows m Hh) (collapse_last_nows m Hl) Hkh Hkl) as (Ea & Ek & Eb).
    split; [repeat split; assumption|]. split.
    + rewrite <- Ea. rewrite negb_involutive. reflexivity.
    + rewrite <- Eb. rewrite negb_involutive. reflexivity.
Qed.

(* ------------------------------------------------------------------------------------------ *)
(* everything the text step writes is esc_text of an unescaped string *)

Lemma esc_lf : cce_lookup pp_cce_text LF = [LF]. Proof. reflexivity. Qed.
Lemma esc_head_not_lf c : c <> LF -> match cce_lookup pp_cce_text c with d :: _ => d <> LF | [] => False end.
Proof.
  intros Hc. unfold pp_cce_text. cbn [cce_lookup].
  destruct (N.eqb_spec c 38) as [->|H1]; [discriminate|].
  destruct (N.eqb_spec c 62) as [->|H2]; [discriminate|].
  destruct (N.eqb_spec c 60) as [->|H3]; [discriminate|exact Hc].
Qed.

Lemma lstrip_char_esc X : py_lstrip_char (esc_text X) 10%N = esc_text (py_lstrip_char X 10%N).
Proof.
  induction X as [|c r IH]; [reflexivity|].
  change (esc_text (c :: r)) with (cce_lookup pp_cce_text c ++ esc_text r). cbn [py_lstrip_char].
  destruct (N.eqb_spec c 10) as [->|Hc].
  - change (cce_lookup pp_cce_text 10%N) with [10%N]. cbn [app py_lstrip_char N.eqb Pos.eqb]. exact IH.
  - pose proof (esc_head_not_lf c Hc) as Hh. destruct (cce_lookup pp_cce_text c) as [|d x] eqn:E; [destruct Hh|].
    cbn [app py_lstrip_char]. destruct (N.eqb_spec d 10) as [->|_]; [exfalso; apply Hh; reflexivity|].
    change (esc_text (c :: r)) with (cce_lookup pp_cce_text c ++ esc_text r). rewrite E. reflexivity.
Qed.

(* one write of escaped data: what is read back is the data, or the data without its leading newlines when the
   stream stood at the start of a line *)
Lemma emit_esc st X : exists X',
  fst (emit_raw st (esc_text X)) = [KRaw (esc_text X')] /\ sees [KRaw (esc_text X')] X' /\
  (X' = X \/ (w_off st = 0%Z /\ X' = py_lstrip_char X 10%N)) /\
  (X' = [] -> snd (emit_raw st (esc_text X)) = st).
Proof.
  unfold emit_raw, emit.
  destruct (writer_shape (w_pres st) (w_off st) (esc_text X)) as (d' & Hd & H).
  assert (Hx : exists X', d' = esc_text X' /\ (X' = X \/ (w_off st = 0%Z /\ X' = py_lstrip_char X 10%N))).
  { destruct Hd as [->|(_ & Ho & ->)]; [exists X; auto|]. exists (py_lstrip_char X 10%N). rewrite lstrip_char_esc. auto. }
  destruct Hx as (X' & -> & HX). exists X'.
  assert (Hs : sees [KRaw (esc_text X')] X') by (pose proof (sees_raw (esc_text X')) as Hs; rewrite unesc_esc_text in Hs; exact Hs).
  destruct H as [[E0 Ew]|(Hn & Ef & _)].
  - rewrite Ew. cbn [fst snd]. rewrite E0. apply esc_text_nil in E0. subst X'. repeat split; try assumption.
    intros _. destruct st; reflexivity.
  - destruct (writer_call (w_pres st) (w_off st) (esc_text X)) as [d o]. cbn [fst snd] in *. subst d.
    repeat split; try assumption. intros ->. exfalso. apply Hn. reflexivity.
Qed.

Lemma lstrip_char_nolf X : match X with c :: _ => c <> LF | [] => True end -> py_lstrip_char X 10%N = X.
Proof. apply lstrip_char_id. Qed.

(* the offset after a write *)
Lemma emit_raw_snd st d : snd (emit_raw st d) = snd (emit st d).
Proof. unfold emit_raw. destruct (emit st d). reflexivity. Qed.
Lemma emit_raw_fst st d : fst (emit_raw st d) = [KRaw (fst (emit st d))].
Proof. unfold emit_raw. destruct (emit st d). reflexivity. Qed.

Lemma ends_lf_app_NL d : ends_lf (d ++ NL) = true.
Proof. unfold NL. rewrite ends_lf_snoc. reflexivity. Qed.

(* data ending in a newline: the offset is 0 afterwards *)
Lemma emit_off_lf st d : ends_lf d = true -> match d with c :: _ => c <> LF | [] => True end ->
  w_off (snd (emit st d)) = 0%Z.
Proof.
  intros Hl Hh. unfold emit. destruct (writer_shape (w_pres st) (w_off st) d) as (d' & Hd & H).
  assert (Ed : d' = d) by (destruct Hd as [->|(_ & _ & ->)]; [reflexivity|apply lstrip_char_id; exact Hh]). subst d'.
  destruct H as [[-> _]|(_ & _ & [[_ Es]|[El _]])]; [discriminate| |unfold ends_lf in Hl; congruence].
  destruct (writer_call (w_pres st) (w_off st) d). exact Es.
Qed.

(* ------------------------------------------------------------------------------------------ *)
(* the text step *)

Lemma last_nows_not_lf d : last_nows d -> ends_lf d = false.
Proof.
  unfold last_nows, head_nows, ends_lf, py_last1. destruct (rev d) as [|c r]; [tauto|]. intros H. cbn.
  destruct (N.eqb_spec c 10) as [->|]; [exfalso; revert H; vm_compute; discriminate|reflexivity].
Qed.

Lemma ws_indent_optsp x : ws_indent (optsp x) = true. Proof. destruct x; reflexivity. Qed.

Lemma esc_text_last_nows x : x <> [] -> last_nows x -> last_nows (esc_text x).
Proof.
  intros Hn Hl. destruct (rev x) as [|c r] eqn:Er; [exfalso; apply Hn; rewrite <- (rev_involutive x), Er; reflexivity|].
  assert (Ek : x = rev r ++ [c]) by (rewrite <- (rev_involutive x), Er; reflexivity).
  unfold last_nows in Hl. rewrite Er in Hl. cbn in Hl. rewrite Ek. rewrite esc_text_app. apply last_nows_app.
  change (esc_text [c]) with (cce_lookup pp_cce_text c ++ []). rewrite app_nil_r.
  destruct (esc_char_cases c) as [[Hw _]|[_ (d & y & E & HF)]]; [congruence|]. rewrite E. apply all_nows_last; [discriminate|exact HF].
Qed.

(* ------------------------------------------------------------------------------------------ *)
(* the lines of the generated _wrap_text on escaped text, as segments of the unescaped text *)

(* wl w t us c: the lines us are t cut at single spaces; c = the last cut consumed the final space of t *)
Inductive wl (w : nat) : str -> list str -> bool -> Prop :=
| wl_one t : t <> [] -> wl w t [t] false
| wl_consumed ta : (w <= length (esc_text ta))%nat -> wl w (ta ++ [SP]) [ta] true
| wl_step ta tb us c : tb <> [] -> wl w tb us c -> wl w (ta ++ SP :: tb) (ta :: us) c.

Lemma wl_nonempty w t us c : wl w t us c -> us <> [].
Proof. intros H. inversion H; discriminate. Qed.

Lemma lines_spec_nil w ls : lines_spec w [] ls -> ls = [].
Proof. intros H. inversion H; subst; try reflexivity; try congruence; cbn in *; lia. Qed.

Lemma lines_spec_wl w text ls : lines_spec w text ls -> forall t, text = esc_text t -> t <> [] ->
  exists us c, ls = map esc_text us /\ wl w t us c.
Proof.
  induction 1 as [| text Hne Hl | text out rest lines Hlen Hs Hr IH | text out Hlen Hs]; intros t Et Hn.
  - symmetry in Et. apply esc_text_nil in Et. congruence.
  - exists [t], false. subst text. split; [reflexivity|apply wl_one; exact Hn].
  - subst text.
    assert (Hsp : exists line, out = [line] /\ esc_text t = line ++ SP :: rest).
    { inversion Hs as [line0 rest0 E0 _ _ _|line0 rest0 E0 _ _|]; subst; exists line0; split; try reflexivity; exact E0. }
    destruct Hsp as (line & -> & Etext).
    destruct (esc_split t _ _ Etext) as (ta & tb & -> & Ea & Eb).
    destruct tb as [|c0 tb'].
    + cbn in Eb. subst rest. rewrite (lines_spec_nil w lines Hr). exists [ta], true. subst line.
      split; [reflexivity|]. apply wl_consumed. rewrite esc_text_app in Hlen. rewrite app_length in Hlen. cbn in Hlen. lia.
    + destruct (IH (c0 :: tb') (eq_sym Eb) ltac:(discriminate)) as (us & c & -> & Hw).
      exists (ta :: us), c. subst line. split; [reflexivity|]. apply wl_step; [discriminate|exact Hw].
  - inversion Hs; subst. exists [t], false. split; [reflexivity|apply wl_one; exact Hn].
Qed.

Lemma wrap_lines_wl t (width : Z) : (1 <= width)%Z -> t <> [] ->
  exists us c, wrap_text (esc_text t) width = Some (map esc_text us) /\ wl (Z.to_nat width) t us c.
Proof.
  intros Hw Hn. destruct (wrap_text_total_and_greedy (esc_text t) (Z.to_nat width) ltac:(lia)) as (ls & E & Hs).
  rewrite Z2Nat.id in E by lia. destruct (lines_spec_wl _ _ _ Hs t eq_refl Hn) as (us & c & -> & Hwl).
  exists us, c. split; [exact E|exact Hwl].
Qed.

(* collapsing does not see where the lines were cut *)
Lemma wl_collapse w t us c sep : wl w t us c -> all_ws sep -> sep <> [] ->
  exists t0, t = t0 ++ optsp c /\
    forall b, collapse_aux b (py_join sep us) = collapse_aux b t0 /\ endws b (py_join sep us) = endws b t0.
Proof.
  intros H Hs Hn. induction H as [t Ht | ta Hl | ta tb us c Htb Hw IH].
  - exists t. split; [cbn; rewrite app_nil_r; reflexivity|]. intros b. split; reflexivity.
  - exists ta. split; [reflexivity|]. intros b. split; reflexivity.
  - destruct IH as (t0 & -> & IH). exists (ta ++ SP :: t0). split; [rewrite <- app_assoc; reflexivity|].
    pose proof (wl_nonempty _ _ _ _ Hw) as Hne. intros b.
    assert (Ej : py_join sep (ta :: us) = ta ++ sep ++ py_join sep us) by (destruct us; [congruence|reflexivity]).
    rewrite Ej. rewrite !collapse_aux_app, !endws_app. rewrite (endws_ws _ sep Hs).
    replace (negb (null sep)) with true by (destruct sep; [congruence|reflexivity]). rewrite orb_true_r.
    destruct (IH true) as [E1 E2]. split.
    + f_equal. rewrite (collapse_aux_ws _ sep Hs). replace (null sep) with false by (destruct sep; [congruence|reflexivity]).
      rewrite orb_false_r. change (SP :: t0) with ([SP] ++ t0). rewrite collapse_aux_app.
      rewrite (collapse_aux_ws _ [SP]) by (constructor; [exact is_ws_SP|constructor]). cbn [null orb].
      rewrite orb_false_r. f_equal.
      replace (endws (endws b ta) [SP]) with true by (unfold endws; cbn; rewrite is_ws_SP; reflexivity). exact E1.
    + change (SP :: t0) with ([SP] ++ t0). rewrite endws_app.
      replace (endws (endws b ta) [SP]) with true by (unfold endws; cbn; rewrite is_ws_SP; reflexivity). exact E2.
Qed.

(* the segments of a text without adjacent whitespace that begins with a non-whitespace character begin that way too *)
Lemma wl_segs_ok w t us c : wl w t us c -> naw false t = true -> head_nows t -> Forall head_nows us.
Proof.
  induction 1 as [t Ht | ta Hl | ta tb us c Htb Hw IH]; intros Hn Hh.
  - constructor; [exact Hh|constructor].
  - constructor; [|constructor]. destruct ta as [|c0 r]; [cbn in Hh; rewrite is_ws_SP in Hh; discriminate|exact Hh].
  - destruct (naw_split ta tb false Hn) as (_ & Hb & Hc).
    constructor.
    + destruct ta as [|c0 r]; [cbn in Hh; rewrite is_ws_SP in Hh; discriminate|exact Hh].
    + apply IH; [exact Hc|]. destruct tb as [|c0 r]; [congruence|exact Hb].
Qed.

Lemma naw_snoc_sp k : forall b, naw b k = true -> last_nows k -> naw b (k ++ [SP]) = true.
Proof.
  induction k as [|c r IH]; intros b Hn Hl; [unfold last_nows in Hl; cbn in Hl; tauto|].
  cbn [app naw] in *. apply andb_prop in Hn as [H1 H2]. rewrite H1. cbn [andb].
  destruct r as [|d r'].
  - unfold last_nows in Hl. cbn in Hl. cbn [app naw]. rewrite Hl. reflexivity.
  - apply IH; [exact H2|]. unfold last_nows in *. cbn [rev] in *.
    destruct (rev r' ++ [d]) eqn:E; [destruct (rev r'); discriminate|]. cbn in *. exact Hl.
Qed.

Lemma text_tail_naw k trail : core k -> naw false (k ++ optsp trail) = true /\ head_nows (k ++ optsp trail) /\ k ++ optsp trail <> [].
Proof.
  intros (Hh & Hl & Hc). assert (Hn : naw false k = true) by (apply collapse_fix_naw; exact Hc).
  split; [|split].
  - destruct trail; cbn [optsp]; [apply naw_snoc_sp; assumption|rewrite app_nil_r; exact Hn].
  - apply head_nows_app. exact Hh.
  - destruct k; [cbn in Hh; tauto|discriminate].
Qed.

Lemma head_nows_ok u : head_nows u -> u <> [] /\ match u with c :: _ => c <> LF | [] => True end.
Proof.
  destruct u as [|c r]; [cbn; tauto|]. cbn. intros H. split; [discriminate|]. intros ->. revert H. vm_compute. discriminate.
Qed.

(* more string facts *)
Lemma rstrip_app_ws a w : (a = [] \/ last_nows a) -> all_ws w -> rstrip (a ++ w) = a.
Proof.
  intros [->|Ha] Hw; [apply rstrip_all_ws; exact Hw|].
  unfold rstrip. rewrite rev_app_distr.
  assert (El : lstrip (rev w ++ rev a) = rev a).
  { assert (Hrw : all_ws (rev w)).
    { unfold all_ws in *. rewrite Forall_forall in *. intros c Hc. apply Hw. apply in_rev. exact Hc. }
    clear Hw. induction Hrw as [|c r Hc _ IH]; cbn [app lstrip].
    - unfold last_nows in Ha. destruct (rev a) as [|c r]; [cbn in Ha; tauto|]. cbn in Ha. cbn. rewrite Ha. reflexivity.
    - rewrite Hc. exact IH. }
  rewrite El. apply rev_involutive.
Qed.

Lemma rstrip_split u : exists w, all_ws w /\ u = rstrip u ++ w /\ (rstrip u = [] \/ last_nows (rstrip u)).
Proof.
  destruct (lstrip_split (rev u)) as (w & Hw & E & Hh). exists (rev w). split.
  - unfold all_ws in *. rewrite Forall_forall in *. intros c Hc. apply Hw. apply in_rev. exact Hc.
  - split.
    + unfold rstrip. rewrite <- rev_app_distr, <- E, rev_involutive. reflexivity.
    + unfold rstrip. destruct Hh as [E0|Hh]; [left; rewrite E0; reflexivity|right]. unfold last_nows. rewrite rev_involutive. exact Hh.
Qed.

Lemma esc_all_ws w : all_ws w -> esc_text w = w.
Proof.
  induction 1 as [|c r Hc _ IH]; [reflexivity|]. change (esc_text (c :: r)) with (cce_lookup pp_cce_text c ++ esc_text r).
  destruct (esc_char_cases c) as [[_ E]|[Hn _]]; [|congruence]. rewrite E, IH. reflexivity.
Qed.

Lemma rstrip_esc u : rstrip (esc_text u) = esc_text (rstrip u).
Proof.
  destruct (rstrip_split u) as (w & Hw & E & Hl). rewrite E at 1. rewrite esc_text_app, (esc_all_ws w Hw).
  apply rstrip_app_ws; [|exact Hw]. destruct Hl as [->|Hl]; [left; reflexivity|right].
  apply esc_text_last_nows; [|exact Hl]. intros E0. rewrite E0 in Hl. unfold last_nows in Hl. cbn in Hl. tauto.
Qed.

Lemma join_snoc sep ini x w : py_join sep (ini ++ [x ++ w]) = py_join sep (ini ++ [x]) ++ w.
Proof.
  induction ini as [|y r IH]; [reflexivity|]. destruct r as [|z r'].
  - cbn [app py_join]. rewrite <- !app_assoc. reflexivity.
  - change ((y :: z :: r') ++ [x ++ w]) with (y :: (z :: r') ++ [x ++ w]).
    change ((y :: z :: r') ++ [x]) with (y :: (z :: r') ++ [x]).
    assert (Hc : forall q, py_join sep (y :: (z :: r') ++ [q]) = y ++ sep ++ py_join sep ((z :: r') ++ [q])) by reflexivity.
    rewrite !Hc, IH. rewrite <- !app_assoc. reflexivity.
Qed.

Lemma ws_block w g : all_ws w -> all_ws g -> g <> [] -> forall b Y,
  collapse_aux b (w ++ g ++ Y) = collapse_aux b (g ++ Y) /\ endws b (w ++ g) = endws b g.
Proof.
  intros Hw Hg Hn b Y. rewrite !collapse_aux_app, !endws_app. rewrite (endws_ws b w Hw), !(endws_ws _ g Hg).
  replace (negb (null g)) with true by (destruct g; [congruence|reflexivity]). rewrite !orb_true_r.
  rewrite (collapse_aux_ws b w Hw), !(collapse_aux_ws _ g Hg).
  replace (null g) with false by (destruct g; [congruence|reflexivity]). rewrite !orb_false_r.
  split; [|reflexivity]. destruct b; cbn [orb negb app]; [reflexivity|]. destruct (null w); reflexivity.
Qed.

Lemma collapse_replace J t0 g0 g1 : (forall b, collapse_aux b J = collapse_aux b t0 /\ endws b J = endws b t0) ->
  collapse (g0 ++ J ++ g1) = collapse (g0 ++ t0 ++ g1).
Proof.
  intros H. unfold collapse. rewrite !collapse_aux_app. destruct (H (endws false g0)) as [E1 E2]. rewrite E1, E2. reflexivity.
Qed.

Lemma head_nows_rstrip u : head_nows u -> rstrip u <> [] /\ head_nows (rstrip u).
Proof.
  intros Hh. destruct (rstrip_split u) as (w & Hw & E & _). destruct (rstrip u) as [|c r] eqn:Er.
  - exfalso. cbn in E. rewrite E in Hh. destruct w as [|c r]; [cbn in Hh; tauto|]. cbn in Hh. inversion Hw; subst. congruence.
  - split; [discriminate|]. rewrite E in Hh. exact Hh.
Qed.

Section TextStep.
  Variable ind : str.
  Variable width : Z.
  Variable req : rpath -> Z -> option Z.
  Hypothesis ind_ws : ws_indent ind = true.
  Hypothesis ind_nolf : no_lf ind = true.
  Hypothesis width_pos : (1 <= width)%Z.

  Definition owed (L : nat) (st : wst) : Prop := w_off st <> 0%Z /\ available ind width L st = 0%Z.

  (* one write of  pre ++ k ++ sfx  (whitespace, a text in normal form, whitespace) *)
  Lemma emit_one st pre k sfx : core k -> ws_indent pre = true -> ws_indent sfx = true ->
    match pre with c :: _ => c <> LF | [] => True end -> (0 <= w_off st)%Z ->
    sees (fst (emit_raw st (esc_text (pre ++ k ++ sfx)))) (pre ++ k ++ sfx) /\
    collapse (pre ++ k ++ sfx) = optsp (negb (null pre)) ++ k ++ optsp (negb (null sfx)) /\
    (0 <= w_off (snd (emit_raw st (esc_text (pre ++ k ++ sfx)))))%Z /\
    (w_off (snd (emit_raw st (esc_text (pre ++ k ++ sfx)))) = 0%Z -> null sfx = false).
  Proof.
    intros Hk Hp Hs Hh Ho. pose proof Hk as (Hkh & Hkl & _).
    assert (Hhead : match pre ++ k ++ sfx with c :: _ => c <> LF | [] => True end).
    { destruct pre as [|c r]; [|exact Hh]. cbn [app]. destruct k as [|c r]; [cbn in Hkh; tauto|]. cbn [app].
      cbn in Hkh. intros ->. revert Hkh. vm_compute. discriminate. }
    destruct (emit_esc st (pre ++ k ++ sfx)) as (X' & E & Hsee & HX & _).
    assert (EX : X' = pre ++ k ++ sfx) by (destruct HX as [->|[_ ->]]; [reflexivity|apply lstrip_char_nolf; exact Hhead]). subst X'.
    rewrite E. split; [exact Hsee|]. split.
    - apply collapse_pad; [apply all_ws_ws_indent; exact Hp|apply all_ws_ws_indent; exact Hs|exact Hk].
    - rewrite emit_raw_snd. split; [apply emit_nonneg; exact Ho|].
      intros Hz. destruct sfx as [|c r]; [|reflexivity]. exfalso. rewrite app_nil_r in Hz.
      assert (Hm : markup (esc_text (pre ++ k))).
      { assert (Hne : pre ++ k <> []) by (destruct pre; [destruct k; [cbn in Hkh; tauto|discriminate]|discriminate]).
        assert (Hl : last_nows (esc_text (pre ++ k))) by (apply esc_text_last_nows; [exact Hne|apply last_nows_app; exact Hkl]).
        repeat split.
        - intros E0. apply esc_text_nil in E0. exact (Hne E0).
        - rewrite app_nil_r in Hhead. destruct (pre ++ k) as [|c r] eqn:Epk; [congruence|].
          change (esc_text (c :: r)) with (cce_lookup pp_cce_text c ++ esc_text r).
          pose proof (esc_head_not_lf c Hhead) as H1. destruct (cce_lookup pp_cce_text c); [destruct H1|exact H1].
        - apply last_nows_not_lf. exact Hl. }
      destruct (emit_markup st _ Ho Hm) as [_ Hpos]. lia.
  Qed.

  (* ---- writing lines: the data read back, up to what collapse can see ------------------------------------- *)

  (* the rendering of a list of (unescaped) lines without any stripping *)
  Fixpoint WR (i : str) (us : list str) : str :=
    match us with
    | [] => []
    | [u] => if null u then [] else i ++ u
    | u :: r => (if null u then NL else i ++ u ++ NL) ++ WR i r
    end.
  Lemma WR_cons i u r : r <> [] -> WR i (u :: r) = (if null u then NL else i ++ u ++ NL) ++ WR i r.
  Proof. destruct r; [congruence|reflexivity]. Qed.

  Definition head_ok (u : str) : Prop := match u with c :: _ => c <> LF | [] => True end.

  Lemma null_esc u : null (esc_text u) = null u.
  Proof.
    destruct u as [|c r]; [reflexivity|]. change (esc_text (c :: r)) with (cce_lookup pp_cce_text c ++ esc_text r).
    destruct (esc_char_cases c) as [[_ E]|[_ (d & x & E & _)]]; rewrite E; reflexivity.
  Qed.

  Lemma line_head_ok L u x : head_ok u -> u <> [] -> head_ok (indent ind L ++ u ++ x).
  Proof.
    intros Hu Hn. pose proof (indent_head_nolf ind ind_nolf L (u ++ x)) as H. unfold head_ok.
    destruct (indent ind L ++ u ++ x) as [|c r] eqn:E; [exact I|]. intros ->.
    assert (Hh : match u ++ x with c :: _ => N.eqb c LF = false | [] => True end).
    { destruct u as [|c0 u0]; [congruence|]. cbn [app]. cbn in Hu. destruct (N.eqb_spec c0 LF); [congruence|reflexivity]. }
    specialize (H Hh). cbn in H. discriminate.
  Qed.

  Lemma write_lines_calc L us : Forall head_ok us -> forall st, (0 <= w_off st)%Z ->
    exists D, sees (fst (write_lines ind L st (map esc_text us))) D /\
      (forall b Y, (w_off st = 0%Z -> null (hd [SP] us) = true -> b = true) ->
         collapse_aux b (D ++ Y) = collapse_aux b (WR (indent ind L) us ++ Y) /\
         endws b D = endws b (WR (indent ind L) us)) /\
      (0 <= w_off (snd (write_lines ind L st (map esc_text us))))%Z.
  Proof.
    induction 1 as [|u r Hu Hr IH]; intros st Ho.
    - exists []. cbn [map write_lines fst snd WR]. split; [apply sees_nil|]. split; [intros b Y _; split; reflexivity|exact Ho].
    - destruct r as [|u2 r'].
      + (* the last line *)
        cbn [map write_lines WR]. rewrite null_esc. destruct (null u) eqn:En.
        * exists []. cbn [fst snd]. split; [apply sees_nil|]. split; [intros b Y _; split; reflexivity|exact Ho].
        * assert (Hun : u <> []) by (destruct u; [discriminate|discriminate]).
          replace (indent ind L ++ esc_text u) with (esc_text (indent ind L ++ u))
            by (rewrite esc_text_app, (esc_ws_indent _ (ws_indent_indent ind ind_ws L)); reflexivity).
          destruct (emit_esc st (indent ind L ++ u)) as (X' & E & Hs & HX & _).
          assert (EX : X' = indent ind L ++ u).
          { destruct HX as [->|[_ ->]]; [reflexivity|]. apply lstrip_char_nolf.
            pose proof (line_head_ok L u [] Hu Hun) as H. rewrite app_nil_r in H. exact H. }
          subst X'. exists (indent ind L ++ u). rewrite E. split; [exact Hs|]. split; [intros b Y _; split; reflexivity|].
          rewrite emit_raw_snd. apply emit_nonneg. exact Ho.
      + (* a line followed by more *)
        change (map esc_text (u :: u2 :: r')) with (esc_text u :: map esc_text (u2 :: r')).
        rewrite (write_lines_cons ind L st (esc_text u) (map esc_text (u2 :: r'))) by discriminate.
        rewrite (WR_cons (indent ind L) u (u2 :: r')) by discriminate. rewrite null_esc.
        destruct (null u) eqn:En.
        * (* an empty line: a bare newline, dropped at the start of a line *)
          change (emit_raw st NL) with (emit_raw st (esc_text NL)).
          destruct (emit_esc st NL) as (X' & E & Hs & HX & Hsame).
          pose proof (emit_raw_nonneg st (esc_text NL) Ho) as Hn1.
          destruct (emit_raw st (esc_text NL)) as [c0 st1]. cbn [fst snd] in *. subst c0.
          destruct (IH st1 Hn1) as (D & HsD & Hc & Hn2).
          destruct (write_lines ind L st1 (map esc_text (u2 :: r'))) as [cs st2]. cbn [fst snd] in *.
          exists (X' ++ D). split; [apply sees_app; assumption|]. split; [|exact Hn2].
          intros b Y Hb. destruct HX as [->|[H0 ->]].
          -- rewrite <- !app_assoc. rewrite !(collapse_aux_app NL), !(endws_app _ NL).
             destruct (Hc (endws b NL) Y) as [E1 E2]; [intros _ _; unfold endws; reflexivity|].
             split; [f_equal; exact E1|exact E2].
          -- assert (Estrip : py_lstrip_char NL 10%N = []) by reflexivity. rewrite Estrip in *.
             specialize (Hsame eq_refl). subst st1.
             specialize (Hb H0 En). subst b. destruct (Hc true Y (fun _ _ => eq_refl)) as [E1 E2].
             change ([] ++ D) with D. rewrite <- (app_assoc NL). rewrite (collapse_aux_app NL), (endws_app _ NL).
             replace (collapse_aux true NL) with (@nil char) by reflexivity.
             replace (endws true NL) with true by reflexivity. cbn [app]. split; assumption.
        * assert (Hun : u <> []) by (destruct u; [discriminate|discriminate]).
          replace (indent ind L ++ esc_text u ++ NL) with (esc_text (indent ind L ++ u ++ NL))
            by (rewrite !esc_text_app, (esc_ws_indent _ (ws_indent_indent ind ind_ws L)); reflexivity).
          destruct (emit_esc st (indent ind L ++ u ++ NL)) as (X' & E & Hs & HX & _).
          assert (EX : X' = indent ind L ++ u ++ NL).
          { destruct HX as [->|[_ ->]]; [reflexivity|]. apply lstrip_char_nolf. exact (line_head_ok L u NL Hu Hun). }
          subst X'. pose proof (emit_raw_nonneg st (esc_text (indent ind L ++ u ++ NL)) Ho) as Hn1.
          destruct (emit_raw st (esc_text (indent ind L ++ u ++ NL))) as [c0 st1]. cbn [fst snd] in *. subst c0.
          destruct (IH st1 Hn1) as (D & HsD & Hc & Hn2).
          destruct (write_lines ind L st1 (map esc_text (u2 :: r'))) as [cs st2]. cbn [fst snd] in *.
          exists ((indent ind L ++ u ++ NL) ++ D). split; [apply sees_app; assumption|]. split; [|exact Hn2].
          intros b Y _. rewrite <- !(app_assoc (indent ind L ++ u ++ NL)).
          rewrite !(collapse_aux_app (indent ind L ++ u ++ NL)), !(endws_app _ (indent ind L ++ u ++ NL)).
          assert (Ee : endws b (indent ind L ++ u ++ NL) = true).
          { rewrite !endws_app. unfold endws at 1. reflexivity. }
          rewrite Ee. destruct (Hc true Y (fun _ _ => eq_refl)) as [E1 E2]. split; [f_equal; exact E1|exact E2].
  Qed.

  Lemma WR_nonempty i us : Forall (fun u : str => u <> []) us -> us <> [] ->
    WR i us = i ++ py_join (NL ++ i) us /\ WR i (us ++ [[]]) = i ++ py_join (NL ++ i) us ++ NL.
  Proof.
    induction 1 as [|u r Hu Hr IH]; intros Hn; [congruence|]. destruct r as [|u2 r'].
    - cbn [WR app py_join]. replace (null u) with false by (destruct u; [congruence|reflexivity]).
      split; [reflexivity|]. rewrite app_nil_r, <- app_assoc. reflexivity.
    - destruct (IH ltac:(discriminate)) as [E1 E2].
      change ((u :: u2 :: r') ++ [[]]) with (u :: (u2 :: r') ++ [[]]).
      rewrite (WR_cons i u (u2 :: r')) by discriminate. rewrite (WR_cons i u ((u2 :: r') ++ [[]])) by discriminate.
      replace (null u) with false by (destruct u; [congruence|reflexivity]). rewrite E1, E2.
      rewrite join_cons2. rewrite <- !app_assoc. split; reflexivity.
  Qed.

  (* ---- _consolidate_text_lines on the line lists that occur ------------------------------------------------ *)

  Definition upd (us : list str) (T : bool) : list str :=
    if T then removelast us ++ [rstrip (last us [])] else us.

  Definition c3 (lines : list str) : list str :=
    if (Nat.leb 2 (length lines) && null (last lines [SP]))%bool then
      match rev lines with
      | e :: l2 :: more => rev more ++ [rstrip l2; e]
      | _ => lines
      end
    else lines.
  Lemma c3_T (A : list str) (x : str) : c3 (A ++ [x; []]) = A ++ [rstrip x; []].
  Proof.
    unfold c3. replace (Nat.leb 2 (length (A ++ [x; []]))) with true by (rewrite app_length; cbn [length]; symmetry; apply Nat.leb_le; lia).
    replace (last (A ++ [x; []]) [SP]) with (@nil char) by (change [x; []] with ([x] ++ [[]]); rewrite app_assoc; symmetry; apply last_last).
    cbn [null andb]. rewrite rev_app_distr. cbn [rev app]. rewrite rev_involutive. reflexivity.
  Qed.
  Lemma c3_F (A : list str) (x : str) : x <> [] -> c3 (A ++ [x]) = A ++ [x].
  Proof.
    intros Hx. unfold c3. rewrite last_last. replace (null x) with false by (destruct x; [congruence|reflexivity]).
    rewrite andb_false_r. reflexivity.
  Qed.
  Lemma consolidate_unfold L st is_last la lines :
    consolidate L st is_last la lines =
    c3 (let l1 := if (null (hd [SP] lines) && is_last && la)%bool then lines ++ [[]] else lines in
        if ((w_off st =? 0)%Z && null (hd [SP] l1))%bool then tl l1 else l1).
  Proof. reflexivity. Qed.

  Lemma c3_T1 (A : list str) (x : str) : c3 ((A ++ [x]) ++ [[]]) = A ++ [rstrip x] ++ [[]].
  Proof. rewrite <- app_assoc. exact (c3_T A x). Qed.
  Lemma c3_T2 (h : str) (A : list str) (x : str) : c3 (h :: (A ++ [x]) ++ [[]]) = h :: A ++ [rstrip x] ++ [[]].
  Proof. rewrite <- app_assoc. exact (c3_T (h :: A) x). Qed.
  Lemma c3_F2 (h : str) (A : list str) (x : str) : x <> [] -> c3 (h :: A ++ [x]) = h :: A ++ [x].
  Proof. exact (c3_F (h :: A) x). Qed.

  Lemma consolidate_form L st is_last la (X : bool) us : us <> [] -> last us [] <> [] -> (X = true -> is_last = false) ->
    consolidate L st is_last la (([] :: map esc_text us) ++ (if X then [[]] else []))
    = (if (w_off st =? 0)%Z then [] else [[]]) ++ map esc_text (upd us (X || (is_last && la)))
      ++ (if (X || (is_last && la))%bool then [[]] else []).
  Proof.
    intros Hne Hlast HX. destruct (exists_last Hne) as (ini & un & ->). rewrite last_last in Hlast.
    rewrite consolidate_unfold. unfold upd. rewrite removelast_last, last_last, map_app. cbn [map].
    assert (Hun : esc_text un <> []) by (intros E; apply esc_text_nil in E; congruence).
    destruct X.
    - rewrite (HX eq_refl). cbn [andb orb app hd null]. rewrite ?andb_false_r. cbn zeta.
      destruct (w_off st =? 0)%Z; cbn [andb hd null tl app].
      + rewrite c3_T1, rstrip_esc, map_app. cbn [map]. rewrite <- app_assoc. reflexivity.
      + rewrite c3_T2, rstrip_esc, map_app. cbn [map]. rewrite <- app_assoc. reflexivity.
    - cbn [orb app hd null andb]. rewrite app_nil_r. destruct (is_last && la)%bool; cbn zeta.
      + destruct (w_off st =? 0)%Z; cbn [andb hd null tl app].
        * rewrite c3_T1, rstrip_esc, map_app. cbn [map]. rewrite <- app_assoc. reflexivity.
        * rewrite c3_T2, rstrip_esc, map_app. cbn [map]. rewrite <- app_assoc. reflexivity.
      + destruct (w_off st =? 0)%Z; cbn [andb hd null tl app].
        * rewrite c3_F by exact Hun. rewrite app_nil_r, map_app. reflexivity.
        * rewrite c3_F2 by exact Hun. rewrite app_nil_r, map_app. reflexivity.
  Qed.

  Definition tstep_post (L : nat) (st st' : wst) (cs : list chunk) (p : str) (prev next : option node)
             (lead trail : bool) (k : str) : Prop :=
    exists D a b, sees cs D /\ collapse D = optsp a ++ k ++ optsp b /\
      (lead = true -> a = true \/ p <> []) /\
      (prev <> None -> lead = false -> a = false) /\
      (b = true -> legit_after (Text (optsp lead ++ k ++ optsp trail)) next = true) /\
      (trail = true -> b = true \/ owed L st') /\
      (0 <= w_off st')%Z /\ (w_off st' = 0%Z -> b = true).

  Section OneText.
    Variables (L : nat) (st : wst) (p : str) (prev next : option node) (lead trail : bool) (k : str).
    Hypothesis Hk : core k.
    Notation s := (optsp lead ++ k ++ optsp trail).
    Hypothesis Hinv : winv st p prev (Some (Text s)).
    Hypothesis Hprev : prev = None -> lead = false.

    Lemma s_starts : starts_ws s = lead.
    Proof. apply starts_ws_form. exact (proj1 Hk). Qed.
    Lemma s_ends : ends_ws s = trail.
    Proof. apply (ends_ws_form (optsp lead)). exact (proj1 (proj2 Hk)). Qed.
    Lemma la_trail : trail = true -> legit_after (Text s) next = true.
    Proof. intros Ht. destruct next; [|reflexivity]. cbn [legit_after]. rewrite s_ends. exact Ht. Qed.
    Lemma lb_lead : prev <> None -> legit_before prev (Text s) = lead.
    Proof. destruct prev; [|congruence]. intros _. cbn [legit_before]. apply s_starts. Qed.
    Lemma off0_lb : w_off st = 0%Z -> legit_before prev (Text s) = true /\ p <> [].
    Proof. intros H. destruct Hinv as (_ & _ & H1 & H2). specialize (H1 H). split; [exact (H2 H1)|exact H1]. Qed.
    Lemma nolead_off : prev <> None -> lead = false -> w_off st <> 0%Z.
    Proof. intros Hp Hl H0. destruct (off0_lb H0) as [Hlb _]. rewrite (lb_lead Hp) in Hlb. congruence. Qed.

    Definition pre_of : str := if (w_off st =? 0)%Z then indent ind L else optsp lead.
    Lemma pre_of_ws : ws_indent pre_of = true.
    Proof. unfold pre_of. destruct (w_off st =? 0)%Z; [apply ws_indent_indent; exact ind_ws|apply ws_indent_optsp]. Qed.
    Lemma pre_of_head : match pre_of with c :: _ => c <> LF | [] => True end.
    Proof.
      unfold pre_of. destruct (w_off st =? 0)%Z.
      - pose proof (indent_head_nolf ind ind_nolf L [] I) as H. rewrite app_nil_r in H.
        destruct (indent ind L) as [|c r]; [exact I|]. intros ->. discriminate.
      - destruct lead; [discriminate|exact I].
    Qed.

    (* the text written in one piece, followed by a newline (if that is legal) or by its own trailing space *)
    Lemma one_piece_post sfx : (sfx = NL /\ legit_after (Text s) next = true) \/ sfx = optsp trail ->
      tstep_post L st (snd (emit_raw st (esc_text (pre_of ++ k ++ sfx)))) (fst (emit_raw st (esc_text (pre_of ++ k ++ sfx))))
                 p prev next lead trail k.
    Proof.
      intros Hsfx.
      assert (Hws : ws_indent sfx = true) by (destruct Hsfx as [[-> _]| ->]; [reflexivity|apply ws_indent_optsp]).
      destruct (emit_one st pre_of k sfx Hk pre_of_ws Hws pre_of_head (proj1 Hinv)) as (Hs & Hc & Hn & Hz).
      exists (pre_of ++ k ++ sfx), (negb (null pre_of)), (negb (null sfx)).
      split; [exact Hs|]. split; [exact Hc|]. split; [|split; [|split; [|split; [|split]]]].
      - intros Hl. unfold pre_of. destruct (w_off st =? 0)%Z eqn:E0.
        + right. apply Z.eqb_eq in E0. exact (proj2 (off0_lb E0)).
        + left. rewrite Hl. reflexivity.
      - intros Hp Hl. pose proof (nolead_off Hp Hl) as H0. unfold pre_of.
        destruct (w_off st =? 0)%Z eqn:E0; [apply Z.eqb_eq in E0; congruence|]. rewrite Hl. reflexivity.
      - intros Hb. destruct Hsfx as [[_ Hla]| ->]; [exact Hla|]. apply la_trail. destruct trail; [reflexivity|discriminate].
      - intros Ht. left. destruct Hsfx as [[-> _]| ->]; [reflexivity|rewrite Ht; reflexivity].
      - exact Hn.
      - intros H0. rewrite (Hz H0). reflexivity.
    Qed.

    (* the forms of the data *)
    Notation K := (esc_text k).
    Lemma esc_optsp x : esc_text (optsp x) = optsp x. Proof. destruct x; reflexivity. Qed.
    Lemma coreK : core K. Proof. apply esc_core. exact Hk. Qed.
    Lemma e_form : esc_text (collapse s) = optsp lead ++ K ++ optsp trail.
    Proof. rewrite (collapse_nf lead k trail Hk). rewrite !esc_text_app, !esc_optsp. reflexivity. Qed.
    Lemma rstrip_e : rstrip (optsp lead ++ K ++ optsp trail) = optsp lead ++ K.
    Proof. apply rstrip_optsp. exact (proj1 (proj2 coreK)). Qed.
    Lemma lstrip_e : lstrip (optsp lead ++ K ++ optsp trail) = K ++ optsp trail.
    Proof. apply lstrip_optsp. exact (proj1 coreK). Qed.
    Lemma cprime_form :
      (if (w_off st =? 0)%Z then indent ind L ++ lstrip (optsp lead ++ K ++ optsp trail) else optsp lead ++ K ++ optsp trail)
      = pre_of ++ K ++ optsp trail.
    Proof. unfold pre_of. rewrite lstrip_e. destruct (w_off st =? 0)%Z; reflexivity. Qed.
    Lemma rstrip_cprime : rstrip (pre_of ++ K ++ optsp trail) = pre_of ++ K.
    Proof. apply rstrip_optsp. exact (proj1 (proj2 coreK)). Qed.
    Lemma esc_piece sfx : ws_indent sfx = true -> pre_of ++ K ++ sfx = esc_text (pre_of ++ k ++ sfx).
    Proof. intros H. rewrite !esc_text_app. rewrite (esc_ws_indent _ pre_of_ws), (esc_ws_indent _ H). reflexivity. Qed.
    Lemma e_not_sp : str_eqb (optsp lead ++ K ++ optsp trail) [SP] = false.
    Proof. apply core_not_sp. exact coreK. Qed.
  End OneText.
End TextStep.
