(* Namespaced trees as the serializers name them.  Definitions only.

   The serializer models (Ws/Pretty.v, Ws/Wrap.v) are written for trees without namespaces (but xml: attributes).
   Serializer._collect_prefixes assigns a prefix to every namespace of the serialized sub-tree and declares them on
   the serialization root; from then on a node's name is the string prefix ++ local name, an attribute's likewise, and
   the declarations are further attributes of the root.  Names are opaque to everything the formatting serializers
   do (they only measure and copy them), so a namespaced tree is serialized exactly like its *qualified view*: the
   tree without namespaces whose names are the prefixed names and whose root carries the declarations.
   `pf` is the prefix table (namespace -> "" or "prefix:"), `decl` the declaration attributes (xmlns / xmlns:p), as
   computed by the real code (the harness reads them off the plain serialization; Xml/Plain.v models their
   computation for C13 / C02).  That re-reading the prefixed names with these declarations gives the namespaces
   back is C13's statement, not repeated here. *)
From Coq Require Import List NArith.
From Delb.Base Require Import PyStr.
From Delb.Gen Require Import GenNames.
From Delb.Tree Require Import ATree.
Import ListNotations.

Section Qualified.
  Variable pf : str -> str.

  (* attributes in the XML namespace stay what they are (xml:space is read by the whitespace machinery) *)
  Definition qual_attr (a : attr) : attr :=
    let '(ns, k, v) := a in if str_eqb ns xml_ns then a else ([], pf ns ++ k, v).

  Fixpoint qual (n : node) : node :=
    match n with
    | Tag ns name attrs kids => Tag [] (pf ns ++ name) (map qual_attr attrs) (map qual kids)
    | _ => n
    end.

  (* the serialization root carries the namespace declarations in front of its attributes *)
  Definition qual_root (decl : list attr) (n : node) : node :=
    match n with
    | Tag ns name attrs kids => Tag [] (pf ns ++ name) (decl ++ map qual_attr attrs) (map qual kids)
    | _ => n
    end.
End Qualified.

(* declarations are attributes without a namespace *)
Definition plain_decl (decl : list attr) : bool := forallb (fun a : attr => null (fst (fst a))) decl.

(* a prefix table given as an association list (what the harness passes); a namespace without an entry gets no prefix:
   that is how _required_space measures nodes that follow the serialized sub-tree in the document and are in a
   namespace the sub-tree does not use (self._prefixes.get(namespace, ""), e97da64) *)
Fixpoint pf_of (tbl : list (str * str)) (ns : str) : str :=
  match tbl with
  | [] => []
  | (n, p) :: r => if str_eqb n ns then p else pf_of r ns
  end.
