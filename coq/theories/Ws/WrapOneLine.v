(* C19, open finding `C19-oneline-boundary-whitespace`: the fitting test of the wrapping serializer
   (TextWrappingSerializer._required_space_for_text) does not count a blank at the start / end of a text where a
   line break would be legitimate, but the one-line form (_LineFittingSerializer) writes it.  On un-reduced
   text the line that holds the one-line form of a text-only element is therefore up to two characters longer
   than the width although it contains a space.  Evaluated on the model of the serializer (Ws/Wrap.v), which
   the checks of C03 and C19 compare byte for byte with the implementation. *)
From Coq Require Import List NArith ZArith Bool Lia.
From Delb.Base Require Import PyStr.
From Delb.Tree Require Import ATree.
From Delb.Ws Require Import Wrap.
Import ListNotations.

(* <d0><p>ccc\n</p></d0> *)
Definition c19_oneline_witness : node :=
  Tag [] [100; 48]%N [] [Tag [] [112]%N [] [Text [99; 99; 99; 10]%N]].

(* "<p>ccc </p>" *)
Definition c19_oneline_line : str := [60; 112; 62; 99; 99; 99; 32; 60; 47; 112; 62]%N.

Lemma oneline_boundary_refuted :
  exists pre post,
    wrap_str [SP] false 10%Z c19_oneline_witness [] = pre ++ LF :: SP :: c19_oneline_line ++ LF :: post
    /\ (length c19_oneline_line > 10)%nat /\ In SP c19_oneline_line /\ ~ In LF c19_oneline_line.
Proof.
  exists [60; 100; 48; 62]%N, [60; 47; 100; 48; 62]%N.
  split; [vm_compute; reflexivity|].
  split; [vm_compute; lia|].
  split; [vm_compute; tauto|].
  vm_compute. intuition discriminate.
Qed.

(* the same text without the trailing newline is laid out within the width *)
Lemma oneline_reduced_fits :
  wrap_str [SP] false 10%Z (Tag [] [100; 48]%N [] [Tag [] [112]%N [] [Text [99; 99; 99]%N]]) []
  = [60; 100; 48; 62]%N ++ LF :: SP :: [60; 112; 62; 99; 99; 99; 60; 47; 112; 62]%N ++ LF :: [60; 47; 100; 48; 62]%N.
Proof. vm_compute; reflexivity. Qed.
