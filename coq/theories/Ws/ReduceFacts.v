(* Facts about whitespace reduction: the generated rule table is the stated specification,
   the reduction is idempotent on merged trees, and it changes nothing but whitespace. *)
From Coq Require Import List NArith Bool Lia.
From Delb.Base Require Import PyStr PyStrFacts.
From Delb.Gen Require Import GenNames GenReduce.
From Delb.Tree Require Import ATree Merge MergeFacts.
From Delb.Ws Require Import Reduce.
Import ListNotations.

(* ------------------------------------------------------------------------------------------ *)
(* text level *)

Lemma collapse_shape s : exists a', collapse s = optsp a' ++ collapse_aux true s.
Proof.
  unfold collapse. rewrite collapse_false_true.
  destruct s as [|c r]; [exists false; reflexivity|]. destruct (is_ws c); [exists true|exists false]; reflexivity.
Qed.

Lemma strip_core a k b : core k -> strip (optsp a ++ k ++ optsp b) = k.
Proof. intros (Hh & Hl & _). unfold strip. rewrite lstrip_optsp by exact Hh. apply rstrip_optsp0. exact Hl. Qed.

(* the generated function, whatever shape the translator gave it, computes the specification *)
Theorem rule_table_is_spec s f l : reduce_whitespace_content s f l = reduce_text_spec s f l.
Proof.
  unfold reduce_whitespace_content, reduce_text_spec, py_crunch_whitespace, py_strip, py_bool_str.
  rewrite py_startswith_sp, py_endswith_sp.
  destruct (collapse_shape s) as [a' ->].
  destruct (view_collapse_true s) as [|b k Hk].
  - rewrite app_nil_r. destruct a', f, l; reflexivity.
  - pose proof Hk as (Hh & Hl & _).
    rewrite (strip_core a' k b Hk).
    assert (Hn : null k = false) by (destruct k; [cbn in Hh; tauto|reflexivity]). rewrite Hn.
    rewrite (endswith_core (optsp a') k b Hl).
    assert (Hsw : startswith_sp (optsp a' ++ k ++ optsp b) = a').
    { destruct a'; cbn [optsp app]; [reflexivity|apply startswith_core; exact Hh]. }
    rewrite Hsw.
    destruct f, l; cbn [negb andb orb];
      rewrite ?lstrip_optsp by exact Hh; rewrite ?rstrip_optsp by exact Hl; rewrite ?rstrip_optsp0 by exact Hl;
      destruct a', b; cbn [optsp app andb orb negb]; rewrite ?app_nil_r; try reflexivity.
Qed.

Lemma spec_pad w1 k w2 f l : all_ws w1 -> all_ws w2 -> core k ->
  reduce_text_spec (w1 ++ k ++ w2) f l =
  (if f then [] else optsp (negb (null w1))) ++ k ++ (if l then [] else optsp (negb (null w2))).
Proof.
  intros H1 H2 Hk. unfold reduce_text_spec. rewrite (collapse_pad w1 k w2 H1 H2 Hk).
  rewrite (strip_core _ k _ Hk). destruct Hk as (Hh & Hl & _).
  replace (null k) with false by (destruct k; [cbn in Hh; tauto|reflexivity]).
  rewrite !andb_false_r.
  destruct f, l; rewrite ?lstrip_optsp by exact Hh; rewrite ?rstrip_optsp by exact Hl; rewrite ?rstrip_optsp0 by exact Hl;
    rewrite ?app_nil_r; reflexivity.
Qed.

Lemma spec_ws_only w f l : all_ws w -> w <> [] ->
  reduce_text_spec w f l = if (f && l)%bool then [SP] else if (f || l)%bool then [] else [SP].
Proof.
  intros H Hn. unfold reduce_text_spec. rewrite collapse_all_ws by exact H.
  destruct w; [congruence|]. cbn [null negb optsp].
  assert (Hs : strip [SP] = []) by (vm_compute; reflexivity). rewrite Hs. cbn [null]. rewrite andb_true_r.
  destruct f, l; vm_compute; reflexivity.
Qed.

(* every result of the rule has one of three shapes *)
Lemma spec_cases s f l :
  reduce_text_spec s f l = []
  \/ (reduce_text_spec s f l = [SP] /\ f = l)
  \/ exists a b k, core k /\ reduce_text_spec s f l = optsp a ++ k ++ optsp b
                   /\ (f = true -> a = false) /\ (l = true -> b = false).
Proof.
  unfold reduce_text_spec. destruct (collapse_shape s) as [a' ->].
  destruct (view_collapse_true s) as [|b k Hk].
  - rewrite app_nil_r. destruct a', f, l; vm_compute; auto.
  - right. right. pose proof Hk as (Hh & Hl & _). rewrite (strip_core a' k b Hk).
    replace (null k) with false by (destruct k; [cbn in Hh; tauto|reflexivity]).
    rewrite !andb_false_r.
    exists (if f then false else a'), (if l then false else b), k. split; [exact Hk|].
    split; [|split; [intros ->; reflexivity|intros ->; reflexivity]].
    destruct f, l; rewrite ?lstrip_optsp by exact Hh; rewrite ?rstrip_optsp by exact Hl; rewrite ?rstrip_optsp0 by exact Hl;
      cbn [optsp app]; rewrite ?app_nil_r; reflexivity.
Qed.

Lemma all_ws_optsp a : all_ws (optsp a).
Proof. destruct a; cbn; [constructor; [exact is_ws_SP|constructor]|constructor]. Qed.

(* a non-empty result is a fixed point of the rule under the same position flags *)
Lemma spec_idem s f l : reduce_text_spec s f l <> [] ->
  reduce_text_spec (reduce_text_spec s f l) f l = reduce_text_spec s f l.
Proof.
  intros Hne. destruct (spec_cases s f l) as [E|[[E Efl]|(a & b & k & Hk & E & Ha & Hb)]]; [congruence| |].
  - rewrite E. rewrite spec_ws_only; [|apply (all_ws_optsp true)|discriminate]. subst l. destruct f; reflexivity.
  - rewrite E. rewrite spec_pad by (try apply all_ws_optsp; exact Hk).
    f_equal; [|f_equal].
    + destruct f; [rewrite Ha by reflexivity; reflexivity|destruct a; reflexivity].
    + destruct l; [rewrite Hb by reflexivity; reflexivity|destruct b; reflexivity].
Qed.

(* non-whitespace characters are never touched *)
Definition nows (s : str) : str := filter (fun c => negb (is_ws c)) s.
Lemma nows_app a b : nows (a ++ b) = nows a ++ nows b.
Proof. apply filter_app. Qed.
Lemma nows_collapse_aux b s : nows (collapse_aux b s) = nows s.
Proof.
  revert b. induction s as [|c r IH]; intros b; [reflexivity|]. cbn [collapse_aux].
  destruct (is_ws c) eqn:E.
  - destruct b; cbn [nows filter]; rewrite ?is_ws_SP, E; cbn [negb]; apply IH.
  - cbn [nows filter]. rewrite E. cbn [negb]. f_equal. apply IH.
Qed.
Lemma nows_lstrip s : nows (lstrip s) = nows s.
Proof. induction s as [|c r IH]; [reflexivity|]. cbn [lstrip]. destruct (is_ws c) eqn:E; [|reflexivity]. cbn. rewrite E. exact IH. Qed.
Lemma nows_rev s : nows (rev s) = rev (nows s).
Proof. induction s as [|c r IH]; [reflexivity|]. cbn [rev]. rewrite nows_app, IH. cbn. destruct (is_ws c); cbn; rewrite ?app_nil_r; reflexivity. Qed.
Lemma nows_rstrip s : nows (rstrip s) = nows s.
Proof. unfold rstrip. rewrite nows_rev, nows_lstrip, nows_rev, rev_involutive. reflexivity. Qed.
Lemma nows_strip s : nows (strip s) = nows s.
Proof. unfold strip. rewrite nows_rstrip, nows_lstrip. reflexivity. Qed.

Lemma spec_nows s f l : nows (reduce_text_spec s f l) = nows s.
Proof.
  unfold reduce_text_spec. destruct (f && l && null (strip (collapse s)))%bool eqn:E.
  - apply andb_true_iff in E as [_ E]. destruct (strip (collapse s)) eqn:Es; [|discriminate].
    apply (f_equal nows) in Es. rewrite nows_strip in Es. unfold collapse in Es. rewrite nows_collapse_aux in Es.
    rewrite Es. cbn. rewrite is_ws_SP. reflexivity.
  - destruct f, l; rewrite ?nows_rstrip, ?nows_lstrip; apply nows_collapse_aux.
Qed.

(* ------------------------------------------------------------------------------------------ *)
(* tree level *)

Lemma rw_items_ext r1 r2 : (forall s f l, r1 s f l = r2 s f l) ->
  forall l f, rw_items r1 f l = rw_items r2 f l.
Proof.
  intros Hr. induction l as [|x r IHr]; intros f; [reflexivity|]. cbn [rw_items].
  destruct x; rewrite ?IHr, ?Hr; reflexivity.
Qed.

Lemma reduce_with_ext r1 r2 : (forall s f l, r1 s f l = r2 s f l) ->
  forall n d, reduce_with r1 d n = reduce_with r2 d n.
Proof.
  intros Hr. induction n as [ns name attrs kids IH|s|s|t c] using node_ind'; intros d; try reflexivity.
  cbn [reduce_with].
  assert (Hm : map (reduce_with r1 (directive attrs d)) kids = map (reduce_with r2 (directive attrs d)) kids).
  { induction IH as [|x r Hx _ IHr]; cbn; [reflexivity|]. rewrite Hx, IHr. reflexivity. }
  rewrite Hm. rewrite (rw_items_ext r1 r2 Hr). reflexivity.
Qed.

Notation R := (reduce_with reduce_text_spec).
Notation rw := (rw_items reduce_text_spec).

Lemma R_is_text d n : is_text (R d n) = is_text n.
Proof. destruct n; reflexivity. Qed.
Lemma R_text d s : R d (Text s) = Text s. Proof. reflexivity. Qed.

Lemma rw_cons_text f s r :
  rw f (Text s :: r) = (if null (reduce_text_spec s f (null r)) then [] else [Text (reduce_text_spec s f (null r))]) ++ rw false r.
Proof. reflexivity. Qed.
Lemma rw_cons_nontext f x r : is_text x = false -> rw f (x :: r) = x :: rw false r.
Proof. destruct x; [reflexivity|discriminate|reflexivity|reflexivity]. Qed.

Lemma rw_first_irrelevant f r : starts_nontext r -> rw f r = rw false r.
Proof. destruct r as [|x r]; [reflexivity|]. cbn [starts_nontext]. intros H. rewrite !rw_cons_nontext by exact H. reflexivity. Qed.
Lemma rw_null f r : starts_nontext r -> null (rw f r) = null r.
Proof. destruct r as [|x r]; [reflexivity|]. cbn [starts_nontext]. intros H. rewrite rw_cons_nontext by exact H. reflexivity. Qed.
Lemma rw_starts f r : starts_nontext r -> starts_nontext (rw f r).
Proof. destruct r as [|x r]; [intros _; exact I|]. cbn [starts_nontext]. intros H. rewrite rw_cons_nontext by exact H. exact H. Qed.

Lemma rw_idem l : forall f pt, no_adjacent_text pt l = true -> rw f (rw f l) = rw f l.
Proof.
  induction l as [|x r IH]; intros f pt Hna; [reflexivity|].
  cbn [no_adjacent_text] in Hna. apply andb_true_iff in Hna as [Hx Hr].
  destruct (is_text x) eqn:Ex.
  - destruct x as [| s | |]; try discriminate. clear Ex.
    pose proof (no_adj_starts r Hr) as Hst.
    rewrite rw_cons_text. destruct (null (reduce_text_spec s f (null r))) eqn:En; cbn [app].
    + rewrite (rw_first_irrelevant f) by (apply rw_starts; exact Hst). apply (IH false true). exact Hr.
    + rewrite rw_cons_text. rewrite (rw_null false r Hst).
      rewrite spec_idem by (intros E; rewrite E in En; discriminate).
      rewrite En. cbn [app]. f_equal. apply (IH false true). exact Hr.
  - rewrite rw_cons_nontext by exact Ex. rewrite rw_cons_nontext by exact Ex. f_equal. apply (IH false false). exact Hr.
Qed.

Lemma R_empty d x : is_empty_text (R d x) = is_empty_text x.
Proof. destruct x; reflexivity. Qed.
Lemma map_R_drop_empty d l : map (R d) (drop_empty l) = drop_empty (map (R d) l).
Proof.
  unfold drop_empty. induction l as [|x r IH]; [reflexivity|]. cbn [filter map]. rewrite R_empty.
  destruct (negb (is_empty_text x)); cbn [map]; rewrite IH; reflexivity.
Qed.
Lemma map_R_rw d f l : map (R d) (rw f l) = rw f (map (R d) l).
Proof.
  revert f. induction l as [|x r IH]; intros f; [reflexivity|].
  destruct x as [ns name attrs kids| s | s | t c].
  - rewrite rw_cons_nontext by reflexivity. cbn [map]. rewrite rw_cons_nontext by reflexivity. rewrite IH. reflexivity.
  - rewrite rw_cons_text. cbn [map]. rewrite R_text, rw_cons_text. rewrite map_app, IH.
    replace (null (map (R d) r)) with (null r) by (destruct r; reflexivity).
    destruct (null (reduce_text_spec s f (null r))); reflexivity.
  - rewrite rw_cons_nontext by reflexivity. cbn [map]. rewrite rw_cons_nontext by reflexivity. rewrite IH. reflexivity.
  - rewrite rw_cons_nontext by reflexivity. cbn [map]. rewrite rw_cons_nontext by reflexivity. rewrite IH. reflexivity.
Qed.

Lemma drop_empty_rw f l : drop_empty l = l -> drop_empty (rw f l) = rw f l.
Proof.
  revert f. induction l as [|x r IH]; intros f H; [reflexivity|].
  unfold drop_empty in H. cbn [filter] in H. destruct (negb (is_empty_text x)) eqn:Ex.
  2:{ exfalso. assert (Hl : length (filter (fun k => negb (is_empty_text k)) r) <= length r) by apply filter_len_le.
      rewrite H in Hl. cbn in Hl. lia. }
  injection H as H.
  destruct x as [ns name attrs kids| s | s | t c].
  - rewrite rw_cons_nontext by reflexivity. unfold drop_empty. cbn [filter is_empty_text negb]. f_equal. apply IH. exact H.
  - rewrite rw_cons_text. destruct (reduce_text_spec s f (null r)) as [|c0 q] eqn:E; cbn [null app].
    + apply IH. exact H.
    + unfold drop_empty. cbn [filter is_empty_text negb]. f_equal. apply IH. exact H.
  - rewrite rw_cons_nontext by reflexivity. unfold drop_empty. cbn [filter is_empty_text negb]. f_equal. apply IH. exact H.
  - rewrite rw_cons_nontext by reflexivity. unfold drop_empty. cbn [filter is_empty_text negb]. f_equal. apply IH. exact H.
Qed.

Lemma no_adj_map_R d pt l : no_adjacent_text pt (map (R d) l) = no_adjacent_text pt l.
Proof. revert pt. induction l as [|x r IH]; intros pt; [reflexivity|]. cbn [map no_adjacent_text]. rewrite R_is_text, IH. reflexivity. Qed.
Theorem reduce_idem n : forall d, merged n = true -> R d (R d n) = R d n.
Proof.
  induction n as [ns name attrs kids IH|s|s|t c] using node_ind'; intros d Hm; try reflexivity.
  cbn [merged] in Hm. apply andb_true_iff in Hm as [Hna Hmk].
  cbn [reduce_with]. set (d' := directive attrs d).
  assert (Hmap : map (R d') (map (R d') kids) = map (R d') kids).
  { rewrite forallb_forall in Hmk. clear Hna. induction IH as [|x r Hx _ IHr]; [reflexivity|]. cbn [map].
    rewrite Hx by (apply Hmk; left; reflexivity). rewrite IHr; [reflexivity|]. intros y Hy. apply Hmk. right. exact Hy. }
  set (K := drop_empty (map (R d') kids)).
  assert (HK : map (R d') K = K) by (unfold K; rewrite map_R_drop_empty, Hmap; reflexivity).
  assert (HKe : drop_empty K = K) by apply drop_empty_idem.
  assert (HKa : no_adjacent_text false K = true) by (unfold K; apply no_adj_drop_empty; rewrite no_adj_map_R; exact Hna).
  f_equal. destruct d'.
  - rewrite HK. exact HKe.
  - rewrite map_R_rw, HK. rewrite (drop_empty_rw true K HKe). apply (rw_idem K true false). exact HKa.
Qed.

(* the frame: everything but whitespace is untouched *)
Fixpoint skel (n : node) : node :=
  match n with
  | Tag ns name attrs kids =>
      Tag ns name attrs
        ((fix go (l : list node) : list node :=
            match l with
            | [] => []
            | x :: r => match x with
                        | Text s => if null (nows s) then go r else Text (nows s) :: go r
                        | _ => skel x :: go r
                        end
            end) kids)
  | Text s => Text (nows s)
  | _ => n
  end.
Definition skel_list := fix go (l : list node) : list node :=
  match l with
  | [] => []
  | x :: r => match x with
              | Text s => if null (nows s) then go r else Text (nows s) :: go r
              | _ => skel x :: go r
              end
  end.
Lemma skel_tag ns name attrs kids : skel (Tag ns name attrs kids) = Tag ns name attrs (skel_list kids).
Proof. reflexivity. Qed.

Lemma skel_list_drop_empty l : skel_list (drop_empty l) = skel_list l.
Proof.
  unfold drop_empty. induction l as [|x r IH]; [reflexivity|]. cbn [filter].
  destruct x as [ns name attrs kids| [|c s] | s | t c]; cbn [is_empty_text negb skel_list]; rewrite ?IH; reflexivity.
Qed.
Lemma skel_list_rw f l : skel_list (rw f l) = skel_list l.
Proof.
  revert f. induction l as [|x r IH]; intros f; [reflexivity|].
  destruct x as [ns name attrs kids| s | s | t c].
  - rewrite rw_cons_nontext by reflexivity. cbn [skel_list]. rewrite IH. reflexivity.
  - rewrite rw_cons_text. cbn [skel_list]. rewrite <- (spec_nows s f (null r)).
    destruct (reduce_text_spec s f (null r)) as [|c0 q]; cbn [null app skel_list]; rewrite IH; reflexivity.
  - rewrite rw_cons_nontext by reflexivity. cbn [skel_list]. rewrite IH. reflexivity.
  - rewrite rw_cons_nontext by reflexivity. cbn [skel_list]. rewrite IH. reflexivity.
Qed.

Theorem reduce_frame n : forall d, skel (R d n) = skel n.
Proof.
  induction n as [ns name attrs kids IH|s|s|t c] using node_ind'; intros d; try reflexivity.
  cbn [reduce_with]. rewrite !skel_tag. f_equal. set (d' := directive attrs d).
  assert (H : skel_list (map (R d') kids) = skel_list kids).
  { induction IH as [|x r Hx _ IHr]; [reflexivity|]. cbn [map].
    destruct x as [ns' name' attrs' kids'| s | s | t c]; cbn [skel_list]; try (rewrite IHr; reflexivity).
    change (skel (R d' (Tag ns' name' attrs' kids')) :: skel_list (map (R d') r) = skel (Tag ns' name' attrs' kids') :: skel_list r).
    rewrite Hx, IHr. reflexivity. }
  destruct d'; [|rewrite skel_list_rw]; rewrite skel_list_drop_empty; exact H.
Qed.

(* content under xml:space="preserve" is untouched, as long as no descendant overrides it *)
Fixpoint undirected (n : node) : bool :=
  match n with
  | Tag _ _ attrs kids =>
      (match get_attr xml_ns s_space attrs with None => true | Some _ => false end
       && forallb undirected kids && forallb (fun k => negb (is_empty_text k)) kids)%bool
  | _ => true
  end.
Theorem reduce_preserve n : undirected n = true -> R true n = n.
Proof.
  induction n as [ns name attrs kids IH|s|s|t c] using node_ind'; intros H; try reflexivity.
  cbn [undirected] in H. apply andb_true_iff in H as [H He]. apply andb_true_iff in H as [Ha Hk].
  cbn [reduce_with]. unfold directive. destruct (get_attr xml_ns s_space attrs); [discriminate|].
  f_equal. rewrite forallb_forall in Hk, He.
  induction IH as [|x r Hx _ IHr]; [reflexivity|]. cbn [map]. unfold drop_empty in *. cbn [filter].
  rewrite R_empty. rewrite (He x) by (left; reflexivity). rewrite Hx by (apply Hk; left; reflexivity).
  f_equal. apply IHr; intros y Hy; [apply Hk|apply He]; right; exact Hy.
Qed.


(* the result of the walk is clean: no adjacent and no empty text nodes at any depth *)
Lemma rw_forall (P : node -> bool) f l : forallb P l = true ->
  (forall s, P (Text s) = true) -> forallb P (rw f l) = true.
Proof.
  intros H HT. revert f. induction l as [|x r IH]; intros f; [reflexivity|].
  cbn [forallb] in H. apply andb_true_iff in H as [Hx Hr].
  destruct x as [ns name attrs kids| s | s | t c].
  - rewrite rw_cons_nontext by reflexivity. cbn [forallb]. rewrite Hx, IH by exact Hr. reflexivity.
  - rewrite rw_cons_text. destruct (null (reduce_text_spec s f (null r))); cbn [app forallb]; rewrite ?HT, IH by exact Hr; reflexivity.
  - rewrite rw_cons_nontext by reflexivity. cbn [forallb]. rewrite Hx, IH by exact Hr. reflexivity.
  - rewrite rw_cons_nontext by reflexivity. cbn [forallb]. rewrite Hx, IH by exact Hr. reflexivity.
Qed.
Lemma rw_nonempty f l : forallb (fun k => negb (is_empty_text k)) l = true ->
  forallb (fun k => negb (is_empty_text k)) (rw f l) = true.
Proof.
  revert f. induction l as [|x r IH]; intros f H; [reflexivity|].
  cbn [forallb] in H. apply andb_true_iff in H as [Hx Hr].
  destruct x as [ns name attrs kids| s | s | t c].
  - rewrite rw_cons_nontext by reflexivity. cbn [forallb]. rewrite IH by exact Hr. reflexivity.
  - rewrite rw_cons_text. destruct (reduce_text_spec s f (null r)) as [|c0 q]; cbn [null app forallb is_empty_text negb]; rewrite IH by exact Hr; reflexivity.
  - rewrite rw_cons_nontext by reflexivity. cbn [forallb]. rewrite IH by exact Hr. reflexivity.
  - rewrite rw_cons_nontext by reflexivity. cbn [forallb]. rewrite IH by exact Hr. reflexivity.
Qed.
Lemma rw_no_adj l : forall f pt, no_adjacent_text pt l = true -> no_adjacent_text pt (rw f l) = true.
Proof.
  induction l as [|x r IH]; intros f pt H; [reflexivity|].
  cbn [no_adjacent_text] in H. apply andb_true_iff in H as [Hx Hr].
  destruct (is_text x) eqn:Ex.
  - destruct x as [| s | |]; try discriminate. rewrite rw_cons_text.
    destruct (null (reduce_text_spec s f (null r))); cbn [app].
    + destruct pt; [discriminate|]. apply IH. eapply no_adj_weaken. exact Hr.
    + cbn [no_adjacent_text is_text]. rewrite Hx. apply IH. exact Hr.
  - rewrite rw_cons_nontext by exact Ex. cbn [no_adjacent_text]. rewrite Ex in *. rewrite Hx. apply IH. exact Hr.
Qed.

Theorem R_clean n : forall d, merged n = true -> clean (R d n) = true.
Proof.
  unfold clean. induction n as [ns name attrs kids IH|s|s|t c] using node_ind'; intros d Hm; try reflexivity.
  cbn [merged] in Hm. apply andb_true_iff in Hm as [Hna Hmk]. rewrite forallb_forall in Hmk.
  cbn [reduce_with]. set (d' := directive attrs d). set (K := drop_empty (map (R d') kids)).
  assert (HKa : no_adjacent_text false K = true) by (unfold K; apply no_adj_drop_empty; rewrite no_adj_map_R; exact Hna).
  assert (HKe : forallb (fun k => negb (is_empty_text k)) K = true) by apply drop_empty_all.
  assert (HKm : forallb merged K = true).
  { unfold K, drop_empty. apply forallb_filter. apply forallb_forall. intros y Hy. apply in_map_iff in Hy as (x & <- & Hx).
    rewrite Forall_forall in IH. specialize (IH x Hx d' (Hmk x Hx)). apply andb_true_iff in IH as [-> _]. reflexivity. }
  assert (HKn : forallb no_empty K = true).
  { unfold K, drop_empty. apply forallb_filter. apply forallb_forall. intros y Hy. apply in_map_iff in Hy as (x & <- & Hx).
    rewrite Forall_forall in IH. specialize (IH x Hx d' (Hmk x Hx)). apply andb_true_iff in IH as [_ ->]. reflexivity. }
  assert (Hfin : forall L, no_adjacent_text false L = true -> forallb (fun k => negb (is_empty_text k)) L = true ->
                 forallb merged L = true -> forallb no_empty L = true ->
                 (merged (Tag ns name attrs L) && no_empty (Tag ns name attrs L))%bool = true).
  { intros L H1 H2 H3 H4. cbn [merged no_empty]. rewrite H1, H3. cbn [andb].
    clear H1 H3. induction L as [|x r IHL]; [reflexivity|]. cbn [forallb] in *.
    apply andb_true_iff in H2 as [-> H2]. apply andb_true_iff in H4 as [-> H4]. cbn. apply IHL; assumption. }
  destruct d'; apply Hfin; try assumption.
  - apply rw_no_adj. exact HKa.
  - apply rw_nonempty. exact HKe.
  - apply rw_forall; [exact HKm|reflexivity].
  - apply rw_forall; [exact HKn|reflexivity].
Qed.

(* ------------------------------------------------------------------------------------------ *)
(* the model: merge, then the walk with the generated rule table *)

Theorem model_is_spec n : reduce_model n = reduce_spec n.
Proof. apply reduce_with_ext. exact rule_table_is_spec. Qed.

Lemma merge_merged n : merged (merge_tree n) = true.
Proof. pose proof (merge_clean n) as H. apply andb_true_iff in H as [H _]. exact H. Qed.

Theorem model_idem n : reduce_model (reduce_model n) = reduce_model n.
Proof.
  rewrite !model_is_spec. unfold reduce_spec.
  rewrite (merge_id (R false (merge_tree n))) by (apply R_clean; apply merge_merged).
  apply reduce_idem. apply merge_merged.
Qed.

(* relative to the merged tree nothing but whitespace changes *)
Theorem model_frame n : skel (reduce_model n) = skel (merge_tree n).
Proof. rewrite model_is_spec. apply reduce_frame. Qed.

(* the xml:space rule of the model is TagNode._get_normalize_space_directive as regenerated from the source
   ("default"/"preserve" as strings there, a boolean here) *)
Definition dir_str (b : bool) : str := if b then s_preserve else s_default.
Theorem directive_is_generated attrs inherited :
  get_normalize_space_directive attrs (dir_str inherited) = dir_str (directive attrs inherited).
Proof.
  unfold get_normalize_space_directive, directive, dir_str, s_space, s_default, s_preserve.
  destruct (get_attr xml_ns _ attrs) as [v|]; [|reflexivity].
  destruct (str_eqb v [112; 114; 101; 115; 101; 114; 118; 101]%N) eqn:Ep.
  - apply str_eqb_eq in Ep. subst v. reflexivity.
  - destruct (str_eqb v [100; 101; 102; 97; 117; 108; 116]%N) eqn:Ed.
    + apply str_eqb_eq in Ed. subst v. reflexivity.
    + cbn [orb]. reflexivity.
Qed.
