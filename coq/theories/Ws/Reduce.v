(* Whitespace reduction: the text-level specification (the TEI rules as the property states
   them) and the tree-level model mirroring TagNode._reduce_whitespace_of_descendants.
   Definitions only. *)
From Delb.Base Require Import PyStr.
From Delb.Gen Require Import GenNames GenReduce.
From Delb.Tree Require Import ATree Merge.

(* one text, given whether it is the first / the last child of its parent:
   collapse every whitespace run to one space; trim at the start of a first and the end of a
   last text; an only child consisting of whitespace only becomes one space *)
Definition reduce_text_spec (s : str) (first last : bool) : str :=
  let c := collapse s in
  if (first && last && null (strip c))%bool then [SP]
  else (if last then rstrip else (fun x => x)) ((if first then lstrip else (fun x => x)) c).

Definition s_space : str := [115; 112; 97; 99; 101]%N.
Definition s_default : str := [100; 101; 102; 97; 117; 108; 116]%N.
Definition s_preserve : str := [112; 114; 101; 115; 101; 114; 118; 101]%N.

(* TagNode._get_normalize_space_directive; true = "preserve" *)
Definition directive (attrs : list attr) (inherited : bool) : bool :=
  match get_attr xml_ns s_space attrs with
  | None => inherited
  | Some v => if str_eqb v s_preserve then true else if str_eqb v s_default then false else inherited
  end.

(* the last loop of _reduce_whitespace_of_descendants: first/last are positions in the list as
   it is before any rewriting; a text whose reduced content is empty is detached *)
Definition rw_items (rwc : str -> bool -> bool -> str) :=
  fix go (first : bool) (l : list node) : list node :=
    match l with
    | [] => []
    | x :: r =>
        match x with
        | Text s => let c := rwc s first (null r) in (if null c then [] else [Text c]) ++ go false r
        | _ => x :: go false r
        end
    end.

Section WithRule.
  Variable rwc : str -> bool -> bool -> str.
  Fixpoint reduce_with (inherited : bool) (n : node) : node :=
    match n with
    | Tag ns name attrs kids =>
        let d := directive attrs inherited in
        let kids' := drop_empty (map (reduce_with d) kids) in
        Tag ns name attrs (if d then kids' else rw_items rwc true kids')
    | _ => n
    end.
End WithRule.

(* the model: TagNode._reduce_whitespace = merge_text_nodes, then the walk with the generated rule table *)
Definition reduce_model (n : node) : node := reduce_with reduce_whitespace_content false (merge_tree n).
(* the specification: the stated rules plugged into the same walk, on the merged tree *)
Definition reduce_spec (n : node) : node := reduce_with reduce_text_spec false (merge_tree n).
