(* Facts about the model of TextWrappingSerializer (Ws/Wrap.v) that C03 uses for width > 0:
   the text-run lemma (lines joined by newline-plus-indentation are an inner whitespace variant of the
   text, i.e. exactly what clause (iii) of ws_variant admits) and the regression examples for the fixed
   finding C03-preserved-newline-offset. *)
From Coq Require Import List NArith ZArith Bool Lia.
From Delb.Base Require Import PyStr PyStrFacts.
From Delb.Gen Require Import GenNames GenPretty GenWrap.
From Delb.Tree Require Import ATree Merge MergeFacts.
From Delb.Ws Require Import Reduce ReduceFacts Pretty SimplePP WsVariant WsVariantFacts PrettyFacts PrettyVariant Wrap WrapFacts.
Import ListNotations.

(* the escaped character data the wrap model carries in KRaw chunks is read back as the text it was made from *)
Lemma unesc_other c r : c <> 38%N -> unesc (c :: r) = c :: unesc r.
Proof.
  intros H. destruct c as [|p]; [reflexivity|].
  destruct p as [p|p|]; try reflexivity.
  destruct p as [p|p|]; try reflexivity.
  destruct p as [p|p|]; try reflexivity.
  destruct p as [p|p|]; try reflexivity.
  destruct p as [p|p|]; try reflexivity.
  destruct p as [p|p|]; try reflexivity.
  congruence.
Qed.

(* character data written escaped is read back unchanged *)
Theorem unesc_esc_text s : unesc (esc_text s) = s.
Proof.
  induction s as [|c r IH]; [reflexivity|].
  change (esc_text (c :: r)) with (cce_lookup pp_cce_text c ++ esc_text r).
  unfold pp_cce_text. cbn [cce_lookup].
  destruct (N.eqb_spec c 38) as [->|H38]; [cbn [app]; rewrite <- IH at 2; reflexivity|].
  destruct (N.eqb_spec c 62) as [->|H62]; [cbn [app]; rewrite <- IH at 2; reflexivity|].
  destruct (N.eqb_spec c 60) as [->|H60]; [cbn [app]; rewrite <- IH at 2; reflexivity|].
  cbn [app]. rewrite (unesc_other c _ H38), IH. reflexivity.
Qed.

(* a line as line breaking produces it from normalised text: non-empty, no whitespace at either end *)
Definition edge_clean (l : str) : Prop := head_nows l /\ last_nows l.

Lemma last_nows_app a b : last_nows b -> last_nows (a ++ b).
Proof.
  unfold last_nows. rewrite rev_app_distr. destruct (rev b) as [|c r]; cbn; [tauto|]. intros H. exact H.
Qed.
Lemma head_nows_app a b : head_nows a -> head_nows (a ++ b).
Proof. destruct a; cbn; [tauto|]. intros H. exact H. Qed.

Lemma join_cons2 sep l l2 r : py_join sep (l :: l2 :: r) = l ++ sep ++ py_join sep (l2 :: r).
Proof. reflexivity. Qed.

Lemma join_last_nows sep ls : ls <> [] -> Forall edge_clean ls -> last_nows (py_join sep ls).
Proof.
  induction ls as [|l r IH]; [congruence|]. intros _ HF. inversion HF as [|? ? Hl Hr]; subst.
  destruct r as [|l2 r'].
  - cbn [py_join]. exact (proj2 Hl).
  - rewrite join_cons2. apply last_nows_app. apply last_nows_app. apply IH; [discriminate|exact Hr].
Qed.
Lemma join_head_nows sep ls : ls <> [] -> Forall edge_clean ls -> head_nows (py_join sep ls).
Proof.
  destruct ls as [|l r]; [congruence|]. intros _ HF. inversion HF as [|? ? Hl Hr]; subst.
  destruct r as [|l2 r']; [exact (proj1 Hl)|]. rewrite join_cons2. apply head_nows_app. exact (proj1 Hl).
Qed.

(* collapsing does not see which non-empty whitespace run separates the lines *)
Lemma collapse_aux_join sep ls : all_ws sep -> sep <> [] -> Forall edge_clean ls -> ls <> [] ->
  forall b, collapse_aux b (py_join sep ls) = collapse_aux b (py_join [SP] ls).
Proof.
  intros Hs Hn. induction ls as [|l r IH]; [congruence|]. intros HF _ b. inversion HF as [|? ? Hl Hr]; subst.
  destruct r as [|l2 r']; [reflexivity|].
  rewrite !join_cons2. rewrite !(collapse_aux_app_nows_last l _ b (proj2 Hl)). f_equal.
  rewrite (collapse_aux_ws_prefix sep _ false Hs).
  rewrite (collapse_aux_ws_prefix [SP] _ false) by (constructor; [exact is_ws_SP|constructor]).
  replace (null sep) with false by (destruct sep; [congruence|reflexivity]).
  cbn [null negb orb app]. f_equal. apply IH; [exact Hr|discriminate].
Qed.

(* the text-run lemma: for normalised text k broken into lines (at single spaces), writing the lines separated by
   any non-empty whitespace run - newline plus the indentation of the nesting depth - is an inner variant of k *)
Theorem lines_inner_variant k sep ls : core k -> py_join [SP] ls = k -> Forall edge_clean ls -> ls <> [] ->
  all_ws sep -> sep <> [] -> inner_variant k (py_join sep ls).
Proof.
  intros (Hh & Hl & Hc) Hj HF Hne Hs Hn. repeat split.
  - apply join_head_nows; assumption.
  - apply join_last_nows; assumption.
  - unfold collapse. rewrite (collapse_aux_join sep ls Hs Hn HF Hne false). rewrite Hj. exact Hc.
Qed.

(* hence (with part A) a text run written over lines reduces to the text it came from, whatever precedes and follows
   it at legal places *)
Corollary wrapped_text_run_erased k sep ls w1 w2 f l : core k -> py_join [SP] ls = k -> Forall edge_clean ls -> ls <> [] ->
  all_ws sep -> sep <> [] -> all_ws w1 -> all_ws w2 ->
  reduce_text_spec (w1 ++ py_join sep ls ++ w2) f l
  = (if f then [] else optsp (negb (null w1))) ++ k ++ (if l then [] else optsp (negb (null w2))).
Proof.
  intros Hk Hj HF Hne Hs Hn H1 H2. apply spec_pad'; try assumption.
  apply lines_inner_variant; assumption.
Qed.

(* ------------------------------------------------------------------------------------------ *)
(* the lines the *generated* _wrap_text yields for normalised text are edge-clean and join back to the text *)

(* no two adjacent whitespace characters (prev_ws: the character before the string is whitespace) *)
Fixpoint naw (prev_ws : bool) (s : str) : bool :=
  match s with [] => true | c :: r => (negb (prev_ws && is_ws c) && naw (is_ws c) r)%bool end.

Lemma collapse_aux_len b s : length (collapse_aux b s) <= length s.
Proof.
  revert b. induction s as [|c r IH]; intros b; [reflexivity|]. cbn [collapse_aux].
  destruct (is_ws c); [destruct b|]; cbn [length]; try (specialize (IH true); lia). specialize (IH false). lia.
Qed.

Lemma collapse_fix_naw s : forall b, collapse_aux b s = s -> naw b s = true.
Proof.
  induction s as [|c r IH]; intros b H; [reflexivity|]. cbn [collapse_aux] in H. cbn [naw].
  destruct (is_ws c) eqn:Ec.
  - destruct b.
    + exfalso. pose proof (collapse_aux_len true r) as Hl. rewrite H in Hl. cbn in Hl. lia.
    + injection H as _ H. cbn. apply IH. exact H.
  - injection H as H. rewrite andb_false_r. cbn. apply IH. exact H.
Qed.

Lemma naw_weaken b s : naw b s = true -> naw false s = true.
Proof. destruct s as [|c r]; [reflexivity|]. cbn [naw]. intros H. apply andb_prop in H as [_ H]. rewrite H. reflexivity. Qed.

(* splitting at a separating space *)
Lemma naw_split l J : forall b, naw b (l ++ SP :: J) = true ->
  (l <> [] -> last_nows l) /\ (match J with c :: _ => is_ws c = false | [] => True end) /\ naw false J = true.
Proof.
  induction l as [|c r IH]; intros b H.
  - cbn [app naw] in H. rewrite is_ws_SP in H. apply andb_prop in H as [_ H]. split; [congruence|].
    destruct J as [|d J']; [split; [exact I|reflexivity]|]. cbn [naw] in H. apply andb_prop in H as [H1 H2].
    split; [|]. 
    + destruct (is_ws d); [discriminate|reflexivity].
    + cbn [naw]. rewrite H2. reflexivity.
  - cbn [app naw] in H. apply andb_prop in H as [H1 H2]. destruct (IH _ H2) as (Ha & Hb & Hc).
    split; [|split; assumption]. intros _. destruct r as [|d r'].
    + (* c is the last character of l, followed by SP *)
      cbn [app naw] in H2. rewrite is_ws_SP, andb_true_r in H2. apply andb_prop in H2 as [H2 _].
      unfold last_nows. cbn. destruct (is_ws c); [discriminate|reflexivity].
    + apply last_nows_cons; [discriminate|]. apply Ha. discriminate.
Qed.

Lemma last_nows_suffix a J : J <> [] -> last_nows (a ++ J) -> last_nows J.
Proof.
  unfold last_nows. rewrite rev_app_distr. intros Hn. destruct (rev J) as [|c r] eqn:E.
  - exfalso. apply Hn. rewrite <- (rev_involutive J), E. reflexivity.
  - cbn. tauto.
Qed.

Lemma join_nil_iff (ls : list str) : ls <> [] -> py_join [SP] ls = [] -> ls = [[]].
Proof.
  destruct ls as [|l r]; [congruence|]. intros _. destruct r as [|l2 r'].
  - cbn. intros ->. reflexivity.
  - rewrite join_cons2. destruct l; discriminate.
Qed.

Lemma lines_edge_clean ls : ls <> [] ->
  naw false (py_join [SP] ls) = true -> head_nows (py_join [SP] ls) -> last_nows (py_join [SP] ls) ->
  Forall edge_clean ls.
Proof.
  induction ls as [|l r IH]; [congruence|]. intros _ Hn Hh Hl. destruct r as [|l2 r'].
  - cbn [py_join] in *. constructor; [split; assumption|constructor].
  - rewrite join_cons2 in *. change ([SP] ++ py_join [SP] (l2 :: r')) with (SP :: py_join [SP] (l2 :: r')) in *.
    destruct (naw_split l _ false Hn) as (Ha & Hb & Hc).
    assert (Hlne : l <> []) by (intros ->; cbn in Hh; rewrite is_ws_SP in Hh; discriminate).
    assert (HJ : py_join [SP] (l2 :: r') <> []).
    { intros E. rewrite E in Hl. unfold last_nows in Hl. rewrite rev_app_distr in Hl. cbn in Hl. rewrite is_ws_SP in Hl. discriminate. }
    constructor.
    + split; [|apply Ha; exact Hlne]. destruct l; [congruence|exact Hh].
    + apply IH; [discriminate|exact Hc| |].
      * destruct (py_join [SP] (l2 :: r')); [congruence|exact Hb].
      * apply (last_nows_suffix (l ++ [SP])); [exact HJ|]. rewrite <- app_assoc. exact Hl.
Qed.

Theorem wrap_lines_edge_clean k (w : nat) : (0 < w)%nat -> core k ->
  exists ls, wrap_text k (Z.of_nat w) = Some ls /\ ls <> [] /\ py_join [SP] ls = k /\ Forall edge_clean ls.
Proof.
  intros Hw (Hh & Hl & Hc).
  destruct (wrap_text_total_and_greedy k w Hw) as (ls & E & Hs). exists ls. split; [exact E|].
  destruct (lines_join _ _ _ Hs) as [[_ ->]|[Hne [Hj|Hj]]].
  - cbn in Hh. tauto.
  - split; [exact Hne|]. split; [symmetry; exact Hj|]. rewrite Hj in Hh, Hl, Hc.
    apply lines_edge_clean; [exact Hne| |exact Hh|exact Hl]. apply collapse_fix_naw. exact Hc.
  - exfalso. rewrite Hj in Hl. unfold last_nows in Hl. rewrite rev_app_distr in Hl. cbn in Hl. rewrite is_ws_SP in Hl. discriminate.
Qed.

(* so: whatever width and indentation, the lines of a normalised text written with newline-plus-indentation between
   them are an inner variant of that text *)
Theorem wrapped_lines_variant k (w : nat) sep : (0 < w)%nat -> core k -> all_ws sep -> sep <> [] ->
  exists ls, wrap_text k (Z.of_nat w) = Some ls /\ inner_variant k (py_join sep ls).
Proof.
  intros Hw Hk Hs Hn. destruct (wrap_lines_edge_clean k w Hw Hk) as (ls & E & Hne & Hj & HF).
  exists ls. split; [exact E|]. apply lines_inner_variant; assumption.
Qed.

(* ------------------------------------------------------------------------------------------ *)
(* regression: the witnesses of the fixed finding C03-preserved-newline-offset (b3af6c0) round-trip on the model
   as it follows the code now *)

Definition c03_witness : node :=
  Tag [] [114%N] []
    [Tag [] [97%N] []
       [Tag [] [98%N] [(xml_ns, s_space, s_preserve)] [Text [120; 10]%N]; Text [98; 98]%N]].
Definition c03_witness_comment : node :=
  Tag [] [114%N] [] [Tag [] [97%N] [] [Comment [120; 10; 121]%N; Text [98; 98]%N]].

Lemma c03_witness_regression :
  reduce_model c03_witness = c03_witness /\ verbatim_newline false c03_witness = true /\
  reduce_model (wrap_seen [SP; SP] false 5%Z c03_witness []) = c03_witness /\
  reduce_model c03_witness_comment = c03_witness_comment /\ verbatim_newline false c03_witness_comment = true /\
  reduce_model (wrap_seen [SP; SP] false 5%Z c03_witness_comment []) = c03_witness_comment.
Proof. vm_compute. repeat split. Qed.

Example wrapped_ok_example :
  let t := Tag [] [114%N] [] [Text [97; 97; 32; 98; 98; 32]%N; Tag [] [105%N] [] [Text [99; 99]%N]; Text [32; 100; 100; 32; 101; 101]%N] in
  reduce_model t = t /\
  wrap_str [SP; SP] false 5%Z t [] <> render (plain t) /\
  reduce_model (wrap_seen [SP; SP] false 5%Z t []) = t.
Proof. vm_compute. repeat split. discriminate. Qed.
