(* C03, part A: reducing any legal whitespace variant of a normal-form tree gives the tree back;
   and a whitespace-reduced tree is in the explicit normal form. *)
From Coq Require Import List NArith Bool Lia.
From Delb.Base Require Import PyStr PyStrFacts.
From Delb.Gen Require Import GenNames GenReduce.
From Delb.Tree Require Import ATree Merge MergeFacts.
From Delb.Ws Require Import Reduce ReduceFacts WsVariant.
Import ListNotations.

Notation R := (reduce_with reduce_text_spec).
Notation rw := (rw_items reduce_text_spec).

(* ------------------------------------------------------------------------------------------ *)
(* text level: padding lemmas for inner variants *)

Lemma collapse_pad' w1 k k' w2 : all_ws w1 -> all_ws w2 -> inner_variant k k' ->
  collapse (w1 ++ k' ++ w2) = optsp (negb (null w1)) ++ k ++ optsp (negb (null w2)).
Proof.
  intros H1 H2 (Hh & Hl & Hc). unfold collapse. rewrite collapse_aux_ws_prefix by exact H1. cbn [orb].
  assert (E : collapse_aux (negb (null w1)) (k' ++ w2) = k ++ optsp (negb (null w2))).
  { rewrite collapse_aux_app_nows_last by exact Hl.
    replace (collapse_aux (negb (null w1)) k') with k.
    2:{ destruct (negb (null w1)); [rewrite collapse_true_core by exact Hh|]; symmetry; exact Hc. }
    f_equal. rewrite <- (app_nil_r w2) at 1. rewrite collapse_aux_ws_prefix by exact H2. cbn. rewrite app_nil_r.
    destruct (null w2); reflexivity. }
  rewrite E. destruct (null w1); reflexivity.
Qed.

Lemma inner_variant_refl k : core k -> inner_variant k k.
Proof. intros (Hh & Hl & Hc). repeat split; assumption. Qed.

Lemma spec_pad' w1 k k' w2 f l : all_ws w1 -> all_ws w2 -> core k -> inner_variant k k' ->
  reduce_text_spec (w1 ++ k' ++ w2) f l =
  (if f then [] else optsp (negb (null w1))) ++ k ++ (if l then [] else optsp (negb (null w2))).
Proof.
  intros H1 H2 Hk Hv. unfold reduce_text_spec. rewrite (collapse_pad' w1 k k' w2 H1 H2 Hv).
  rewrite (strip_core _ k _ Hk). destruct Hk as (Hh & Hl & _).
  replace (null k) with false by (destruct k; [cbn in Hh; tauto|reflexivity]).
  rewrite !andb_false_r.
  destruct f, l; rewrite ?lstrip_optsp by exact Hh; rewrite ?rstrip_optsp by exact Hl; rewrite ?rstrip_optsp0 by exact Hl;
    rewrite ?app_nil_r; reflexivity.
Qed.

(* ------------------------------------------------------------------------------------------ *)
(* the walk on a parser-presented child list *)

Definition D (l : list node) : list node := drop_empty (map (R false) l).

Lemma D_cons_text s r : D (Text s :: r) = txt s ++ D r.
Proof. unfold D, drop_empty, txt. cbn [map filter reduce_with is_empty_text]. destruct s; reflexivity. Qed.
Lemma D_cons_nontext x r : is_text x = false -> D (x :: r) = R false x :: D r.
Proof.
  intros H. unfold D, drop_empty. cbn [map filter]. rewrite R_empty.
  replace (is_empty_text x) with false by (destruct x; try reflexivity; discriminate). reflexivity.
Qed.
Lemma D_txt_app w r : D (txt w ++ r) = txt w ++ D r.
Proof. unfold txt. destruct (null w) eqn:E; [reflexivity|]. cbn [app]. rewrite D_cons_text. unfold txt. rewrite E. reflexivity. Qed.
Lemma D_nil : D [] = []. Proof. reflexivity. Qed.

Lemma R_tag_default ns name attrs ks : directive attrs false = false ->
  R false (Tag ns name attrs ks) = Tag ns name attrs (rw true (D ks)).
Proof. intros H. cbn [reduce_with]. rewrite H. reflexivity. Qed.

Lemma wvt_is_text x x' : wvt x x' -> is_text x' = is_text x.
Proof. intros H. inversion H; reflexivity. Qed.

Lemma wv_afterX_null r r' : wv AfterX r r' -> null (D r') = null r.
Proof.
  intros H. inversion H; subst; try reflexivity; try congruence.
  rewrite D_cons_nontext; [reflexivity|]. erewrite wvt_is_text; eassumption.
Qed.

Lemma null_core_app k x : core k -> null (k ++ x) = false.
Proof. intros (Hh & _). destruct k; [cbn in Hh; tauto|reflexivity]. Qed.

Lemma rw_txt_ws f w rest : all_ws w -> rest <> [] -> f = true \/ True ->
  rw true (txt w ++ rest) = rw (null w) rest.
Proof.
  intros Hw Hr _. unfold txt. destruct (null w) eqn:E; [reflexivity|]. cbn [app]. rewrite rw_cons_text.
  assert (Hn : w <> []) by (destruct w; [discriminate|congruence]).
  rewrite spec_ws_only by assumption.
  destruct rest; [congruence|]. cbn [null andb orb app]. reflexivity.
Qed.

Definition Pwvt (t t' : node) (_ : wvt t t') : Prop := R false t' = t.
Definition Pwv (prev : sib) (l l' : list node) (_ : wv prev l l') : Prop := rw (is_start prev) (D l') = l.
Definition Pwvk (l l' : list node) (_ : wvk l l') : Prop := rw true (D l') = l.

Theorem variant_erased_mut : forall t t' (H : wvt t t'), Pwvt t t' H.
Proof.
  apply (wvt_mut Pwvt Pwv Pwvk); unfold Pwvt, Pwv, Pwvk.
  - (* verbatim *) intros n _ Hr. exact Hr.
  - (* element *) intros ns name attrs ks ks' Hd Hk IH. rewrite (R_tag_default _ _ _ _ Hd), IH. reflexivity.
  - reflexivity.
  - reflexivity.
  - (* trailing whitespace after the last non-text child *)
    intros w Hw. unfold txt. destruct (null w) eqn:E; [reflexivity|].
    rewrite D_cons_text, D_nil, app_nil_r. unfold txt. rewrite E. rewrite rw_cons_text.
    assert (Hn : w <> []) by (destruct w; [discriminate|congruence]).
    rewrite spec_ws_only by assumption. reflexivity.
  - (* first child is a non-text node, optional leading whitespace *)
    intros w x x' r r' Hw Hx Hxx IHx Hr IHr.
    assert (Hx' : is_text x' = false) by (rewrite (wvt_is_text _ _ Hxx); exact Hx).
    rewrite D_txt_app, (D_cons_nontext _ _ Hx').
    rewrite (rw_txt_ws true) by (assumption || discriminate || (right; exact I)).
    rewrite rw_cons_nontext by (rewrite R_is_text; exact Hx').
    cbn [is_start] in IHr. rewrite IHx, IHr. reflexivity.
  - intros prev x x' r r' Hp Hx Hxx IHx Hr IHr.
    assert (Hx' : is_text x' = false) by (rewrite (wvt_is_text _ _ Hxx); exact Hx).
    rewrite (D_cons_nontext _ _ Hx'). rewrite rw_cons_nontext by (rewrite R_is_text; exact Hx').
    cbn [is_start] in IHr. rewrite IHx, IHr. reflexivity.
  - (* a text with content *)
    intros prev lead trail k k' w1 w2 r r' Hk Hv Hp Hl Ht H1 H2 Hlead Htrail Hr IHr.
    rewrite D_cons_text.
    assert (Hne : null (w1 ++ k' ++ w2) = false).
    { destruct Hv as (Hh & _). destruct w1; [|reflexivity]. destruct k'; [cbn in Hh; tauto|reflexivity]. }
    unfold txt. rewrite Hne. cbn [app]. rewrite rw_cons_text. rewrite (wv_afterX_null _ _ Hr).
    rewrite (spec_pad' w1 k k' w2 _ _ H1 H2 Hk Hv). cbn [is_start] in IHr. rewrite IHr.
    assert (E : (if is_start prev then [] else optsp (negb (null w1))) ++ k ++ (if null r then [] else optsp (negb (null w2)))
                = optsp lead ++ k ++ optsp trail).
    { f_equal; [|f_equal].
      - destruct prev; cbn [is_start].
        + rewrite Hl by reflexivity. reflexivity.
        + rewrite Hlead by discriminate. rewrite negb_involutive. reflexivity.
        + congruence.
      - destruct r as [|x r0]; cbn [null].
        + rewrite Ht by reflexivity. reflexivity.
        + rewrite Htrail by discriminate. rewrite negb_involutive. reflexivity. }
    rewrite E.
    replace (null (optsp lead ++ k ++ optsp trail)) with false.
    2:{ destruct lead; cbn [optsp app null]; [reflexivity|]. symmetry. apply null_core_app. exact Hk. }
    reflexivity.
  - (* a single space between siblings *)
    intros w r r' Hw Hn Hrn Hr IHr.
    rewrite D_cons_text. unfold txt. replace (null w) with false by (destruct w; [congruence|reflexivity]).
    cbn [app]. rewrite rw_cons_text. rewrite (wv_afterX_null _ _ Hr).
    rewrite spec_ws_only by assumption. cbn [is_start andb orb].
    destruct r as [|x r0]; [congruence|]. cbn [null]. cbn [is_start] in IHr. rewrite IHr. reflexivity.
  - (* only child, whitespace only *)
    intros w Hw Hn. rewrite D_cons_text, D_nil, app_nil_r. unfold txt.
    replace (null w) with false by (destruct w; [congruence|reflexivity]).
    rewrite rw_cons_text. rewrite spec_ws_only by assumption. reflexivity.
  - intros l l' Hwv IH. exact IH.
Qed.

(* over the specification's rule *)
Theorem variant_erased t t' : ws_variant t t' -> R false t' = t.
Proof. intros H. exact (variant_erased_mut t t' H). Qed.

(* for a raw tree (adjacent character data not yet merged) whose parser view is a variant of t *)
Theorem variant_erased_raw t raw : ws_variant t (merge_tree raw) -> reduce_model raw = t.
Proof. intros H. rewrite model_is_spec. unfold reduce_spec. apply variant_erased. exact H. Qed.

(* ------------------------------------------------------------------------------------------ *)
(* a reduced tree is in the explicit normal form *)

Definition is_afterX (p : sib) : bool := match p with AfterX => true | _ => false end.

Lemma nf_any_prev p q l : starts_nontext l -> nf p l -> nf q l.
Proof.
  intros Hs H. destruct l as [|x r]; [constructor|]. cbn [starts_nontext] in Hs.
  inversion H; subst; try discriminate. apply nf_N; assumption.
Qed.

Lemma null_false_ne {A} (l : list A) : null l = false -> l <> [].
Proof. destruct l; [discriminate|discriminate]. Qed.

Lemma null_optsp_core a k b : core k -> null (optsp a ++ k ++ optsp b) = false.
Proof. intros Hk. destruct a; [reflexivity|]. cbn [optsp app]. apply null_core_app. exact Hk. Qed.

Lemma rw_text_step (prev : sib) s r :
  prev <> AfterX ->
  starts_nontext r ->
  nf AfterX (rw false r) ->
  (is_start prev = false -> null r = false -> prev = AfterN) ->
  (is_start prev = true -> null r = true -> False) ->
  nf prev (rw (is_start prev) (Text s :: r)).
Proof.
  intros Hpx Hst IHr HN Honly. rewrite rw_cons_text.
  destruct (spec_cases s (is_start prev) (null r)) as [E|[[E Efl]|(a & b & k & Hk & E & Ha & Hb)]]; rewrite E.
  - cbn [null app]. apply (nf_any_prev AfterX); [apply rw_starts; exact Hst|exact IHr].
  - cbn [null app]. destruct (is_start prev) eqn:Es.
    + exfalso. apply Honly; [reflexivity|symmetry; exact Efl].
    + rewrite (HN eq_refl (eq_sym Efl)). apply nf_space; [|exact IHr].
      apply null_false_ne. rewrite rw_null by exact Hst. symmetry. exact Efl.
  - rewrite (null_optsp_core a k b Hk). cbn [app]. apply nf_X; try assumption.
    + intros ->. apply Ha. reflexivity.
    + intros Er. apply Hb. rewrite <- (rw_null false r Hst). rewrite Er. reflexivity.
Qed.

Lemma rw_nf_tail K : forall prev, prev <> Start -> no_adjacent_text (is_afterX prev) K = true ->
  Forall (fun x => is_text x = false -> nft x) K -> nf prev (rw false K).
Proof.
  induction K as [|x r IH]; intros prev Hp Hna HF; [constructor|].
  cbn [no_adjacent_text] in Hna. apply andb_true_iff in Hna as [Hx Hr].
  inversion HF as [|? ? Hxn HFr]; subst.
  destruct (is_text x) eqn:Ex.
  - destruct x as [|s| |]; try discriminate.
    assert (Hpx : prev <> AfterX) by (destruct prev; cbn in Hx; try discriminate; congruence).
    replace false with (is_start prev) by (destruct prev; [congruence|reflexivity|reflexivity]).
    apply rw_text_step.
    + exact Hpx.
    + apply no_adj_starts. exact Hr.
    + apply IH; [discriminate|exact Hr|exact HFr].
    + intros _ _. destruct prev; congruence.
    + intros Es. destruct prev; try discriminate. congruence.
  - rewrite rw_cons_nontext by exact Ex. apply nf_N; [exact Ex|apply Hxn; reflexivity|].
    apply IH; [discriminate|exact Hr|exact HFr].
Qed.

Lemma rw_nfk K : no_adjacent_text false K = true ->
  Forall (fun x => is_text x = false -> nft x) K -> nfk (rw true K).
Proof.
  intros Hna HF. destruct K as [|x r]; [apply nfk_list; constructor|].
  cbn [no_adjacent_text] in Hna. apply andb_true_iff in Hna as [_ Hr].
  inversion HF as [|? ? Hxn HFr]; subst.
  destruct (is_text x) eqn:Ex.
  - destruct x as [|s| |]; try discriminate.
    pose proof (no_adj_starts r Hr) as Hst.
    assert (IHr : nf AfterX (rw false r)) by (apply rw_nf_tail; [discriminate|exact Hr|exact HFr]).
    destruct (null r) eqn:En.
    + (* only child *)
      destruct r; [|discriminate]. rewrite rw_cons_text. cbn [null rw_items app]. rewrite app_nil_r.
      destruct (spec_cases s true true) as [E|[[E _]|(a & b & k & Hk & E & Ha & Hb)]]; rewrite E.
      * apply nfk_list. constructor.
      * apply nfk_only_space.
      * rewrite (null_optsp_core a k b Hk). apply nfk_list. apply nf_X; try assumption; try discriminate.
        -- intros _. apply Ha. reflexivity.
        -- intros _. apply Hb. reflexivity.
    + apply nfk_list. change true with (is_start Start). apply rw_text_step.
      * discriminate.
      * exact Hst.
      * exact IHr.
      * discriminate.
      * intros _ E. rewrite En in E. discriminate.
  - apply nfk_list. rewrite rw_cons_nontext by exact Ex. apply nf_N; [exact Ex|apply Hxn; reflexivity|].
    apply rw_nf_tail; [discriminate|exact Hr|exact HFr].
Qed.

Lemma clean_kid ns name attrs kids x : clean (Tag ns name attrs kids) = true -> In x kids -> clean x = true.
Proof.
  unfold clean. cbn [merged no_empty]. intros H Hin.
  apply andb_true_iff in H as [Hm Hn]. apply andb_true_iff in Hm as [_ Hm].
  rewrite forallb_forall in Hm, Hn. specialize (Hm x Hin). specialize (Hn x Hin).
  apply andb_true_iff in Hn as [_ Hn]. rewrite Hm, Hn. reflexivity.
Qed.

Theorem R_nft n : clean n = true -> is_text n = false -> nft (R false n).
Proof.
  induction n as [ns name attrs kids IH|s|s|t c] using node_ind'; intros Hc Ht; try discriminate.
  - assert (Hm : merged (Tag ns name attrs kids) = true) by (unfold clean in Hc; apply andb_true_iff in Hc as [H _]; exact H).
    destruct (directive attrs false) eqn:Ed.
    + apply nft_verbatim.
      * apply R_clean. exact Hm.
      * apply reduce_idem. exact Hm.
      * cbn [reduce_with]. exact Ed.
    + rewrite (R_tag_default _ _ _ _ Ed). apply nft_tag; [exact Ed|]. apply rw_nfk.
      * unfold D. apply no_adj_drop_empty. rewrite no_adj_map_R.
        cbn [merged] in Hm. apply andb_true_iff in Hm as [H _]. exact H.
      * unfold D, drop_empty. apply Forall_forall. intros y Hy Hty.
        apply filter_In in Hy as [Hy _]. apply in_map_iff in Hy as (x & <- & Hx).
        rewrite Forall_forall in IH. rewrite R_is_text in Hty. apply (IH x Hx); [|exact Hty].
        eapply clean_kid; eassumption.
  - apply nft_verbatim; [reflexivity|reflexivity|exact I].
  - apply nft_verbatim; [reflexivity|reflexivity|exact I].
Qed.

Theorem reduced_nft t : reduced t -> is_text t = false -> nft t.
Proof.
  unfold reduced. intros Hr Ht. rewrite model_is_spec in Hr. unfold reduce_spec in Hr. rewrite <- Hr.
  apply R_nft; [apply merge_clean|rewrite merge_is_text; exact Ht].
Qed.

Lemma reduced_clean t : reduced t -> clean t = true.
Proof.
  unfold reduced. intros Hr. rewrite model_is_spec in Hr. unfold reduce_spec in Hr. rewrite <- Hr.
  apply R_clean. apply merge_merged.
Qed.

Lemma reduced_R t : reduced t -> R false t = t.
Proof.
  intros Hr. pose proof (reduced_clean t Hr) as Hc. unfold reduced in Hr.
  rewrite model_is_spec in Hr. unfold reduce_spec in Hr. rewrite (merge_id t Hc) in Hr. exact Hr.
Qed.
