(* C03 / C18 for namespaced trees, through the qualified view (Ws/Qualified.v): the serializer theorems instantiated
   with qual_root pf decl t, for every prefix table pf and every list of declaration attributes decl. *)
From Coq Require Import List NArith ZArith Bool.
From Delb.Base Require Import PyStr PyStrFacts.
From Delb.Gen Require Import GenNames GenWrap.
From Delb.Tree Require Import ATree Merge.
From Delb.Ws Require Import Reduce Pretty SimplePP WsVariant PrettyFacts PrettyVariant Wrap WrapTextOnly WrapFull Qualified QualifiedFacts.
Import ListNotations.

Theorem width0_transparent_ns pf decl t ind align : is_tag t = true -> reduced t -> plain_decl decl = true ->
  ws_indent ind = true ->
  reduce_model (pretty_seen ind align (qual_root pf decl t)) = qual_root pf decl t.
Proof.
  intros Ht Hr Hd Hi. unfold pretty_seen, pretty_chunk.
  apply (pretty_transparent ind align Hi (qual_root pf decl t) 0 (reduced_qual_root pf decl t Hd Hr)).
  destruct t; try discriminate; reflexivity.
Qed.

(* T' is the document as the serializer of the sub-tree at sr names it: any document whose sub-tree at sr is the
   qualified view of t (what lies outside the sub-tree only enters through the fitting heuristics) *)
Theorem wrap_real_transparent_ns pf decl ind align width T' sr t : ws_indent ind = true ->
  (1 <= width)%Z -> plain_decl decl = true ->
  get T' sr = Some (qual_root pf decl t) -> reduced t -> is_text t = false ->
  reduce_model (wrap_seen ind align width T' sr) = qual_root pf decl t.
Proof.
  intros Hi Hw Hd Hg Hr Ht.
  apply (wrap_real_transparent ind align width T' sr (qual_root pf decl t) Hi Hw Hg (reduced_qual_root pf decl t Hd Hr)).
  rewrite qual_root_is_text. exact Ht.
Qed.

Theorem pretty_simple_ns pf decl t ind align : is_tag t = true -> data_style t = true -> reduced t ->
  plain_decl decl = true -> ind <> [] -> ws_indent ind = true ->
  pretty ind align (qual_root pf decl t) = simple_pp ind align 0 (qual_root pf decl t).
Proof.
  intros Ht Hs Hr Hd Hne Hi. apply C18_pretty; try assumption.
  - rewrite qual_root_is_tag. exact Ht.
  - rewrite (data_style_qual_root pf decl t Hd). exact Hs.
  - exact (reduced_qual_root pf decl t Hd Hr).
Qed.

(* non-vacuity: <p:r xmlns:p="u" k="v"><a p:k="1" xml:space="default">x y <p:b/> z</a> <c/></p:r>, prefix p: for u *)
Definition ns_example : node :=
  Tag [117%N] [114%N] [([], [107%N], [118%N])]
    [Tag [] [97%N] [([117%N], [107%N], [49%N]); (xml_ns, s_space, s_default)]
       [Text [120; 32; 121; 32]%N; Tag [117%N] [98%N] [] []; Text [32; 122]%N];
     Text [SP]; Tag [] [99%N] [] []].
Definition ns_example_pf : str -> str := pf_of [([117%N], [112; 58]%N); ([], [])].
Definition ns_example_decl : list attr := [([], [120; 109; 108; 110; 115; 58; 112]%N, [117%N])].

Lemma ns_example_ok :
  reduce_model ns_example = ns_example /\ plain_decl ns_example_decl = true /\
  qual_root ns_example_pf ns_example_decl ns_example <> ns_example /\
  reduce_model (pretty_seen [SP; SP] false (qual_root ns_example_pf ns_example_decl ns_example))
    = qual_root ns_example_pf ns_example_decl ns_example /\
  reduce_model (wrap_seen [SP; SP] false 6%Z (qual_root ns_example_pf ns_example_decl ns_example) [])
    = qual_root ns_example_pf ns_example_decl ns_example /\
  wrap_str [SP; SP] false 6%Z (qual_root ns_example_pf ns_example_decl ns_example) []
    <> render (plain (qual_root ns_example_pf ns_example_decl ns_example)).
Proof. vm_compute. repeat split; try reflexivity; discriminate. Qed.
