(* C03, part B for the indenting serializer (width 0): what a parser sees when it re-reads the model's
   output is a legal whitespace variant of the (reduced) input; with part A: re-reading and reducing
   gives the input back.  Facts only. *)
From Coq Require Import List NArith Bool Lia.
From Delb.Base Require Import PyStr PyStrFacts.
From Delb.Gen Require Import GenNames GenPretty.
From Delb.Tree Require Import ATree Merge MergeFacts.
From Delb.Ws Require Import Reduce ReduceFacts Pretty SimplePP WsVariant WsVariantFacts PrettyFacts.
Import ListNotations.

(* ------------------------------------------------------------------------------------------ *)
(* the parser's view of a raw child list: adjacent character data merged, empty text dropped *)

Definition Nv (l : list node) : list node := drop_empty (M l).
Definition mseen (c : chunk) : node := merge_tree (seen c).

(* prepend character data to a parser-view list *)
Definition ctext (s : str) (l : list node) : list node :=
  match l with Text s' :: r => Text (s ++ s') :: r | _ => txt s ++ l end.

Lemma ctext_nil l : ctext [] l = l.
Proof. destruct l as [|[| | |] r]; reflexivity. Qed.

Lemma ctext_nontext s l : starts_nontext l -> ctext s l = txt s ++ l.
Proof. destruct l as [|x r]; [reflexivity|]. cbn [starts_nontext]. destruct x; intros H; try discriminate; reflexivity. Qed.

Lemma txt_nonnull s : null s = false -> txt s = [Text s].
Proof. unfold txt. intros ->. reflexivity. Qed.

Lemma ctext_txt a q l : starts_nontext l -> ctext a (txt q ++ l) = txt (a ++ q) ++ l.
Proof.
  intros H. unfold txt at 1. destruct (null q) eqn:E.
  - destruct q; [|discriminate]. cbn [app]. rewrite app_nil_r. apply ctext_nontext. exact H.
  - cbn [app ctext]. rewrite txt_nonnull; [reflexivity|]. destruct a; [exact E|reflexivity].
Qed.

Lemma drop_empty_starts l : starts_nontext l -> starts_nontext (drop_empty l).
Proof.
  destruct l as [|x r]; [intros _; exact I|]. cbn [starts_nontext]. intros H. unfold drop_empty. cbn [filter].
  replace (is_empty_text x) with false by (destruct x; try reflexivity; discriminate). exact H.
Qed.

Lemma drop_empty_cons_nontext x r : is_text x = false -> drop_empty (x :: r) = x :: drop_empty r.
Proof. intros H. unfold drop_empty. cbn [filter]. replace (is_empty_text x) with false by (destruct x; try reflexivity; discriminate). reflexivity. Qed.

Lemma Nv_cons_text a rest : Nv (Text a :: rest) = ctext a (Nv rest).
Proof.
  unfold Nv. rewrite M_cons_text. pose proof (M_no_adj rest) as Hna.
  destruct (M rest) as [|y q] eqn:E.
  - unfold drop_empty, txt. cbn [filter is_empty_text ctext app]. destruct a; reflexivity.
  - destruct y as [ns name attrs kids|s'|s'|t c].
    + unfold drop_empty, txt. cbn [filter is_empty_text negb ctext app]. destruct a; reflexivity.
    + cbn [no_adjacent_text is_text andb negb] in Hna. pose proof (no_adj_starts q Hna) as Hq.
      destruct s' as [|c s''].
      * rewrite app_nil_r. unfold drop_empty at 2. cbn [filter is_empty_text negb]. fold (drop_empty q).
        rewrite (ctext_nontext a _ (drop_empty_starts q Hq)).
        unfold drop_empty at 1, txt. cbn [filter]. destruct a; reflexivity.
      * unfold drop_empty. cbn [filter is_empty_text negb ctext]. destruct a; reflexivity.
    + unfold drop_empty, txt. cbn [filter is_empty_text negb ctext app]. destruct a; reflexivity.
    + unfold drop_empty, txt. cbn [filter is_empty_text negb ctext app]. destruct a; reflexivity.
Qed.

Lemma Nv_cons_nontext x r : is_text x = false -> Nv (x :: r) = merge_tree x :: Nv r.
Proof.
  intros H. unfold Nv. rewrite M_cons_nontext by exact H.
  apply drop_empty_cons_nontext. rewrite merge_is_text. exact H.
Qed.

Lemma Nv_nil : Nv [] = []. Proof. reflexivity. Qed.

Lemma mseen_elem ns name attrs o c kids :
  mseen (KElem ns name attrs o c kids) = Tag ns name attrs (Nv (map seen kids)).
Proof. reflexivity. Qed.

Lemma seen_plain n : seen (plain n) = n.
Proof.
  induction n as [ns name attrs kids IH|s|s|t c] using node_ind'; try reflexivity.
  cbn [plain seen]. f_equal. rewrite map_map. induction IH as [|x r Hx _ IHr]; [reflexivity|].
  cbn [map]. rewrite Hx, IHr. reflexivity.
Qed.

(* ------------------------------------------------------------------------------------------ *)
(* strings *)

Lemma is_ws_indent_char c : ws_indent_char c = true -> is_ws c = true.
Proof.
  unfold ws_indent_char. intros H.
  apply orb_prop in H as [H|H]; [apply orb_prop in H as [H|H]|]; apply N.eqb_eq in H; subst c; vm_compute; reflexivity.
Qed.
Lemma all_ws_of_ws_indent s : ws_indent s = true -> all_ws s.
Proof.
  unfold ws_indent, all_ws. rewrite forallb_forall, Forall_forall. intros H c Hc. apply is_ws_indent_char. apply H. exact Hc.
Qed.
Lemma all_ws_app a b : all_ws a -> all_ws b -> all_ws (a ++ b).
Proof. intros. apply Forall_app; split; assumption. Qed.
Lemma all_ws_NL : all_ws NL. Proof. repeat constructor. Qed.
Lemma all_ws_nil : all_ws []. Proof. constructor. Qed.

Lemma starts_ws_form lead k x : head_nows k -> starts_ws (optsp lead ++ k ++ x) = lead.
Proof.
  intros Hh. destruct lead; cbn [optsp app starts_ws]; [exact is_ws_SP|].
  destruct k as [|c k']; [cbn in Hh; tauto|]. cbn. exact Hh.
Qed.
Lemma ends_ws_form x k trail : last_nows k -> ends_ws (x ++ k ++ optsp trail) = trail.
Proof.
  intros Hl. unfold ends_ws. rewrite !rev_app_distr.
  replace (rev (optsp trail)) with (optsp trail) by (destruct trail; reflexivity).
  rewrite <- app_assoc. apply starts_ws_form. exact Hl.
Qed.

Lemma collapse_nf lead k trail : core k -> collapse (optsp lead ++ k ++ optsp trail) = optsp lead ++ k ++ optsp trail.
Proof.
  intros Hk. rewrite (collapse_pad (optsp lead) k (optsp trail)) by (try apply all_ws_optsp; exact Hk).
  destruct lead, trail; reflexivity.
Qed.

Lemma null_mid (a k b q : str) : head_nows k -> null ((a ++ k ++ b) ++ q) = false.
Proof. intros Hh. destruct a; [|reflexivity]. cbn [app]. destruct k; [cbn in Hh; tauto|reflexivity]. Qed.

Section Variant.
  Variable ind : str.
  Variable align : bool.
  Hypothesis ind_ws : ws_indent ind = true.

  Lemma all_ws_indent L : all_ws (indent ind L).
  Proof. apply all_ws_of_ws_indent. unfold indent. apply ws_indent_repeat. exact ind_ws. Qed.

  Notation go L := (kids_out ind (p_node ind align) L).

  (* what _serialize_text writes for a text in normal form *)
  Lemma text_out_nf L pn lead k trail next : core k ->
    let s := optsp lead ++ k ++ optsp trail in
    text_out ind L pn s next =
    [KText ((if (has_ind ind && legit_before pn (Text s))%bool then indent ind L else optsp lead)
            ++ k ++ (if legit_after (Text s) next then NL else optsp trail))].
  Proof.
    intros Hk s. unfold text_out.
    assert (Ec : collapse s = s) by (apply collapse_nf; exact Hk). rewrite Ec.
    assert (En : str_eqb s [SP] = false) by (apply core_not_sp; exact Hk). rewrite En.
    pose proof Hk as (Hh & Hl & _).
    assert (Els : lstrip s = k ++ optsp trail) by (apply lstrip_optsp; exact Hh). rewrite Els.
    destruct (has_ind ind && legit_before pn (Text s))%bool; destruct (legit_after (Text s) next).
    - rewrite (rstrip_optsp (indent ind L) k trail Hl). rewrite <- app_assoc. reflexivity.
    - reflexivity.
    - unfold s. rewrite (rstrip_optsp (optsp lead) k trail Hl). rewrite <- app_assoc. reflexivity.
    - reflexivity.
  Qed.

  Lemma go_text L pn s r : go L pn (Text s :: r) = text_out ind L pn s (hd_error r) ++ go L (Some (Text s)) r.
  Proof. reflexivity. Qed.
  Lemma go_nontext L pn x r : is_text x = false ->
    go L pn (x :: r)
    = (if (has_ind ind && legit_before pn x)%bool then [KText (indent ind L)] else [])
      ++ p_node ind align L x :: (if legit_after x (hd_error r) then [KText NL] else []) ++ go L (Some x) r.
  Proof. destruct x; cbn [is_text]; intros H; try discriminate; reflexivity. Qed.

  (* the closing indentation written by _handle_child_nodes, as the re-reader sees it *)
  Definition closing (cl : list node) : Prop := cl = [] \/ exists w, cl = [Text w] /\ all_ws w.
  Lemma Nv_closing cl : closing cl -> exists w, all_ws w /\ Nv cl = txt w.
  Proof.
    intros [->|(w & -> & Hw)]; [exists []; split; [constructor|reflexivity]|].
    exists w. split; [exact Hw|]. rewrite Nv_cons_text, Nv_nil. cbn [ctext]. apply app_nil_r.
  Qed.

  Definition OUT (L : nat) (cl : list node) (pn : option node) (l : list node) : list node :=
    Nv (map seen (go L pn l) ++ cl).

  Lemma mseen_is_text L x : is_text x = false -> is_text (mseen (p_node ind align L x)) = false.
  Proof.
    intros H. unfold mseen. rewrite merge_is_text. destruct x as [ns name attrs kids| | |]; try discriminate; try reflexivity.
    cbn [p_node]. destruct (directive attrs false); reflexivity.
  Qed.

  Lemma OUT_nontext L cl pn x r : is_text x = false ->
    OUT L cl pn (x :: r)
    = txt (if (has_ind ind && legit_before pn x)%bool then indent ind L else [])
      ++ mseen (p_node ind align L x)
      :: ctext (if legit_after x (hd_error r) then NL else []) (OUT L cl (Some x) r).
  Proof.
    intros Hx. unfold OUT. rewrite (go_nontext L pn x r Hx).
    assert (Hrest : Nv (map seen (if legit_after x (hd_error r) then [KText NL] else []) ++ map seen (go L (Some x) r) ++ cl)
                    = ctext (if legit_after x (hd_error r) then NL else []) (Nv (map seen (go L (Some x) r) ++ cl))).
    { destruct (legit_after x (hd_error r)); cbn [app map seen].
      - apply Nv_cons_text.
      - rewrite ctext_nil. reflexivity. }
    assert (Hs : is_text (seen (p_node ind align L x)) = false).
    { destruct x as [ns name attrs kids| | |]; try discriminate; try reflexivity.
      cbn [p_node]. destruct (directive attrs false); reflexivity. }
    destruct (has_ind ind && legit_before pn x)%bool; cbn [app map seen].
    - rewrite Nv_cons_text. rewrite map_app, <- app_assoc. rewrite (Nv_cons_nontext _ _ Hs).
      rewrite Hrest.
      rewrite ctext_nontext by (cbn [starts_nontext]; rewrite merge_is_text; exact Hs). reflexivity.
    - rewrite map_app, <- app_assoc. rewrite (Nv_cons_nontext _ _ Hs). rewrite Hrest. reflexivity.
  Qed.

  Lemma OUT_text L cl pn s r :
    OUT L cl pn (Text s :: r) = Nv (map seen (text_out ind L pn s (hd_error r)) ++ map seen (go L (Some (Text s)) r) ++ cl).
  Proof. unfold OUT. rewrite go_text, map_app, <- app_assoc. reflexivity. Qed.

  (* the motives of the mutual induction over the normal form *)
  Definition Pnft (t : node) (_ : nft t) : Prop := forall L, wvt t (mseen (p_node ind align L t)).
  Definition Pnf (prev : sib) (l : list node) (_ : nf prev l) : Prop :=
    forall L cl, closing cl ->
    match prev with
    | Start => l <> [] -> wv Start l (ctext NL (OUT L cl None l))
    | AfterN => forall x, is_text x = false ->
                wv AfterN l (ctext (if legit_after x (hd_error l) then NL else []) (OUT L cl (Some x) l))
    | AfterX => forall s, exists q r', OUT L cl (Some (Text s)) l = txt q ++ r' /\ all_ws q
                /\ (l <> [] -> null q = false -> ends_ws s = true) /\ starts_nontext r' /\ wv AfterX l r'
    end.
  Definition Pnfk (l : list node) (_ : nfk l) : Prop :=
    forall L, wvk l (Nv (map seen (handle_kids ind (p_node ind align) L l))).

  Lemma closing_handle L : closing (map seen (if has_ind ind then [KText (indent ind L)] else [])).
  Proof.
    destruct (has_ind ind); [right|left; reflexivity]. exists (indent ind L). split; [reflexivity|apply all_ws_indent].
  Qed.

  Lemma handle_kids_view L l : l <> [] ->
    Nv (map seen (handle_kids ind (p_node ind align) L l))
    = ctext NL (OUT (S L) (map seen (if has_ind ind then [KText (indent ind L)] else [])) None l).
  Proof.
    intros Hl. unfold handle_kids. destruct l as [|x r]; [congruence|].
    cbn [app]. cbn [map seen]. rewrite Nv_cons_text. unfold OUT. rewrite map_app. reflexivity.
  Qed.

  Theorem pretty_is_variant_mut : forall t (H : nft t), Pnft t H.
  Proof.
    apply (nft_mut Pnft Pnf Pnfk); unfold Pnft, Pnf, Pnfk.
    - (* verbatim: preserved element, comment, PI *)
      intros n Hc Hr Hk L.
      assert (E : mseen (p_node ind align L n) = n).
      { unfold mseen. destruct n as [ns name attrs kids|s|s|t c]; try reflexivity.
        cbn [p_node]. rewrite Hk. rewrite seen_plain. apply merge_id. exact Hc. }
      rewrite E. apply wvt_verbatim; assumption.
    - (* element *)
      intros ns name attrs ks Hd Hk IH L. cbn [p_node]. rewrite Hd. rewrite mseen_elem.
      apply wvt_tag; [exact Hd|apply IH].
    - (* nil *)
      intros prev L cl Hcl. destruct (Nv_closing cl Hcl) as (w & Hw & Ew).
      destruct prev.
      + intros H. congruence.
      + intros x Hx. cbn [hd_error legit_after]. unfold OUT. cbn [kids_out map app]. rewrite Ew.
        rewrite <- (app_nil_r (txt w)). rewrite ctext_txt by exact I. rewrite app_nil_r.
        apply wv_nil_afterN. apply all_ws_app; [apply all_ws_NL|exact Hw].
      + intros s. exists w, []. unfold OUT. cbn [kids_out map app]. rewrite Ew, app_nil_r.
        split; [reflexivity|]. split; [exact Hw|]. split; [congruence|]. split; [exact I|constructor].
    - (* a non-text child *)
      intros prev x r Hx Hnx IHx Hnr IHr L cl Hcl.
      pose proof (mseen_is_text L x Hx) as Hmx.
      specialize (IHr L cl Hcl). cbn beta iota in IHr. specialize (IHr x Hx).
      destruct prev.
      + intros _. rewrite (OUT_nontext L cl None x r Hx).
        rewrite ctext_txt by (cbn [starts_nontext]; exact Hmx).
        apply wv_N_start; [|exact Hx|apply IHx|exact IHr].
        apply all_ws_app; [apply all_ws_NL|]. destruct (has_ind ind && legit_before None x)%bool; [apply all_ws_indent|constructor].
      + intros x0 Hx0. rewrite (OUT_nontext L cl (Some x0) x r Hx).
        assert (E1 : legit_before (Some x0) x = false)
          by (destruct x0, x; try discriminate; reflexivity).
        assert (E2 : legit_after x0 (hd_error (x :: r)) = false)
          by (destruct x0, x; try discriminate; reflexivity).
        rewrite E1, E2, andb_false_r. cbn [txt null app]. rewrite ctext_nil.
        apply wv_N; [discriminate|exact Hx|apply IHx|exact IHr].
      + intros s. rewrite (OUT_nontext L cl (Some (Text s)) x r Hx).
        eexists. eexists. split; [reflexivity|]. split; [|split; [|split]].
        * destruct (has_ind ind && legit_before (Some (Text s)) x)%bool; [apply all_ws_indent|constructor].
        * intros _ Hq. destruct (has_ind ind && legit_before (Some (Text s)) x)%bool eqn:E; [|discriminate].
          apply andb_prop in E as [_ E]. destruct x; try discriminate; exact E.
        * cbn [starts_nontext]. exact Hmx.
        * apply wv_N; [discriminate|exact Hx|apply IHx|exact IHr].
    - (* a text with content *)
      intros prev lead trail k r Hk Hp Hl Ht Hnr IHr L cl Hcl.
      set (s := optsp lead ++ k ++ optsp trail).
      specialize (IHr L cl Hcl). cbn beta iota in IHr.
      destruct (IHr s) as (q & r' & Eo & Hq & Hqs & Hst & Hwv).
      pose proof Hk as (Hh & Hlast & _).
      assert (Es : starts_ws s = lead) by (apply starts_ws_form; exact Hh).
      assert (Ee : ends_ws s = trail) by (apply (ends_ws_form (optsp lead)); exact Hlast).
      assert (Hform : forall pn p, all_ws p ->
                (prev <> Start -> null (p ++ (if (has_ind ind && legit_before pn (Text s))%bool then indent ind L else optsp lead)) = negb lead) ->
                wv prev (Text s :: r) (ctext p (OUT L cl pn (Text s :: r)))).
      { intros pn p Hpw Hw1. rewrite OUT_text. unfold s at 2. rewrite (text_out_nf L pn lead k trail (hd_error r) Hk). fold s.
        cbn [map seen app]. rewrite Nv_cons_text. fold (OUT L cl (Some (Text s)) r). rewrite Eo.
        rewrite (ctext_txt _ q r' Hst).
        rewrite txt_nonnull by (apply null_mid; exact Hh). cbn [app ctext]. rewrite <- !app_assoc.
        rewrite (app_assoc p).
        apply (wv_X prev lead trail k k
                 (p ++ (if (has_ind ind && legit_before pn (Text s))%bool then indent ind L else optsp lead))
                 ((if legit_after (Text s) (hd_error r) then NL else optsp trail) ++ q));
          [exact Hk|apply inner_variant_refl; exact Hk|exact Hp|exact Hl|exact Ht| | |exact Hw1| |exact Hwv].
        - apply all_ws_app; [exact Hpw|]. destruct (has_ind ind && legit_before pn (Text s))%bool; [apply all_ws_indent|apply all_ws_optsp].
        - apply all_ws_app; [|exact Hq]. destruct (legit_after (Text s) (hd_error r)); [apply all_ws_NL|apply all_ws_optsp].
        - intros Hrn. destruct r as [|y r0]; [congruence|]. cbn [hd_error legit_after]. rewrite Ee.
          destruct trail; cbn [negb optsp app]; [reflexivity|].
          destruct (null q) eqn:Enq; [reflexivity|]. rewrite (Hqs Hrn eq_refl) in Ee. discriminate. }
      destruct prev.
      + intros _. apply Hform; [apply all_ws_NL|congruence].
      + intros x Hx. apply Hform.
        * destruct (legit_after x (hd_error (Text s :: r))); [apply all_ws_NL|constructor].
        * intros _. cbn [hd_error].
          assert (E1 : legit_after x (Some (Text s)) = lead) by (destruct x; try discriminate; exact Es).
          assert (E2 : legit_before (Some x) (Text s) = lead) by (cbn [legit_before]; exact Es).
          rewrite E1, E2. destruct lead; cbn [negb]; [reflexivity|]. rewrite andb_false_r. reflexivity.
      + congruence.
    - (* a single space between two non-text siblings *)
      intros r Hrn Hnr IHr L cl Hcl x Hx.
      specialize (IHr L cl Hcl). cbn beta iota in IHr. destruct (IHr [SP]) as (q & r' & Eo & Hq & _ & Hst & Hwv).
      rewrite OUT_text.
      assert (Eout : text_out ind L (Some x) [SP] (hd_error r) = []) by reflexivity.
      rewrite Eout. cbn [map app]. fold (OUT L cl (Some (Text [SP])) r). rewrite Eo.
      cbn [hd_error]. replace (legit_after x (Some (Text [SP]))) with true
        by (destruct x; try discriminate; symmetry; exact is_ws_SP).
      rewrite (ctext_txt NL q r' Hst). cbn [app]. rewrite txt_nonnull by reflexivity. cbn [app].
      apply wv_space; [|discriminate|exact Hrn|exact Hwv].
      apply (all_ws_app NL q); [apply all_ws_NL|exact Hq].
    - (* an element holding one space *)
      intros L. unfold handle_kids. cbn [app kids_out].
      assert (Eout : text_out ind (S L) None [SP] None = []) by reflexivity.
      cbn [hd_error]. rewrite Eout. cbn [app map seen]. rewrite Nv_cons_text.
      destruct (Nv_closing _ (closing_handle L)) as (w & Hw & Ew). rewrite Ew.
      rewrite <- (app_nil_r (txt w)). rewrite ctext_txt by exact I. rewrite app_nil_r.
      rewrite txt_nonnull by reflexivity. apply wvk_only_space; [|discriminate].
      apply (all_ws_app NL w); [apply all_ws_NL|exact Hw].
    - (* an ordinary child list *)
      intros l Hl IH L. destruct l as [|x r].
      + cbn [handle_kids map]. rewrite Nv_nil. apply wvk_list. constructor.
      + rewrite handle_kids_view by discriminate. apply wvk_list.
        specialize (IH (S L) _ (closing_handle L)). cbn beta iota in IH. apply IH. discriminate.
  Qed.

  Theorem pretty_is_variant t L : nft t -> ws_variant t (merge_tree (seen (p_node ind align L t))).
  Proof. intros H. exact (pretty_is_variant_mut t H L). Qed.

  (* parts A and B together *)
  Theorem pretty_transparent t L : reduced t -> is_text t = false ->
    reduce_model (seen (p_node ind align L t)) = t.
  Proof.
    intros Hr Ht. apply variant_erased_raw. apply pretty_is_variant. apply reduced_nft; assumption.
  Qed.
End Variant.
