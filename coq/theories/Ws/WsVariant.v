(* Whitespace-reduced trees and their legal whitespace variants (C03, part A).  Definitions only. *)
From Delb.Base Require Import PyStr PyStrFacts.
From Delb.Tree Require Import ATree Merge.
From Delb.Ws Require Import Reduce.

(* a tree whose whitespace has been reduced: reducing it again changes nothing *)
Definition reduced (t : node) : Prop := reduce_model t = t.
