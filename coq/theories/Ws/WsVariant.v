(* Whitespace-reduced trees and their legal whitespace variants (C03, part A).  Definitions only;
   the facts are in WsVariantFacts.v.

   ws_variant t t' : t is in normal form (whitespace-reduced) and t' differs from it only by whitespace
   at places where the reduction drops it again:
     (i)   a whitespace-only text added before the first / after the last child of an element that is
           not under xml:space="preserve" (also as the only content of an element that held one space);
     (ii)  the single leading / trailing space of a text, or a one-space text between two non-text
           siblings, replaced by any non-empty whitespace run;
     (iii) inner single spaces of a text replaced by whitespace runs (what line wrapping does);
     nothing changes inside elements written verbatim (xml:space="preserve"), comments and PIs.
   t' is the tree as a parser presents it (adjacent character data merged, no empty text).
   The relation is stated on tails of child lists, indexed by what precedes the tail, and carries the
   normal form in its own premises. *)
From Delb.Base Require Import PyStr PyStrFacts.
From Delb.Tree Require Import ATree Merge.
From Delb.Ws Require Import Reduce.

(* a tree whose whitespace has been reduced: reducing it again changes nothing *)
Definition reduced (t : node) : Prop := reduce_model t = t.

Inductive sib := Start | AfterN | AfterX.
Definition is_start (p : sib) : bool := match p with Start => true | _ => false end.

(* k' has non-whitespace ends and collapses to the core k: k with inner spaces widened *)
Definition inner_variant (k k' : str) : Prop := head_nows k' /\ last_nows k' /\ collapse k' = k.

Definition txt (w : str) : list node := if null w then [] else [Text w].

Inductive wvt : node -> node -> Prop :=
| wvt_verbatim n : clean n = true -> reduce_with reduce_text_spec false n = n -> wvt n n
| wvt_tag ns name attrs ks ks' : directive attrs false = false -> wvk ks ks' ->
    wvt (Tag ns name attrs ks) (Tag ns name attrs ks')
with wv : sib -> list node -> list node -> Prop :=
| wv_nil_start : wv Start [] []
| wv_nil_afterX : wv AfterX [] []
| wv_nil_afterN w : all_ws w -> wv AfterN [] (txt w)
| wv_N_start w x x' r r' : all_ws w -> is_text x = false -> wvt x x' -> wv AfterN r r' ->
    wv Start (x :: r) (txt w ++ x' :: r')
| wv_N prev x x' r r' : prev <> Start -> is_text x = false -> wvt x x' -> wv AfterN r r' ->
    wv prev (x :: r) (x' :: r')
| wv_X prev lead trail k k' w1 w2 r r' : core k -> inner_variant k k' -> prev <> AfterX ->
    (prev = Start -> lead = false) -> (r = [] -> trail = false) ->
    all_ws w1 -> all_ws w2 ->
    (prev <> Start -> null w1 = negb lead) -> (r <> [] -> null w2 = negb trail) ->
    wv AfterX r r' ->
    wv prev (Text (optsp lead ++ k ++ optsp trail) :: r) (Text (w1 ++ k' ++ w2) :: r')
| wv_space w r r' : all_ws w -> w <> [] -> r <> [] -> wv AfterX r r' ->
    wv AfterN (Text [SP] :: r) (Text w :: r')
with wvk : list node -> list node -> Prop :=
| wvk_only_space w : all_ws w -> w <> [] -> wvk [Text [SP]] [Text w]
| wvk_list l l' : wv Start l l' -> wvk l l'.

Scheme wvt_mut := Induction for wvt Sort Prop
with wv_mut := Induction for wv Sort Prop
with wvk_mut := Induction for wvk Sort Prop.

Definition ws_variant : node -> node -> Prop := wvt.

(* the normal form as a predicate of its own (the input side of the relation) *)
Inductive nft : node -> Prop :=
| nft_verbatim n : clean n = true -> reduce_with reduce_text_spec false n = n ->
    match n with Tag _ _ attrs _ => directive attrs false = true | Text _ => False | _ => True end -> nft n
| nft_tag ns name attrs ks : directive attrs false = false -> nfk ks -> nft (Tag ns name attrs ks)
with nf : sib -> list node -> Prop :=
| nf_nil prev : nf prev []
| nf_N prev x r : is_text x = false -> nft x -> nf AfterN r -> nf prev (x :: r)
| nf_X prev lead trail k r : core k -> prev <> AfterX ->
    (prev = Start -> lead = false) -> (r = [] -> trail = false) ->
    nf AfterX r -> nf prev (Text (optsp lead ++ k ++ optsp trail) :: r)
| nf_space r : r <> [] -> nf AfterX r -> nf AfterN (Text [SP] :: r)
with nfk : list node -> Prop :=
| nfk_only_space : nfk [Text [SP]]
| nfk_list l : nf Start l -> nfk l.

Scheme nft_mut := Induction for nft Sort Prop
with nf_mut := Induction for nf Sort Prop
with nfk_mut := Induction for nfk Sort Prop.
