(* Editing a plain ordered tree: the specification side of C01/C09/C10.  Definitions only.

   Three layers:
   1. queries on a world (find a node, its parent, its children, is it parentless and alone);
   2. *updates*: plain list surgery -- take a parentless node and put it directly after / before a node, as first /
      last child, remove a node from its parent, assign text content, merge runs of adjacent text nodes;
   3. *scripts*: the public editing calls (`add_following_siblings`, `append_children`, `insert_children`,
      `detach`, `replace_with`, `node[i] = x`, `del node[i]`, ...) written as programs over the updates, with the
      order of checks the documentation states (offered node must be alone, root takes no tag/text siblings,
      positions count the children visible under the ambient filter `F`).
   A script is a value of type `prog`: it may inspect the current world (`Ask`), perform an update (`Upd`) or stop
   (`Ret`).  `run_a` interprets updates as list surgery on `world`; Conc/COps.v interprets the *same* scripts with
   the updates of the lxml/text-chain layer.  `astep F w o = run_a (script F o) w`. *)
From Delb.Base Require Import PyStr.
From Delb.Tree Require Import ATree ITree.

(* ---- results ---- *)
Inductive exn := EInvalidOperation | ETypeError | EValueError | EIndexError
               | EAssertionError | EAttributeError | EUnmodelled.
Inductive result := ROk | Rejected (e : exn) | Crash (e : exn).

(* ---- node kinds and ambient filters (kind-based: is_tag_node, is_text_node, ... and their unions) ---- *)
Inductive nkind := NTag | NText | NComment | NPI.
Definition kind_of_payload (p : payload) : nkind :=
  match p with PTag _ _ _ => NTag | PText _ => NText | PComment _ => NComment | PPI _ _ => NPI end.
Definition ikind (t : itree) : nkind := kind_of_payload (ipayload t).
Definition nkind_eqb (a b : nkind) : bool :=
  match a, b with NTag, NTag | NText, NText | NComment, NComment | NPI, NPI => true | _, _ => false end.
Definition is_textk (k : nkind) : bool := nkind_eqb k NText.
Definition is_cpik (k : nkind) : bool := match k with NComment | NPI => true | _ => false end.

Record filt := { f_tag : bool; f_text : bool; f_comment : bool; f_pi : bool }.
Definition fall : filt := {| f_tag := true; f_text := true; f_comment := true; f_pi := true |}.
Definition fdefault : filt := {| f_tag := true; f_text := true; f_comment := false; f_pi := false |}.
Definition vis (F : filt) (k : nkind) : bool :=
  match k with NTag => f_tag F | NText => f_text F | NComment => f_comment F | NPI => f_pi F end.

(* ---- queries ---- *)
Definition has_id (x : nid) (t : itree) : bool := N.eqb (iid t) x.

Definition first_some {A B} (f : A -> option B) : list A -> option B :=
  fix go l := match l with [] => None | a :: r => match f a with Some b => Some b | None => go r end end.

Fixpoint t_find (x : nid) (t : itree) {struct t} : option itree :=
  match t with
  | INode i _ kids => if N.eqb i x then Some t else first_some (t_find x) kids
  end.
Fixpoint t_parent (x : nid) (t : itree) {struct t} : option itree :=
  match t with
  | INode _ _ kids => if existsb (has_id x) kids then Some t else first_some (t_parent x) kids
  end.

Definition doc_nodes (d : list itree * itree * list itree) : list itree :=
  match d with (pro, r, epi) => pro ++ r :: epi end.
Definition doc_root (d : list itree * itree * list itree) : itree := match d with (_, r, _) => r end.
Definition forest (w : world) : list itree := flat_map doc_nodes (docs w) ++ loose w.
Definition w_find (w : world) (x : nid) : option itree := first_some (t_find x) (forest w).
Definition w_parent (w : world) (x : nid) : option itree := first_some (t_parent x) (forest w).
Definition w_kind (w : world) (x : nid) : option nkind := option_map ikind (w_find w x).
Definition is_loose (w : world) (x : nid) : bool := existsb (has_id x) (loose w).
Definition is_doc_root (w : world) (x : nid) : bool := existsb (fun d => has_id x (doc_root d)) (docs w).
(* parentless, without siblings and not a document's root: what `_prepare_new_relative` accepts *)
Definition lone (w : world) (x : nid) : bool := is_loose w x.
Definition is_ancestor_or_self (w : world) (a x : nid) : bool :=
  match w_find w a with Some t => match t_find x t with Some _ => true | None => false end | None => false end.

(* ---- rewriting at the first node (document order) where a local function applies ---- *)
Section Rewrite.
  Context {A : Type}.
  Variable g : itree -> option (itree * A).
  Definition rw_list (rec : itree -> option (itree * A)) : list itree -> option (list itree * A) :=
    fix go l :=
      match l with
      | [] => None
      | t :: r => match rec t with
                  | Some (t', a) => Some (t' :: r, a)
                  | None => match go r with Some (r', a) => Some (t :: r', a) | None => None end
                  end
      end.
  Fixpoint t_rw (t : itree) {struct t} : option (itree * A) :=
    match g t with
    | Some r => Some r
    | None => match t with
              | INode i p kids =>
                  match rw_list t_rw kids with Some (kids', a) => Some (INode i p kids', a) | None => None end
              end
    end.
  Definition rw_docs : list (list itree * itree * list itree) -> option (list (list itree * itree * list itree) * A) :=
    fix go l :=
      match l with
      | [] => None
      | (pro, r, epi) :: rest =>
          match t_rw r with
          | Some (r', a) => Some ((pro, r', epi) :: rest, a)
          | None => match go rest with Some (rest', a) => Some ((pro, r, epi) :: rest', a) | None => None end
          end
      end.
  Definition w_rw (w : world) : option (world * A) :=
    match rw_docs (docs w) with
    | Some (d', a) => Some ({| docs := d'; loose := loose w |}, a)
    | None => match rw_list t_rw (loose w) with
              | Some (l', a) => Some ({| docs := docs w; loose := l' |}, a)
              | None => None
              end
    end.
End Rewrite.

(* ---- local list surgery ---- *)
Fixpoint ins_after (x : nid) (n : itree) (l : list itree) : list itree :=
  match l with [] => [] | t :: r => if has_id x t then t :: n :: r else t :: ins_after x n r end.
Fixpoint ins_before (x : nid) (n : itree) (l : list itree) : list itree :=
  match l with [] => [] | t :: r => if has_id x t then n :: t :: r else t :: ins_before x n r end.
Fixpoint take_id (x : nid) (l : list itree) : option (itree * list itree) :=
  match l with
  | [] => None
  | t :: r => if has_id x t then Some (t, r)
              else match take_id x r with Some (u, r') => Some (u, t :: r') | None => None end
  end.

Definition at_parent_of (x : nid) (f : list itree -> list itree) (t : itree) : option (itree * unit) :=
  match t with INode i p kids => if existsb (has_id x) kids then Some (INode i p (f kids), tt) else None end.
Definition at_node (x : nid) (f : itree -> itree) (t : itree) : option (itree * unit) :=
  if has_id x t then Some (f t, tt) else None.
Definition at_tag (x : nid) (f : itree -> itree) (t : itree) : option (itree * unit) :=
  if has_id x t && nkind_eqb (ikind t) NTag then Some (f t, tt) else None.
Definition g_extract (x : nid) (t : itree) : option (itree * itree) :=
  match t with
  | INode i p kids => match take_id x kids with Some (u, kids') => Some (INode i p kids', u) | None => None end
  end.

Definition text_of (t : itree) : str := match ipayload t with PText s => s | _ => [] end.
Definition is_itext (t : itree) : bool := is_textk (ikind t).
(* merge every run of adjacent text nodes into its first member *)
Fixpoint merge_run (acc : itree) (l : list itree) : list itree :=
  match l with
  | [] => [acc]
  | t :: r => if is_itext acc && is_itext t
              then merge_run (INode (iid acc) (PText (text_of acc ++ text_of t)) []) r
              else acc :: merge_run t r
  end.
Definition merge_list (l : list itree) : list itree := match l with [] => [] | t :: r => merge_run t r end.
Fixpoint merge_tree (t : itree) : itree :=
  match t with INode i p kids => INode i p (merge_list (map merge_tree kids)) end.

Definition set_text (s : str) (t : itree) : itree :=
  match t with INode i (PText _) k => INode i (PText s) k | _ => t end.
Fixpoint set_text_first (x : nid) (s : str) (l : list itree) : list itree :=
  match l with
  | [] => []
  | t :: r => if has_id x t then set_text s t :: r else t :: set_text_first x s r
  end.
(* directly before x; a text is never put directly before an element-like node this way *)
Definition g_before (x : nid) (n : itree) (t : itree) : option (itree * unit) :=
  match t with
  | INode i p kids =>
      match find (has_id x) kids with
      | Some xk => if is_itext n && negb (is_itext xk) then None else Some (INode i p (ins_before x n kids), tt)
      | None => None
      end
  end.

(* ---- updates ---- *)
Inductive upd :=
| UNewText (fresh : nid) (s : str)                 (* TextNode(s) *)
| UNewTag (ctx fresh : nid) (ns name : str)        (* tag(name) realised in the context of node ctx *)
| UAddFollowing (x n : nid)                        (* parentless n directly after x *)
| UTextAddPreceding (x n : nid)                    (* parentless n directly before the text node x *)
| UAddPrevious (x n : nid)                         (* parentless element n directly before the element x *)
| UBindData (p n : nid)                            (* parentless text n becomes the first child of p *)
| UAppendEl (p n : nid)                            (* parentless element n becomes the last child of p *)
| UDetach (x : nid)                                (* x leaves its parent and becomes parentless *)
| USetContent (x : nid) (s : str)
| UMerge (p : nid).

Definition take_loose (n : nid) (w : world) : option (itree * world) :=
  match take_id n (loose w) with
  | Some (t, l') => Some (t, {| docs := docs w; loose := l' |})
  | None => None
  end.
Definition add_loose (t : itree) (w : world) : world := {| docs := docs w; loose := loose w ++ [t] |}.

(* move the parentless n into the kid list of x's parent *)
Definition a_move (n : nid) (ok : itree -> bool) (g : itree -> itree -> option (itree * unit)) (w : world) : world :=
  match take_loose n w with
  | Some (t, w1) => if ok t then match w_rw (g t) w1 with Some (w2, _) => w2 | None => w end else w
  | None => w
  end.
Definition any_node (_ : itree) : bool := true.

Definition apply_a (u : upd) (w : world) : world :=
  match u with
  | UNewText fresh s => add_loose (INode fresh (PText s) []) w
  | UNewTag _ fresh ns name => add_loose (INode fresh (PTag ns name []) []) w
  | UAddFollowing x n => a_move n any_node (fun t => at_parent_of x (ins_after x t)) w
  | UTextAddPreceding x n => a_move n any_node (g_before x) w
  | UAddPrevious x n => a_move n any_node (g_before x) w
  | UBindData p n => a_move n is_itext (fun t => at_tag p (fun q => INode (iid q) (ipayload q) (t :: ikids q))) w
  | UAppendEl p n =>
      a_move n (fun t => negb (is_itext t)) (fun t => at_tag p (fun q => INode (iid q) (ipayload q) (ikids q ++ [t]))) w
  | UDetach x => match w_rw (g_extract x) w with Some (w1, t) => add_loose t w1 | None => w end
  | USetContent x s =>
      if is_loose w x then {| docs := docs w; loose := set_text_first x s (loose w) |}
      else match w_rw (at_parent_of x (set_text_first x s)) w with Some (w1, _) => w1 | None => w end
  | UMerge p => match w_rw (at_tag p merge_tree) w with Some (w1, _) => w1 | None => w end
  end.

(* ---- scripts ---- *)
Inductive prog :=
| Ret (r : result)
| Upd (u : upd) (k : prog)
| Ask (k : world -> prog).

Fixpoint run_a (p : prog) (w : world) : world * result :=
  match p with
  | Ret r => (w, r)
  | Upd u k => run_a k (apply_a u w)
  | Ask k => run_a (k w) w
  end.

(* a refusal inside a call that has already begun would be an internal error, not a refusal of the call *)
Fixpoint seal (p : prog) : prog :=
  match p with
  | Ret (Rejected e) => Ret (Crash EAssertionError)
  | Ret r => Ret r
  | Upd u k => Upd u (seal k)
  | Ask k => Ask (fun w => seal (k w))
  end.

(* what a caller may offer as a node *)
Inductive nsrc :=
| SNode (x : nid)                     (* an existing node object *)
| SStr (fresh : nid) (s : str)        (* a string; the TextNode made from it is object `fresh` *)
| STag (fresh : nid) (name : str).    (* tag(name); the TagNode made from it is object `fresh` *)

Inductive op :=
| OAddFollowing (x : nid) (ns : list nsrc)
| OAddPreceding (x : nid) (ns : list nsrc)
| OAppend (p : nid) (ns : list nsrc)
| OPrepend (p : nid) (ns : list nsrc)
| OInsert (p : nid) (i : Z) (ns : list nsrc)
| ODetach (x : nid) (retain : bool)
| OReplace (x : nid) (n : nsrc)
| OSetItem (p : nid) (i : Z) (n : nsrc)
| ODelItem (p : nid) (i : Z)
| OSetContent (x : nid) (s : str)
| OMerge (p : nid).

Definition kind_is (w : world) (x : nid) (f : nkind -> bool) : bool :=
  match w_kind w x with Some k => f k | None => false end.
Definition children_ids (w : world) (p : nid) : list itree :=
  match w_find w p with Some t => ikids t | None => [] end.

Section Scripts.
  Variable F : filt.

  Definition vis_children (w : world) (p : nid) : list nid :=
    map iid (filter (fun t => vis F (ikind t)) (children_ids w p)).

  (* the namespace a tag() definition takes: the context tag's, or its parent's for other contexts *)
  Definition tagdef_ctx (w : world) (ctx : nid) : option (nid * str) :=
    match w_find w ctx with
    | Some (INode i (PTag ns _ _) _) => Some (i, ns)
    | Some _ => match w_parent w ctx with
                | Some (INode i (PTag ns _ _) _) => Some (i, ns)
                | _ => None
                end
    | None => None
    end.

  (* _validate_sibling_operation (NodeBase and TagNode); nk: the kind of the node to be added *)
  Definition validate_sibling (x : nid) (nk : nkind) (k : prog) : prog :=
    Ask (fun w =>
      match w_parent w x with
      | Some _ => k
      | None =>
          if is_cpik nk && (kind_is w x is_cpik || is_doc_root w x)
          then Ret (Crash EUnmodelled)        (* comments / PIs next to a root: not covered by this model *)
          else Ret (Rejected (if kind_is w x (nkind_eqb NTag) then ETypeError else EInvalidOperation))
      end).
  Definition validate_opt (sib : option nid) (nk : nkind) (k : prog) : prog :=
    match sib with Some x => validate_sibling x nk k | None => k end.

  (* `_prepare_new_relative`: a node can't be added to its own subtree (the offered node is the node the method is
     called on, or one of its ancestors) *)
  Definition no_cycle (x n : nid) (k : prog) : prog :=
    Ask (fun w => if is_ancestor_or_self w n x then Ret (Rejected EInvalidOperation) else k).

  (* NodeBase._prepare_new_relative for the first offered node, followed (sib = Some x) by x's
     _validate_sibling_operation; objects for strings and tag() definitions are only recorded once nothing can
     refuse the call any more (an unreferenced new object is not observable) *)
  Definition prepare (ctx : nid) (sib : option nid) (src : nsrc) (k : nid -> prog) : prog :=
    match src with
    | SStr fresh s => validate_opt sib NText (Upd (UNewText fresh s) (k fresh))
    | STag fresh name =>
        Ask (fun w => match tagdef_ctx w ctx with
                      | Some (c, ns) => validate_opt sib NTag (Upd (UNewTag c fresh ns name) (k fresh))
                      | None => Ret (Rejected EInvalidOperation)     (* a parentless text, comment or PI node as context *)
                      end)
    | SNode n =>
        Ask (fun w => if lone w n
                      then no_cycle ctx n
                             (Ask (fun w => match w_kind w n with
                                            | Some nk => validate_opt sib nk (k n)
                                            | None => Ret (Crash EUnmodelled)
                                            end))
                      else Ret (Rejected EInvalidOperation))
    end.

  Fixpoint add_following (x : nid) (srcs : list nsrc) : prog :=
    match srcs with
    | [] => Ret ROk
    | src :: q => prepare x (Some x) src (fun n => Upd (UAddFollowing x n) (add_following n q))
    end.

  (* the nearest preceding sibling visible under F *)
  Definition prev_visible (w : world) (x : nid) : option nid :=
    match w_parent w x with
    | Some t =>
        let before := (fix go (l : list itree) (acc : list itree) : list itree :=
                         match l with [] => [] | k :: r => if has_id x k then acc else go r (k :: acc) end)
                        (ikids t) [] in
        match filter (fun k => vis F (ikind k)) before with k :: _ => Some (iid k) | [] => None end
    | None => None
    end.
  Definition first_is_text (w : world) (p : nid) : bool :=
    match children_ids w p with t :: _ => is_itext t | [] => false end.

  (* x._add_preceding_sibling(n) *)
  Definition add_preceding_one (x n : nid) (k : prog) : prog :=
    Ask (fun w =>
      if kind_is w x is_textk then Upd (UTextAddPreceding x n) k
      else match prev_visible w x with
           | Some pv => Upd (UAddFollowing pv n) k
           | None =>
               if kind_is w n is_textk
               then match w_parent w x with
                    | Some t => if first_is_text w (iid t) then Ret (Crash EAssertionError)
                                else Upd (UBindData (iid t) n) k
                    | None => Ret (Crash EAssertionError)
                    end
               else Upd (UAddPrevious x n) k
           end).

  Fixpoint add_preceding (x : nid) (srcs : list nsrc) : prog :=
    match srcs with
    | [] => Ret ROk
    | src :: q =>
        prepare x (Some x) src (fun n => add_preceding_one x n (add_preceding n q))
    end.

  (* TagNode.__add_first_child *)
  Definition add_first_child (p n : nid) (k : prog) : prog :=
    Ask (fun w => if kind_is w n is_textk then Upd (UBindData p n) k else Upd (UAppendEl p n) k).

  Definition on_tag (p : nid) (k : prog) : prog :=
    Ask (fun w => if kind_is w p (nkind_eqb NTag) then k else Ret (Crash EAttributeError)).

  Definition append_children (p : nid) (srcs : list nsrc) : prog :=
    on_tag p (Ask (fun w =>
      match rev (vis_children w p) with
      | l :: _ => add_following l srcs
      | [] => match srcs with
              | [] => Ret ROk
              | src :: q => prepare p None src (fun n => add_first_child p n (add_following n q))
              end
      end)).

  Definition nth_vis (w : world) (p : nid) (i : nat) : option nid := nth_error (vis_children w p) i.

  Definition insert_children (p : nid) (i : Z) (srcs : list nsrc) : prog :=
    on_tag p (Ask (fun w =>
      if (i <? 0)%Z then Ret (Rejected EValueError)
      else
        let cc := length (vis_children w p) in
        let n := Z.to_nat i in
        if Nat.ltb cc n then Ret (Rejected EIndexError)
        else match srcs with
             | [] => Ret (Crash EValueError)         (* `this, *queue = node` with no node *)
             | src :: q =>
                 let rest := match q with
                             | [] => Ret ROk
                             | _ => Ask (fun w' => match nth_vis w' p n with
                                                   | Some y => add_following y q
                                                   | None => Ret (Crash EIndexError)
                                                   end)
                             end in
                 match n with
                 | O => match vis_children w p with
                        | y :: _ => (* self[0].add_preceding_siblings(this) *)
                            prepare y (Some y) src (fun m => add_preceding_one y m rest)
                        | [] => prepare p None src (fun m => add_first_child p m rest)
                        end
                 | S n' => match nth_vis w p n' with
                           | Some y =>
                               prepare y (Some y) src (fun m => Upd (UAddFollowing y m) rest)
                           | None => Ret (Crash EIndexError)
                           end
                 end
             end)).

  (* detach, by kind; tags: TagNode.detach *)
  Definition detach_all : list nid -> prog -> prog :=
    fix go l k := match l with [] => k | c :: r => Upd (UDetach c) (go r k) end.
  Definition index_of (x : nid) (l : list itree) : nat :=
    (fix go (l : list itree) (i : nat) : nat :=
       match l with [] => i | t :: r => if has_id x t then i else go r (S i) end) l O.
End Scripts.

Definition detach (x : nid) (retain : bool) : prog :=
  Ask (fun w =>
    match w_kind w x with
    | None => Ret (Crash EUnmodelled)
    | Some NTag =>
        if is_doc_root w x then Ret (Rejected EInvalidOperation)
        else match w_parent w x with
             | None => if retain then Ret (Rejected EInvalidOperation) else Ret ROk
             | Some t =>
                 if retain
                 then
                   let idx := index_of x (ikids t) in
                   let kids := map iid (children_ids w x) in
                   Upd (UDetach x)
                       (detach_all kids
                          (match kids with
                           | [] => Ret ROk
                           | _ => seal (insert_children fall (iid t) (Z.of_nat idx) (map SNode kids))
                           end))
                 else Upd (UDetach x) (Ret ROk)
             end
    | Some _ => Upd (UDetach x) (Ret ROk)
    end).

Section Scripts2.
  Variable F : filt.

  Definition replace_with (x : nid) (src : nsrc) : prog :=
    Ask (fun w =>
      match w_parent w x with
      | None => Ret (Rejected EInvalidOperation)
      | Some _ =>
          prepare x (Some x) src (fun n => Upd (UAddFollowing x n) (seal (detach x false)))
      end).

  (* index as __getitem__ resolves it *)
  Definition resolve_index (w : world) (p : nid) (i : Z) : option nid :=
    let l := vis_children F w p in
    let j := if (i <? 0)%Z then (Z.of_nat (length l) + i)%Z else i in
    if (j <? 0)%Z then None else nth_error l (Z.to_nat j).

  Definition set_item (p : nid) (i : Z) (src : nsrc) : prog :=
    on_tag p (Ask (fun w =>
      let cc := length (vis_children F w p) in
      if Nat.eqb cc 0 && (i =? 0)%Z
      then match src with
           | SNode n => if lone w n then no_cycle p n (add_first_child p n (Ret ROk))
                        else Ret (Rejected EInvalidOperation)
           | _ => Ret ROk                                  (* finding 18: strings / tag() are dropped silently *)
           end
      else if ((i <? 0) || (Z.of_nat cc <=? i))%Z then Ret (Rejected EIndexError)
           else match resolve_index w p i with
                | Some y => replace_with y src
                | None => Ret (Crash EIndexError)
                end)).

  Definition del_item (p : nid) (i : Z) : prog :=
    on_tag p (Ask (fun w =>
      match resolve_index w p i with
      | Some y => detach y false
      | None => Ret (Rejected EIndexError)
      end)).

  Definition script (o : op) : prog :=
    match o with
    | OAddFollowing x ns => add_following x ns
    | OAddPreceding x ns => add_preceding F x ns
    | OAppend p ns => append_children F p ns
    | OPrepend p ns => insert_children F p 0%Z ns
    | OInsert p i ns => insert_children F p i ns
    | ODetach x retain => detach x retain
    | OReplace x n => replace_with x n
    | OSetItem p i n => set_item p i n
    | ODelItem p i => del_item p i
    | OSetContent x s => Ask (fun w => if kind_is w x is_textk then Upd (USetContent x s) (Ret ROk)
                                       else Ret (Crash EUnmodelled))
    | OMerge p => on_tag p (Upd (UMerge p) (Ret ROk))
    end.

  Definition astep (w : world) (o : op) : world * result := run_a (script o) w.
End Scripts2.
