(* Document order on the plain tree: how the following / preceding axes decompose along the parent chain.
   These are the facts the pointer walks `_iterate_following` / `_iterate_preceding` are proved against. *)
From Coq Require Import List NArith ZArith Bool Lia Permutation.
From Delb.Base Require Import PyStr.
From Delb.Tree Require Import ATree ITree ANav ANavFacts.
Import ListNotations.

Section Order.
  Variable t : itree.
  Hypothesis Hnd : NoDup (ids t).

  Definition sub_ids (k : nid) : list nid := k :: a_descendants t k.
  (* roots of the subtrees still to come once the subtree of n is finished, nearest first *)
  Definition pend (n : nid) : list nid := flat_map (a_fsibs t) (n :: a_ancestors t n).

  Lemma pend_unfold n : In n (ids t) ->
    pend n = a_fsibs t n ++ match a_parent t n with Some p => pend p | None => [] end.
  Proof.
    intros Hn. unfold pend. cbn [flat_map]. f_equal. rewrite (ancestors_chain t Hnd n Hn).
    destruct (a_parent t n); reflexivity.
  Qed.
  Lemma parent_in' n p : a_parent t n = Some p -> In p (ids t).
  Proof. intros H. destruct (a_parent_some t n p H) as [s [Hs [<- _]]]. apply sub_id_in. exact Hs. Qed.
  Lemma descendants_split s l1 n l2 : In s (subtrees t) -> kid_ids s = l1 ++ n :: l2 ->
    a_descendants t (iid s) = flat_map sub_ids l1 ++ n :: a_descendants t n ++ flat_map sub_ids l2.
  Proof.
    intros Hs E. rewrite (descendants_preorder t Hnd (iid s) (sub_id_in t s Hs)), (a_children_in t Hnd s Hs), E.
    rewrite flat_map_app. reflexivity.
  Qed.

  (* the tree around a node: everything before its parent, the parent, the subtrees of its left siblings, the node *)
  Lemma around n : In n (ids t) ->
    a_following t n = a_descendants t n ++ flat_map sub_ids (pend n)
    /\ (forall s l1 l2, In s (subtrees t) -> kid_ids s = l1 ++ n :: l2 ->
          before n (ids t) = before (iid s) (ids t) ++ iid s :: flat_map sub_ids l1).
  Proof.
    remember (length (a_ancestors t n)) as k eqn:Hk. revert n Hk.
    induction k as [k IH] using lt_wf_ind. intros n Hk Hn.
    destruct (N.eq_dec n (iid t)) as [->|Hne].
    - split.
      + rewrite (pend_unfold _ Hn), (a_parent_root t Hnd). unfold a_fsibs, a_siblings. rewrite (a_parent_root t Hnd).
        cbn [after app flat_map]. rewrite app_nil_r. unfold a_following, a_descendants.
        rewrite (a_sub_in t Hnd t (self_in_subtrees t)). destruct t as [i p kids]. rewrite ids_unfold. cbn [iid after ikids].
        rewrite N.eqb_refl. reflexivity.
      + intros s l1 l2 Hs E. exfalso. pose proof (a_parent_of_kid t Hnd s (iid t) Hs) as H.
        rewrite (a_parent_root t Hnd) in H. rewrite E in H. discriminate H. apply in_or_app. right. left. reflexivity.
    - destruct (has_parent t n Hn Hne) as [s [Hs Hin]]. destruct (in_split_first n _ Hin) as [l1 [l2 [E _]]].
      pose proof (a_parent_of_kid t Hnd s n Hs Hin) as Hp.
      assert (Hps : In (iid s) (ids t)) by exact (sub_id_in t s Hs).
      assert (Hlt : length (a_ancestors t (iid s)) < k).
      { subst k. rewrite (ancestors_chain t Hnd n Hn), Hp. cbn. lia. }
      destruct (IH _ Hlt (iid s) eq_refl Hps) as [IHf _].
      pose proof (before_after (iid s) (ids t) Hps) as Hba. fold (a_following t (iid s)) in Hba.
      rewrite IHf, (descendants_split s l1 n l2 Hs E) in Hba.
      assert (Hdec : ids t = (before (iid s) (ids t) ++ iid s :: flat_map sub_ids l1)
                             ++ n :: (a_descendants t n ++ flat_map sub_ids l2 ++ flat_map sub_ids (pend (iid s)))).
      { rewrite <- Hba at 1. rewrite <- !app_assoc. cbn [app]. rewrite <- !app_assoc. reflexivity. }
      assert (Hnot : ~ In n (before (iid s) (ids t) ++ iid s :: flat_map sub_ids l1)).
      { pose proof Hnd as H. rewrite Hdec in H. apply nodup_split_notin in H. tauto. }
      split.
      + unfold a_following. rewrite Hdec at 1. rewrite (after_split _ n _ Hnot).
        rewrite (pend_unfold n Hn), Hp, (place_fsibs t Hnd s l1 l2 n Hs E), flat_map_app. reflexivity.
      + intros s' l1' l2' Hs' E'.
        assert (s' = s).
        { pose proof (kids_nodup t Hnd) as H. inversion H as [|? ? _ H']; subst.
          apply (flat_map_nodup_owner kid_ids _ s' s n H' Hs' Hs); [rewrite E'; apply in_or_app; right; left; reflexivity|exact Hin]. }
        subst s'. assert (l1' = l1).
        { pose proof (place_psibs t Hnd s l1 l2 n Hs E) as H1. pose proof (place_psibs t Hnd s l1' l2' n Hs E') as H2.
          rewrite H1 in H2. apply (f_equal (@rev nid)) in H2. rewrite !rev_involutive in H2. congruence. }
        subst l1'. rewrite Hdec at 1. apply before_split. exact Hnot.
  Qed.

  Theorem following_decompose n : In n (ids t) -> a_following t n = a_descendants t n ++ flat_map sub_ids (pend n).
  Proof. intros Hn. exact (proj1 (around n Hn)). Qed.

  Lemma rev_flat_map {A B} (f : A -> list B) l : rev (flat_map f l) = flat_map (fun x => rev (f x)) (rev l).
  Proof.
    induction l as [|x r IH]; [reflexivity|]. cbn [flat_map rev]. rewrite rev_app_distr, IH, flat_map_app. cbn [flat_map].
    rewrite app_nil_r. reflexivity.
  Qed.
  (* the preceding axis, one step of the walk at a time *)
  Theorem preceding_step n : In n (ids t) ->
    a_preceding t n = match a_prev_sibling t n with
                      | Some q => rev (sub_ids q) ++ a_preceding t q
                      | None => match a_parent t n with Some p => p :: a_preceding t p | None => [] end
                      end.
  Proof.
    intros Hn. destruct (N.eq_dec n (iid t)) as [->|Hne].
    - unfold a_prev_sibling, a_psibs, a_siblings. rewrite (a_parent_root t Hnd). cbn [before rev hd_error].
      unfold a_preceding. destruct t as [i p kids]. rewrite ids_unfold. cbn [iid before]. rewrite N.eqb_refl. reflexivity.
    - destruct (has_parent t n Hn Hne) as [s [Hs Hin]]. destruct (in_split_first n _ Hin) as [l1 [l2 [E _]]].
      rewrite (a_parent_of_kid t Hnd s n Hs Hin), (place_prev t Hnd s l1 l2 n Hs E).
      unfold a_preceding at 1. rewrite (proj2 (around n Hn) s l1 l2 Hs E).
      rewrite rev_app_distr. cbn [rev]. rewrite <- app_assoc. cbn [app]. fold (a_preceding t (iid s)).
      destruct l1 as [|q l1'] using rev_ind.
      + reflexivity.
      + rewrite last_error_app. rewrite flat_map_app, rev_app_distr. cbn [flat_map]. rewrite app_nil_r, <- app_assoc. f_equal.
        assert (E' : kid_ids s = l1' ++ q :: n :: l2) by (rewrite E, <- app_assoc; reflexivity).
        unfold a_preceding at 2.
        assert (Hq : In q (ids t)) by (apply (kid_id_in t s q Hs); rewrite E'; apply in_or_app; right; left; reflexivity).
        rewrite (proj2 (around q Hq) s l1' (n :: l2) Hs E'). rewrite rev_app_distr. cbn [rev]. rewrite <- app_assoc. reflexivity.
  Qed.

  (* what comes next once a subtree is finished *)
  Lemma fsibs_parent n m : In m (a_fsibs t n) -> a_parent t m = a_parent t n.
  Proof.
    intros H. destruct (a_parent t n) as [p|] eqn:Hp; [|unfold a_fsibs, a_siblings in H; rewrite Hp in H; destruct H].
    destruct (a_parent_some t n p Hp) as [s [Hs [<- Hn]]]. destruct (in_split_first n _ Hn) as [l1 [l2 [E _]]].
    rewrite (place_fsibs t Hnd s l1 l2 n Hs E) in H. apply (a_parent_of_kid t Hnd s m Hs). rewrite E. apply in_or_app. right. right. exact H.
  Qed.
  Lemma pend_step : forall n, In n (ids t) -> forall m r, pend n = m :: r -> In m (ids t) /\ pend m = r.
  Proof.
    intros n. remember (length (a_ancestors t n)) as k eqn:Hk. revert n Hk.
    induction k as [k IH] using lt_wf_ind. intros n Hk Hn m r E.
    rewrite (pend_unfold n Hn) in E. destruct (a_fsibs t n) as [|m' r0] eqn:Ef.
    - cbn [app] in E. destruct (a_parent t n) as [p|] eqn:Hp; [|discriminate].
      apply (IH (length (a_ancestors t p))) with (n := p); [|reflexivity|exact (parent_in' n p Hp)|exact E].
      subst k. rewrite (ancestors_chain t Hnd n Hn), Hp. cbn. lia.
    - cbn [app] in E. injection E as -> <-.
      assert (Hm : In m (ids t)) by (apply (fsibs_in t Hnd n); rewrite Ef; left; reflexivity).
      split; [exact Hm|]. rewrite (pend_unfold m Hm), (fsibs_step t Hnd n m r0 Ef).
      rewrite (fsibs_parent n m) by (rewrite Ef; left; reflexivity). reflexivity.
  Qed.
  Lemma pend_child n c : In n (ids t) -> In c (a_children t n) -> pend c = a_fsibs t c ++ pend n.
  Proof.
    intros Hn Hc. assert (Hcin : In c (ids t)) by exact (children_in t n c Hc).
    rewrite (pend_unfold c Hcin). destruct (a_sub_of_id t Hnd n Hn) as [s [Hs [E Hsub]]]. subst n.
    rewrite (a_children_in t Hnd s Hs) in Hc. rewrite (a_parent_of_kid t Hnd s c Hs Hc). reflexivity.
  Qed.
  Lemma pend_length n : In n (ids t) -> length (flat_map sub_ids (pend n)) <= length (ids t).
  Proof.
    intros Hn. pose proof (before_after n (ids t) Hn) as H. fold (a_following t n) in H.
    rewrite (following_decompose n Hn) in H. rewrite <- H. rewrite !app_length. cbn [length]. rewrite app_length. lia.
  Qed.
End Order.

(* ---------------------------------------------------------------- what `_iterate_following` reaches *)
Lemma wdesc_unfold D i p kids : wdesc D (INode i p kids) = wgo D (wdesc D) kids false.
Proof. reflexivity. Qed.
Lemma wgo_started D rec l : wgo D rec l true = flat_map (fun k => iid k :: rec k) l.
Proof. induction l as [|k r IH]; [reflexivity|]. cbn. rewrite IH. reflexivity. Qed.
Lemma wgo_first_some D rec : forall l c, hd_error (filter D (map iid l)) = Some c ->
  exists l1 kc l2, l = l1 ++ kc :: l2 /\ iid kc = c
    /\ wgo D rec l false = c :: rec kc ++ flat_map (fun k => iid k :: rec k) l2.
Proof.
  induction l as [|k r IH]; intros c H; [discriminate|]. cbn in H |- *. destruct (D (iid k)) eqn:E.
  - cbn in H. injection H as <-. exists [], k, r. split; [reflexivity|]. split; [reflexivity|]. rewrite wgo_started. reflexivity.
  - destruct (IH c H) as [l1 [kc [l2 [E1 [E2 E3]]]]]. exists (k :: l1), kc, l2. split; [rewrite E1; reflexivity|]. split; [exact E2|exact E3].
Qed.
Lemma wgo_first_none D rec : forall l, hd_error (filter D (map iid l)) = None -> wgo D rec l false = [].
Proof.
  induction l as [|k r IH]; intros H; [reflexivity|]. cbn in H |- *. destruct (D (iid k)) eqn:E; [discriminate|].
  apply IH. exact H.
Qed.
Lemma filter_none {A} (P : A -> bool) l : (forall x, In x l -> P x = false) -> filter P l = [].
Proof.
  induction l as [|x r IH]; intros H; [reflexivity|]. cbn. rewrite (H x (or_introl eq_refl)). apply IH.
  intros y Hy. apply H. right. exact Hy.
Qed.
Lemma filter_flat_map {A B} (P : B -> bool) (f : A -> list B) l : filter P (flat_map f l) = flat_map (fun x => filter P (f x)) l.
Proof. induction l as [|x r IH]; [reflexivity|]. cbn. rewrite filter_app, IH. reflexivity. Qed.

Definition hid_closed (D : nfilter) (s : itree) : Prop :=
  forall k, In k (subtrees s) -> D (iid k) = false -> forall x, In x (ids k) -> D x = false.
Lemma hid_closed_sub D t s : hid_closed D t -> In s (subtrees t) -> hid_closed D s.
Proof. intros H Hs k Hk. apply H. exact (subtrees_trans t s k Hs Hk). Qed.
Lemma up_closed_b_spec D t : up_closed_b D t = true -> hid_closed D t.
Proof.
  unfold up_closed_b. rewrite forallb_forall. intros H k Hk Hd x Hx. specialize (H k Hk). rewrite Hd in H. cbn in H.
  rewrite forallb_forall in H. specialize (H x Hx). destruct (D x); [discriminate|reflexivity].
Qed.

Lemma wgo_filter D rec : forall l,
  (forall k, In k l -> filter D (rec k) = filter D (flat_map ids (ikids k))) ->
  (forall k, In k l -> D (iid k) = false -> forall x, In x (ids k) -> D x = false) ->
  forall started, filter D (wgo D rec l started) = filter D (flat_map ids l).
Proof.
  induction l as [|k r IH]; intros Hrec Hhid started; [reflexivity|]. cbn [wgo flat_map]. rewrite filter_app.
  assert (IHr : forall st, filter D (wgo D rec r st) = filter D (flat_map ids r)).
  { apply IH; intros k' Hk'; [apply Hrec|apply Hhid]; right; exact Hk'. }
  destruct (started || D (iid k)) eqn:E.
  - destruct k as [i p kk] eqn:Ek. rewrite ids_unfold. cbn [iid filter]. rewrite filter_app, IHr.
    rewrite <- Ek, (Hrec k (or_introl (eq_sym Ek))). subst k. cbn [ikids]. destruct (D i); rewrite ?filter_app; reflexivity.
  - apply orb_false_iff in E. destruct E as [_ E]. rewrite IHr.
    rewrite (filter_none D (ids k)); [reflexivity|]. exact (Hhid k (or_introl eq_refl) E).
Qed.
Lemma wdesc_filter D s : hid_closed D s -> filter D (wdesc D s) = filter D (flat_map ids (ikids s)).
Proof.
  induction s as [i p kids IH] using itree_ind'. intros Hh. rewrite wdesc_unfold. cbn [ikids]. apply wgo_filter.
  - intros k Hk. rewrite Forall_forall in IH. apply (IH k Hk). apply (hid_closed_sub D (INode i p kids) k Hh).
    apply (kid_in_subtrees _ (INode i p kids) k (self_in_subtrees _)). exact Hk.
  - intros k Hk. apply Hh. apply (kid_in_subtrees _ (INode i p kids) k (self_in_subtrees _)). exact Hk.
Qed.
Lemma wgo_length D rec : forall l, (forall k, In k l -> length (rec k) <= length (flat_map ids (ikids k))) ->
  forall started, length (wgo D rec l started) <= length (flat_map ids l).
Proof.
  induction l as [|k r IH]; intros Hrec started; [cbn; lia|]. cbn [wgo flat_map]. rewrite app_length.
  assert (IHr : forall st, length (wgo D rec r st) <= length (flat_map ids r)).
  { apply IH. intros k' Hk'. apply Hrec. right. exact Hk'. }
  pose proof (Hrec k (or_introl eq_refl)) as Hk. destruct k as [i p kk]. rewrite ids_unfold. cbn [ikids iid length] in *.
  destruct (started || D i); [cbn [length]; rewrite app_length; specialize (IHr true); lia|specialize (IHr false); lia].
Qed.
Lemma wdesc_length D s : length (wdesc D s) <= length (flat_map ids (ikids s)).
Proof.
  induction s as [i p kids IH] using itree_ind'. rewrite wdesc_unfold. cbn [ikids]. apply wgo_length.
  intros k Hk. rewrite Forall_forall in IH. exact (IH k Hk).
Qed.

Section Following.
  Variable t : itree.
  Hypothesis Hnd : NoDup (ids t).
  Variable D : nfilter.

  Definition wd (n : nid) : list nid := match a_sub t n with Some s => wdesc D s | None => [] end.
  Definition Wf (n : nid) : list nid := wd n ++ flat_map (fun m => m :: wd m) (pend t n).

  Lemma wd_sub s : In s (subtrees t) -> wd (iid s) = wdesc D s.
  Proof. intros Hs. unfold wd. rewrite (a_sub_in t Hnd s Hs). reflexivity. Qed.
  Lemma wd_kids s l : In s (subtrees t) -> incl l (ikids s) ->
    flat_map (fun k => iid k :: wdesc D k) l = flat_map (fun m => m :: wd m) (map iid l).
  Proof.
    intros Hs Hl. rewrite flat_map_map. apply flat_map_ext_in'. intros k Hk.
    rewrite (wd_sub k (kid_in_subtrees t s k Hs (Hl k Hk))). reflexivity.
  Qed.

  Theorem Wf_step n : In n (ids t) ->
    Wf n = match hd_error (filter D (a_children t n)) with
           | Some c => c :: Wf c
           | None => match hd_error (pend t n) with Some m => m :: Wf m | None => [] end
           end.
  Proof.
    intros Hn. destruct (a_sub_of_id t Hnd n Hn) as [s [Hs [E Hsub]]]. subst n.
    rewrite (a_children_in t Hnd s Hs). unfold Wf at 1. rewrite (wd_sub s Hs). unfold kid_ids.
    destruct s as [i p kids] eqn:Es. rewrite wdesc_unfold. cbn [ikids].
    destruct (hd_error (filter D (map iid kids))) as [c|] eqn:Ef.
    - destruct (wgo_first_some D (wdesc D) kids c Ef) as [l1 [kc [l2 [E1 [E2 E3]]]]]. rewrite E3.
      assert (Hkc : In kc (ikids s)) by (subst s; cbn [ikids]; rewrite E1; apply in_or_app; right; left; reflexivity).
      assert (Hl2 : incl l2 (ikids s)) by (subst s; cbn [ikids]; rewrite E1; intros x Hx; apply in_or_app; right; right; exact Hx).
      rewrite <- Es in Hs. rewrite (wd_kids s l2 Hs Hl2).
      assert (Ek : kid_ids s = map iid l1 ++ c :: map iid l2).
      { subst s. unfold kid_ids. cbn [ikids]. rewrite E1, map_app. cbn [map]. rewrite E2. reflexivity. }
      rewrite <- (place_fsibs t Hnd s _ _ c Hs Ek).
      cbn [app]. f_equal. unfold Wf. rewrite <- E2, (wd_sub kc (kid_in_subtrees t s kc Hs Hkc)), E2.
      rewrite <- app_assoc. f_equal. rewrite <- flat_map_app. f_equal.
      replace i with (iid s) by (subst s; reflexivity).
      symmetry. apply (pend_child t Hnd (iid s) c (sub_id_in t s Hs)). rewrite (a_children_in t Hnd s Hs), Ek.
      apply in_or_app. right. left. reflexivity.
    - rewrite (wgo_first_none D (wdesc D) kids Ef). cbn [app]. cbn [iid].
      destruct (pend t i) as [|m r] eqn:Ep; [reflexivity|]. cbn [hd_error flat_map].
      replace i with (iid s) in Ep by (subst s; reflexivity). rewrite <- Es in Hs.
      destruct (pend_step t Hnd (iid s) (sub_id_in t s Hs) m r Ep) as [_ Hm]. unfold Wf. rewrite Hm. reflexivity.
  Qed.

  Theorem Wf_filter n : hid_closed D t -> In n (ids t) -> filter D (Wf n) = filter D (a_following t n).
  Proof.
    intros Hh Hn. rewrite (following_decompose t Hnd n Hn). unfold Wf. rewrite !filter_app. f_equal.
    - destruct (a_sub_of_id t Hnd n Hn) as [s [Hs [E Hsub]]]. unfold wd, a_descendants. rewrite Hsub.
      apply wdesc_filter. exact (hid_closed_sub D t s Hh Hs).
    - rewrite !filter_flat_map. apply flat_map_ext_in'. intros m Hm. unfold sub_ids.
      assert (Hw : filter D (wd m) = filter D (a_descendants t m)).
      { unfold wd, a_descendants. destruct (a_sub t m) as [s|] eqn:Es; [|reflexivity].
        destruct (a_sub_some t m s Es) as [Hs _]. exact (wdesc_filter D s (hid_closed_sub D t s Hh Hs)). }
      cbn [filter]. rewrite Hw. reflexivity.
  Qed.
  Lemma wd_length m : length (wd m) <= length (a_descendants t m).
  Proof. unfold wd, a_descendants. destruct (a_sub t m) as [s|]; [apply wdesc_length|cbn; lia]. Qed.
  Theorem Wf_length n : In n (ids t) -> length (Wf n) < length (ids t).
  Proof.
    intros Hn.
    assert (Hl : length (Wf n) <= length (a_descendants t n ++ flat_map (sub_ids t) (pend t n))).
    { unfold Wf. rewrite !app_length. apply Nat.add_le_mono; [apply wd_length|].
      induction (pend t n) as [|m r IH]; [cbn; lia|]. cbn [flat_map]. rewrite !app_length.
      change (sub_ids t m) with (m :: a_descendants t m). cbn [length]. pose proof (wd_length m). lia. }
    pose proof (before_after n (ids t) Hn) as H. fold (a_following t n) in H.
    rewrite (following_decompose t Hnd n Hn) in H.
    rewrite <- H. rewrite app_length. cbn [length]. lia.
  Qed.
End Following.

(* ---------------------------------------------------------------- the last visible descendant *)
Lemma flat_map_filter_skip {A B} (P : A -> bool) (f : A -> list B) l :
  (forall k, In k l -> P k = false -> f k = []) -> flat_map f l = flat_map f (filter P l).
Proof.
  induction l as [|k r IH]; intros H; [reflexivity|]. cbn. destruct (P k) eqn:E.
  - cbn. rewrite IH; [reflexivity|]. intros k' Hk'. apply H. right. exact Hk'.
  - rewrite (H k (or_introl eq_refl) E). cbn. apply IH. intros k' Hk'. apply H. right. exact Hk'.
Qed.
Lemma last_error_app_ne {A} (X : list A) y r : last_error (X ++ y :: r) = last_error (y :: r).
Proof.
  induction X as [|x X' IH]; [reflexivity|]. cbn [app]. destruct (X' ++ y :: r) eqn:E; [destruct X'; discriminate|].
  change (last_error (x :: a :: l)) with (last_error (a :: l)). exact IH.
Qed.
Lemma last_cons_default' {A} : forall (l : list A) x d, last (x :: l) d = last l x.
Proof. induction l as [|y r IH]; intros x d; [reflexivity|]. change (last (x :: y :: r) d) with (last (y :: r) d). rewrite !IH. reflexivity. Qed.
Lemma last_error_cons_last {A} : forall (l : list A) x, last_error (x :: l) = Some (last l x).
Proof.
  induction l as [|y r IH]; intros x; [reflexivity|]. change (last_error (x :: y :: r)) with (last_error (y :: r)).
  rewrite IH, last_cons_default'. reflexivity.
Qed.
Lemma last_of_last_error {A} (l : list A) d : last l d = match last_error l with Some x => x | None => d end.
Proof. destruct l as [|x r]; [reflexivity|]. rewrite last_error_cons_last, last_cons_default'. reflexivity. Qed.
Lemma last_flat {A} (g : A -> list A) l :
  last_error (flat_map (fun k => k :: g k) l) = match last_error l with None => None | Some c => Some (last (g c) c) end.
Proof.
  destruct l as [|c r] using rev_ind; [reflexivity|]. rewrite last_error_app, flat_map_app. cbn [flat_map]. rewrite app_nil_r.
  rewrite last_error_app_ne. apply last_error_cons_last.
Qed.
Lemma last_error_in {A} (l : list A) x : last_error l = Some x -> In x l.
Proof.
  destruct l as [|y r] using rev_ind; [discriminate|]. rewrite last_error_app. intros [= ->]. apply in_or_app. right. left. reflexivity.
Qed.

Section LastDescendant.
  Variable t : itree.
  Hypothesis Hnd : NoDup (ids t).
  Variable D : nfilter.
  Hypothesis Hh : hid_closed D t.

  Lemma visible_descendants n : In n (ids t) ->
    filter D (a_descendants t n) = flat_map (fun k => k :: filter D (a_descendants t k)) (filter D (a_children t n)).
  Proof.
    intros Hn. rewrite (descendants_preorder t Hnd n Hn) at 1. rewrite filter_flat_map.
    rewrite (flat_map_filter_skip D (fun k => filter D (k :: a_descendants t k))).
    - apply flat_map_ext_in'. intros k Hk. apply filter_In in Hk. destruct Hk as [_ Hk]. cbn [filter]. rewrite Hk. reflexivity.
    - intros k Hk Hd. destruct (a_sub_of_id t Hnd k (children_in t n k Hk)) as [sk [Hsk [E Hsub]]].
      apply filter_none. intros x Hx. apply (Hh sk Hsk); [rewrite E; exact Hd|].
      destruct sk as [i p kk]. rewrite ids_unfold. cbn [iid] in E. subst i. unfold a_descendants in Hx. rewrite Hsub in Hx. exact Hx.
  Qed.
  Definition ldv (n : nid) : nid := last (filter D (a_descendants t n)) n.
  Lemma last_visible_descendant n : In n (ids t) ->
    last_error (filter D (a_descendants t n)) =
    match last_error (filter D (a_children t n)) with None => None | Some c => Some (ldv c) end.
  Proof. intros Hn. rewrite (visible_descendants n Hn). apply (last_flat (fun k => filter D (a_descendants t k))). Qed.
  Lemma ldv_step n : In n (ids t) ->
    ldv n = match last_error (filter D (a_children t n)) with None => n | Some c => ldv c end.
  Proof.
    intros Hn. unfold ldv at 1. rewrite last_of_last_error, (last_visible_descendant n Hn).
    destruct (last_error (filter D (a_children t n))); reflexivity.
  Qed.
  Lemma child_descendants_shorter n c : In n (ids t) -> In c (a_children t n) ->
    length (a_descendants t c) < length (a_descendants t n).
  Proof.
    intros Hn Hc. rewrite (descendants_preorder t Hnd n Hn).
    assert (H : forall l, In c l -> length (c :: a_descendants t c) <= length (flat_map (fun k => k :: a_descendants t k) l)).
    { induction l as [|a r IH]; intros Hl; [destruct Hl|]. cbn [flat_map]. rewrite app_length.
      destruct Hl as [->|Hl]; [lia|specialize (IH Hl); lia]. }
    specialize (H _ Hc). cbn [length] in H. lia.
  Qed.
End LastDescendant.

(* ---------------------------------------------------------------- post-order and breadth-first order *)
Lemma map_flat_map {A B C} (f : B -> C) (g : A -> list B) l : map f (flat_map g l) = flat_map (fun x => map f (g x)) l.
Proof. induction l as [|x r IH]; [reflexivity|]. cbn. rewrite map_app, IH. reflexivity. Qed.
Lemma flat_map_nil_all {A B} (f : A -> list B) l : (forall x, In x l -> f x = []) -> flat_map f l = [].
Proof.
  induction l as [|x r IH]; intros H; [reflexivity|]. cbn. rewrite (H x (or_introl eq_refl)), IH; [reflexivity|].
  intros y Hy. apply H. right. exact Hy.
Qed.
Fixpoint level (j : nat) (l : list itree) : list itree :=
  match j with O => l | S j' => level j' (flat_map ikids l) end.
Lemma level_app j : forall l1 l2, level j (l1 ++ l2) = level j l1 ++ level j l2.
Proof. induction j as [|j IH]; intros l1 l2; [reflexivity|]. cbn [level]. rewrite flat_map_app. apply IH. Qed.
Lemma level_nil j : level j [] = [].
Proof. induction j as [|j IH]; [reflexivity|exact IH]. Qed.
Lemma level_flat j : forall l, level j l = flat_map (fun s => level j [s]) l.
Proof.
  intros l. induction l as [|s r IH]; [apply level_nil|]. change (s :: r) with ([s] ++ r). rewrite level_app, IH. reflexivity.
Qed.
Lemma at_depth_level : forall j s, at_depth j s = map iid (level j [s]).
Proof.
  induction j as [|j IH]; intros s; [reflexivity|]. cbn [at_depth level flat_map]. rewrite app_nil_r.
  rewrite (level_flat j (ikids s)), map_flat_map. apply flat_map_ext_in'. intros k _. apply IH.
Qed.
Lemma height_unfold i p kids : height (INode i p kids) = S (fold_right (fun k m => Nat.max (height k) m) 0 kids).
Proof. reflexivity. Qed.
Lemma at_depth_beyond : forall s j, height s <= j -> at_depth j s = [].
Proof.
  induction s as [i p kids IH] using itree_ind'. intros j Hj. rewrite height_unfold in Hj. destruct j as [|j]; [lia|].
  cbn [at_depth ikids]. apply flat_map_nil_all. intros k Hk. rewrite Forall_forall in IH. apply (IH k Hk).
  assert (height k <= fold_right (fun k m => Nat.max (height k) m) 0 kids).
  { clear - Hk. induction kids as [|a r IHr]; [destruct Hk|]. cbn. destruct Hk as [->|Hk]; [lia|specialize (IHr Hk); lia]. }
  lia.
Qed.

(* breadth-first order enumerates every node exactly once: its length is the size of the tree *)
Lemma length_flat_map_split {A B} (f g : A -> list B) l :
  length (flat_map (fun j => f j ++ g j) l) = length (flat_map f l) + length (flat_map g l).
Proof. induction l as [|x r IH]; [reflexivity|]. cbn. rewrite !app_length, IH. lia. Qed.
Lemma length_flat_map_swap {A B C} (f : A -> B -> list C) (la : list A) (lb : list B) :
  length (flat_map (fun a => flat_map (f a) lb) la) = length (flat_map (fun b => flat_map (fun a => f a b) la) lb).
Proof.
  induction lb as [|b r IH]; cbn.
  - induction la as [|a la' IHa]; [reflexivity|exact IHa].
  - rewrite app_length, <- IH. rewrite (length_flat_map_split (fun a => f a b) (fun a => flat_map (f a) r) la). reflexivity.
Qed.
Lemma levels_length : forall s d, height s <= d ->
  length (flat_map (fun j => at_depth j s) (seq 0 d)) = length (ids s).
Proof.
  induction s as [i p kids IH] using itree_ind'. intros d Hd. rewrite height_unfold in Hd. destruct d as [|d]; [lia|].
  cbn [seq flat_map at_depth iid]. rewrite ids_unfold. cbn [app length]. f_equal.
  rewrite <- seq_shift, flat_map_map. cbn [at_depth ikids].
  rewrite (length_flat_map_swap at_depth (seq 0 d) kids).
  assert (Hk : forall k, In k kids -> height k <= d).
  { intros k Hk. assert (height k <= fold_right (fun k m => Nat.max (height k) m) 0 kids).
    { clear - Hk. induction kids as [|a r IHr]; [destruct Hk|]. cbn. destruct Hk as [->|Hk]; [lia|specialize (IHr Hk); lia]. }
    lia. }
  clear Hd. induction IH as [|k r Hk0 _ IHr]; [reflexivity|]. cbn [flat_map]. rewrite !app_length.
  rewrite (Hk0 d (Hk k (or_introl eq_refl))), IHr; [reflexivity|]. intros k' Hk'. apply Hk. right. exact Hk'.
Qed.
Lemma bf_length s : length (bf_ids s) = length (ids s).
Proof. unfold bf_ids. apply levels_length. lia. Qed.

Section Orders.
  Variable t : itree.
  Hypothesis Hnd : NoDup (ids t).

  Lemma post_unfold n : In n (ids t) -> a_df_btt t n = flat_map (a_df_btt t) (a_children t n) ++ [n].
  Proof.
    intros Hn. destruct (a_sub_of_id t Hnd n Hn) as [s [Hs [E Hsub]]]. unfold a_df_btt at 1, a_children. rewrite Hsub.
    destruct s as [i p kids] eqn:Es. cbn [post_ids iid] in *. subst i. f_equal. unfold kid_ids. cbn [ikids]. rewrite flat_map_map.
    apply flat_map_ext_in'. intros k Hk. unfold a_df_btt.
    rewrite (a_sub_in t Hnd k); [reflexivity|]. apply (kid_in_subtrees t (INode n p kids) k Hs). exact Hk.
  Qed.

  (* levels of the forest below a list of nodes, by identities *)
  Definition CH (l : list nid) : list nid := flat_map (a_children t) l.
  Fixpoint lv (d : nat) (l : list nid) : list nid :=
    match d with O => [] | S d' => l ++ lv d' (CH l) end.
  Lemma CH_forest l : (forall s, In s l -> In s (subtrees t)) -> CH (map iid l) = map iid (flat_map ikids l).
  Proof.
    intros H. unfold CH. rewrite flat_map_map. induction l as [|s r IH]; [reflexivity|]. cbn [flat_map]. rewrite map_app.
    rewrite (a_children_in t Hnd s (H s (or_introl eq_refl))). unfold kid_ids. f_equal. apply IH. intros x Hx. apply H. right. exact Hx.
  Qed.
  Lemma kids_forest l : (forall s, In s l -> In s (subtrees t)) -> forall s, In s (flat_map ikids l) -> In s (subtrees t).
  Proof. intros H s Hs. apply in_flat_map in Hs. destruct Hs as [x [Hx Hs]]. exact (kid_in_subtrees t x s (H x Hx) Hs). Qed.
  Lemma lv_forest : forall d l, (forall s, In s l -> In s (subtrees t)) ->
    lv d (map iid l) = flat_map (fun j => map iid (level j l)) (seq 0 d).
  Proof.
    induction d as [|d IH]; intros l H; [reflexivity|]. cbn [lv seq flat_map level]. f_equal.
    rewrite (CH_forest l H), (IH _ (kids_forest l H)), <- seq_shift, flat_map_map. reflexivity.
  Qed.
  Theorem bf_unfold n : In n (ids t) ->
    exists d, a_bf_ttb t n = n :: lv d (a_children t n) /\ lv d (a_children t n) = lv (S d) (a_children t n)
              /\ (forall x, In x (lv (S d) (a_children t n)) -> In x (ids t)).
  Proof.
    intros Hn. destruct (a_sub_of_id t Hnd n Hn) as [s [Hs [E Hsub]]]. unfold a_bf_ttb, a_children. rewrite Hsub.
    assert (Hk : forall k, In k (ikids s) -> In k (subtrees t)) by (intros k Hk; exact (kid_in_subtrees t s k Hs Hk)).
    assert (Hlv : forall d, lv d (kid_ids s) = flat_map (fun j => at_depth (S j) s) (seq 0 d)).
    { intros d. unfold kid_ids. rewrite (lv_forest d (ikids s) Hk). apply flat_map_ext_in'. intros j _.
      rewrite at_depth_level. cbn [level flat_map]. rewrite app_nil_r. reflexivity. }
    exists (height s - 1). split; [|split].
    - unfold bf_ids. destruct (height s) as [|hh] eqn:Eh; [destruct s; discriminate|]. cbn [seq flat_map at_depth].
      rewrite E. cbn [app]. f_equal. rewrite Hlv, <- seq_shift, flat_map_map. replace (S hh - 1) with hh by lia. reflexivity.
    - rewrite !Hlv. replace (S (height s - 1)) with (height s - 1 + 1) by lia. rewrite seq_app, flat_map_app. cbn [seq flat_map].
      rewrite (at_depth_beyond s (S (0 + (height s - 1)))) by lia. rewrite !app_nil_r. reflexivity.
    - intros x Hx. rewrite Hlv in Hx. apply in_flat_map in Hx. destruct Hx as [j [_ Hx]]. rewrite at_depth_level in Hx.
      apply in_map_iff in Hx. destruct Hx as [k [<- Hkl]]. apply sub_id_in.
      assert (Hall : forall j l, (forall s, In s l -> In s (subtrees t)) -> forall k, In k (level j l) -> In k (subtrees t)).
      { clear. intros j. induction j as [|j IH]; intros l H k Hk'; [exact (H k Hk')|]. cbn [level] in Hk'.
        apply (IH (flat_map ikids l)); [|exact Hk']. intros s0 Hs0. apply in_flat_map in Hs0. destruct Hs0 as [x [Hx Hs0]].
        exact (kid_in_subtrees t x s0 (H x Hx) Hs0). }
      apply (Hall (S j) [s]); [|exact Hkl]. intros s0 [<-|[]]. exact Hs.
  Qed.
  Lemma bf_length_bound n : In n (ids t) -> length (a_bf_ttb t n) <= length (ids t).
  Proof.
    intros Hn. destruct (a_sub_of_id t Hnd n Hn) as [s [Hs [E Hsub]]]. unfold a_bf_ttb. rewrite Hsub, bf_length.
    apply NoDup_incl_length; [exact (sub_ids_nodup t Hnd s Hs)|exact (ids_sub_incl t s Hs)].
  Qed.
End Orders.

(* ---------------------------------------------------------------- the three traversal orders enumerate the same nodes *)
Lemma post_perm s : Permutation (post_ids s) (ids s).
Proof.
  induction s as [i p kids IH] using itree_ind'. cbn [post_ids]. rewrite ids_unfold.
  etransitivity; [apply Permutation_app_comm|]. cbn [app]. apply perm_skip.
  induction IH as [|k r Hk _ IHr]; [reflexivity|]. cbn [flat_map]. apply Permutation_app; assumption.
Qed.
Lemma in_some_level : forall s x, In x (ids s) -> exists j, j < height s /\ In x (at_depth j s).
Proof.
  induction s as [i p kids IH] using itree_ind'. intros x Hx. rewrite ids_unfold in Hx. rewrite height_unfold.
  destruct Hx as [<-|Hx]; [exists 0; split; [lia|left; reflexivity]|].
  apply in_flat_map in Hx. destruct Hx as [k [Hk Hx]]. rewrite Forall_forall in IH. destruct (IH k Hk x Hx) as [j [Hj Hin]].
  exists (S j). split.
  - assert (height k <= fold_right (fun k m => Nat.max (height k) m) 0 kids).
    { clear - Hk. induction kids as [|a r IHr]; [destruct Hk|]. cbn. destruct Hk as [->|Hk]; [lia|specialize (IHr Hk); lia]. }
    lia.
  - cbn [at_depth ikids]. apply in_flat_map. exists k. auto.
Qed.
Lemma bf_perm s : NoDup (ids s) -> Permutation (ids s) (bf_ids s).
Proof.
  intros Hnd. apply NoDup_Permutation_bis; [exact Hnd|rewrite bf_length; lia|].
  intros x Hx. destruct (in_some_level s x Hx) as [j [Hj Hin]]. unfold bf_ids. apply in_flat_map. exists j.
  split; [apply in_seq; lia|exact Hin].
Qed.
(* for every node: breadth-first, bottom-to-top and top-to-bottom traversal visit exactly the nodes of its subtree *)
Theorem traversers_same_nodes t : NoDup (ids t) -> forall n, In n (ids t) ->
  Permutation (a_df_ttb t n) (a_bf_ttb t n) /\ Permutation (a_df_btt t n) (a_df_ttb t n)
  /\ a_df_ttb t n = n :: a_descendants t n.
Proof.
  intros Hnd n Hn. destruct (a_sub_of_id t Hnd n Hn) as [s [Hs [E Hsub]]]. unfold a_df_ttb, a_bf_ttb, a_df_btt, a_descendants.
  rewrite Hsub. split; [apply bf_perm; exact (sub_ids_nodup t Hnd s Hs)|]. split; [apply post_perm|].
  destruct s as [i p kids]. rewrite ids_unfold. cbn [iid ikids] in *. subst i. reflexivity.
Qed.

(* ---------------------------------------------------------------- index paths *)
Lemma rpath_unfold n i p kids : rpath n (INode i p kids) = if N.eqb i n then Some [] else rpath_kids (rpath n) 0 kids.
Proof. reflexivity. Qed.
Lemma rpath_root t : rpath (iid t) t = Some [].
Proof. destruct t as [i p kids]. rewrite rpath_unfold. cbn [iid]. rewrite N.eqb_refl. reflexivity. Qed.
Lemma rpath_kids_none rec : forall l i, (forall k, In k l -> rec k = None) -> rpath_kids rec i l = None.
Proof.
  induction l as [|k r IH]; intros i H; [reflexivity|]. cbn. rewrite (H k (or_introl eq_refl)). apply IH.
  intros k' Hk'. apply H. right. exact Hk'.
Qed.
Lemma rpath_kids_pick rec : forall l1 i k l2 p, (forall x, In x l1 -> rec x = None) -> rec k = Some p ->
  rpath_kids rec i (l1 ++ k :: l2) = Some ((i + length l1) :: p).
Proof.
  induction l1 as [|x l1' IH]; intros i k l2 p H Hk; cbn.
  - rewrite Hk, Nat.add_0_r. reflexivity.
  - rewrite (H x (or_introl eq_refl)). rewrite (IH (S i) k l2 p); [f_equal; f_equal; lia| |exact Hk].
    intros y Hy. apply H. right. exact Hy.
Qed.
Lemma rpath_none n t : ~ In n (ids t) -> rpath n t = None.
Proof.
  induction t as [i p kids IH] using itree_ind'. intros Hn. rewrite rpath_unfold. rewrite ids_unfold in Hn.
  destruct (N.eqb i n) eqn:E; [apply N.eqb_eq in E; subst; exfalso; apply Hn; left; reflexivity|].
  apply rpath_kids_none. intros k Hk. rewrite Forall_forall in IH. apply (IH k Hk).
  intros Hin. apply Hn. right. apply in_flat_map. exists k. auto.
Qed.
Lemma rpath_some n t : In n (ids t) -> exists p, rpath n t = Some p.
Proof.
  induction t as [i pl kids IH] using itree_ind'. intros Hn. rewrite rpath_unfold. rewrite ids_unfold in Hn.
  destruct (N.eqb i n) eqn:E; [eexists; reflexivity|]. destruct Hn as [->|Hn]; [rewrite N.eqb_refl in E; discriminate|].
  apply in_flat_map in Hn. destruct Hn as [k [Hk Hn]]. rewrite Forall_forall in IH.
  clear E. generalize 0. induction kids as [|a r IHr]; intros i0; [destruct Hk|]. cbn.
  destruct (rpath n a) eqn:Ea; [eexists; reflexivity|]. destruct Hk as [->|Hk].
  - destruct (IH k (or_introl eq_refl) Hn) as [p Hp]. congruence.
  - apply IHr; [intros x Hx; apply IH; right; exact Hx|exact Hk].
Qed.
Lemma rpath_into i p l1 k l2 m : NoDup (ids (INode i p (l1 ++ k :: l2))) -> In m (ids k) ->
  rpath m (INode i p (l1 ++ k :: l2)) = match rpath m k with Some q => Some (length l1 :: q) | None => None end.
Proof.
  intros Hnd Hm. rewrite rpath_unfold. rewrite ids_unfold in Hnd. inversion Hnd as [|? ? Hni Hnd']; subst.
  assert (Hin : In m (flat_map ids (l1 ++ k :: l2))) by (apply in_flat_map; exists k; split; [apply in_or_app; right; left; reflexivity|exact Hm]).
  destruct (N.eqb i m) eqn:E; [apply N.eqb_eq in E; subst; contradiction|].
  destruct (rpath_some m k Hm) as [q Hq]. rewrite Hq. rewrite (rpath_kids_pick (rpath m) l1 0 k l2 q); [reflexivity| |exact Hq].
  intros x Hx. apply rpath_none. intros Hmx. rewrite flat_map_app in Hnd'.
  eapply nodup_app_disj; [exact Hnd'|apply in_flat_map; exists x; split; [exact Hx|exact Hmx]|].
  cbn [flat_map]. apply in_or_app. left. exact Hm.
Qed.
Lemma rpath_kid t : NoDup (ids t) -> forall s l1 n l2, In s (subtrees t) -> kid_ids s = l1 ++ n :: l2 ->
  exists ps, rpath (iid s) t = Some ps /\ rpath n t = Some (ps ++ [length l1]).
Proof.
  induction t as [i p kids IH] using itree_ind'. intros Hnd s l1 n l2 Hs E. rewrite subtrees_unfold in Hs. destruct Hs as [<-|Hs].
  - exists []. split; [apply (rpath_root (INode i p kids))|]. unfold kid_ids in E. cbn [ikids] in E.
    apply map_eq_app in E. destruct E as [k1 [k2' [Ek [E1 E2]]]]. apply map_eq_cons in E2. destruct E2 as [k [k2 [-> [E2 E3]]]].
    subst kids. rewrite (rpath_into i p k1 k k2 n Hnd); [|destruct k; rewrite ids_unfold; left; exact E2].
    rewrite <- E2, rpath_root, <- E1, map_length. reflexivity.
  - apply in_flat_map in Hs. destruct Hs as [k [Hk Hs]]. destruct (in_split _ _ Hk) as [k1 [k2 Ek]]. subst kids.
    assert (Hndk : NoDup (ids k)).
    { rewrite ids_unfold in Hnd. inversion Hnd as [|? ? _ H]; subst. exact (flat_map_nodup_part ids _ k H Hk). }
    rewrite Forall_forall in IH. destruct (IH k Hk Hndk s l1 n l2 Hs E) as [ps [H1 H2]].
    exists (length k1 :: ps). split.
    + rewrite (rpath_into i p k1 k k2 (iid s) Hnd (sub_id_in k s Hs)), H1. reflexivity.
    + assert (Hn : In n (ids k)) by (apply (kid_id_in k s n Hs); rewrite E; apply in_or_app; right; left; reflexivity).
      rewrite (rpath_into i p k1 k k2 n Hnd Hn), H2. reflexivity.
Qed.

Lemma post_ids_unfold i p kids : post_ids (INode i p kids) = flat_map post_ids kids ++ [i].
Proof. reflexivity. Qed.

(* ---------------------------------------------------------------- post-order through visible children only *)
Lemma flat_map_if_filter {A B} (P : A -> bool) (f : A -> list B) l :
  flat_map (fun k => if P k then f k else []) l = flat_map f (filter P l).
Proof. induction l as [|k r IH]; [reflexivity|]. cbn. destruct (P k); cbn; rewrite IH; reflexivity. Qed.
Lemma post_vis_unfold t : NoDup (ids t) -> forall D n, In n (ids t) ->
  a_post_vis t D n = flat_map (a_post_vis t D) (filter D (a_children t n)) ++ [n].
Proof.
  intros Hnd D n Hn. destruct (a_sub_of_id t Hnd n Hn) as [s [Hs [E Hsub]]]. unfold a_post_vis at 1, a_children. rewrite Hsub.
  destruct s as [i p kids] eqn:Es. cbn [post_vis]. cbn [iid] in E. subst i. f_equal.
  unfold kid_ids. cbn [ikids]. rewrite <- flat_map_if_filter, flat_map_map. apply flat_map_ext_in'. intros k Hk.
  unfold a_post_vis. rewrite (a_sub_in t Hnd k); [reflexivity|]. apply (kid_in_subtrees t (INode n p kids) k Hs). exact Hk.
Qed.
Lemma post_vis_ftrue : forall s, post_vis ftrue s = post_ids s.
Proof.
  induction s as [i p kids IH] using itree_ind'. cbn [post_vis post_ids]. f_equal. apply flat_map_ext_in'.
  intros k Hk. rewrite Forall_forall in IH. exact (IH k Hk).
Qed.

(* ---------------------------------------------------------------- subsequences and pruned level order *)
Inductive subseq {A} : list A -> list A -> Prop :=
| sub_nil : subseq [] []
| sub_skip x l l' : subseq l l' -> subseq l (x :: l')
| sub_keep x l l' : subseq l l' -> subseq (x :: l) (x :: l').
Lemma subseq_refl {A} (l : list A) : subseq l l.
Proof. induction l; constructor; assumption. Qed.
Lemma subseq_nil_l {A} (l : list A) : subseq [] l.
Proof. induction l; constructor; assumption. Qed.
Lemma subseq_length {A} (l l' : list A) : subseq l l' -> length l <= length l'.
Proof. induction 1; cbn; lia. Qed.
Lemma subseq_of_nil {A} (l : list A) : subseq l [] -> l = [].
Proof. inversion 1. reflexivity. Qed.
Lemma subseq_app {A} (a a' b b' : list A) : subseq a a' -> subseq b b' -> subseq (a ++ b) (a' ++ b').
Proof. induction 1; intros Hb; cbn; [exact Hb|apply sub_skip; auto|apply sub_keep; auto]. Qed.
Lemma subseq_filter {A} (P : A -> bool) l : subseq (filter P l) l.
Proof. induction l as [|x r IH]; [constructor|]. cbn. destruct (P x); [apply sub_keep|apply sub_skip]; exact IH. Qed.
Lemma subseq_flat_map {A B} (f g : A -> list B) : (forall x, subseq (f x) (g x)) ->
  forall l l', subseq l l' -> subseq (flat_map f l) (flat_map g l').
Proof.
  intros Hfg l l' H. induction H as [|x l l' _ IH|x l l' _ IH]; cbn.
  - constructor.
  - rewrite <- (app_nil_l (flat_map f l)). apply subseq_app; [apply subseq_nil_l|exact IH].
  - apply subseq_app; [apply Hfg|exact IH].
Qed.

Section Levels.
  Variable g g' : nid -> list nid.
  Hypothesis Hgg : forall x, subseq (g x) (g' x).
  Lemma lvg_subseq : forall d l l', subseq l l' -> subseq (lvg g d l) (lvg g' d l').
  Proof.
    induction d as [|d IH]; intros l l' H; [constructor|]. cbn [lvg]. apply subseq_app; [exact H|].
    apply IH. apply subseq_flat_map; assumption.
  Qed.
  (* the level reached after d steps *)
  Fixpoint lev (h : nid -> list nid) (d : nat) (l : list nid) : list nid :=
    match d with O => l | S d' => lev h d' (flat_map h l) end.
  Lemma lvg_snoc h : forall d l, lvg h (S d) l = lvg h d l ++ lev h d l.
  Proof.
    induction d as [|d IH]; intros l; [cbn; rewrite app_nil_r; reflexivity|].
    change (lvg h (S (S d)) l) with (l ++ lvg h (S d) (flat_map h l)). rewrite IH. cbn [lvg lev]. rewrite app_assoc. reflexivity.
  Qed.
  Lemma lev_subseq : forall d l l', subseq l l' -> subseq (lev g d l) (lev g' d l').
  Proof.
    induction d as [|d IH]; intros l l' H; [exact H|]. cbn [lev]. apply IH. apply subseq_flat_map; assumption.
  Qed.
  Lemma saturated_iff h d l : lvg h d l = lvg h (S d) l <-> lev h d l = [].
  Proof.
    rewrite lvg_snoc. split; intros H.
    - rewrite <- (app_nil_r (lvg h d l)) in H at 1. apply app_inv_head in H. symmetry. exact H.
    - rewrite H, app_nil_r. reflexivity.
  Qed.
  Lemma saturated_subseq d l l' : subseq l l' -> lvg g' d l' = lvg g' (S d) l' -> lvg g d l = lvg g (S d) l.
  Proof.
    intros H Hs. apply saturated_iff. apply saturated_iff in Hs. apply subseq_of_nil. rewrite <- Hs. apply lev_subseq. exact H.
  Qed.
End Levels.

Lemma lv_lvg t : forall d l, lv t d l = lvg (a_children t) d l.
Proof. induction d as [|d IH]; intros l; [reflexivity|]. cbn [lv lvg]. rewrite IH. reflexivity. Qed.
Lemma lvg_ext g g' : (forall x, g x = g' x) -> forall d l, lvg g d l = lvg g' d l.
Proof.
  intros H. induction d as [|d IH]; intros l; [reflexivity|]. cbn [lvg]. rewrite IH. f_equal. f_equal.
  apply flat_map_ext_in'. intros x _. apply H.
Qed.
Lemma vis_children_ftrue t x : vis_children t ftrue x = a_children t x.
Proof. unfold vis_children. apply filter_ftrue. Qed.

(* ---------------------------------------------------------------- index paths among visible siblings *)
Lemma rpathD_unfold D n i p kids :
  rpathD D n (INode i p kids) = if N.eqb i n then Some [] else rpath_kidsD D (rpathD D n) 0 kids.
Proof. reflexivity. Qed.
Lemma rpathD_root D t : rpathD D (iid t) t = Some [].
Proof. destruct t as [i p kids]. rewrite rpathD_unfold. cbn [iid]. rewrite N.eqb_refl. reflexivity. Qed.
Lemma rpath_kidsD_none D rec : forall l i, (forall k, In k l -> rec k = None) -> rpath_kidsD D rec i l = None.
Proof.
  induction l as [|k r IH]; intros i H; [reflexivity|]. cbn. rewrite (H k (or_introl eq_refl)). apply IH.
  intros k' Hk'. apply H. right. exact Hk'.
Qed.
Lemma rpath_kidsD_pick D rec : forall l1 i k l2 p, (forall x, In x l1 -> rec x = None) -> rec k = Some p ->
  rpath_kidsD D rec i (l1 ++ k :: l2) = Some ((i + vcount D l1) :: p).
Proof.
  induction l1 as [|x l1' IH]; intros i k l2 p H Hk; cbn [app rpath_kidsD].
  - rewrite Hk. unfold vcount. cbn. rewrite Nat.add_0_r. reflexivity.
  - rewrite (H x (or_introl eq_refl)). rewrite (IH _ k l2 p); [|intros y Hy; apply H; right; exact Hy|exact Hk].
    unfold vcount. cbn [filter]. destruct (D (iid x)); cbn [length]; f_equal; f_equal; lia.
Qed.
Lemma rpathD_none D n t : ~ In n (ids t) -> rpathD D n t = None.
Proof.
  induction t as [i p kids IH] using itree_ind'. intros Hn. rewrite rpathD_unfold. rewrite ids_unfold in Hn.
  destruct (N.eqb i n) eqn:E; [apply N.eqb_eq in E; subst; exfalso; apply Hn; left; reflexivity|].
  apply rpath_kidsD_none. intros k Hk. rewrite Forall_forall in IH. apply (IH k Hk).
  intros Hin. apply Hn. right. apply in_flat_map. exists k. auto.
Qed.
Lemma rpathD_some D n t : In n (ids t) -> exists p, rpathD D n t = Some p.
Proof.
  induction t as [i pl kids IH] using itree_ind'. intros Hn. rewrite rpathD_unfold. rewrite ids_unfold in Hn.
  destruct (N.eqb i n) eqn:E; [eexists; reflexivity|]. destruct Hn as [->|Hn]; [rewrite N.eqb_refl in E; discriminate|].
  apply in_flat_map in Hn. destruct Hn as [k [Hk Hn]]. rewrite Forall_forall in IH.
  clear E. generalize 0. induction kids as [|a r IHr]; intros i0; [destruct Hk|]. cbn.
  destruct (rpathD D n a) eqn:Ea; [eexists; reflexivity|]. destruct Hk as [->|Hk].
  - destruct (IH k (or_introl eq_refl) Hn) as [p Hp]. congruence.
  - apply IHr; [intros x Hx; apply IH; right; exact Hx|exact Hk].
Qed.
Lemma rpathD_into D i p l1 k l2 m : NoDup (ids (INode i p (l1 ++ k :: l2))) -> In m (ids k) ->
  rpathD D m (INode i p (l1 ++ k :: l2)) = match rpathD D m k with Some q => Some (vcount D l1 :: q) | None => None end.
Proof.
  intros Hnd Hm. rewrite rpathD_unfold. rewrite ids_unfold in Hnd. inversion Hnd as [|? ? Hni Hnd']; subst.
  assert (Hin : In m (flat_map ids (l1 ++ k :: l2))) by (apply in_flat_map; exists k; split; [apply in_or_app; right; left; reflexivity|exact Hm]).
  destruct (N.eqb i m) eqn:E; [apply N.eqb_eq in E; subst; contradiction|].
  destruct (rpathD_some D m k Hm) as [q Hq]. rewrite Hq. rewrite (rpath_kidsD_pick D (rpathD D m) l1 0 k l2 q); [reflexivity| |exact Hq].
  intros x Hx. apply rpathD_none. intros Hmx. rewrite flat_map_app in Hnd'.
  eapply nodup_app_disj; [exact Hnd'|apply in_flat_map; exists x; split; [exact Hx|exact Hmx]|].
  cbn [flat_map]. apply in_or_app. left. exact Hm.
Qed.
Lemma vcount_ids D l : vcount D l = length (filter D (map iid l)).
Proof. unfold vcount. induction l as [|k r IH]; [reflexivity|]. cbn. destruct (D (iid k)); cbn; rewrite IH; reflexivity. Qed.
Lemma rpathD_kid D t : NoDup (ids t) -> forall s l1 n l2, In s (subtrees t) -> kid_ids s = l1 ++ n :: l2 ->
  exists ps, rpathD D (iid s) t = Some ps /\ rpathD D n t = Some (ps ++ [length (filter D l1)]).
Proof.
  induction t as [i p kids IH] using itree_ind'. intros Hnd s l1 n l2 Hs E. rewrite subtrees_unfold in Hs. destruct Hs as [<-|Hs].
  - exists []. split; [apply (rpathD_root D (INode i p kids))|]. unfold kid_ids in E. cbn [ikids] in E.
    apply map_eq_app in E. destruct E as [k1 [k2' [Ek [E1 E2]]]]. apply map_eq_cons in E2. destruct E2 as [k [k2 [-> [E2 E3]]]].
    subst kids. rewrite (rpathD_into D i p k1 k k2 n Hnd); [|destruct k; rewrite ids_unfold; left; exact E2].
    rewrite <- E2, rpathD_root, <- E1, vcount_ids. reflexivity.
  - apply in_flat_map in Hs. destruct Hs as [k [Hk Hs]]. destruct (in_split _ _ Hk) as [k1 [k2 Ek]]. subst kids.
    assert (Hndk : NoDup (ids k)).
    { rewrite ids_unfold in Hnd. inversion Hnd as [|? ? _ H]; subst. exact (flat_map_nodup_part ids _ k H Hk). }
    rewrite Forall_forall in IH. destruct (IH k Hk Hndk s l1 n l2 Hs E) as [ps [H1 H2]].
    exists (vcount D k1 :: ps). split.
    + rewrite (rpathD_into D i p k1 k k2 (iid s) Hnd (sub_id_in k s Hs)), H1. reflexivity.
    + assert (Hn : In n (ids k)) by (apply (kid_id_in k s n Hs); rewrite E; apply in_or_app; right; left; reflexivity).
      rewrite (rpathD_into D i p k1 k k2 n Hnd Hn), H2. reflexivity.
Qed.
