(* Document order on the plain tree: how the following / preceding axes decompose along the parent chain.
   These are the facts the pointer walks `_iterate_following` / `_iterate_preceding` are proved against. *)
From Coq Require Import List NArith ZArith Bool Lia.
From Delb.Base Require Import PyStr.
From Delb.Tree Require Import ATree ITree ANav ANavFacts.
Import ListNotations.

Section Order.
  Variable t : itree.
  Hypothesis Hnd : NoDup (ids t).

  Definition sub_ids (k : nid) : list nid := k :: a_descendants t k.
  (* roots of the subtrees still to come once the subtree of n is finished, nearest first *)
  Definition pend (n : nid) : list nid := flat_map (a_fsibs t) (n :: a_ancestors t n).

  Lemma pend_unfold n : In n (ids t) ->
    pend n = a_fsibs t n ++ match a_parent t n with Some p => pend p | None => [] end.
  Proof.
    intros Hn. unfold pend. cbn [flat_map]. f_equal. rewrite (ancestors_chain t Hnd n Hn).
    destruct (a_parent t n); reflexivity.
  Qed.
  Lemma parent_in' n p : a_parent t n = Some p -> In p (ids t).
  Proof. intros H. destruct (a_parent_some t n p H) as [s [Hs [<- _]]]. apply sub_id_in. exact Hs. Qed.
  Lemma descendants_split s l1 n l2 : In s (subtrees t) -> kid_ids s = l1 ++ n :: l2 ->
    a_descendants t (iid s) = flat_map sub_ids l1 ++ n :: a_descendants t n ++ flat_map sub_ids l2.
  Proof.
    intros Hs E. rewrite (descendants_preorder t Hnd (iid s) (sub_id_in t s Hs)), (a_children_in t Hnd s Hs), E.
    rewrite flat_map_app. reflexivity.
  Qed.

  (* the tree around a node: everything before its parent, the parent, the subtrees of its left siblings, the node *)
  Lemma around n : In n (ids t) ->
    a_following t n = a_descendants t n ++ flat_map sub_ids (pend n)
    /\ (forall s l1 l2, In s (subtrees t) -> kid_ids s = l1 ++ n :: l2 ->
          before n (ids t) = before (iid s) (ids t) ++ iid s :: flat_map sub_ids l1).
  Proof.
    remember (length (a_ancestors t n)) as k eqn:Hk. revert n Hk.
    induction k as [k IH] using lt_wf_ind. intros n Hk Hn.
    destruct (N.eq_dec n (iid t)) as [->|Hne].
    - split.
      + rewrite (pend_unfold _ Hn), (a_parent_root t Hnd). unfold a_fsibs, a_siblings. rewrite (a_parent_root t Hnd).
        cbn [after app flat_map]. rewrite app_nil_r. unfold a_following, a_descendants.
        rewrite (a_sub_in t Hnd t (self_in_subtrees t)). destruct t as [i p kids]. rewrite ids_unfold. cbn [iid after ikids].
        rewrite N.eqb_refl. reflexivity.
      + intros s l1 l2 Hs E. exfalso. pose proof (a_parent_of_kid t Hnd s (iid t) Hs) as H.
        rewrite (a_parent_root t Hnd) in H. rewrite E in H. discriminate H. apply in_or_app. right. left. reflexivity.
    - destruct (has_parent t n Hn Hne) as [s [Hs Hin]]. destruct (in_split_first n _ Hin) as [l1 [l2 [E _]]].
      pose proof (a_parent_of_kid t Hnd s n Hs Hin) as Hp.
      assert (Hps : In (iid s) (ids t)) by exact (sub_id_in t s Hs).
      assert (Hlt : length (a_ancestors t (iid s)) < k).
      { subst k. rewrite (ancestors_chain t Hnd n Hn), Hp. cbn. lia. }
      destruct (IH _ Hlt (iid s) eq_refl Hps) as [IHf _].
      pose proof (before_after (iid s) (ids t) Hps) as Hba. fold (a_following t (iid s)) in Hba.
      rewrite IHf, (descendants_split s l1 n l2 Hs E) in Hba.
      assert (Hdec : ids t = (before (iid s) (ids t) ++ iid s :: flat_map sub_ids l1)
                             ++ n :: (a_descendants t n ++ flat_map sub_ids l2 ++ flat_map sub_ids (pend (iid s)))).
      { rewrite <- Hba at 1. rewrite <- !app_assoc. cbn [app]. rewrite <- !app_assoc. reflexivity. }
      assert (Hnot : ~ In n (before (iid s) (ids t) ++ iid s :: flat_map sub_ids l1)).
      { pose proof Hnd as H. rewrite Hdec in H. apply nodup_split_notin in H. tauto. }
      split.
      + unfold a_following. rewrite Hdec at 1. rewrite (after_split _ n _ Hnot).
        rewrite (pend_unfold n Hn), Hp, (place_fsibs t Hnd s l1 l2 n Hs E), flat_map_app. reflexivity.
      + intros s' l1' l2' Hs' E'.
        assert (s' = s).
        { pose proof (kids_nodup t Hnd) as H. inversion H as [|? ? _ H']; subst.
          apply (flat_map_nodup_owner kid_ids _ s' s n H' Hs' Hs); [rewrite E'; apply in_or_app; right; left; reflexivity|exact Hin]. }
        subst s'. assert (l1' = l1).
        { pose proof (place_psibs t Hnd s l1 l2 n Hs E) as H1. pose proof (place_psibs t Hnd s l1' l2' n Hs E') as H2.
          rewrite H1 in H2. apply (f_equal (@rev nid)) in H2. rewrite !rev_involutive in H2. congruence. }
        subst l1'. rewrite Hdec at 1. apply before_split. exact Hnot.
  Qed.

  Theorem following_decompose n : In n (ids t) -> a_following t n = a_descendants t n ++ flat_map sub_ids (pend n).
  Proof. intros Hn. exact (proj1 (around n Hn)). Qed.

  Lemma rev_flat_map {A B} (f : A -> list B) l : rev (flat_map f l) = flat_map (fun x => rev (f x)) (rev l).
  Proof.
    induction l as [|x r IH]; [reflexivity|]. cbn [flat_map rev]. rewrite rev_app_distr, IH, flat_map_app. cbn [flat_map].
    rewrite app_nil_r. reflexivity.
  Qed.
  (* the preceding axis, one step of the walk at a time *)
  Theorem preceding_step n : In n (ids t) ->
    a_preceding t n = match a_prev_sibling t n with
                      | Some q => rev (sub_ids q) ++ a_preceding t q
                      | None => match a_parent t n with Some p => p :: a_preceding t p | None => [] end
                      end.
  Proof.
    intros Hn. destruct (N.eq_dec n (iid t)) as [->|Hne].
    - unfold a_prev_sibling, a_psibs, a_siblings. rewrite (a_parent_root t Hnd). cbn [before rev hd_error].
      unfold a_preceding. destruct t as [i p kids]. rewrite ids_unfold. cbn [iid before]. rewrite N.eqb_refl. reflexivity.
    - destruct (has_parent t n Hn Hne) as [s [Hs Hin]]. destruct (in_split_first n _ Hin) as [l1 [l2 [E _]]].
      rewrite (a_parent_of_kid t Hnd s n Hs Hin), (place_prev t Hnd s l1 l2 n Hs E).
      unfold a_preceding at 1. rewrite (proj2 (around n Hn) s l1 l2 Hs E).
      rewrite rev_app_distr. cbn [rev]. rewrite <- app_assoc. cbn [app]. fold (a_preceding t (iid s)).
      destruct l1 as [|q l1'] using rev_ind.
      + reflexivity.
      + rewrite last_error_app. rewrite flat_map_app, rev_app_distr. cbn [flat_map]. rewrite app_nil_r, <- app_assoc. f_equal.
        assert (E' : kid_ids s = l1' ++ q :: n :: l2) by (rewrite E, <- app_assoc; reflexivity).
        unfold a_preceding at 2.
        assert (Hq : In q (ids t)) by (apply (kid_id_in t s q Hs); rewrite E'; apply in_or_app; right; left; reflexivity).
        rewrite (proj2 (around q Hq) s l1' (n :: l2) Hs E'). rewrite rev_app_distr. cbn [rev]. rewrite <- app_assoc. reflexivity.
  Qed.

  (* what comes next once a subtree is finished *)
  Lemma fsibs_parent n m : In m (a_fsibs t n) -> a_parent t m = a_parent t n.
  Proof.
    intros H. destruct (a_parent t n) as [p|] eqn:Hp; [|unfold a_fsibs, a_siblings in H; rewrite Hp in H; destruct H].
    destruct (a_parent_some t n p Hp) as [s [Hs [<- Hn]]]. destruct (in_split_first n _ Hn) as [l1 [l2 [E _]]].
    rewrite (place_fsibs t Hnd s l1 l2 n Hs E) in H. apply (a_parent_of_kid t Hnd s m Hs). rewrite E. apply in_or_app. right. right. exact H.
  Qed.
  Lemma pend_step : forall n, In n (ids t) -> forall m r, pend n = m :: r -> In m (ids t) /\ pend m = r.
  Proof.
    intros n. remember (length (a_ancestors t n)) as k eqn:Hk. revert n Hk.
    induction k as [k IH] using lt_wf_ind. intros n Hk Hn m r E.
    rewrite (pend_unfold n Hn) in E. destruct (a_fsibs t n) as [|m' r0] eqn:Ef.
    - cbn [app] in E. destruct (a_parent t n) as [p|] eqn:Hp; [|discriminate].
      apply (IH (length (a_ancestors t p))) with (n := p); [|reflexivity|exact (parent_in' n p Hp)|exact E].
      subst k. rewrite (ancestors_chain t Hnd n Hn), Hp. cbn. lia.
    - cbn [app] in E. injection E as -> <-.
      assert (Hm : In m (ids t)) by (apply (fsibs_in t Hnd n); rewrite Ef; left; reflexivity).
      split; [exact Hm|]. rewrite (pend_unfold m Hm), (fsibs_step t Hnd n m r0 Ef).
      rewrite (fsibs_parent n m) by (rewrite Ef; left; reflexivity). reflexivity.
  Qed.
  Lemma pend_child n c : In n (ids t) -> In c (a_children t n) -> pend c = a_fsibs t c ++ pend n.
  Proof.
    intros Hn Hc. assert (Hcin : In c (ids t)) by exact (children_in t n c Hc).
    rewrite (pend_unfold c Hcin). destruct (a_sub_of_id t Hnd n Hn) as [s [Hs [E Hsub]]]. subst n.
    rewrite (a_children_in t Hnd s Hs) in Hc. rewrite (a_parent_of_kid t Hnd s c Hs Hc). reflexivity.
  Qed.
  Lemma pend_length n : In n (ids t) -> length (flat_map sub_ids (pend n)) <= length (ids t).
  Proof.
    intros Hn. pose proof (before_after n (ids t) Hn) as H. fold (a_following t n) in H.
    rewrite (following_decompose n Hn) in H. rewrite <- H. rewrite !app_length. cbn [length]. rewrite app_length. lia.
  Qed.
End Order.

(* ---------------------------------------------------------------- what `_iterate_following` reaches *)
Lemma wdesc_unfold D i p kids : wdesc D (INode i p kids) = wgo D (wdesc D) kids false.
Proof. reflexivity. Qed.
Lemma wgo_started D rec l : wgo D rec l true = flat_map (fun k => iid k :: rec k) l.
Proof. induction l as [|k r IH]; [reflexivity|]. cbn. rewrite IH. reflexivity. Qed.
Lemma wgo_first_some D rec : forall l c, hd_error (filter D (map iid l)) = Some c ->
  exists l1 kc l2, l = l1 ++ kc :: l2 /\ iid kc = c
    /\ wgo D rec l false = c :: rec kc ++ flat_map (fun k => iid k :: rec k) l2.
Proof.
  induction l as [|k r IH]; intros c H; [discriminate|]. cbn in H |- *. destruct (D (iid k)) eqn:E.
  - cbn in H. injection H as <-. exists [], k, r. rewrite wgo_started. auto.
  - destruct (IH c H) as [l1 [kc [l2 [E1 [E2 E3]]]]]. exists (k :: l1), kc, l2. rewrite E1. auto.
Qed.
Lemma wgo_first_none D rec : forall l, hd_error (filter D (map iid l)) = None -> wgo D rec l false = [].
Proof.
  induction l as [|k r IH]; intros H; [reflexivity|]. cbn in H |- *. destruct (D (iid k)) eqn:E; [discriminate|].
  apply IH. exact H.
Qed.
Lemma filter_none {A} (P : A -> bool) l : (forall x, In x l -> P x = false) -> filter P l = [].
Proof.
  induction l as [|x r IH]; intros H; [reflexivity|]. cbn. rewrite (H x (or_introl eq_refl)). apply IH.
  intros y Hy. apply H. right. exact Hy.
Qed.
Lemma filter_flat_map {A B} (P : B -> bool) (f : A -> list B) l : filter P (flat_map f l) = flat_map (fun x => filter P (f x)) l.
Proof. induction l as [|x r IH]; [reflexivity|]. cbn. rewrite filter_app, IH. reflexivity. Qed.

Definition hid_closed (D : nfilter) (s : itree) : Prop :=
  forall k, In k (subtrees s) -> D (iid k) = false -> forall x, In x (ids k) -> D x = false.
Lemma hid_closed_sub D t s : hid_closed D t -> In s (subtrees t) -> hid_closed D s.
Proof. intros H Hs k Hk. apply H. exact (subtrees_trans t s k Hs Hk). Qed.
Lemma up_closed_b_spec D t : up_closed_b D t = true -> hid_closed D t.
Proof.
  unfold up_closed_b. rewrite forallb_forall. intros H k Hk Hd x Hx. specialize (H k Hk). rewrite Hd in H. cbn in H.
  rewrite forallb_forall in H. specialize (H x Hx). destruct (D x); [discriminate|reflexivity].
Qed.

Lemma wgo_filter D rec : forall l,
  (forall k, In k l -> filter D (rec k) = filter D (flat_map ids (ikids k))) ->
  (forall k, In k l -> D (iid k) = false -> forall x, In x (ids k) -> D x = false) ->
  forall started, filter D (wgo D rec l started) = filter D (flat_map ids l).
Proof.
  induction l as [|k r IH]; intros Hrec Hhid started; [reflexivity|]. cbn [wgo flat_map]. rewrite filter_app.
  assert (IHr : forall st, filter D (wgo D rec r st) = filter D (flat_map ids r)).
  { apply IH; intros k' Hk'; [apply Hrec|apply Hhid]; right; exact Hk'. }
  destruct (started || D (iid k)) eqn:E.
  - destruct k as [i p kk] eqn:Ek. rewrite ids_unfold. cbn [iid filter]. rewrite filter_app, IHr.
    rewrite <- Ek, (Hrec k (or_introl (eq_sym Ek))). subst k. cbn [ikids]. destruct (D i); rewrite ?filter_app; reflexivity.
  - apply orb_false_iff in E. destruct E as [_ E]. rewrite IHr.
    rewrite (filter_none D (ids k)); [reflexivity|]. exact (Hhid k (or_introl eq_refl) E).
Qed.
Lemma wdesc_filter D s : hid_closed D s -> filter D (wdesc D s) = filter D (flat_map ids (ikids s)).
Proof.
  induction s as [i p kids IH] using itree_ind'. intros Hh. rewrite wdesc_unfold. cbn [ikids]. apply wgo_filter.
  - intros k Hk. rewrite Forall_forall in IH. apply (IH k Hk). apply (hid_closed_sub D (INode i p kids) k Hh).
    apply (kid_in_subtrees _ (INode i p kids) k (self_in_subtrees _)). exact Hk.
  - intros k Hk. apply Hh. apply (kid_in_subtrees _ (INode i p kids) k (self_in_subtrees _)). exact Hk.
Qed.
Lemma wgo_length D rec : forall l, (forall k, In k l -> length (rec k) <= length (flat_map ids (ikids k))) ->
  forall started, length (wgo D rec l started) <= length (flat_map ids l).
Proof.
  induction l as [|k r IH]; intros Hrec started; [cbn; lia|]. cbn [wgo flat_map]. rewrite app_length.
  assert (IHr : forall st, length (wgo D rec r st) <= length (flat_map ids r)).
  { apply IH. intros k' Hk'. apply Hrec. right. exact Hk'. }
  pose proof (Hrec k (or_introl eq_refl)) as Hk. destruct k as [i p kk]. rewrite ids_unfold. cbn [ikids iid length] in *.
  destruct (started || D i); [cbn [length]; rewrite app_length; specialize (IHr true); lia|specialize (IHr false); lia].
Qed.
Lemma wdesc_length D s : length (wdesc D s) <= length (flat_map ids (ikids s)).
Proof.
  induction s as [i p kids IH] using itree_ind'. rewrite wdesc_unfold. cbn [ikids]. apply wgo_length.
  intros k Hk. rewrite Forall_forall in IH. exact (IH k Hk).
Qed.

Section Following.
  Variable t : itree.
  Hypothesis Hnd : NoDup (ids t).
  Variable D : nfilter.

  Definition wd (n : nid) : list nid := match a_sub t n with Some s => wdesc D s | None => [] end.
  Definition Wf (n : nid) : list nid := wd n ++ flat_map (fun m => m :: wd m) (pend t n).

  Lemma wd_sub s : In s (subtrees t) -> wd (iid s) = wdesc D s.
  Proof. intros Hs. unfold wd. rewrite (a_sub_in t Hnd s Hs). reflexivity. Qed.
  Lemma wd_kids s l : In s (subtrees t) -> incl l (ikids s) ->
    flat_map (fun k => iid k :: wdesc D k) l = flat_map (fun m => m :: wd m) (map iid l).
  Proof.
    intros Hs Hl. rewrite flat_map_map. apply flat_map_ext_in'. intros k Hk.
    rewrite (wd_sub k (kid_in_subtrees t s k Hs (Hl k Hk))). reflexivity.
  Qed.

  Theorem Wf_step n : In n (ids t) ->
    Wf n = match hd_error (filter D (a_children t n)) with
           | Some c => c :: Wf c
           | None => match hd_error (pend t n) with Some m => m :: Wf m | None => [] end
           end.
  Proof.
    intros Hn. destruct (a_sub_of_id t Hnd n Hn) as [s [Hs [E Hsub]]]. subst n.
    rewrite (a_children_in t Hnd s Hs). unfold Wf at 1. rewrite (wd_sub s Hs). unfold kid_ids.
    destruct s as [i p kids] eqn:Es. rewrite wdesc_unfold. cbn [ikids].
    destruct (hd_error (filter D (map iid kids))) as [c|] eqn:Ef.
    - destruct (wgo_first_some D (wdesc D) kids c Ef) as [l1 [kc [l2 [E1 [E2 E3]]]]]. rewrite E3.
      assert (Hkc : In kc (ikids s)) by (subst s; cbn [ikids]; rewrite E1; apply in_or_app; right; left; reflexivity).
      assert (Hl2 : incl l2 (ikids s)) by (subst s; cbn [ikids]; rewrite E1; intros x Hx; apply in_or_app; right; right; exact Hx).
      rewrite <- Es in Hs. rewrite (wd_kids s l2 Hs Hl2).
      assert (Ek : kid_ids s = map iid l1 ++ c :: map iid l2).
      { subst s. unfold kid_ids. cbn [ikids]. rewrite E1, map_app. cbn [map]. rewrite E2. reflexivity. }
      rewrite <- (place_fsibs t Hnd s _ _ c Hs Ek).
      cbn [app]. f_equal. unfold Wf. rewrite <- E2, (wd_sub kc (kid_in_subtrees t s kc Hs Hkc)), E2.
      rewrite <- app_assoc. f_equal. rewrite <- flat_map_app. f_equal.
      replace i with (iid s) by (subst s; reflexivity).
      symmetry. apply (pend_child t Hnd (iid s) c (sub_id_in t s Hs)). rewrite (a_children_in t Hnd s Hs), Ek.
      apply in_or_app. right. left. reflexivity.
    - rewrite (wgo_first_none D (wdesc D) kids Ef). cbn [app]. cbn [iid].
      destruct (pend t i) as [|m r] eqn:Ep; [reflexivity|]. cbn [hd_error flat_map].
      replace i with (iid s) in Ep by (subst s; reflexivity). rewrite <- Es in Hs.
      destruct (pend_step t Hnd (iid s) (sub_id_in t s Hs) m r Ep) as [_ Hm]. unfold Wf. rewrite Hm. reflexivity.
  Qed.

  Theorem Wf_filter n : hid_closed D t -> In n (ids t) -> filter D (Wf n) = filter D (a_following t n).
  Proof.
    intros Hh Hn. rewrite (following_decompose t Hnd n Hn). unfold Wf. rewrite !filter_app. f_equal.
    - destruct (a_sub_of_id t Hnd n Hn) as [s [Hs [E Hsub]]]. unfold wd, a_descendants. rewrite Hsub.
      apply wdesc_filter. exact (hid_closed_sub D t s Hh Hs).
    - rewrite !filter_flat_map. apply flat_map_ext_in'. intros m Hm. unfold sub_ids. cbn [filter]. f_equal; [|].
      all: unfold wd, a_descendants; destruct (a_sub t m) as [s|] eqn:Es; [|reflexivity];
        destruct (a_sub_some t m s Es) as [Hs _]; rewrite (wdesc_filter D s (hid_closed_sub D t s Hh Hs)); reflexivity.
  Qed.
  Lemma wd_length m : length (wd m) <= length (a_descendants t m).
  Proof. unfold wd, a_descendants. destruct (a_sub t m) as [s|]; [apply wdesc_length|cbn; lia]. Qed.
  Theorem Wf_length n : In n (ids t) -> length (Wf n) < length (ids t).
  Proof.
    intros Hn. pose proof (before_after n (ids t) Hn) as H. fold (a_following t n) in H.
    rewrite (following_decompose t Hnd n Hn) in H.
    assert (Hl : length (Wf n) <= length (a_descendants t n ++ flat_map (sub_ids t) (pend t n))).
    { unfold Wf. rewrite !app_length. apply Nat.add_le_mono; [apply wd_length|].
      induction (pend t n) as [|m r IH]; [cbn; lia|]. cbn [flat_map]. rewrite !app_length. unfold sub_ids at 1. cbn [length].
      pose proof (wd_length m). lia. }
    rewrite <- H. rewrite app_length. cbn [length]. lia.
  Qed.
End Following.
