(* astep_sound: what the position scripts of AOps.v compute satisfies the relational specification edit_ok of AEdit.v.
   Lemmas for Props/C01.v. *)
From Coq Require Import Permutation Lia.
From Delb.Base Require Import PyStr.
From Delb.Tree Require Import ATree ITree AOps AGuard AOpsFacts AFlat AFlatFacts AEdit.

(* ------------------------------------------------------------------ the invariant: unique identities, childless
   non-tag nodes around document roots *)
Definition ainv0 (w : world) : Prop := NoDup (world_ids_a w) /\ sibs_ok w.
Definition ainv (w : world) : Prop := ainv0 w /\ tags_only w.

Definition doc_frame (d : list itree * itree * list itree) : list itree * list itree := match d with (pro, _, epi) => (pro, epi) end.
Lemma rw_docs_frame {A} (g : itree -> option (itree * A)) ds : forall ds' a, rw_docs g ds = Some (ds', a) ->
  map doc_frame ds' = map doc_frame ds.
Proof.
  induction ds as [|[[pro r] epi] rest IH]; intros ds' a E; [discriminate|]. cbn [rw_docs] in E.
  destruct (t_rw g r) as [[r' a']|]; [injection E as <- _; reflexivity|]. fold (rw_docs g) in E.
  destruct (rw_docs g rest) as [[rest' a']|] eqn:Er; [|discriminate]. injection E as <- _. cbn [map]. rewrite (IH _ _ eq_refl). reflexivity.
Qed.
Lemma w_rw_frame {A} (g : itree -> option (itree * A)) w w' a : w_rw g w = Some (w', a) -> map doc_frame (docs w') = map doc_frame (docs w).
Proof.
  unfold w_rw. destruct (rw_docs g (docs w)) as [[d' a']|] eqn:Ed.
  - intros E. injection E as <- _. cbn [docs]. eapply rw_docs_frame, Ed.
  - destruct (rw_list (t_rw g) (loose w)) as [[l' a']|]; [|discriminate]. intros E. injection E as <- _. reflexivity.
Qed.
Lemma sibs_ok_frame w w' : map doc_frame (docs w') = map doc_frame (docs w) -> sibs_ok w -> sibs_ok w'.
Proof.
  intros E Hs d t Hd Ht. assert (Hf : In (doc_frame d) (map doc_frame (docs w'))) by (apply in_map, Hd).
  rewrite E in Hf. apply in_map_iff in Hf as (d0 & E0 & Hd0). apply (Hs d0 t Hd0).
  destruct d as [[pro r] epi], d0 as [[pro0 r0] epi0]. cbn in *. injection E0 as -> ->. exact Ht.
Qed.
Lemma apply_a_frame_docs u w : map doc_frame (docs (apply_a u w)) = map doc_frame (docs w).
Proof.
  assert (M : forall n ok g, map doc_frame (docs (a_move n ok g w)) = map doc_frame (docs w)).
  { intros n ok g. unfold a_move, take_loose. destruct (take_id n (loose w)) as [[t l']|]; [|reflexivity].
    destruct (ok t); [|reflexivity]. destruct (w_rw (g t) _) as [[w2 []]|] eqn:E; [|reflexivity]. apply (w_rw_frame _ _ _ _ E). }
  destruct u; cbn [apply_a]; try apply M; try reflexivity.
  - destruct (w_rw (g_extract x) w) as [[w1 t]|] eqn:E; [|reflexivity]. cbn [add_loose docs]. apply (w_rw_frame _ _ _ _ E).
  - destruct (is_loose w x); [reflexivity|]. destruct (w_rw _ w) as [[w1 []]|] eqn:E; [|reflexivity]. apply (w_rw_frame _ _ _ _ E).
  - destruct (w_rw _ w) as [[w1 []]|] eqn:E; [|reflexivity]. apply (w_rw_frame _ _ _ _ E).
Qed.
Lemma ainv0_apply u w : ainv0 w -> forallb (fun f => negb (memb f (world_ids_a w))) (upd_new u) = true -> ainv0 (apply_a u w).
Proof.
  intros [N S] Hf. split; [apply apply_a_nodup; assumption|]. eapply sibs_ok_frame; [apply apply_a_frame_docs|exact S].
Qed.

(* ------------------------------------------------------------------ single steps *)
Lemma is_loose_take w n : is_loose w n = true -> exists tn l', take_id n (loose w) = Some (tn, l').
Proof.
  unfold is_loose. induction (loose w) as [|t r IH]; [discriminate|]. cbn [existsb take_id]. destruct (has_id n t); [eauto|].
  cbn [orb]. intros H. destruct (IH H) as (tn & l' & ->). eauto.
Qed.
Lemma take_in_loose_ids w n tn l' : take_id n (loose w) = Some (tn, l') -> In n (loose_ids w) /\ In tn (loose w) /\ iid tn = n.
Proof.
  intros E. destruct (take_id_split _ _ _ _ E) as (l1 & l2 & El & _ & Hn & _). unfold has_id in Hn. apply N.eqb_eq in Hn.
  assert (Hin : In tn (loose w)) by (rewrite El; apply in_or_app; right; left; reflexivity).
  split; [|auto]. unfold loose_ids. rewrite <- Hn. apply in_map, Hin.
Qed.
Lemma not_ancestor w n x tn : NoDup (world_ids_a w) -> In tn (loose w) -> iid tn = n ->
  is_ancestor_or_self w n x = false -> ~ In x (ids tn).
Proof.
  intros N Hin Hid Ha. unfold is_ancestor_or_self in Ha. rewrite <- Hid, (loose_find_unique _ _ N Hin) in Ha.
  destruct (t_find x tn) eqn:E; [discriminate|]. apply t_find_none_ids, E.
Qed.

(* the shared core: the parentless n is moved by a local function that only applies at nodes containing x *)
Lemma step_move w n x ok (g : itree -> itree -> option (itree * unit)) Pos :
  ainv0 w ->
  (forall t s s' u, g t s = Some (s', u) -> lands (Pos) t s s') ->
  (forall t s, ~ In x (ids s) -> g t s = None) ->
  is_loose w n = true -> (forall tn, In tn (loose w) -> iid tn = n -> ok tn = true /\ ~ In x (ids tn) /\ w_rw (g tn) w <> None) ->
  exists P p La Lb,
    In n (loose_ids w) /\ node_of w P = Some (p, La ++ Lb) /\ Pos P La Lb /\
    (forall q, node_of (a_move n ok g w) q = if N.eqb P q then Some (p, La ++ n :: Lb) else node_of w q) /\
    loose_ids (a_move n ok g w) = remove_first n (loose_ids w) /\ doc_shape (a_move n ok g w) = doc_shape w.
Proof.
  intros [N S] Hg Hloc Hl Hok. destruct (is_loose_take _ _ Hl) as (tn & l' & Et).
  destruct (take_in_loose_ids _ _ _ _ Et) as (Hn & Hin & Hid). destruct (Hok tn Hin Hid) as (Eok & Hx & Hsucc).
  destruct (take_id_split _ _ _ _ Et) as (l1 & l2 & El & El' & _ & _).
  assert (Hs1 : w_rw (g tn) {| docs := docs w; loose := l' |} <> None).
  { rewrite El'. apply (w_rw_without (g tn) w tn l1 l2 El); [|exact Hsucc]. apply (t_rw_none x); [apply Hloc|exact Hx]. }
  destruct (w_rw (g tn) {| docs := docs w; loose := l' |}) as [[w2 []]|] eqn:Er; [|contradiction].
  destruct (move_effect n ok g Pos w tn l' w2 Hg N Et Eok Er) as [Em (P & p & La & Lb & _ & _ & H1 & H2 & H3 & H4 & H5)].
  rewrite Em. exists P, p, La, Lb. auto 10.
Qed.

Lemma moved_tags Pos w w' n : moved Pos w w' n -> tags_only w ->
  (forall P p La Lb, node_of w P = Some (p, La ++ Lb) -> Pos P La Lb -> kind_of_payload p = NTag) -> tags_only w'.
Proof.
  intros (P & p & La & Lb & _ & HP & HPos & Hq & _) Ht Hk q p' ks Hn Hne. rewrite Hq in Hn.
  destruct (N.eqb P q); [injection Hn as <- _; eapply Hk; eassumption|eapply Ht; eassumption].
Qed.
Lemma nonempty_app_l {X} (a b : list X) x : a ++ x :: b <> []. Proof. destruct a; discriminate. Qed.

Lemma kind_is_node_of w x f : kind_is w x f = true -> exists p ks, node_of w x = Some (p, ks) /\ f (kind_of_payload p) = true.
Proof.
  unfold kind_is, w_kind. rewrite w_find_node_of. destruct (w_find w x) as [s|]; [|discriminate]. cbn [option_map].
  intros H. exists (ipayload s), (map iid (ikids s)). split; [reflexivity|exact H].
Qed.

(* x._add_following_sibling(n) *)
Lemma step_follow w x n : ainv w -> is_loose w n = true -> is_ancestor_or_self w n x = false -> w_parent w x <> None ->
  moved (pos_follow x) w (apply_a (UAddFollowing x n) w) n /\ ainv (apply_a (UAddFollowing x n) w).
Proof.
  intros [[N S] T] Hl Ha Hp. cbn [apply_a].
  destruct (step_move w n x any_node (fun t => at_parent_of x (ins_after x t)) (pos_after x) (conj N S)) as (P & p & La & Lb & H1 & H2 & H3 & H4 & H5 & H6).
  - intros t s s' u. apply lands_after.
  - intros t s. apply at_parent_local.
  - exact Hl.
  - intros tn Hin Hid. split; [reflexivity|]. split; [eapply not_ancestor; eassumption|].
    intros E. apply (w_rw_parent x _ w S) in E. contradiction.
  - assert (M : moved (pos_follow x) w (a_move n any_node (fun t => at_parent_of x (ins_after x t)) w) n).
    { exists P, p, La, Lb. destruct H3 as (L0 & -> & _). repeat split; auto. exists L0. reflexivity. }
    split; [exact M|]. split.
    + apply (ainv0_apply (UAddFollowing x n) w (conj N S)). reflexivity.
    + apply (moved_tags _ _ _ _ M T). intros P' p' La' Lb' Hn (L0 & ->). eapply T; [exact Hn|]. rewrite <- app_assoc. apply nonempty_app_l.
Qed.

Definition pos_directly_before (x : nid) (P : nid) (La Lb : list nid) : Prop := exists L1, Lb = x :: L1.
Lemma kind_is_loose w n tn f : NoDup (world_ids_a w) -> In tn (loose w) -> iid tn = n -> kind_is w n f = f (ikind tn).
Proof. intros N Hin Hid. unfold kind_is, w_kind. rewrite <- Hid, (loose_find_unique _ _ N Hin). reflexivity. Qed.

(* TextNode._add_preceding_sibling (x a text node) and lxml addprevious (n not a text node) *)
Lemma step_before w x n u : ainv w -> (u = UTextAddPreceding x n \/ u = UAddPrevious x n) ->
  is_loose w n = true -> is_ancestor_or_self w n x = false -> w_parent w x <> None ->
  (kind_is w x is_textk = true \/ kind_is w n is_textk = false) ->
  moved (pos_directly_before x) w (apply_a u w) n /\ ainv (apply_a u w).
Proof.
  intros [[N S] T] Hu Hl Ha Hp Hc.
  assert (E : apply_a u w = a_move n any_node (g_before x) w) by (destruct Hu as [-> | ->]; reflexivity). rewrite E.
  destruct (w_parent w x) as [s|] eqn:Eps; [|contradiction].
  destruct (step_move w n x any_node (g_before x) (pos_before x) (conj N S)) as (P & p & La & Lb & H1 & H2 & H3 & H4 & H5 & H6).
  - intros t s0 s' u0. apply lands_before.
  - intros t s0. apply g_before_local.
  - exact Hl.
  - intros tn Hin Hid. split; [reflexivity|]. split; [eapply not_ancestor; eassumption|].
    apply (w_rw_before x tn w s S Eps). intros xk Hk Hxk. destruct Hc as [Hc|Hc].
    + destruct (w_find w x) as [sx|] eqn:Ef; [|unfold kind_is, w_kind in Hc; rewrite Ef in Hc; discriminate].
      pose proof (kid_is_node w x s xk sx N Eps Hk Hxk Ef) as Hpay. unfold kind_is, w_kind in Hc. rewrite Ef in Hc. cbn in Hc.
      unfold is_itext, ikind. rewrite Hpay. unfold ikind in Hc. rewrite Hc. apply andb_false_r.
    + rewrite (kind_is_loose w n tn _ N Hin Hid) in Hc. unfold is_itext. rewrite Hc. reflexivity.
  - assert (M : moved (pos_directly_before x) w (a_move n any_node (g_before x) w) n).
    { exists P, p, La, Lb. destruct H3 as (L1 & -> & _). repeat split; auto. exists L1. reflexivity. }
    split; [exact M|]. split.
    + rewrite <- E. apply (ainv0_apply u w (conj N S)). destruct Hu as [-> | ->]; reflexivity.
    + apply (moved_tags _ _ _ _ M T). intros P' p' La' Lb' Hn (L1 & ->). eapply T; [exact Hn|]. apply nonempty_app_l.
Qed.

(* TextNode._bind_to_data: the text n becomes the first child of the tag node p *)
Lemma step_bind w p n : ainv w -> is_loose w n = true -> is_ancestor_or_self w n p = false ->
  kind_is w p (nkind_eqb NTag) = true -> kind_is w n is_textk = true ->
  moved (pos_first p) w (apply_a (UBindData p n) w) n /\ ainv (apply_a (UBindData p n) w).
Proof.
  intros [[N S] T] Hl Ha Hp Hn. cbn [apply_a].
  destruct (step_move w n p is_itext (fun t => at_tag p (fun q => INode (iid q) (ipayload q) (t :: ikids q))) (pos_first p) (conj N S))
    as (P & p0 & La & Lb & H1 & H2 & H3 & H4 & H5 & H6).
  - intros t s s' u. apply lands_first.
  - intros t s. apply at_tag_local.
  - exact Hl.
  - intros tn Hin Hid. split; [|split; [eapply not_ancestor; eassumption|]].
    + rewrite (kind_is_loose w n tn _ N Hin Hid) in Hn. exact Hn.
    + unfold kind_is, w_kind in Hp. destruct (w_find w p) as [s|] eqn:Ef; [|discriminate]. cbn in Hp.
      apply (w_rw_at_tag p _ w s S Ef). destruct (ikind s); try discriminate. reflexivity.
  - assert (M : moved (pos_first p) w (a_move n is_itext (fun t => at_tag p (fun q => INode (iid q) (ipayload q) (t :: ikids q))) w) n).
    { exists P, p0, La, Lb. repeat split; auto; apply H3. }
    split; [exact M|]. split.
    + apply (ainv0_apply (UBindData p n) w (conj N S)). reflexivity.
    + apply (moved_tags _ _ _ _ M T). intros P' p' La' Lb' Hn' [-> _]. destruct (kind_is_node_of _ _ _ Hp) as (pp & ks & Hnp & Hk).
      rewrite Hnp in Hn'. injection Hn' as <- _. destruct (kind_of_payload pp); try discriminate. reflexivity.
Qed.
(* lxml append: the element-like n becomes the last child of the tag node p *)
Lemma step_append_el w p n : ainv w -> is_loose w n = true -> is_ancestor_or_self w n p = false ->
  kind_is w p (nkind_eqb NTag) = true -> kind_is w n is_textk = false ->
  moved (pos_last p) w (apply_a (UAppendEl p n) w) n /\ ainv (apply_a (UAppendEl p n) w).
Proof.
  intros [[N S] T] Hl Ha Hp Hn. cbn [apply_a].
  destruct (step_move w n p (fun t => negb (is_itext t)) (fun t => at_tag p (fun q => INode (iid q) (ipayload q) (ikids q ++ [t]))) (pos_last p) (conj N S))
    as (P & p0 & La & Lb & H1 & H2 & H3 & H4 & H5 & H6).
  - intros t s s' u. apply lands_last.
  - intros t s. apply at_tag_local.
  - exact Hl.
  - intros tn Hin Hid. split; [|split; [eapply not_ancestor; eassumption|]].
    + rewrite (kind_is_loose w n tn _ N Hin Hid) in Hn. unfold is_itext. rewrite Hn. reflexivity.
    + unfold kind_is, w_kind in Hp. destruct (w_find w p) as [s|] eqn:Ef; [|discriminate]. cbn in Hp.
      apply (w_rw_at_tag p _ w s S Ef). destruct (ikind s); try discriminate. reflexivity.
  - assert (M : moved (pos_last p) w (a_move n (fun t => negb (is_itext t)) (fun t => at_tag p (fun q => INode (iid q) (ipayload q) (ikids q ++ [t]))) w) n).
    { exists P, p0, La, Lb. repeat split; auto; apply H3. }
    split; [exact M|]. split.
    + apply (ainv0_apply (UAppendEl p n) w (conj N S)). reflexivity.
    + apply (moved_tags _ _ _ _ M T). intros P' p' La' Lb' Hn' [-> _]. destruct (kind_is_node_of _ _ _ Hp) as (pp & ks & Hnp & Hk).
      rewrite Hnp in Hn'. injection Hn' as <- _. destruct (kind_of_payload pp); try discriminate. reflexivity.
Qed.

(* detach *)
Lemma step_detach w x : ainv w -> w_parent w x <> None ->
  detached w (apply_a (UDetach x) w) x /\ ainv (apply_a (UDetach x) w).
Proof.
  intros [[N S] T] Hp. destruct (detach_effect x w N) as [E|(P & p & La & Lb & H1 & H2 & H3 & H4 & H5)].
  - exfalso. cbn [apply_a] in E. destruct (w_rw (g_extract x) w) as [[w1 t]|] eqn:Er.
    + (* a successful rewrite changes the parentless nodes *)
      assert (L : loose_ids (add_loose t w1) = loose_ids w) by (rewrite E; reflexivity).
      assert (Gid : forall s s' a, g_extract x s = Some (s', a) -> iid s' = iid s).
      { intros [i p kids] s' a. cbn [g_extract]. destruct (take_id x kids) as [[u' r]|]; [|discriminate]. intros H. injection H as <- _. reflexivity. }
      destruct (w_rw_flat (g_extract x) Gid _ _ _ Er) as (_ & Hlo & _). unfold loose_ids, add_loose in L. cbn [loose] in L.
      rewrite map_app in L. unfold loose_ids in Hlo. rewrite Hlo in L. apply (f_equal (@length nid)) in L. rewrite app_length in L. cbn in L. lia.
    + apply Hp. apply (w_rw_parent x (fun l => l) w S). apply (w_rw_dom (g_extract x) (at_parent_of x (fun l => l)) (extract_dom x _) w). exact Er.
  - assert (D : detached w (apply_a (UDetach x) w) x) by (exists P, p, La, Lb; auto).
    split; [exact D|]. split; [apply (ainv0_apply (UDetach x) w (conj N S)); reflexivity|].
    intros q p' ks Hn Hne. rewrite H3 in Hn. destruct (N.eqb P q).
    + injection Hn as <- _. eapply T; [exact H1|apply nonempty_app_l].
    + eapply T; eassumption.
Qed.

(* ------------------------------------------------------------------ a new parentless node *)
Lemma forest_add_loose t w : forest (add_loose t w) = forest w ++ [t].
Proof. unfold forest, add_loose. cbn [docs loose]. rewrite app_assoc. reflexivity. Qed.

Lemma step_new w f pl : ainv w -> memb f (world_ids_a w) = false ->
  let w0 := add_loose (INode f pl []) w in
  created w w0 f pl /\ ainv w0 /\ is_loose w0 f = true /\
  (forall q, q <> f -> w_find w0 q = w_find w q) /\ w_find w0 f = Some (INode f pl []) /\
  (forall y, w_parent w0 y = w_parent w y) /\ (forall q, is_doc_root w0 q = is_doc_root w q) /\
  (forall q, q <> f -> is_loose w0 q = is_loose w q).
Proof.
  intros [[N S] T] Hf. cbn zeta. set (leaf := INode f pl []). apply memb_in in Hf.
  assert (Hnone : node_of w f = None) by (unfold node_of; apply lookup_none; rewrite wflat_keys; exact Hf).
  assert (Hfind_none : w_find w f = None).
  { pose proof (w_find_node_of w f) as H. rewrite Hnone in H. destruct (w_find w f); [discriminate|reflexivity]. }
  assert (Hnode : forall q, node_of (add_loose leaf w) q = if N.eqb f q then Some (pl, []) else node_of w q).
  { intros q. unfold node_of. rewrite wflat_add_loose, lookup_app. cbn [flat leaf map flat_map lookup].
    destruct (N.eqb_spec f q) as [<-|E]; [fold (node_of w f); rewrite Hnone; reflexivity|]. destruct (lookup q (wflat w)); reflexivity. }
  assert (Hfind : forall q, w_find (add_loose leaf w) q = match w_find w q with Some r => Some r | None => t_find q leaf end).
  { intros q. unfold w_find. rewrite forest_add_loose, first_some_app. cbn [first_some]. destruct (first_some (t_find q) (forest w)); [reflexivity|].
    destruct (t_find q leaf); reflexivity. }
  assert (C : created w (add_loose leaf w) f pl).
  { split; [exact Hnone|]. split; [exact Hnode|]. split; [|reflexivity]. unfold loose_ids, add_loose. cbn [loose]. rewrite map_app. reflexivity. }
  assert (I : ainv (add_loose leaf w)).
  { split; [split|].
    - unfold world_ids_a. rewrite forest_add_loose, flat_map_app. cbn [flat_map ids leaf app]. apply nodup_snoc; assumption.
    - intros d0 t0 Hd Ht. apply (S d0 t0 Hd Ht).
    - intros q p ks Hn Hne. rewrite Hnode in Hn. destruct (N.eqb f q); [injection Hn as _ <-; contradiction|]. eapply T; eassumption. }
  subst leaf. split; [exact C|]. split; [exact I|]. split; [|split; [|split; [|split; [|split]]]].
  - unfold is_loose, add_loose. cbn [loose]. rewrite existsb_app. cbn [existsb has_id iid]. unfold has_id. cbn [iid]. rewrite N.eqb_refl, orb_true_r. reflexivity.
  - intros q Hq. rewrite Hfind. destruct (w_find w q); [reflexivity|]. cbn [t_find first_some]. destruct (N.eqb_spec f q); [congruence|reflexivity].
  - rewrite Hfind, Hfind_none. cbn [t_find]. rewrite N.eqb_refl. reflexivity.
  - intros y. unfold w_parent. rewrite forest_add_loose, first_some_app. cbn [first_some t_parent existsb].
    destruct (first_some (t_parent y) (forest w)); reflexivity.
  - intros q. reflexivity.
  - intros q Hq. unfold is_loose, add_loose. cbn [loose]. rewrite existsb_app. cbn [existsb]. unfold has_id at 2. cbn [iid].
    destruct (N.eqb_spec f q); [congruence|]. rewrite !orb_false_r. reflexivity.
Qed.

(* ------------------------------------------------------------------ inverting _prepare_new_relative *)
Lemma validate_opt_inv sib nk k w w' : run_a (validate_opt sib nk k) w = (w', ROk) ->
  (forall x, sib = Some x -> w_parent w x <> None) /\ run_a k w = (w', ROk) /\ (run_fresh (validate_opt sib nk k) w = run_fresh k w).
Proof.
  destruct sib as [x|]; cbn [validate_opt validate_sibling run_a run_fresh].
  - destruct (w_parent w x) eqn:E.
    + intros H. split; [intros x0 Hx; injection Hx as <-; rewrite E; discriminate|]. auto.
    + destruct (is_cpik nk && (kind_is w x is_cpik || is_doc_root w x))%bool; cbn [run_a]; intros H; [discriminate|].
      destruct (kind_is w x (nkind_eqb NTag)); discriminate.
  - intros H. split; [intros x Hx; discriminate|]. auto.
Qed.
Lemma is_loose_in w n : is_loose w n = true -> In n (loose_ids w).
Proof. intros H. destruct (is_loose_take _ _ H) as (tn & l' & E). apply (take_in_loose_ids _ _ _ _ E). Qed.

Lemma tagdef_ctx_namespace w ctx c ns : NoDup (world_ids_a w) -> tagdef_ctx w ctx = Some (c, ns) -> ctx_namespace w ctx ns.
Proof.
  intros N. unfold tagdef_ctx, ctx_namespace. rewrite w_find_node_of. destruct (w_find w ctx) as [[i p kids]|] eqn:Ef; [|discriminate].
  cbn [option_map entry_of ipayload]. destruct p as [n nm at_| | |]; try (intros H; injection H as _ <-; reflexivity).
  all: destruct (w_parent w ctx) as [[i' [n nm at_| | |] kids']|] eqn:Ep; try discriminate; intros H; injection H as _ <-;
    destruct (w_parent_node_of _ _ _ N Ep) as [H1 H2]; exists i', n, nm, at_, (map iid kids'); auto.
Qed.

Lemma prepare_inv ctx sib src k w w' :
  ainv w -> w_find w ctx <> None -> run_fresh (prepare ctx sib src k) w = true -> run_a (prepare ctx sib src k) w = (w', ROk) ->
  exists w0 n, offered w w0 ctx src n /\ ainv w0 /\ is_loose w0 n = true /\ is_ancestor_or_self w0 n ctx = false /\
    (forall x, sib = Some x -> w_parent w0 x <> None) /\
    run_a (k n) w0 = (w', ROk) /\ run_fresh (k n) w0 = true /\
    (forall q, q <> n -> w_find w0 q = w_find w q) /\ (forall y, w_parent w0 y = w_parent w y) /\
    (forall q, is_doc_root w0 q = is_doc_root w q) /\ (forall q, q <> n -> is_loose w0 q = is_loose w q).
Proof.
  intros I Hctx Hfr Hrun. destruct src as [n|f s|f name]; cbn [prepare run_a run_fresh] in Hrun, Hfr.
  - (* an existing node *)
    unfold lone in *. destruct (is_loose w n) eqn:El; [|discriminate]. unfold no_cycle in *. cbn [run_a run_fresh] in Hrun, Hfr.
    destruct (is_ancestor_or_self w n ctx) eqn:Ea; [discriminate|]. cbn [run_a run_fresh] in Hrun, Hfr.
    destruct (w_kind w n) as [nk|]; [|discriminate]. destruct (validate_opt_inv _ _ _ _ _ Hrun) as (Hp & Hk & Hf). rewrite Hf in Hfr.
    exists w, n. split; [split; [reflexivity|split; [reflexivity|apply is_loose_in, El]]|].
    split; [exact I|]. split; [exact El|]. split; [exact Ea|]. split; [exact Hp|]. split; [exact Hk|]. split; [exact Hfr|]. auto.
  - (* a string *)
    destruct (validate_opt_inv _ _ _ _ _ Hrun) as (Hp & Hk & Hf). rewrite Hf in Hfr. cbn [run_a run_fresh upd_new forallb apply_a] in Hk, Hfr.
    apply andb_true_iff in Hfr as [Hnew Hfr]. rewrite andb_true_r in Hnew. apply negb_true_iff in Hnew.
    destruct (step_new w f (PText s) I Hnew) as (C & I0 & L0 & Hfind & Hff & Hpar & Hdr & Hlo).
    exists (add_loose (INode f (PText s) []) w), f. split; [split; [reflexivity|exact C]|]. split; [exact I0|]. split; [exact L0|].
    split; [|split; [|split; [exact Hk|split; [exact Hfr|auto]]]].
    + unfold is_ancestor_or_self. rewrite Hff. cbn [t_find first_some]. destruct (N.eqb_spec f ctx) as [E|E]; [|reflexivity].
      exfalso. subst ctx. apply Hctx. destruct C as [Hn _]. rewrite w_find_node_of in Hn. destruct (w_find w f); [discriminate|reflexivity].
    + intros x Hx. rewrite Hpar. apply Hp, Hx.
  - (* a tag() definition *)
    destruct (tagdef_ctx w ctx) as [[c ns]|] eqn:Et; [|discriminate].
    destruct (validate_opt_inv _ _ _ _ _ Hrun) as (Hp & Hk & Hf). rewrite Hf in Hfr. cbn [run_a run_fresh upd_new forallb apply_a] in Hk, Hfr.
    apply andb_true_iff in Hfr as [Hnew Hfr]. rewrite andb_true_r in Hnew. apply negb_true_iff in Hnew.
    destruct (step_new w f (PTag ns name []) I Hnew) as (C & I0 & L0 & Hfind & Hff & Hpar & Hdr & Hlo).
    exists (add_loose (INode f (PTag ns name []) []) w), f. split.
    { split; [reflexivity|]. exists ns. split; [|exact C]. destruct I as [[N _] _]. eapply tagdef_ctx_namespace; eassumption. }
    split; [exact I0|]. split; [exact L0|]. split; [|split; [|split; [exact Hk|split; [exact Hfr|auto]]]].
    + unfold is_ancestor_or_self. rewrite Hff. cbn [t_find first_some]. destruct (N.eqb_spec f ctx) as [E|E]; [|reflexivity].
      exfalso. subst ctx. apply Hctx. destruct C as [Hn _]. rewrite w_find_node_of in Hn. destruct (w_find w f); [discriminate|reflexivity].
    + intros x Hx. rewrite Hpar. apply Hp, Hx.
Qed.

(* ------------------------------------------------------------------ the scripts *)
Lemma find_node w q : w_find w q <> None <-> node_of w q <> None.
Proof. rewrite w_find_node_of. destruct (w_find w q); cbn; split; intros H; try discriminate; auto. Qed.
Lemma moved_keeps_nodes Pos w w' n q : moved Pos w w' n -> node_of w q <> None -> node_of w' q <> None.
Proof. intros (P & p & La & Lb & _ & _ & _ & Hq & _) H. rewrite Hq. destruct (N.eqb P q); [discriminate|exact H]. Qed.
Lemma loose_exists w n : ainv w -> is_loose w n = true -> w_find w n <> None.
Proof.
  intros [[N _] _] H. destruct (is_loose_take _ _ H) as (tn & l' & E). destruct (take_in_loose_ids _ _ _ _ E) as (_ & Hin & Hid).
  rewrite <- Hid, (loose_find_unique _ _ N Hin). discriminate.
Qed.

Lemma add_following_sound srcs : forall x w w', ainv w -> w_find w x <> None ->
  run_fresh (add_following x srcs) w = true -> run_a (add_following x srcs) w = (w', ROk) ->
  chain_follow w x srcs w' /\ ainv w'.
Proof.
  induction srcs as [|src q IH]; intros x w w' I Hx Hfr Hrun; cbn [add_following] in *.
  - cbn [run_a] in Hrun. injection Hrun as <-. split; [reflexivity|exact I].
  - destruct (prepare_inv _ _ _ _ _ _ I Hx Hfr Hrun) as (w0 & n & Hoff & I0 & Hl & Ha & Hp & Hk & Hf & _).
    cbn [run_a run_fresh] in Hk, Hf. apply andb_true_iff in Hf as [_ Hf].
    destruct (step_follow w0 x n I0 Hl Ha (Hp x eq_refl)) as [M I1].
    assert (Hn : w_find (apply_a (UAddFollowing x n) w0) n <> None).
    { apply find_node. eapply moved_keeps_nodes; [exact M|]. apply find_node. apply loose_exists; assumption. }
    destruct (IH n _ _ I1 Hn Hf Hk) as [C I']. split; [|exact I']. cbn [chain_follow]. exists w0, (apply_a (UAddFollowing x n) w0), n. auto.
Qed.

(* ------------------------------------------------------------------ list lemmas for positions *)
Lemma split_unique {X} (l a a' b b' : list X) y : NoDup l -> l = a ++ y :: b -> l = a' ++ y :: b' -> a = a' /\ b = b'.
Proof.
  intros N E E'. subst l. revert a' E' N. induction a as [|h r IH]; intros a' E' N.
  - destruct a' as [|h' r']; cbn [app] in *.
    + injection E' as Hb. subst. auto.
    + injection E' as Hh Ht. exfalso. inversion N as [|? ? Hn _]; subst. apply Hn. apply in_or_app. right. left. reflexivity.
  - destruct a' as [|h' r']; cbn [app] in *.
    + injection E' as Hh Ht. exfalso. inversion N as [|? ? Hn _]; subst. apply Hn. apply in_or_app. right. left. reflexivity.
    + injection E' as Hh Ht. inversion N as [|? ? _ N']; subst. destruct (IH _ Ht N') as [-> ->]. auto.
Qed.
Lemma filter_rev_first {X} (v : X -> bool) A y r : filter v (rev A) = y :: r ->
  exists A0 I, A = A0 ++ y :: I /\ (forall z, In z I -> v z = false) /\ v y = true.
Proof.
  induction A as [|a A IH] using rev_ind; [discriminate|]. rewrite rev_app_distr. cbn [rev app filter]. destruct (v a) eqn:Ea.
  - intros H. injection H as <- _. exists A, []. split; [reflexivity|]. split; [intros z []|exact Ea].
  - intros H. destruct (IH H) as (A0 & I & -> & HI & Hy). exists A0, (I ++ [a]). rewrite <- app_assoc. cbn [app]. split; [reflexivity|].
    split; [|exact Hy]. intros z Hz. apply in_app_or in Hz. destruct Hz as [Hz|[<-|[]]]; [apply HI, Hz|exact Ea].
Qed.
Lemma filter_nil {X} (v : X -> bool) A : filter v A = [] -> forall z, In z A -> v z = false.
Proof.
  induction A as [|a A IH]; intros H z Hz; [destruct Hz|]. cbn [filter] in H. destruct (v a) eqn:Ea; [discriminate|].
  destruct Hz as [<-|Hz]; [exact Ea|apply IH; assumption].
Qed.
Lemma filter_rev_nil {X} (v : X -> bool) A : filter v (rev A) = [] -> forall z, In z A -> v z = false.
Proof. intros H z Hz. apply (filter_nil v (rev A) H). apply in_rev in Hz. exact Hz. Qed.

(* the scan of prev_visible: the children before the first x, nearest first *)
Lemma prev_scan x (l : list itree) : forall acc, existsb (has_id x) l = true ->
  exists A xk B, l = A ++ xk :: B /\ has_id x xk = true /\ existsb (has_id x) A = false /\
    (fix go (l : list itree) (acc : list itree) : list itree :=
       match l with [] => [] | k :: r => if has_id x k then acc else go r (k :: acc) end) l acc = rev A ++ acc.
Proof.
  induction l as [|k r IH]; intros acc H; [discriminate|]. cbn [existsb] in H. destruct (has_id x k) eqn:Ek.
  - exists [], k, r. cbn. rewrite Ek. auto.
  - cbn [orb] in H. destruct (IH (k :: acc) H) as (A & xk & B & -> & H1 & H2 & H3). exists (k :: A), xk, B.
    cbn [app existsb rev]. rewrite Ek, H2, H3, <- app_assoc. auto.
Qed.

Lemma kid_ids_nodup w P p ks : NoDup (world_ids_a w) -> node_of w P = Some (p, ks) -> NoDup ks.
Proof.
  intros N H. apply world_kid_ids_nodup in N. unfold node_of in H. apply lookup_some_in in H. unfold all_kid_ids in N.
  induction (wflat w) as [|e r IH]; [destruct H|]. cbn [flat_map] in N. destruct H as [->|H].
  - cbn [snd] in N. apply nodup_app_l in N. exact N.
  - apply IH; [|exact H]. apply (Permutation_NoDup (Permutation_app_comm _ _)) in N. apply nodup_app_l in N. exact N.
Qed.

Lemma prev_visible_spec F w x s : ainv w -> w_parent w x = Some s ->
  exists A L1, map iid (ikids s) = A ++ x :: L1 /\ ~ In x A /\
    match prev_visible F w x with
    | Some pv => exists A0 I, A = A0 ++ pv :: I /\ invisible F w I /\ vis_id F w pv = true
    | None => invisible F w A
    end.
Proof.
  intros [[N S] T] Hp. unfold prev_visible. rewrite Hp.
  assert (Hex : existsb (has_id x) (ikids s) = true).
  { destruct (w_parent_tree _ _ _ S Hp) as (t & _ & Ht). clear -Ht. revert Ht. induction t as [i p kids IH] using itree_ind'. cbn [t_parent].
    destruct (existsb (has_id x) kids) eqn:E; [intros H; injection H as <-; exact E|]. fold (first_some (t_parent x)). intros H.
    destruct (first_some_in _ _ _ H) as (k & Hk & Hpk). rewrite Forall_forall in IH. apply (IH k Hk Hpk). }
  destruct (prev_scan x (ikids s) [] Hex) as (A & xk & B & Ek & Hxk & HA & Hgo). rewrite Hgo, app_nil_r.
  assert (Hvis : forall k, In k (ikids s) -> vis_id F w (iid k) = vis F (ikind k)).
  { intros k Hk. unfold vis_id, kind_id. destruct (w_parent_node_of _ _ _ N Hp) as [Hn _].
    assert (Hin : In (iid k, ipayload k, map iid (ikids k)) (wflat w)).
    { apply (w_parent_incl _ _ _ Hp). destruct s as [i p kids]. rewrite flat_eq. right. cbn [ikids] in Hk. apply in_flat_map. exists k.
      split; [exact Hk|]. destruct k. left. reflexivity. }
    unfold node_of. rewrite (lookup_in _ _ _ _ (eq_ind_r (fun l => NoDup l) N (wflat_keys w)) Hin). reflexivity. }
  exists (map iid A), (map iid B). rewrite Ek, map_app. cbn [map]. unfold has_id in Hxk. apply N.eqb_eq in Hxk. rewrite Hxk.
  split; [reflexivity|]. split; [apply not_in_existsb, HA|].
  assert (HinA : forall k, In k A -> In k (ikids s)) by (intros k Hk; rewrite Ek; apply in_or_app; left; exact Hk).
  destruct (filter (fun k => vis F (ikind k)) (rev A)) as [|k0 r0] eqn:Ef.
  - intros y Hy. apply in_map_iff in Hy as (k & <- & Hk). rewrite (Hvis k (HinA k Hk)). apply (filter_rev_nil _ A Ef k Hk).
  - destruct (filter_rev_first _ A k0 r0 Ef) as (A0 & I & -> & HI & Hk0). exists (map iid A0), (map iid I). rewrite map_app. cbn [map].
    split; [reflexivity|]. split.
    + intros y Hy. apply in_map_iff in Hy as (k & <- & Hk). rewrite (Hvis k); [apply HI, Hk|]. apply HinA. apply in_or_app. right. right. exact Hk.
    + rewrite (Hvis k0); [exact Hk0|]. apply HinA. apply in_or_app. right. left. reflexivity.
Qed.

Lemma ancestor_false w n y tn : NoDup (world_ids_a w) -> In tn (loose w) -> iid tn = n -> ~ In y (ids tn) ->
  is_ancestor_or_self w n y = false.
Proof.
  intros N Hin Hid Hy. unfold is_ancestor_or_self. rewrite <- Hid, (loose_find_unique _ _ N Hin).
  apply t_find_none_ids in Hy. rewrite Hy. reflexivity.
Qed.
Lemma tag_of_parent w P p ks x : tags_only w -> node_of w P = Some (p, ks) -> In x ks -> kind_is w P (nkind_eqb NTag) = true.
Proof.
  intros T H Hx. unfold kind_is, w_kind. pose proof (w_find_node_of w P) as E. rewrite H in E. destruct (w_find w P) as [s|]; [|discriminate].
  cbn [option_map] in *. injection E as E1 E2. unfold ikind. rewrite <- E1. rewrite (T P p ks H); [reflexivity|]. destruct ks; [destruct Hx|discriminate].
Qed.

(* x._add_preceding_sibling(n) under the ambient filter *)
Lemma add_preceding_one_sound F x n k w w' :
  ainv w -> is_loose w n = true -> is_ancestor_or_self w n x = false -> w_parent w x <> None ->
  run_a (add_preceding_one F x n k) w = (w', ROk) ->
  exists w1, moved (pos_precede F w x) w w1 n /\ ainv w1 /\ run_a k w1 = (w', ROk) /\
             (run_fresh (add_preceding_one F x n k) w = run_fresh k w1).
Proof.
  intros I Hl Ha Hp Hrun. pose proof I as [[N S] T]. cbn [add_preceding_one run_a run_fresh] in *.
  destruct (is_loose_take _ _ Hl) as (tn & l' & Et). destruct (take_in_loose_ids _ _ _ _ Et) as (_ & Hin & Hid).
  pose proof (not_ancestor _ _ _ _ N Hin Hid Ha) as Hxn.
  destruct (w_parent w x) as [s|] eqn:Eps; [|contradiction]. destruct (w_parent_node_of _ _ _ N Eps) as [Hns Hxs].
  destruct (prev_visible_spec F w x s I Eps) as (A & L1 & EA & HxA & Hpv).
  destruct (kind_is w x is_textk) eqn:Ext.
  - (* a text node: directly before it *)
    cbn [run_a run_fresh] in *. destruct (step_before w x n (UTextAddPreceding x n) I (or_introl eq_refl) Hl Ha) as [M I1];
      [rewrite Eps; discriminate|left; exact Ext|].
    exists (apply_a (UTextAddPreceding x n) w). split; [|auto].
    destruct M as (P & p & La & Lb & H1 & H2 & (L1' & ->) & H4 & H5 & H6). exists P, p, La, (x :: L1'). repeat split; auto.
    exists [], L1'. split; [reflexivity|intros y []].
  - destruct (prev_visible F w x) as [pv|] eqn:Epv.
    + (* after the nearest visible preceding sibling *)
      destruct Hpv as (A0 & Iv & -> & HIv & Hvpv). cbn [run_a run_fresh] in *.
      assert (Hpvk : In pv (map iid (ikids s))) by (rewrite EA; apply in_or_app; left; apply in_or_app; right; left; reflexivity).
      destruct (outside_parent w tn x (iid s) _ _ N Hin Hxn Hns Hxs) as [_ Hout].
      destruct (step_follow w pv n I Hl) as [M I1].
      { eapply ancestor_false; try eassumption. apply Hout, Hpvk. }
      { eapply node_of_parent; [exact Hns|exact Hpvk]. }
      exists (apply_a (UAddFollowing pv n) w). split; [|auto].
      destruct M as (P & p & La & Lb & H1 & H2 & (L0 & ->) & H4 & H5 & H6).
      assert (HP : In pv (L0 ++ [pv] ++ Lb)) by (apply in_or_app; right; left; reflexivity).
      rewrite <- app_assoc in H2. destruct (parent_unique w P p _ (iid s) _ _ pv N H2 Hns HP Hpvk) as [-> Eks].
      pose proof (kid_ids_nodup _ _ _ _ N Hns) as Nk. unfold entry_of in Hns. cbn [app] in Eks.
      assert (Esplit : L0 = A0 /\ Lb = Iv ++ x :: L1).
      { apply (split_unique (map iid (ikids s)) L0 A0 Lb (Iv ++ x :: L1) pv Nk); [symmetry; exact Eks|]. rewrite EA, <- app_assoc. reflexivity. }
      destruct Esplit as [-> ->]. exists (iid s), p, (A0 ++ [pv]), (Iv ++ x :: L1). rewrite <- app_assoc. repeat split; auto.
      exists Iv, L1. auto.
    + destruct (kind_is w n is_textk) eqn:Ent.
      * (* a text before the first visible child: it becomes the parent's text *)
        destruct (first_is_text w (iid s)) eqn:Eft; [cbn [run_a] in Hrun; discriminate|]. cbn [run_a run_fresh] in *.
        destruct (outside_parent w tn x (iid s) _ _ N Hin Hxn Hns Hxs) as [HPout _].
        destruct (step_bind w (iid s) n I Hl) as [M I1].
        { eapply ancestor_false; eassumption. }
        { eapply tag_of_parent; eassumption. }
        { exact Ent. }
        exists (apply_a (UBindData (iid s) n) w). split; [|auto].
        destruct M as (P & p & La & Lb & H1 & H2 & [-> ->] & H4 & H5 & H6). cbn [app] in *. unfold entry_of in Hns. rewrite Hns in H2.
        injection H2 as <- <-. exists (iid s), (ipayload s), [], (map iid (ikids s)). repeat split; auto. exists A, L1. auto.
      * (* an element-like node directly before x *)
        cbn [run_a run_fresh] in *. destruct (step_before w x n (UAddPrevious x n) I (or_intror eq_refl) Hl Ha) as [M I1];
          [rewrite Eps; discriminate|right; exact Ent|].
        exists (apply_a (UAddPrevious x n) w). split; [|auto].
        destruct M as (P & p & La & Lb & H1 & H2 & (L1' & ->) & H4 & H5 & H6). exists P, p, La, (x :: L1'). repeat split; auto.
        exists [], L1'. split; [reflexivity|intros y []].
Qed.

Lemma add_preceding_sound F srcs : forall x w w', ainv w -> w_find w x <> None ->
  run_fresh (add_preceding F x srcs) w = true -> run_a (add_preceding F x srcs) w = (w', ROk) ->
  chain_precede F w x srcs w' /\ ainv w'.
Proof.
  induction srcs as [|src q IH]; intros x w w' I Hx Hfr Hrun; cbn [add_preceding] in *.
  - cbn [run_a] in Hrun. injection Hrun as <-. split; [reflexivity|exact I].
  - destruct (prepare_inv _ _ _ _ _ _ I Hx Hfr Hrun) as (w0 & n & Hoff & I0 & Hl & Ha & Hp & Hk & Hf & _).
    destruct (add_preceding_one_sound F x n _ w0 w' I0 Hl Ha (Hp x eq_refl) Hk) as (w1 & M & I1 & Hk1 & Hf1). rewrite Hf1 in Hf.
    assert (Hn : w_find w1 n <> None).
    { apply find_node. eapply moved_keeps_nodes; [exact M|]. apply find_node. apply loose_exists; assumption. }
    destruct (IH n _ _ I1 Hn Hf Hk1) as [C I']. split; [|exact I']. cbn [chain_precede]. exists w0, w1, n. auto.
Qed.

(* ------------------------------------------------------------------ append_children *)
Lemma offered_node_of w w0 ctx src n q : offered w w0 ctx src n -> q <> n -> node_of w0 q = node_of w q.
Proof.
  destruct src as [m|f s|f name]; cbn [offered].
  - intros (_ & -> & _) _. reflexivity.
  - intros (-> & _ & Hq & _) Hne. rewrite Hq. destruct (N.eqb_spec f q); [congruence|reflexivity].
  - intros (-> & ns & _ & _ & Hq & _) Hne. rewrite Hq. destruct (N.eqb_spec f q); [congruence|reflexivity].
Qed.
Lemma vis_id_transfer F w w0 q : node_of w0 q = node_of w q -> vis_id F w0 q = vis_id F w q.
Proof. intros H. unfold vis_id, kind_id. rewrite H. reflexivity. Qed.
Lemma kids_of_transfer w w0 q : node_of w0 q = node_of w q -> kids_of w0 q = kids_of w q.
Proof. intros H. unfold kids_of. rewrite H. reflexivity. Qed.
Lemma node_of_kids w p : node_of w p <> None -> exists pl, node_of w p = Some (pl, kids_of w p).
Proof. unfold kids_of. destruct (node_of w p) as [[pl ks]|]; [eauto|contradiction]. Qed.
Lemma rev_filter_last {X} (v : X -> bool) ks l r : rev (filter v ks) = l :: r ->
  exists K0 I, ks = K0 ++ l :: I /\ (forall z, In z I -> v z = false) /\ v l = true.
Proof.
  intros H. apply filter_rev_first with (r := r). clear -H. revert l r H. induction ks as [|a ks IH] using rev_ind; intros l r H; [discriminate|].
  rewrite filter_app in H. cbn [filter] in H. rewrite rev_app_distr. cbn [rev app filter]. destruct (v a).
  - cbn [rev app] in H. rewrite rev_app_distr in H. cbn in H. injection H as <- <-. f_equal.
    clear. induction ks as [|b ks IH]; [reflexivity|]. cbn [filter rev]. rewrite filter_app, IH. cbn [filter]. destruct (v b); [reflexivity|apply app_nil_r].
  - rewrite app_nil_r in H. apply IH, H.
Qed.

Lemma in_kids_exists w p y : ainv w -> node_of w p <> None -> In y (kids_of w p) -> node_of w y <> None.
Proof.
  intros [[N _] _] Hp Hy. apply find_node in Hp. destruct (w_find w p) as [t|] eqn:Ef; [|contradiction]. rewrite (kids_of_find _ _ _ Ef) in Hy.
  apply in_map_iff in Hy as (k & <- & Hk). rewrite (kid_entry _ _ _ _ N Ef Hk). discriminate.
Qed.

Lemma on_tag_inv p k w w' : run_a (on_tag p k) w = (w', ROk) ->
  kind_is w p (nkind_eqb NTag) = true /\ run_a k w = (w', ROk) /\ run_fresh (on_tag p k) w = run_fresh k w.
Proof. cbn [on_tag run_a run_fresh]. destruct (kind_is w p (nkind_eqb NTag)); [auto|discriminate]. Qed.
Lemma kind_is_exists w p f : kind_is w p f = true -> w_find w p <> None.
Proof. unfold kind_is, w_kind. destruct (w_find w p); [discriminate|discriminate]. Qed.
Lemma kind_is_transfer w w0 q f : w_find w0 q = w_find w q -> kind_is w0 q f = kind_is w q f.
Proof. intros H. unfold kind_is, w_kind. rewrite H. reflexivity. Qed.

(* the first offered node becomes a child of the childless-as-seen p: TagNode.__add_first_child *)
Lemma add_first_child_sound F p n k w w' : ainv w -> is_loose w n = true -> is_ancestor_or_self w n p = false ->
  kind_is w p (nkind_eqb NTag) = true -> filter (vis_id F w) (kids_of w p) = [] ->
  run_a (add_first_child p n k) w = (w', ROk) ->
  exists w1, moved (fun P La Lb => P = p /\ invisible F w La /\ invisible F w Lb) w w1 n /\ ainv w1 /\ run_a k w1 = (w', ROk) /\
             run_fresh (add_first_child p n k) w = run_fresh k w1.
Proof.
  intros I Hl Ha Hp Hvis Hrun. cbn [add_first_child run_a run_fresh] in *. pose proof I as [[N S] T].
  assert (Hinv : forall P pl La Lb, node_of w P = Some (pl, La ++ Lb) -> P = p -> invisible F w La /\ invisible F w Lb).
  { intros P pl La Lb HP ->. unfold kids_of in Hvis. rewrite HP in Hvis.
    split; intros y Hy; apply (filter_nil _ _ Hvis); apply in_or_app; [left|right]; exact Hy. }
  destruct (kind_is w n is_textk) eqn:Ent; cbn [run_a run_fresh] in *.
  - destruct (step_bind w p n I Hl Ha Hp Ent) as [M I1]. exists (apply_a (UBindData p n) w). split; [|auto].
    destruct M as (P & pl & La & Lb & H1 & H2 & [-> ->] & H4 & H5 & H6). exists p, pl, [], Lb. repeat split; auto; apply (Hinv p pl [] Lb H2 eq_refl).
  - destruct (step_append_el w p n I Hl Ha Hp Ent) as [M I1]. exists (apply_a (UAppendEl p n) w). split; [|auto].
    destruct M as (P & pl & La & Lb & H1 & H2 & [-> ->] & H4 & H5 & H6). exists p, pl, La, []. repeat split; auto; apply (Hinv p pl La [] H2 eq_refl).
Qed.

Lemma add_following_step x src q w w' : ainv w -> w_find w x <> None ->
  run_fresh (add_following x (src :: q)) w = true -> run_a (add_following x (src :: q)) w = (w', ROk) ->
  exists w0 w1 n, offered w w0 x src n /\ ainv w0 /\ moved (pos_follow x) w0 w1 n /\ ainv w1 /\ w_find w1 n <> None /\
                  run_a (add_following n q) w1 = (w', ROk) /\ run_fresh (add_following n q) w1 = true /\
                  (forall y, y <> n -> w_find w0 y = w_find w y) /\ is_ancestor_or_self w0 n x = false /\ is_loose w0 n = true.
Proof.
  intros I Hx Hfr Hrun. cbn [add_following] in *.
  destruct (prepare_inv _ _ _ _ _ _ I Hx Hfr Hrun) as (w0 & n & Hoff & I0 & Hl & Ha & Hp & Hk & Hf & Hfind & _).
  cbn [run_a run_fresh] in Hk, Hf. apply andb_true_iff in Hf as [_ Hf].
  destruct (step_follow w0 x n I0 Hl Ha (Hp x eq_refl)) as [M I1].
  exists w0, (apply_a (UAddFollowing x n) w0), n. split; [exact Hoff|]. split; [exact I0|]. split; [exact M|]. split; [exact I1|].
  split; [|auto 6]. apply find_node. eapply moved_keeps_nodes; [exact M|]. apply find_node. apply loose_exists; assumption.
Qed.

Lemma kid_inside w p l : node_of w p <> None -> In l (kids_of w p) -> is_ancestor_or_self w p l = true.
Proof.
  intros Hp Hl. apply find_node in Hp. unfold is_ancestor_or_self. destruct (w_find w p) as [t|] eqn:Ef; [|contradiction].
  rewrite (kids_of_find _ _ _ Ef) in Hl. destruct (t_find l t) eqn:E; [reflexivity|]. exfalso. apply t_find_none_ids in E. apply E.
  destruct t as [i pl kids]. rewrite ids_eq. right. cbn [ikids] in Hl. apply in_map_iff in Hl as (k & <- & Hk). apply in_flat_map. exists k. split; [exact Hk|apply iid_in_ids].
Qed.

Lemma follow_to_split w w1 n l p K0 Iv : ainv w -> moved (pos_follow l) w w1 n -> node_of w p <> None ->
  kids_of w p = K0 ++ l :: Iv -> moved (fun P La Lb => P = p /\ La = K0 ++ [l] /\ Lb = Iv) w w1 n.
Proof.
  intros [[N _] _] (P & pl & La & Lb & H1 & H2 & (L0 & ->) & H4 & H5 & H6) Hp Hk.
  destruct (node_of_kids _ _ Hp) as (pl' & Hnp). rewrite Hk in Hnp.
  assert (Hl1 : In l ((L0 ++ [l]) ++ Lb)) by (apply in_or_app; left; apply in_or_app; right; left; reflexivity).
  assert (Hl2 : In l (K0 ++ l :: Iv)) by (apply in_or_app; right; left; reflexivity).
  destruct (parent_unique w P pl _ p pl' _ l N H2 Hnp Hl1 Hl2) as [-> Eks].
  pose proof (kid_ids_nodup _ _ _ _ N Hnp) as Nk. rewrite <- app_assoc in Eks. cbn [app] in Eks.
  destruct (split_unique (K0 ++ l :: Iv) L0 K0 Lb Iv l Nk (eq_sym Eks) eq_refl) as [-> ->].
  exists p, pl, (K0 ++ [l]), Iv. repeat split; auto.
Qed.
Lemma moved_weaken (Pos Pos' : nid -> list nid -> list nid -> Prop) w w' n :
  (forall P La Lb, Pos P La Lb -> Pos' P La Lb) -> moved Pos w w' n -> moved Pos' w w' n.
Proof. intros H (P & p & La & Lb & H1 & H2 & H3 & H4). exists P, p, La, Lb. repeat split; auto; apply H4. Qed.

Lemma offered_vis w w0 ctx src n p : offered w w0 ctx src n -> ainv w -> node_of w p <> None ->
  forall y, In y (kids_of w p) -> node_of w0 y = node_of w y.
Proof.
  intros Hoff I Hp y Hy. pose proof (in_kids_exists _ _ _ I Hp Hy) as Hex. destruct src as [m|f s|f name]; cbn [offered] in Hoff.
  - destruct Hoff as (_ & -> & _). reflexivity.
  - destruct Hoff as (-> & Hn & Hq & _). rewrite Hq. destruct (N.eqb_spec f y) as [<-|]; [contradiction|reflexivity].
  - destruct Hoff as (-> & ns & _ & Hn & Hq & _). rewrite Hq. destruct (N.eqb_spec f y) as [<-|]; [contradiction|reflexivity].
Qed.
Lemma filter_vis_transfer F w w0 l : (forall y, In y l -> node_of w0 y = node_of w y) -> filter (vis_id F w0) l = filter (vis_id F w) l.
Proof. intros H. apply filter_ext_in. intros y Hy. apply vis_id_transfer, H, Hy. Qed.
Lemma invisible_transfer F w w0 l : (forall y, In y l -> node_of w0 y = node_of w y) -> invisible F w l -> invisible F w0 l.
Proof. intros H Hi y Hy. rewrite (vis_id_transfer F w w0 y (H y Hy)). apply Hi, Hy. Qed.
Lemma not_self_ancestor w n p : ainv w -> is_loose w n = true -> is_ancestor_or_self w n p = false -> p <> n.
Proof.
  intros I Hl Ha ->. unfold is_ancestor_or_self in Ha. destruct (w_find w n) as [[i pl kk]|] eqn:E; [|apply (loose_exists _ _ I Hl E)].
  destruct (w_find_incl _ _ _ E) as [Hi _]. cbn in Hi. subst i. cbn [t_find] in Ha. rewrite N.eqb_refl in Ha. discriminate.
Qed.

Lemma append_sound F p srcs w w' : ainv w -> run_fresh (append_children F p srcs) w = true ->
  run_a (append_children F p srcs) w = (w', ROk) -> edit_ok F w (OAppend p srcs) w' /\ ainv w'.
Proof.
  intros I Hfr Hrun. unfold append_children in *. destruct (on_tag_inv _ _ _ _ Hrun) as (Hp & Hrun1 & Hf1). rewrite Hf1 in Hfr.
  clear Hrun Hf1. cbn [run_a run_fresh] in Hrun1, Hfr. pose proof I as [[N S] T]. rewrite (vis_children_ids F w p N) in *.
  pose proof (kind_is_exists _ _ _ Hp) as Hpex. pose proof (proj1 (find_node w p) Hpex) as Hpn. cbn [edit_ok].
  destruct (rev (filter (vis_id F w) (kids_of w p))) as [|l rl] eqn:Erev.
  - (* no visible child *)
    assert (Evis : filter (vis_id F w) (kids_of w p) = []) by (rewrite <- (rev_involutive (filter _ _)), Erev; reflexivity).
    destruct srcs as [|src q]; [cbn [run_a] in Hrun1; injection Hrun1 as <-; auto|].
    destruct (prepare_inv _ _ _ _ _ _ I Hpex Hfr Hrun1) as (w0 & n & Hoff & I0 & Hl & Ha & _ & Hk & Hf & Hfind & _).
    pose proof (not_self_ancestor _ _ _ I0 Hl Ha) as Hne.
    assert (Hnode : node_of w0 p = node_of w p) by (rewrite !w_find_node_of, (Hfind p Hne); reflexivity).
    pose proof (offered_vis _ _ _ _ _ p Hoff I Hpn) as Hkv.
    assert (Hvis0 : filter (vis_id F w0) (kids_of w0 p) = []).
    { rewrite (kids_of_transfer _ _ _ Hnode), (filter_vis_transfer F w w0 _ Hkv). exact Evis. }
    assert (Hp0 : kind_is w0 p (nkind_eqb NTag) = true) by (rewrite (kind_is_transfer w w0 p _ (Hfind p Hne)); exact Hp).
    destruct (add_first_child_sound F p n _ w0 w' I0 Hl Ha Hp0 Hvis0 Hk) as (w1 & M & I1 & Hk1 & Hf1). rewrite Hf1 in Hf.
    assert (Hn1 : w_find w1 n <> None).
    { apply find_node. eapply moved_keeps_nodes; [exact M|]. apply find_node. apply loose_exists; assumption. }
    destruct (add_following_sound q n w1 w' I1 Hn1 Hf Hk1) as [C I'].
    split; [|exact I']. exists p, w0, w1, n. split; [exact Hoff|]. split; [|exact C].
    eapply moved_weaken; [|exact M]. intros P La Lb (-> & _ & HLb). split; [reflexivity|exact HLb].
  - (* after the last visible child *)
    destruct (rev_filter_last _ _ _ _ Erev) as (K0 & Iv & Ek & HIv & Hvl).
    assert (Hlk : In l (kids_of w p)) by (rewrite Ek; apply in_or_app; right; left; reflexivity).
    assert (Hlex : w_find w l <> None) by (apply find_node; eapply in_kids_exists; eassumption).
    destruct srcs as [|src q]; [cbn [add_following run_a] in Hrun1; injection Hrun1 as <-; auto|].
    destruct (add_following_step l src q w w' I Hlex Hfr Hrun1) as (w0 & w1 & n & Hoff & I0 & M & I1 & Hn1 & Hk1 & Hf & Hfind & Ha & Hl).
    destruct (add_following_sound q n w1 w' I1 Hn1 Hf Hk1) as [C I'].
    split; [|exact I']. exists l, w0, w1, n. split; [exact Hoff|]. split; [|exact C].
    (* the last visible child is a child of p, also in w0 *)
    pose proof (offered_vis _ _ _ _ _ p Hoff I Hpn) as Hkv.
    assert (Hpne : p <> n).
    { intros ->. destruct src as [m|f s|f name]; cbn [offered] in Hoff.
      - destruct Hoff as (_ & -> & _). rewrite (kid_inside w n l Hpn Hlk) in Ha. discriminate.
      - destruct Hoff as (-> & Hnone & _). contradiction.
      - destruct Hoff as (-> & ns & _ & Hnone & _). contradiction. }
    assert (Hnode : node_of w0 p = node_of w p) by (apply (offered_node_of _ _ _ _ _ _ Hoff Hpne)).
    assert (Hk0 : kids_of w0 p = K0 ++ l :: Iv) by (rewrite (kids_of_transfer _ _ _ Hnode); exact Ek).
    assert (Hp0 : node_of w0 p <> None) by (rewrite Hnode; exact Hpn).
    pose proof (follow_to_split w0 w1 n l p K0 Iv I0 M Hp0 Hk0) as M2.
    eapply moved_weaken; [|exact M2]. intros P La Lb (-> & _ & ->). split; [reflexivity|].
    apply (invisible_transfer F w w0); [|exact HIv]. intros y Hy. apply Hkv. rewrite Ek. apply in_or_app. right. right. exact Hy.
Qed.

(* ------------------------------------------------------------------ insert_children / prepend_children *)
Lemma nth_filter_split {X} (v : X -> bool) ks : forall j y, nth_error (filter v ks) j = Some y ->
  exists K0 R, ks = K0 ++ y :: R /\ length (filter v K0) = j /\ v y = true.
Proof.
  induction ks as [|a ks IH]; intros j y H; [destruct j; discriminate|]. cbn [filter] in H. destruct (v a) eqn:Ea.
  - destruct j as [|j]; cbn [nth_error] in H.
    + injection H as <-. exists [], ks. auto.
    + destruct (IH _ _ H) as (K0 & R & -> & H1 & H2). exists (a :: K0), R. cbn [app filter]. rewrite Ea. cbn [length]. auto.
  - destruct (IH _ _ H) as (K0 & R & -> & H1 & H2). exists (a :: K0), R. cbn [app filter]. rewrite Ea. auto.
Qed.

Definition insert_rest (F : filt) (p : nid) (n : nat) (q : list nsrc) : prog :=
  match q with
  | [] => Ret ROk
  | _ => Ask (fun w' => match nth_vis F w' p n with Some y => add_following y q | None => Ret (Crash EIndexError) end)
  end.
Lemma insert_rest_sound F p i q w1 w' : ainv w1 -> node_of w1 p <> None -> run_fresh (insert_rest F p i q) w1 = true ->
  run_a (insert_rest F p i q) w1 = (w', ROk) ->
  match q with [] => w' = w1 | _ => exists y, nth_visible F w1 p i = Some y /\ chain_follow w1 y q w' end /\ ainv w'.
Proof.
  intros I Hp Hfr Hrun. destruct q as [|s r]; cbn [insert_rest run_a run_fresh] in *.
  - injection Hrun as <-. auto.
  - pose proof I as [[N _] _]. unfold nth_vis in *. rewrite (vis_children_ids F w1 p N) in *.
    destruct (nth_error (filter (vis_id F w1) (kids_of w1 p)) i) as [y|] eqn:Ey; [|cbn in Hrun; discriminate].
    assert (Hy : w_find w1 y <> None).
    { apply find_node. apply (in_kids_exists w1 p y I Hp). destruct (nth_filter_split _ _ _ _ Ey) as (K0 & R & -> & _). apply in_or_app. right. left. reflexivity. }
    destruct (add_following_sound (s :: r) y w1 w' I Hy Hfr Hrun) as [C I']. split; [|exact I']. exists y. auto.
Qed.
Lemma moved_parent_node Pos w w1 n p : moved Pos w w1 n -> node_of w p <> None -> node_of w1 p <> None.
Proof. apply moved_keeps_nodes. Qed.

Lemma insert_sound F p i srcs w w' : ainv w -> run_fresh (insert_children F p i srcs) w = true ->
  run_a (insert_children F p i srcs) w = (w', ROk) ->
  match srcs with
  | [] => False
  | s :: r => exists ctx w0 w1 n, offered w w0 ctx s n /\ moved (pos_index F w0 p (Z.to_nat i)) w0 w1 n /\
                match r with [] => w' = w1 | _ => exists y, nth_visible F w1 p (Z.to_nat i) = Some y /\ chain_follow w1 y r w' end
  end /\ ainv w'.
Proof.
  intros I Hfr Hrun. unfold insert_children in *. destruct (on_tag_inv _ _ _ _ Hrun) as (Hp & Hrun1 & Hf1). rewrite Hf1 in Hfr.
  clear Hrun Hf1. cbn [run_a run_fresh] in Hrun1, Hfr. pose proof I as [[N S] T]. unfold nth_vis in *. rewrite (vis_children_ids F w p N) in *.
  pose proof (kind_is_exists _ _ _ Hp) as Hpex. pose proof (proj1 (find_node w p) Hpex) as Hpn.
  destruct (i <? 0)%Z; [cbn in Hrun1; discriminate|].
  destruct (Nat.ltb (length (filter (vis_id F w) (kids_of w p))) (Z.to_nat i)); [cbn in Hrun1; discriminate|].
  destruct srcs as [|src q]; [cbn in Hrun1; discriminate|].
  change (match q with [] => Ret ROk | _ :: _ => Ask (fun w' => match nth_error (vis_children F w' p) (Z.to_nat i) with Some y => add_following y q | None => Ret (Crash EIndexError) end) end)
    with (insert_rest F p (Z.to_nat i) q) in *.
  destruct (Z.to_nat i) as [|n'] eqn:Ei.
  - destruct (filter (vis_id F w) (kids_of w p)) as [|y rest] eqn:Evis.
    + (* no visible child *)
      destruct (prepare_inv _ _ _ _ _ _ I Hpex Hfr Hrun1) as (w0 & n & Hoff & I0 & Hl & Ha & _ & Hk & Hf & Hfind & _).
      pose proof (not_self_ancestor _ _ _ I0 Hl Ha) as Hne.
      assert (Hnode : node_of w0 p = node_of w p) by (rewrite !w_find_node_of, (Hfind p Hne); reflexivity).
      pose proof (offered_vis _ _ _ _ _ p Hoff I Hpn) as Hkv.
      assert (Hvis0 : filter (vis_id F w0) (kids_of w0 p) = []) by (rewrite (kids_of_transfer _ _ _ Hnode), (filter_vis_transfer F w w0 _ Hkv); exact Evis).
      assert (Hp0 : kind_is w0 p (nkind_eqb NTag) = true) by (rewrite (kind_is_transfer w w0 p _ (Hfind p Hne)); exact Hp).
      destruct (add_first_child_sound F p n _ w0 w' I0 Hl Ha Hp0 Hvis0 Hk) as (w1 & M & I1 & Hk1 & Hf1'). rewrite Hf1' in Hf.
      assert (Hp1 : node_of w1 p <> None) by (eapply moved_keeps_nodes; [exact M|rewrite Hnode; exact Hpn]).
      destruct (insert_rest_sound F p 0 q w1 w' I1 Hp1 Hf Hk1) as [R I']. split; [|exact I'].
      exists p, w0, w1, n. split; [exact Hoff|]. split; [|exact R].
      eapply moved_weaken; [|exact M]. intros P La Lb (-> & HLa & _). split; [reflexivity|]. unfold visible_count.
      assert (E : filter (vis_id F w0) La = []); [|rewrite E; reflexivity].
      clear -HLa. induction La as [|a r IH]; [reflexivity|]. cbn [filter]. rewrite (HLa a (or_introl eq_refl)). apply IH. intros y Hy. apply HLa. right. exact Hy.
    + (* before the first visible child *)
      destruct (nth_filter_split (vis_id F w) (kids_of w p) 0 y) as (K0 & R0 & Ek & HK0 & Hvy); [rewrite Evis; reflexivity|].
      assert (Hyk : In y (kids_of w p)) by (rewrite Ek; apply in_or_app; right; left; reflexivity).
      assert (Hyex : w_find w y <> None) by (apply find_node; eapply in_kids_exists; eassumption).
      destruct (prepare_inv _ _ _ _ _ _ I Hyex Hfr Hrun1) as (w0 & n & Hoff & I0 & Hl & Ha & Hpar & Hk & Hf & Hfind & _).
      destruct (add_preceding_one_sound F y n _ w0 w' I0 Hl Ha (Hpar y eq_refl) Hk) as (w1 & M & I1 & Hk1 & Hf1'). rewrite Hf1' in Hf.
      assert (Hpne : p <> n).
      { intros ->. destruct src as [m|f s|f name]; cbn [offered] in Hoff.
        - destruct Hoff as (_ & -> & _). rewrite (kid_inside w n y Hpn Hyk) in Ha. discriminate.
        - destruct Hoff as (-> & Hnone & _). contradiction.
        - destruct Hoff as (-> & ns & _ & Hnone & _). contradiction. }
      assert (Hnode : node_of w0 p = node_of w p) by (apply (offered_node_of _ _ _ _ _ _ Hoff Hpne)).
      pose proof (offered_vis _ _ _ _ _ p Hoff I Hpn) as Hkv.
      assert (Hp1 : node_of w1 p <> None) by (eapply moved_keeps_nodes; [exact M|rewrite Hnode; exact Hpn]).
      destruct (insert_rest_sound F p 0 q w1 w' I1 Hp1 Hf Hk1) as [R I']. split; [|exact I'].
      exists y, w0, w1, n. split; [exact Hoff|]. split; [|exact R].
      destruct M as (P & pl & La & Lb & H1 & H2 & (Iv & L1 & -> & HIv) & H4 & H5 & H6).
      destruct (node_of_kids w0 p) as (pl' & Hnp); [rewrite Hnode; exact Hpn|]. rewrite (kids_of_transfer _ _ _ Hnode), Ek in Hnp.
      pose proof I0 as [[N0 _] _].
      assert (Hy1 : In y (La ++ Iv ++ y :: L1)) by (apply in_or_app; right; apply in_or_app; right; left; reflexivity).
      assert (Hy2 : In y (K0 ++ y :: R0)) by (apply in_or_app; right; left; reflexivity).
      destruct (parent_unique w0 P pl _ p pl' _ y N0 H2 Hnp Hy1 Hy2) as [-> Eks].
      pose proof (kid_ids_nodup _ _ _ _ N0 Hnp) as Nk. rewrite app_assoc in Eks.
      destruct (split_unique (K0 ++ y :: R0) (La ++ Iv) K0 L1 R0 y Nk (eq_sym Eks) eq_refl) as [EK _].
      exists p, pl, La, (Iv ++ y :: L1). repeat split; auto. unfold visible_count.
      assert (E : filter (vis_id F w0) La = []); [|rewrite E; reflexivity].
      assert (HK : filter (vis_id F w) K0 = []) by (destruct (filter (vis_id F w) K0); [reflexivity|discriminate]).
      assert (HLa : forall z, In z La -> vis_id F w0 z = false).
      { intros z Hz. rewrite (vis_id_transfer F w w0 z); [|apply Hkv; rewrite Ek, <- EK; apply in_or_app; left; apply in_or_app; left; exact Hz].
        apply (filter_nil _ _ HK). rewrite <- EK. apply in_or_app. left. exact Hz. }
      clear -HLa. induction La as [|a r IH]; [reflexivity|]. cbn [filter]. rewrite (HLa a (or_introl eq_refl)). apply IH. intros z Hz. apply HLa. right. exact Hz.
  - (* after the child at visible index i - 1 *)
    destruct (nth_error (filter (vis_id F w) (kids_of w p)) n') as [y|] eqn:Ey; [|cbn in Hrun1; discriminate].
    destruct (nth_filter_split _ _ _ _ Ey) as (K0 & R0 & Ek & HK0 & Hvy).
    assert (Hyk : In y (kids_of w p)) by (rewrite Ek; apply in_or_app; right; left; reflexivity).
    assert (Hyex : w_find w y <> None) by (apply find_node; eapply in_kids_exists; eassumption).
    destruct (prepare_inv _ _ _ _ _ _ I Hyex Hfr Hrun1) as (w0 & n & Hoff & I0 & Hl & Ha & Hpar & Hk & Hf & Hfind & _).
    cbn [run_a run_fresh] in Hk, Hf. apply andb_true_iff in Hf as [_ Hf].
    destruct (step_follow w0 y n I0 Hl Ha (Hpar y eq_refl)) as [M I1].
    assert (Hpne : p <> n).
    { intros ->. destruct src as [m|f s|f name]; cbn [offered] in Hoff.
      - destruct Hoff as (_ & -> & _). rewrite (kid_inside w n y Hpn Hyk) in Ha. discriminate.
      - destruct Hoff as (-> & Hnone & _). contradiction.
      - destruct Hoff as (-> & ns & _ & Hnone & _). contradiction. }
    assert (Hnode : node_of w0 p = node_of w p) by (apply (offered_node_of _ _ _ _ _ _ Hoff Hpne)).
    pose proof (offered_vis _ _ _ _ _ p Hoff I Hpn) as Hkv.
    assert (Hp0 : node_of w0 p <> None) by (rewrite Hnode; exact Hpn).
    assert (Hp1 : node_of (apply_a (UAddFollowing y n) w0) p <> None) by (eapply moved_keeps_nodes; [exact M|exact Hp0]).
    destruct (insert_rest_sound F p (Datatypes.S n') q _ w' I1 Hp1 Hf Hk) as [R I']. split; [|exact I'].
    exists y, w0, (apply_a (UAddFollowing y n) w0), n. split; [exact Hoff|]. split; [|exact R].
    assert (Hk0 : kids_of w0 p = K0 ++ y :: R0) by (rewrite (kids_of_transfer _ _ _ Hnode); exact Ek).
    pose proof (follow_to_split w0 _ n y p K0 R0 I0 M Hp0 Hk0) as M2.
    eapply moved_weaken; [|exact M2]. intros P La Lb (-> & -> & _). split; [reflexivity|]. unfold visible_count.
    rewrite filter_app, app_length. cbn [filter].
    rewrite (vis_id_transfer F w w0 y (Hkv y Hyk)), Hvy. cbn [length].
    rewrite (filter_vis_transfer F w w0 K0); [rewrite HK0; lia|]. intros z Hz. apply Hkv. rewrite Ek. apply in_or_app. left. exact Hz.
Qed.

(* ------------------------------------------------------------------ detach, replace_with, item assignment and deletion *)
Lemma seal_ok p : forall w w', run_a (seal p) w = (w', ROk) -> run_a p w = (w', ROk).
Proof.
  induction p as [r|u k IH|k IH]; intros w w'; cbn [seal run_a].
  - destruct r; cbn [run_a]; intros H; try exact H; discriminate.
  - apply IH.
  - apply IH.
Qed.
Lemma seal_fresh p : forall w, run_fresh (seal p) w = run_fresh p w.
Proof. induction p as [r|u k IH|k IH]; intros w; cbn [seal run_fresh]; [destruct r; reflexivity|rewrite IH; reflexivity|apply IH]. Qed.

Definition no_parent (w : world) (x : nid) : Prop := forall P p ks, node_of w P = Some (p, ks) -> ~ In x ks.
Lemma no_parent_of w x : w_parent w x = None -> no_parent w x.
Proof. intros H P p ks Hn Hx. apply (node_of_parent w x P p ks Hn Hx H). Qed.
Lemma detach_noop w x : ainv w -> w_parent w x = None -> apply_a (UDetach x) w = w.
Proof.
  intros [[_ S] _] H. cbn [apply_a]. apply (w_rw_parent x (fun l => l) w S) in H.
  apply (w_rw_dom (g_extract x) (at_parent_of x (fun l => l)) (extract_dom x _) w) in H. rewrite H. reflexivity.
Qed.

Lemma detach_sound x w w' : ainv w -> run_a (detach x false) w = (w', ROk) ->
  (detached w w' x \/ (w' = w /\ no_parent w x)) /\ ainv w'.
Proof.
  intros I Hrun. unfold detach in Hrun. cbn [run_a] in Hrun.
  assert (Step : run_a (Upd (UDetach x) (Ret ROk)) w = (w', ROk) -> (detached w w' x \/ (w' = w /\ no_parent w x)) /\ ainv w').
  { intros H. change (run_a (Upd (UDetach x) (Ret ROk)) w) with (apply_a (UDetach x) w, ROk) in H. injection H as H.
    subst w'. destruct (w_parent w x) eqn:Ep.
    - destruct (step_detach w x I) as [D I']; [rewrite Ep; discriminate|]. split; [left; exact D|exact I'].
    - pose proof (detach_noop w x I Ep) as E. cbn [apply_a] in E. rewrite E.
      split; [right; split; [reflexivity|apply no_parent_of, Ep]|exact I]. }
  destruct (w_kind w x) as [[]|]; try (exact (Step Hrun)); [|cbn in Hrun; discriminate].
  destruct (is_doc_root w x); [cbn in Hrun; discriminate|]. destruct (w_parent w x) eqn:Ep; [exact (Step Hrun)|].
  cbn [run_a] in Hrun. injection Hrun as <-. split; [right; split; [reflexivity|apply no_parent_of, Ep]|exact I].
Qed.

Lemma moved_child_has_parent w w1 n x : moved (pos_follow x) w w1 n -> w_parent w1 x <> None.
Proof.
  intros (P & p & La & Lb & _ & _ & (L0 & ->) & Hq & _). apply (node_of_parent w1 x P p ((L0 ++ [x]) ++ n :: Lb)).
  - rewrite Hq, N.eqb_refl. reflexivity.
  - apply in_or_app. left. apply in_or_app. right. left. reflexivity.
Qed.

Lemma replace_sound x src w w' : ainv w -> run_fresh (replace_with x src) w = true -> run_a (replace_with x src) w = (w', ROk) ->
  edit_ok fall w (OReplace x src) w' /\ ainv w'.
Proof.
  intros I Hfr Hrun. unfold replace_with in *. cbn [run_a run_fresh] in Hrun, Hfr. destruct (w_parent w x) eqn:Ep; [|cbn in Hrun; discriminate].
  assert (Hx : w_find w x <> None).
  { pose proof I as [[N _] _]. destruct (w_parent_node_of _ _ _ N Ep) as [Hn Hin]. apply find_node.
    apply (in_kids_exists w (iid i) x I); [rewrite Hn; discriminate|unfold kids_of; rewrite Hn; exact Hin]. }
  destruct (prepare_inv _ _ _ _ _ _ I Hx Hfr Hrun) as (w0 & n & Hoff & I0 & Hl & Ha & Hp & Hk & Hf & _).
  cbn [run_a run_fresh] in Hk, Hf. apply andb_true_iff in Hf as [_ Hf].
  destruct (step_follow w0 x n I0 Hl Ha (Hp x eq_refl)) as [M I1]. apply seal_ok in Hk.
  destruct (detach_sound x _ w' I1 Hk) as [[D|[_ Hno]] I'].
  - split; [|exact I']. cbn [edit_ok]. exists w0, (apply_a (UAddFollowing x n) w0), n. auto.
  - exfalso.
    destruct M as (P & p & La & Lb & _ & _ & (L0 & ->) & Hq & _). apply (Hno P p ((L0 ++ [x]) ++ n :: Lb)).
    + rewrite Hq, N.eqb_refl. reflexivity.
    + apply in_or_app. left. apply in_or_app. right. left. reflexivity.
Qed.

Lemma resolve_index_spec F w p i y : NoDup (world_ids_a w) -> resolve_index F w p i = Some y ->
  nth_visible F w p (Z.to_nat (if (i <? 0)%Z then Z.of_nat (visible_count F w (kids_of w p)) + i else i)%Z) = Some y.
Proof.
  intros N. unfold resolve_index, nth_visible, visible_count. rewrite (vis_children_ids F w p N).
  destruct (_ <? 0)%Z; [discriminate|]. auto.
Qed.

Lemma delitem_sound F p i w w' : ainv w -> run_a (del_item F p i) w = (w', ROk) -> edit_ok F w (ODelItem p i) w' /\ ainv w'.
Proof.
  intros I Hrun. unfold del_item in Hrun. destruct (on_tag_inv _ _ _ _ Hrun) as (Hp & Hrun1 & _). cbn [run_a] in Hrun1.
  pose proof I as [[N _] _]. destruct (resolve_index F w p i) as [y|] eqn:Er; [|cbn in Hrun1; discriminate].
  pose proof (resolve_index_spec F w p i y N Er) as Hy. destruct (detach_sound y w w' I Hrun1) as [[D|[_ Hno]] I'].
  - split; [|exact I']. cbn [edit_ok]. exists y. auto.
  - exfalso. unfold nth_visible in Hy. destruct (nth_filter_split _ _ _ _ Hy) as (K0 & R & Ek & _).
    pose proof (kind_is_exists _ _ _ Hp) as Hpex. apply find_node in Hpex. destruct (node_of_kids _ _ Hpex) as (pl & Hn).
    apply (Hno p pl _ Hn). rewrite Ek. apply in_or_app. right. left. reflexivity.
Qed.

Lemma setitem_sound F p i src w w' : ainv w -> run_fresh (set_item F p i src) w = true ->
  run_a (set_item F p i src) w = (w', ROk) ->
  (filter (vis_id F w) (kids_of w p) = [] -> exists n, src = SNode n) ->
  edit_ok F w (OSetItem p i src) w' /\ ainv w'.
Proof.
  intros I Hfr Hrun Hguard. unfold set_item in *. destruct (on_tag_inv _ _ _ _ Hrun) as (Hp & Hrun1 & Hf1). rewrite Hf1 in Hfr.
  clear Hrun Hf1. cbn [run_a run_fresh] in Hrun1, Hfr. pose proof I as [[N S] T].
  pose proof (vis_children_ids F w p N) as Ev. unfold resolve_index in *. rewrite Ev in *. cbn [edit_ok].
  destruct (Nat.eqb (length (filter (vis_id F w) (kids_of w p))) 0 && (i =? 0)%Z)%bool eqn:E0.
  - apply andb_true_iff in E0 as [E0 Ei]. apply Nat.eqb_eq in E0. apply Z.eqb_eq in Ei. subst i.
    assert (Evis : filter (vis_id F w) (kids_of w p) = []) by (destruct (filter _ _); [reflexivity|discriminate]).
    rewrite Evis. destruct (Hguard Evis) as (n & ->). unfold lone in *. destruct (is_loose w n) eqn:El; [|cbn in Hrun1; discriminate].
    unfold no_cycle in *. cbn [run_a run_fresh] in Hrun1, Hfr. destruct (is_ancestor_or_self w n p) eqn:Ea; [cbn in Hrun1; discriminate|].
    destruct (add_first_child_sound F p n _ w w' I El Ea Hp Evis Hrun1) as (w1 & M & I1 & Hk1 & _). cbn [run_a] in Hk1. injection Hk1 as <-.
    split; [|exact I1]. exists w, n. split; [split; [reflexivity|split; [reflexivity|apply is_loose_in, El]]|].
    eapply moved_weaken; [|exact M]. intros P La Lb (-> & HLa & _). split; [reflexivity|]. unfold visible_count.
    assert (E : filter (vis_id F w) La = []); [|rewrite E; reflexivity].
    clear -HLa. induction La as [|a r IH]; [reflexivity|]. cbn [filter]. rewrite (HLa a (or_introl eq_refl)). apply IH. intros y Hy. apply HLa. right. exact Hy.
  - destruct ((i <? 0) || (Z.of_nat (length (filter (vis_id F w) (kids_of w p))) <=? i))%Z%bool eqn:Er; [cbn in Hrun1; discriminate|].
    apply orb_false_iff in Er as [Eneg Ele]. rewrite Eneg in *.
    destruct (nth_error (filter (vis_id F w) (kids_of w p)) (Z.to_nat i)) as [y|] eqn:Ey.
    2:{ destruct (i <? 0)%Z; cbn in Hrun1; discriminate. }
    assert (Hrun2 : run_a (replace_with y src) w = (w', ROk)) by (destruct (i <? 0)%Z; [discriminate|exact Hrun1]).
    assert (Hfr2 : run_fresh (replace_with y src) w = true) by (destruct (i <? 0)%Z; [discriminate|exact Hfr]).
    destruct (replace_sound y src w w' I Hfr2 Hrun2) as [(w0 & w1 & n & H1 & H2 & H3) I'].
    split; [|exact I']. destruct (filter (vis_id F w) (kids_of w p)) as [|v0 vs] eqn:Evis; [destruct (Z.to_nat i); discriminate|].
    exists y, w0, w1, n. unfold nth_visible. rewrite Evis. auto.
Qed.

(* ------------------------------------------------------------------ content assignment, merging *)
Lemma content_sound x s w w' : ainv w -> roots_tag w -> run_a (script fall (OSetContent x s)) w = (w', ROk) ->
  edit_ok fall w (OSetContent x s) w'.
Proof.
  intros [[N S] T] R Hrun. cbn [script run_a] in Hrun. destruct (kind_is w x is_textk) eqn:Ek; [|cbn in Hrun; discriminate].
  cbn [run_a] in Hrun. injection Hrun as <-. unfold kind_is, w_kind in Ek. destruct (w_find w x) as [t|] eqn:Ef; [|discriminate]. cbn in Ek.
  assert (Hkt : ikind t = NText) by (destruct (ikind t); try discriminate; reflexivity).
  pose proof (w_find_node_of w x) as Hn. rewrite Ef in Hn. cbn [option_map entry_of] in Hn.
  unfold ikind in Hkt. destruct (ipayload t) as [| old | |] eqn:Ep; try discriminate. unfold entry_of in Hn. rewrite Ep in Hn.
  destruct (set_content_effect x s w old (map iid (ikids t)) N S Hn) as (H1 & H2 & H3).
  { eapply text_place; try eassumption. unfold ikind. rewrite Ep. reflexivity. }
  cbn [edit_ok]. exists old, (map iid (ikids t)). auto.
Qed.
Lemma merge_sound p w w' : run_a (script fall (OMerge p)) w = (w', ROk) -> edit_ok fall w (OMerge p) w'.
Proof.
  cbn [script]. intros Hrun. destruct (on_tag_inv _ _ _ _ Hrun) as (_ & H & _). cbn [run_a apply_a] in H. injection H as <-. cbn [edit_ok].
  destruct (w_rw (at_tag p merge_tree) w) as [[w1 []]|] eqn:Er; [right|left; reflexivity].
  assert (Gid : forall s s' a, at_tag p merge_tree s = Some (s', a) -> iid s' = iid s).
  { intros s s' a. unfold at_tag. destruct (has_id p s && nkind_eqb (ikind s) NTag)%bool; [|discriminate]. intros H. injection H as <- _.
    destruct s. reflexivity. }
  destruct (w_rw_flat _ Gid _ _ _ Er) as (Hds & Hlo & pre & post & s & s' & Hgs & E1 & E2).
  unfold at_tag in Hgs. destruct (has_id p s && nkind_eqb (ikind s) NTag)%bool eqn:E; [|discriminate]. injection Hgs as <-.
  apply andb_true_iff in E as [E _]. unfold has_id in E. apply N.eqb_eq in E.
  exists pre, post, s, (merge_tree s). repeat split; auto.
  - apply merge_tree_norm.
  - apply merge_tree_merged.
  - destruct (merge_tree_sub s) as [out H]. exists out. rewrite <- !items_ids. exact H.
Qed.

(* ------------------------------------------------------------------ detach(retain_child_nodes=True) *)
Definition all_detached : list nid -> world -> world -> Prop :=
  fix all_detached (l : list nid) (a b : world) : Prop :=
    match l with [] => b = a | c :: r => exists m, detached a m c /\ all_detached r m b end.

Lemma detach_all_sound x px : forall l k w w', ainv w -> node_of w x = Some (px, l) ->
  run_a (detach_all l k) w = (w', ROk) ->
  exists w2, all_detached l w w2 /\ ainv w2 /\ run_a k w2 = (w', ROk) /\ run_fresh (detach_all l k) w = run_fresh k w2 /\
             (forall q, q <> x -> node_of w2 q = node_of w q) /\ node_of w2 x = Some (px, []) /\
             (forall c, In c l -> is_loose w2 c = true) /\ doc_shape w2 = doc_shape w.
Proof.
  induction l as [|c r IH]; intros k w w' I Hx Hrun; cbn [detach_all run_a run_fresh] in *.
  - exists w. split; [reflexivity|]. split; [exact I|]. split; [exact Hrun|]. split; [reflexivity|]. split; [reflexivity|].
    split; [exact Hx|]. split; [intros c []|reflexivity].
  - pose proof I as [[N S] T].
    assert (Hp : w_parent w c <> None) by (apply (node_of_parent w c x px (c :: r) Hx); left; reflexivity).
    destruct (step_detach w c I Hp) as [D I1]. pose proof D as (P & p & La & Lb & H1 & H2 & H3 & H4 & H5).
    assert (Hc1 : In c (La ++ c :: Lb)) by (apply in_or_app; right; left; reflexivity).
    destruct (parent_unique w P p _ x px _ c N H1 Hx Hc1 (or_introl eq_refl)) as [-> Eks].
    pose proof (kid_ids_nodup _ _ _ _ N Hx) as Nk.
    destruct (split_unique (c :: r) La [] Lb r c Nk (eq_sym Eks) eq_refl) as [-> ->]. cbn [app] in *.
    assert (Hx1 : node_of (apply_a (UDetach c) w) x = Some (px, r)).
    { rewrite H3, N.eqb_refl. rewrite Hx in H1. injection H1 as <-. reflexivity. }
    destruct (IH k _ w' I1 Hx1 Hrun) as (w2 & A & I2 & Hk & Hf & Hq & Hx2 & Hl & Hd). exists w2.
    split; [exists (apply_a (UDetach c) w); auto|]. split; [exact I2|]. split; [exact Hk|]. split; [exact Hf|].
    split; [|split; [exact Hx2|split]].
    + intros q Hne. rewrite (Hq q Hne), H3. destruct (N.eqb_spec x q); [congruence|reflexivity].
    + intros c' [<-|Hc']; [|apply Hl, Hc'].
      (* c stays parentless through the remaining detaches: loose_ids only grow *)
      clear -A H4. assert (G : forall l a b, all_detached l a b -> forall y, In y (loose_ids a) -> In y (loose_ids b)).
      { induction l as [|c0 l IHl]; intros a b Hab y Hy; cbn [all_detached] in Hab; [subst; exact Hy|].
        destruct Hab as (m & (P0 & p0 & La0 & Lb0 & _ & _ & _ & Hlo & _) & Hm). apply (IHl m b Hm). rewrite Hlo. apply in_or_app. left. exact Hy. }
      assert (Hin : In c (loose_ids w2)) by (apply (G r _ _ A); rewrite H4; apply in_or_app; right; left; reflexivity).
      unfold is_loose. unfold loose_ids in Hin. apply in_map_iff in Hin as (t & Ht & Hin). apply existsb_exists. exists t. split; [exact Hin|].
      unfold has_id. apply N.eqb_eq, Ht.
    + rewrite Hd. exact H5.
Qed.

Lemma kind_id_w_kind w x : kind_id w x = w_kind w x.
Proof. unfold kind_id, w_kind. rewrite w_find_node_of. destruct (w_find w x); reflexivity. Qed.
Lemma children_kids w x : map iid (children_ids w x) = kids_of w x.
Proof.
  unfold children_ids, kids_of. rewrite w_find_node_of. destruct (w_find w x); reflexivity.
Qed.

Lemma detach_retain_sound x w w' : ainv w -> run_fresh (detach x true) w = true -> run_a (detach x true) w = (w', ROk) ->
  edit_ok fall w (ODetach x true) w'.
Proof.
  intros I Hfr Hrun. pose proof I as [[N S] T]. unfold detach in *. cbn [run_a run_fresh] in Hrun, Hfr. cbn [edit_ok].
  assert (NonTag : w_kind w x <> Some NTag -> run_a (Upd (UDetach x) (Ret ROk)) w = (w', ROk) ->
    (w' = w /\ (forall P p ks, node_of w P = Some (p, ks) -> ~ In x ks)) \/
    (exists P p La Lb w1, node_of w P = Some (p, La ++ x :: Lb) /\ ~ In x La /\ detached w w1 x /\ (kind_id w x <> Some NTag -> w' = w1) /\
       (kind_id w x = Some NTag -> False))).
  { intros Hk H. change (run_a (Upd (UDetach x) (Ret ROk)) w) with (apply_a (UDetach x) w, ROk) in H. injection H as H. subst w'.
    destruct (w_parent w x) eqn:Ep.
    - right. destruct (step_detach w x I) as [D _]; [rewrite Ep; discriminate|]. pose proof D as (P & p & La & Lb & H1 & H2 & _).
      exists P, p, La, Lb, (apply_a (UDetach x) w). repeat split; auto. rewrite kind_id_w_kind. exact Hk.
    - left. pose proof (detach_noop w x I Ep) as E. cbn [apply_a] in E. rewrite E. split; [reflexivity|apply no_parent_of, Ep]. }
  destruct (w_kind w x) as [k|] eqn:Ek; [|cbn in Hrun; discriminate].
  destruct k.
  2-4: (destruct (NonTag ltac:(discriminate) Hrun) as [L|(P & p & La & Lb & w1 & H1 & H2 & H3 & H4 & H5)];
        [left; exact L|right; exists P, p, La, Lb, w1; repeat split; auto; intros Hc; destruct (H5 Hc)]).
  clear NonTag. destruct (is_doc_root w x); [cbn in Hrun; discriminate|].
  destruct (w_parent w x) as [t|] eqn:Ep; [|cbn in Hrun; discriminate]. cbn [run_a run_fresh] in Hrun, Hfr.
  right. destruct (step_detach w x I) as [D I1]; [rewrite Ep; discriminate|]. pose proof D as (P & p & La & Lb & H1 & H2 & H3 & H4 & H5).
  destruct (w_parent_node_of _ _ _ N Ep) as [Hnt Hxt]. unfold entry_of in Hnt.
  assert (Hx1 : In x (La ++ x :: Lb)) by (apply in_or_app; right; left; reflexivity).
  destruct (parent_unique w P p _ (iid t) _ _ x N H1 Hnt Hx1 Hxt) as [-> Eks].
  (* the index the code computes is the number of children in front of x *)
  assert (Hidx : index_of x (ikids t) = length La).
  { assert (Hex : existsb (has_id x) (ikids t) = true) by (rewrite existsb_ids; apply existsb_exists; exists x; split; [exact Hxt|apply N.eqb_refl]).
    destruct (in_split_first _ _ Hex) as (a & xk & b & Ekids & Hxk & Ha). rewrite Ekids, (index_of_split _ _ _ _ Hxk Ha).
    rewrite Ekids, map_app in Eks. cbn [map] in Eks. unfold has_id in Hxk. apply N.eqb_eq in Hxk. rewrite Hxk in Eks.
    pose proof (kid_ids_nodup _ _ _ _ N H1) as Nk.
    destruct (split_unique (La ++ x :: Lb) La (map iid a) Lb (map iid b) x Nk eq_refl Eks) as [-> _]. symmetry. apply map_length. }
  rewrite Hidx, children_kids in *.
  exists (iid t), p, La, Lb, (apply_a (UDetach x) w). split; [exact H1|]. split; [exact H2|]. split; [exact D|].
  split; [intros Hc; rewrite kind_id_w_kind, Ek in Hc; contradiction|]. intros _.
  (* x keeps its entry when it leaves its parent *)
  destruct (node_of_kids w x) as (px & Hnx); [rewrite w_find_node_of; unfold w_kind in Ek; destruct (w_find w x); [discriminate|discriminate]|].
  assert (Hne : iid t <> x) by (intros E; rewrite E in H1; apply (not_own_kid w x p _ N H1); apply in_or_app; right; left; reflexivity).
  assert (Hnx1 : node_of (apply_a (UDetach x) w) x = Some (px, kids_of w x)).
  { rewrite H3. destruct (N.eqb_spec (iid t) x); [contradiction|exact Hnx]. }
  destruct (detach_all_sound x px (kids_of w x) _ _ w' I1 Hnx1 Hrun) as (w2 & A & I2 & Hk & Hf & Hq & Hx2 & Hl & Hd).
  rewrite Hf in Hfr. exists w2. split; [exact A|].
  destruct (kids_of w x) as [|c r] eqn:Ekx.
  - cbn [run_a] in Hk. injection Hk as <-. reflexivity.
  - apply seal_ok in Hk. rewrite seal_fresh in Hfr. cbn [map] in Hk, Hfr.
    destruct (insert_sound fall (iid t) (Z.of_nat (length La)) (SNode c :: map SNode r) w2 w' I2 Hfr Hk) as [(ctx & w0 & w3 & n & Hoff & M & R) _].
    cbn [offered] in Hoff. destruct Hoff as (-> & -> & _). rewrite Nat2Z.id in M, R. exists w3. split; [exact M|].
    destruct r as [|c2 r2]; [exact R|]. cbn [map] in R. exact R.
Qed.

(* ------------------------------------------------------------------ astep_sound *)
Definition target_exists (w : world) (o : op) : Prop :=
  match o with OAddFollowing x (_ :: _) | OAddPreceding x (_ :: _) => w_find w x <> None | _ => True end.
(* finding 18: item assignment of a string / tag() to a node without visible children does nothing *)
Definition setitem_guard (F : filt) (w : world) (o : op) : Prop :=
  match o with
  | OSetItem p _ src => filter (vis_id F w) (kids_of w p) = [] -> exists n, src = SNode n
  | _ => True
  end.

Theorem astep_sound F w o w' : ainv w -> roots_tag w -> target_exists w o -> run_fresh (script F o) w = true ->
  setitem_guard F w o -> astep F w o = (w', ROk) -> edit_ok F w o w'.
Proof.
  intros I R Ht Hfr Hg Hrun. unfold astep in Hrun. destruct o as [x ns|x ns|p ns|p ns|p i ns|x r|x n|p i n|p i|x s|p]; cbn [script] in Hrun, Hfr.
  - destruct ns as [|s r]; [cbn in Hrun; injection Hrun as <-; reflexivity|]. apply (add_following_sound (s :: r) x w w' I Ht Hfr Hrun).
  - destruct ns as [|s r]; [cbn in Hrun; injection Hrun as <-; reflexivity|]. apply (add_preceding_sound F (s :: r) x w w' I Ht Hfr Hrun).
  - apply (append_sound F p ns w w' I Hfr Hrun).
  - destruct (insert_sound F p 0%Z ns w w' I Hfr Hrun) as [H _]. cbn [edit_ok]. destruct ns as [|s r]; [destruct H|exact H].
  - destruct (insert_sound F p i ns w w' I Hfr Hrun) as [H _]. cbn [edit_ok]. destruct ns as [|s r]; [destruct H|exact H].
  - destruct r.
    + apply (detach_retain_sound x w w' I Hfr Hrun).
    + destruct (detach_sound x w w' I Hrun) as [[D|[E Hn]] _]; cbn [edit_ok]; [left; exact D|right; split; [exact E|exact Hn]].
  - apply (replace_sound x n w w' I Hfr Hrun).
  - apply (setitem_sound F p i n w w' I Hfr Hrun Hg).
  - apply (delitem_sound F p i w w' I Hrun).
  - apply (content_sound x s w w' I R Hrun).
  - apply (merge_sound p w w' Hrun).
Qed.

(* finding 18, against the relational specification: a call that leaves the world as it was cannot have put a new node
   into it *)
Lemma created_moved_changes Pos w w0 f pl : created w w0 f pl -> moved Pos w0 w f -> False.
Proof.
  intros (Hnone & Hq0 & _) (P & p & La & Lb & _ & HP & _ & Hq & _).
  pose proof (Hq P) as H. rewrite N.eqb_refl in H. rewrite Hq0 in HP. destruct (N.eqb_spec f P) as [E|E].
  - subst P. rewrite Hnone in H. discriminate.
  - rewrite HP in H. injection H as H. apply (f_equal (@length nid)) in H. rewrite !app_length in H. cbn in H. lia.
Qed.
Theorem setitem_childless_violates F w p i f s : filter (vis_id F w) (kids_of w p) = [] ->
  ~ edit_ok F w (OSetItem p i (SStr f s)) w.
Proof.
  intros Hv H. cbn [edit_ok] in H. rewrite Hv in H. destruct H as (w0 & n & (-> & C) & M). eapply created_moved_changes; eassumption.
Qed.
