(* Navigation on the plain ordered tree with node identity: the specification side of C05.
   Every relation a node offers is a function of ONE tree `t : itree`; nodes are addressed by their identity
   (`nid`), results are identities / identity lists.  A *filter* is a predicate on identities (ids are unique,
   so every predicate on node objects is one).  Definitions only; facts are in ANavFacts.v. *)
From Coq Require Import List NArith Bool.
From Delb.Base Require Import PyStr.
From Delb.Tree Require Import ATree ITree.
Import ListNotations.

Definition nfilter := nid -> bool.
Definition ftrue : nfilter := fun _ => true.
Definition fand (f g : nfilter) : nfilter := fun n => f n && g n.

(* ---- list helpers (first occurrence) ---- *)
Definition memb (n : nid) (l : list nid) : bool := existsb (N.eqb n) l.
Fixpoint before (n : nid) (l : list nid) : list nid :=
  match l with [] => [] | x :: r => if N.eqb x n then [] else x :: before n r end.
Fixpoint after (n : nid) (l : list nid) : list nid :=
  match l with [] => [] | x :: r => if N.eqb x n then r else after n r end.
Fixpoint index_of (n : nid) (l : list nid) : option nat :=
  match l with
  | [] => None
  | x :: r => if N.eqb x n then Some 0%nat else option_map S (index_of n r)
  end.
Fixpoint last_error {A} (l : list A) : option A :=
  match l with [] => None | [x] => Some x | _ :: r => last_error r end.

(* ---- the tree as a children relation ---- *)
Fixpoint subtrees (t : itree) : list itree :=
  match t with INode _ _ kids => t :: flat_map subtrees kids end.
Definition kid_ids (t : itree) : list nid := map iid (ikids t).
(* one row per node, in document order: (node, its children in order) *)
Definition rows (t : itree) : list (nid * list nid) := map (fun s => (iid s, kid_ids s)) (subtrees t).

Definition a_sub (t : itree) (n : nid) : option itree := find (fun s => N.eqb (iid s) n) (subtrees t).
Definition a_children (t : itree) (n : nid) : list nid :=
  match a_sub t n with Some s => kid_ids s | None => [] end.
Definition a_parent (t : itree) (n : nid) : option nid :=
  option_map iid (find (fun s => memb n (kid_ids s)) (subtrees t)).
Definition a_siblings (t : itree) (n : nid) : list nid :=        (* the parent's children, the node included *)
  match a_parent t n with Some p => a_children t p | None => [] end.

Definition a_len (t : itree) (n : nid) : nat := length (a_children t n).
Definition a_first_child (t : itree) (n : nid) : option nid := hd_error (a_children t n).
Definition a_last_child (t : itree) (n : nid) : option nid := last_error (a_children t n).
Definition a_index (t : itree) (n : nid) : option nat :=
  match a_parent t n with Some _ => index_of n (a_siblings t n) | None => None end.

Definition a_fsibs (t : itree) (n : nid) : list nid := after n (a_siblings t n).          (* left to right *)
Definition a_psibs (t : itree) (n : nid) : list nid := rev (before n (a_siblings t n)).    (* right to left *)
Definition a_next_sibling (t : itree) (n : nid) : option nid := hd_error (a_fsibs t n).
Definition a_prev_sibling (t : itree) (n : nid) : option nid := hd_error (a_psibs t n).

(* ---- descendants: strict depth-first pre-order ---- *)
Definition a_descendants (t : itree) (n : nid) : list nid :=
  match a_sub t n with Some s => flat_map ids (ikids s) | None => [] end.
Definition a_last_descendant (t : itree) (n : nid) : option nid := last_error (a_descendants t n).

(* ---- ancestors: the path from the root, reversed (bottom to top) ---- *)
Definition first_some {A} (l : list (option A)) : option A :=
  fold_right (fun o acc => match o with Some _ => o | None => acc end) None l.
Fixpoint a_path (n : nid) (t : itree) : option (list nid) :=      (* root ... parent of n *)
  match t with
  | INode i _ kids =>
      if N.eqb i n then Some []
      else match first_some (map (a_path n) kids) with Some p => Some (i :: p) | None => None end
  end.
Definition a_ancestors (t : itree) (n : nid) : list nid :=
  match a_path n t with Some p => rev p | None => [] end.
Definition a_depth (t : itree) (n : nid) : nat := length (a_ancestors t n).

(* ---- document order; delb's following axis = every node after n (descendants included), delb's
        preceding axis = every node before n (ancestors included), nearest first ---- *)
Definition a_following (t : itree) (n : nid) : list nid := after n (ids t).
Definition a_preceding (t : itree) (n : nid) : list nid := rev (before n (ids t)).

(* ---- text ---- *)
Definition text_of_tree (s : itree) : str := match ipayload s with PText x => x | _ => [] end.
Definition is_text_tree (s : itree) : bool := match ipayload s with PText _ => true | _ => false end.
Definition is_tag_tree (s : itree) : bool := match ipayload s with PTag _ _ _ => true | _ => false end.
Definition a_text (t : itree) (n : nid) : str := match a_sub t n with Some s => text_of_tree s | None => [] end.
Definition a_is_text (t : itree) (n : nid) : bool := match a_sub t n with Some s => is_text_tree s | None => false end.
Definition a_is_tag (t : itree) (n : nid) : bool := match a_sub t n with Some s => is_tag_tree s | None => false end.
(* concatenated content of the text nodes among `l`, in the order of `l` *)
Definition a_text_concat (t : itree) (l : list nid) : str :=
  flat_map (fun i => if a_is_text t i then a_text t i else []) l.
Definition a_full_text (t : itree) (n : nid) : str :=
  if a_is_text t n then a_text t n else a_text_concat t (a_descendants t n).

(* ---- the three traversal orders of the subtree rooted in n ---- *)
Fixpoint post_ids (t : itree) : list nid :=
  match t with INode i _ kids => flat_map post_ids kids ++ [i] end.
Fixpoint height (t : itree) : nat :=
  match t with INode _ _ kids => S (fold_right (fun k m => Nat.max (height k) m) 0%nat kids) end.
Fixpoint at_depth (d : nat) (t : itree) : list nid :=
  match d with O => [iid t] | S d' => flat_map (at_depth d') (ikids t) end.
Definition bf_ids (t : itree) : list nid := flat_map (fun d => at_depth d t) (seq 0 (height t)).

Definition a_df_ttb (t : itree) (n : nid) : list nid := match a_sub t n with Some s => ids s | None => [] end.
Definition a_df_btt (t : itree) (n : nid) : list nid := match a_sub t n with Some s => post_ids s | None => [] end.
Definition a_bf_ttb (t : itree) (n : nid) : list nid := match a_sub t n with Some s => bf_ids s | None => [] end.

(* ---- a set of nodes in document order ---- *)
Definition a_doc_sort (t : itree) (l : list nid) : list nid := filter (fun i => memb i l) (ids t).

(* ---- python indexing on a list ---- *)
Definition py_index {A} (l : list A) (i : Z) : option A :=
  let j := if (i <? 0)%Z then (Z.of_nat (length l) + i)%Z else i in
  if (j <? 0)%Z then None else nth_error l (Z.to_nat j).
(* l[start:stop] with optional bounds (step 1): negative bounds count from the end, everything is clamped *)
Definition py_bound (len : nat) (b : option Z) (dflt : nat) : nat :=
  match b with
  | None => dflt
  | Some z => if (z <? 0)%Z then Z.to_nat (Z.max 0 (Z.of_nat len + z)) else Nat.min len (Z.to_nat z)
  end.
Definition py_slice {A} (l : list A) (start stop : option Z) : list A :=
  let n := length l in
  let a := py_bound n start 0%nat in
  let b := py_bound n stop n in
  firstn (b - a) (skipn a l).

(* ---- guard of the following-axis theorem: a hidden node has only hidden descendants (true for no filter, the
        library default "tag or text", "tags only"; false e.g. for "text only") ---- *)
Definition up_closed_b (D : nfilter) (t : itree) : bool :=
  forallb (fun s => D (iid s) || forallb (fun x => negb (D x)) (ids s)) (subtrees t).
(* what `_iterate_following` reaches below a node: it descends through `first_child`, which skips hidden children at
   the front, but then moves on with the unfiltered `_fetch_following_sibling` *)
Definition wgo (D : nfilter) (rec : itree -> list nid) :=
  fix go (l : list itree) (started : bool) : list nid :=
    match l with
    | [] => []
    | k :: r => if started || D (iid k) then iid k :: rec k ++ go r true else go r false
    end.
Fixpoint wdesc (D : nfilter) (s : itree) : list nid :=
  match s with INode _ _ kids => wgo D (wdesc D) kids false end.

(* ---- the index path of a node: the child indexes from the root down to it ---- *)
Definition rpath_kids (rec : itree -> option (list nat)) :=
  fix go (i : nat) (l : list itree) : option (list nat) :=
    match l with
    | [] => None
    | k :: r => match rec k with Some p => Some (i :: p) | None => go (S i) r end
    end.
Fixpoint rpath (n : nid) (t : itree) : option (list nat) :=
  match t with
  | INode i _ kids => if N.eqb i n then Some [] else rpath_kids (rpath n) 0 kids
  end.

(* ---- what traverse_df_ltr_btt visits under an ambient filter: the post-order through visible children only ---- *)
Fixpoint post_vis (D : nfilter) (s : itree) : list nid :=
  match s with INode i _ kids => flat_map (fun k => if D (iid k) then post_vis D k else []) kids ++ [i] end.
Definition a_post_vis (t : itree) (D : nfilter) (n : nid) : list nid :=
  match a_sub t n with Some s => post_vis D s | None => [] end.

(* ---- level order of the forest below a list of nodes, for an arbitrary children function `g`
        (g = children: the whole subtree; g = visible children: what traverse_bf_ltr_ttb walks under an ambient filter) ---- *)
Fixpoint lvg (g : nid -> list nid) (d : nat) (l : list nid) : list nid :=
  match d with O => [] | S d' => l ++ lvg g d' (flat_map g l) end.
Definition vis_children (t : itree) (D : nfilter) (x : nid) : list nid := filter D (a_children t x).

(* ---- index paths under an ambient filter: positions among the visible siblings ---- *)
Definition rpath_kidsD (D : nfilter) (rec : itree -> option (list nat)) :=
  fix go (i : nat) (l : list itree) : option (list nat) :=
    match l with
    | [] => None
    | k :: r => match rec k with Some p => Some (i :: p) | None => go (if D (iid k) then S i else i) r end
    end.
Fixpoint rpathD (D : nfilter) (n : nid) (t : itree) : option (list nat) :=
  match t with
  | INode i _ kids => if N.eqb i n then Some [] else rpath_kidsD D (rpathD D n) 0 kids
  end.
Definition vcount (D : nfilter) (l : list itree) : nat := length (filter (fun k => D (iid k)) l).
