From Coq Require Import List NArith Bool Lia.
From Delb.Base Require Import PyStr PyStrFacts.
From Delb.Tree Require Import ATree Merge.
Import ListNotations.

Notation M := (merge_items merge_tree).

Definition starts_nontext (l : list node) : Prop := match l with [] => True | x :: _ => is_text x = false end.

Lemma no_adj_starts r : no_adjacent_text true r = true -> starts_nontext r.
Proof. destruct r as [|x r]; [intros _; exact I|]. cbn. destruct (is_text x); [discriminate|reflexivity]. Qed.
Lemma no_adj_weaken pt r : no_adjacent_text pt r = true -> no_adjacent_text false r = true.
Proof. destruct r as [|x r]; [reflexivity|]. cbn. destruct pt; cbn; [destruct (is_text x); [discriminate|]|]; auto. Qed.
Lemma no_adj_strengthen r : starts_nontext r -> no_adjacent_text false r = true -> no_adjacent_text true r = true.
Proof. destruct r as [|x r]; [reflexivity|]. cbn. intros ->. cbn. auto. Qed.

Lemma filter_len_le {A} (p : A -> bool) l : length (filter p l) <= length l.
Proof. induction l as [|x r IH]; cbn; [lia|]. destruct (p x); cbn; lia. Qed.

Lemma drop_empty_idem l : drop_empty (drop_empty l) = drop_empty l.
Proof.
  unfold drop_empty. induction l as [|x r IH]; [reflexivity|]. cbn [filter].
  destruct (negb (is_empty_text x)) eqn:E; [cbn [filter]; rewrite E; f_equal; exact IH|exact IH].
Qed.
Lemma drop_empty_id l : forallb (fun k => negb (is_empty_text k)) l = true -> drop_empty l = l.
Proof.
  unfold drop_empty. induction l as [|x r IH]; [reflexivity|]. cbn [forallb filter]. intros H.
  apply andb_true_iff in H as [Hx Hr]. rewrite Hx. f_equal. apply IH. exact Hr.
Qed.
Lemma drop_empty_all l : forallb (fun k => negb (is_empty_text k)) (drop_empty l) = true.
Proof.
  unfold drop_empty. induction l as [|x r IH]; [reflexivity|]. cbn [filter].
  destruct (negb (is_empty_text x)) eqn:E; [cbn [forallb]; rewrite E; exact IH|exact IH].
Qed.

Lemma no_adj_drop_empty pt l : no_adjacent_text pt l = true -> no_adjacent_text pt (drop_empty l) = true.
Proof.
  revert pt. induction l as [|x r IH]; intros pt H; [reflexivity|].
  cbn [no_adjacent_text] in H. apply andb_true_iff in H as [Hx Hr].
  unfold drop_empty. cbn [filter]. destruct (negb (is_empty_text x)) eqn:Ex.
  - cbn [no_adjacent_text]. rewrite Hx. apply IH. exact Hr.
  - destruct x as [| [|] | |]; try discriminate. cbn in Hx, Hr. destruct pt; [discriminate|].
    apply IH. eapply no_adj_weaken. exact Hr.
Qed.

Lemma M_cons_text s r :
  M (Text s :: r) = match M r with Text s' :: r' => Text (s ++ s') :: r' | r' => Text s :: r' end.
Proof. reflexivity. Qed.
Lemma M_cons_nontext x r : is_text x = false -> M (x :: r) = merge_tree x :: M r.
Proof. destruct x; [reflexivity|discriminate|reflexivity|reflexivity]. Qed.

Lemma merge_is_text x : is_text (merge_tree x) = is_text x.
Proof. destruct x; reflexivity. Qed.

Lemma M_no_adj l : no_adjacent_text false (M l) = true.
Proof.
  induction l as [|x r IH]; [reflexivity|].
  destruct (is_text x) eqn:Ex.
  - destruct x as [|s| |]; try discriminate. rewrite M_cons_text.
    destruct (M r) as [|y r'] eqn:E; [reflexivity|].
    destruct y as [ns name attrs kids|s'|s'|t c]; cbn [no_adjacent_text is_text andb negb] in *; try exact IH.
  - rewrite M_cons_nontext by exact Ex. cbn [no_adjacent_text]. rewrite merge_is_text, Ex. cbn. 
    destruct (M r) as [|y r'] eqn:E; [reflexivity|]. cbn [no_adjacent_text] in *. exact IH.
Qed.

Lemma M_forall (P : node -> bool) l :
  (forall s, P (Text s) = true) -> Forall (fun x => P (merge_tree x) = true) l -> forallb P (M l) = true.
Proof.
  intros HT H. induction H as [|x r Hx Hr IH]; [reflexivity|].
  destruct x as [ns name attrs kids|s|s|t c].
  - rewrite M_cons_nontext by reflexivity. cbn [forallb]. rewrite Hx, IH. reflexivity.
  - rewrite M_cons_text. destruct (M r) as [|y r'] eqn:E; [cbn; rewrite HT; reflexivity|].
    destruct y; cbn [forallb] in *; rewrite ?HT; cbn; try exact IH.
    apply andb_true_iff in IH as [_ IH]. exact IH.
  - rewrite M_cons_nontext by reflexivity. cbn [forallb]. rewrite Hx, IH. reflexivity.
  - rewrite M_cons_nontext by reflexivity. cbn [forallb]. rewrite Hx, IH. reflexivity.
Qed.

Lemma forallb_filter {A} (P q : A -> bool) l : forallb P l = true -> forallb P (filter q l) = true.
Proof.
  induction l as [|x r IH]; [reflexivity|]. cbn. intros H. apply andb_true_iff in H as [Hx Hr].
  destruct (q x); cbn; rewrite ?Hx; auto.
Qed.

Theorem merge_clean n : clean (merge_tree n) = true.
Proof.
  unfold clean. induction n as [ns name attrs kids IH|s|s|t c] using node_ind'; try reflexivity.
  cbn [merge_tree merged no_empty].
  assert (Hm : Forall (fun x => merged (merge_tree x) = true) kids)
    by (eapply Forall_impl; [|exact IH]; cbn; intros a H; apply andb_true_iff in H as [H _]; exact H).
  assert (He : Forall (fun x => no_empty (merge_tree x) = true) kids)
    by (eapply Forall_impl; [|exact IH]; cbn; intros a H; apply andb_true_iff in H as [_ H]; exact H).
  rewrite no_adj_drop_empty by apply M_no_adj.
  unfold drop_empty at 1. rewrite forallb_filter by (apply M_forall; [reflexivity|exact Hm]).
  cbn [andb].
  assert (H1 : forallb no_empty (drop_empty (M kids)) = true)
    by (apply forallb_filter; apply M_forall; [reflexivity|exact He]).
  pose proof (drop_empty_all (M kids)) as H2.
  revert H1 H2. generalize (drop_empty (M kids)). intros l. induction l as [|x r IHl]; [reflexivity|].
  cbn [forallb]. intros H1 H2. apply andb_true_iff in H1 as [-> H1]. apply andb_true_iff in H2 as [-> H2].
  cbn. apply IHl; assumption.
Qed.

Lemma M_id pt l : no_adjacent_text pt l = true -> Forall (fun x => merge_tree x = x) l -> M l = l.
Proof.
  intros Hna H. revert pt Hna. induction H as [|x r Hx Hr IH]; intros pt Hna; [reflexivity|].
  cbn [no_adjacent_text] in Hna. apply andb_true_iff in Hna as [_ Hna].
  destruct (is_text x) eqn:Ex.
  - destruct x as [|s| |]; try discriminate. rewrite M_cons_text. rewrite (IH true Hna).
    pose proof (no_adj_starts r Hna) as Hs. destruct r as [|y r']; [reflexivity|].
    cbn in Hs. destruct y; try discriminate; reflexivity.
  - rewrite M_cons_nontext by exact Ex. rewrite Hx, (IH false Hna). reflexivity.
Qed.

Theorem merge_id n : clean n = true -> merge_tree n = n.
Proof.
  unfold clean. induction n as [ns name attrs kids IH|s|s|t c] using node_ind'; intros H; try reflexivity.
  apply andb_true_iff in H as [Hm He]. cbn [merged no_empty] in Hm, He.
  apply andb_true_iff in Hm as [Hna Hmk]. cbn [merge_tree]. f_equal.
  rewrite forallb_forall in Hmk, He.
  assert (Hid : Forall (fun x => merge_tree x = x) kids).
  { rewrite Forall_forall in IH. apply Forall_forall. intros x Hx. apply IH; [exact Hx|].
    rewrite (Hmk x Hx). specialize (He x Hx). apply andb_true_iff in He as [_ ->]. reflexivity. }
  rewrite (M_id false kids Hna Hid). apply drop_empty_id. apply forallb_forall. intros x Hx.
  specialize (He x Hx). apply andb_true_iff in He as [-> _]. reflexivity.
Qed.
