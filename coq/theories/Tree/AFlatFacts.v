(* Facts about the flat view: what a rewrite at one node does to it, and lookups under unique identities. *)
From Coq Require Import Permutation Lia.
From Delb.Base Require Import PyStr.
From Delb.Tree Require Import ATree ITree AOps AGuard AOpsFacts AFlat.

Lemma flat_eq i p kids : flat (INode i p kids) = (i, p, map iid kids) :: flat_map flat kids. Proof. reflexivity. Qed.
Lemma flat_keys t : map ekey (flat t) = ids t.
Proof.
  induction t as [i p kids IH] using itree_ind'. rewrite flat_eq, ids_eq. cbn [map ekey fst]. apply (f_equal (cons i)).
  induction kids as [|k r IHr]; [reflexivity|]. inversion IH as [|? ? Hk Hr]; subst. cbn [flat_map]. rewrite map_app, Hk, (IHr Hr).
  reflexivity.
Qed.
Lemma wflat_keys w : map ekey (wflat w) = world_ids_a w.
Proof.
  unfold wflat, world_ids_a. induction (forest w) as [|t r IH]; [reflexivity|]. cbn [flat_map]. rewrite map_app, flat_keys, IH.
  reflexivity.
Qed.

(* ------------------------------------------------------------------ lookups *)
Lemma lookup_app q l1 l2 : lookup q (l1 ++ l2) = match lookup q l1 with Some r => Some r | None => lookup q l2 end.
Proof. induction l1 as [|[[i p] ks] r IH]; [reflexivity|]. cbn [app lookup]. destruct (N.eqb i q); [reflexivity|exact IH]. Qed.
Lemma lookup_none q l : ~ In q (map ekey l) -> lookup q l = None.
Proof.
  induction l as [|[[i p] ks] r IH]; [reflexivity|]. cbn [map ekey fst lookup]. intros H.
  destruct (N.eqb_spec i q) as [E|E]; [exfalso; apply H; left; exact E|]. apply IH. intros Hin. apply H. right. exact Hin.
Qed.
Lemma lookup_in q l p ks : NoDup (map ekey l) -> In (q, p, ks) l -> lookup q l = Some (p, ks).
Proof.
  induction l as [|[[i p'] ks'] r IH]; intros N Hin; [destruct Hin|]. cbn [map ekey fst] in N. inversion N as [|? ? Hn Hr]; subst.
  cbn [lookup]. destruct Hin as [E|Hin].
  - injection E as -> -> ->. rewrite N.eqb_refl. reflexivity.
  - destruct (N.eqb_spec i q) as [E|E]; [|apply IH; assumption]. subst. exfalso. apply Hn.
    apply (in_map ekey) in Hin. exact Hin.
Qed.
Lemma lookup_some_in q l p ks : lookup q l = Some (p, ks) -> In (q, p, ks) l.
Proof.
  induction l as [|[[i p'] ks'] r IH]; [discriminate|]. cbn [lookup]. destruct (N.eqb_spec i q) as [E|E].
  - intros H. injection H as -> ->. subst. left. reflexivity.
  - intros H. right. apply IH, H.
Qed.
Lemma lookup_perm q l l' : NoDup (map ekey l) -> Permutation l l' -> lookup q l = lookup q l'.
Proof.
  intros N P. assert (N' : NoDup (map ekey l')) by (eapply Permutation_NoDup; [apply Permutation_map, P|exact N]).
  destruct (lookup q l) as [[p ks]|] eqn:E.
  - symmetry. apply lookup_in; [exact N'|]. eapply Permutation_in; [exact P|]. apply lookup_some_in, E.
  - destruct (lookup q l') as [[p ks]|] eqn:E'; [|reflexivity]. apply lookup_some_in in E'.
    apply (Permutation_in _ (Permutation_sym P)) in E'. rewrite (lookup_in _ _ _ _ N E') in E. discriminate.
Qed.
(* two lists that agree except for the entry of P *)
Lemma lookup_swap q P p ks ks' X l l' :
  NoDup (map ekey l) -> Permutation l ((P, p, ks) :: X) -> Permutation l' ((P, p, ks') :: X) ->
  lookup q l' = if N.eqb P q then Some (p, ks') else lookup q l.
Proof.
  intros N H H'.
  assert (N1 : NoDup (map ekey ((P, p, ks) :: X))) by (eapply Permutation_NoDup; [apply Permutation_map, H|exact N]).
  assert (N' : NoDup (map ekey l')).
  { eapply Permutation_NoDup; [apply Permutation_map, Permutation_sym, H'|]. exact N1. }
  rewrite (lookup_perm q l' _ N' H'), (lookup_perm q l _ N H). cbn [lookup]. destruct (N.eqb P q); reflexivity.
Qed.

Lemma lookup_swap2 q P p p' ks ks' X l l' :
  NoDup (map ekey l) -> Permutation l ((P, p, ks) :: X) -> Permutation l' ((P, p', ks') :: X) ->
  lookup q l' = if N.eqb P q then Some (p', ks') else lookup q l.
Proof.
  intros N H H'.
  assert (N1 : NoDup (map ekey ((P, p, ks) :: X))) by (eapply Permutation_NoDup; [apply Permutation_map, H|exact N]).
  assert (N' : NoDup (map ekey l')).
  { eapply Permutation_NoDup; [apply Permutation_map, Permutation_sym, H'|]. exact N1. }
  rewrite (lookup_perm q l' _ N' H'), (lookup_perm q l _ N H). cbn [lookup]. destruct (N.eqb P q); reflexivity.
Qed.

(* ------------------------------------------------------------------ a rewrite changes the flat view at one node *)
Section RwFlat.
  Context {A : Type}.
  Variable g : itree -> option (itree * A).
  Hypothesis g_id : forall s s' a, g s = Some (s', a) -> iid s' = iid s.

  Definition at_one (l l' : list entry) (a : A) : Prop :=
    exists pre post s s', g s = Some (s', a) /\ l = pre ++ flat s ++ post /\ l' = pre ++ flat s' ++ post.

  Lemma t_rw_flat t : forall t' a, t_rw g t = Some (t', a) -> iid t' = iid t /\ at_one (flat t) (flat t') a.
  Proof.
    induction t as [i p kids IH] using itree_ind'. intros t' a E. cbn [t_rw] in E.
    destruct (g (INode i p kids)) as [[t1 a1]|] eqn:Eg.
    - injection E as <- <-. split; [apply (g_id _ _ _ Eg)|]. exists [], [], (INode i p kids), t1.
      rewrite !app_nil_r. auto.
    - fold (rw_list (t_rw g)) in E. destruct (rw_list (t_rw g) kids) as [[kids' a']|] eqn:Ek; [|discriminate].
      injection E as <- <-. split; [reflexivity|].
      assert (K : map iid kids' = map iid kids /\ at_one (flat_map flat kids) (flat_map flat kids') a').
      { clear Eg. revert kids' a' Ek. induction kids as [|k r IHr]; intros kids' a' Ek; [discriminate|].
        inversion IH as [|? ? Hk Hr]; subst. cbn [rw_list] in Ek. destruct (t_rw g k) as [[k' ak]|] eqn:Etk.
        - injection Ek as <- <-. destruct (Hk _ _ eq_refl) as [Hid (pre & post & s & s' & Hg & E1 & E2)]. split.
          + cbn [map]. rewrite Hid. reflexivity.
          + exists pre, (post ++ flat_map flat r), s, s'. cbn [flat_map]. rewrite E1, E2, <- !app_assoc. auto.
        - fold (rw_list (t_rw g)) in Ek. destruct (rw_list (t_rw g) r) as [[r' ar]|] eqn:Er; [|discriminate].
          injection Ek as <- <-. destruct (IHr Hr _ _ eq_refl) as [Hid (pre & post & s & s' & Hg & E1 & E2)]. split.
          + cbn [map]. rewrite Hid. reflexivity.
          + exists (flat k ++ pre), post, s, s'. cbn [flat_map]. rewrite E1, E2, <- !app_assoc. auto. }
      destruct K as [Hid (pre & post & s & s' & Hg & E1 & E2)]. rewrite !flat_eq, Hid.
      exists ((i, p, map iid kids) :: pre), post, s, s'. rewrite E1, E2. auto.
  Qed.

  Lemma rw_list_flat l : forall l' a, rw_list (t_rw g) l = Some (l', a) ->
    map iid l' = map iid l /\ at_one (flat_map flat l) (flat_map flat l') a.
  Proof.
    induction l as [|k r IHr]; intros l' a Ek; [discriminate|]. cbn [rw_list] in Ek.
    destruct (t_rw g k) as [[k' ak]|] eqn:Etk.
    - injection Ek as <- <-. destruct (t_rw_flat _ _ _ Etk) as [Hid (pre & post & s & s' & Hg & E1 & E2)]. split.
      + cbn [map]. rewrite Hid. reflexivity.
      + exists pre, (post ++ flat_map flat r), s, s'. cbn [flat_map]. rewrite E1, E2, <- !app_assoc. auto.
    - fold (rw_list (t_rw g)) in Ek. destruct (rw_list (t_rw g) r) as [[r' ar]|] eqn:Er; [|discriminate].
      injection Ek as <- <-. destruct (IHr _ _ eq_refl) as [Hid (pre & post & s & s' & Hg & E1 & E2)]. split.
      + cbn [map]. rewrite Hid. reflexivity.
      + exists (flat k ++ pre), post, s, s'. cbn [flat_map]. rewrite E1, E2, <- !app_assoc. auto.
  Qed.

  Lemma forest_flat_docs ds : flat_map flat (flat_map doc_nodes ds)
    = flat_map (fun d => match d with (pro, r, epi) => flat_map flat pro ++ flat r ++ flat_map flat epi end) ds.
  Proof.
    induction ds as [|[[pro r] epi] rest IH]; [reflexivity|]. cbn [flat_map doc_nodes]. rewrite !flat_map_app, IH.
    cbn [flat_map]. rewrite <- !app_assoc. reflexivity.
  Qed.

  Lemma rw_docs_flat ds : forall ds' a, rw_docs g ds = Some (ds', a) ->
    map (fun d => match d with (pro, r, epi) => (map iid pro, iid r, map iid epi) end) ds'
    = map (fun d => match d with (pro, r, epi) => (map iid pro, iid r, map iid epi) end) ds /\
    at_one (flat_map flat (flat_map doc_nodes ds)) (flat_map flat (flat_map doc_nodes ds')) a.
  Proof.
    induction ds as [|[[pro r] epi] rest IH]; intros ds' a E; [discriminate|]. cbn [rw_docs] in E.
    destruct (t_rw g r) as [[r' ar]|] eqn:Er.
    - injection E as <- <-. destruct (t_rw_flat _ _ _ Er) as [Hid (pre & post & s & s' & Hg & E1 & E2)]. split.
      + cbn [map]. rewrite Hid. reflexivity.
      + rewrite !forest_flat_docs. cbn [flat_map]. rewrite E1, E2.
        exists (flat_map flat pro ++ pre),
               (post ++ flat_map flat epi ++ flat_map (fun d => match d with (pro, r, epi) => flat_map flat pro ++ flat r ++ flat_map flat epi end) rest),
               s, s'.
        rewrite <- !app_assoc. auto.
    - fold (rw_docs g) in E. destruct (rw_docs g rest) as [[rest' a']|] eqn:Es; [|discriminate].
      injection E as <- <-. destruct (IH _ _ eq_refl) as [Hid (pre & post & s & s' & Hg & E1 & E2)]. split.
      + cbn [map]. rewrite Hid. reflexivity.
      + cbn [flat_map]. rewrite !flat_map_app, E1, E2.
        exists (flat_map flat (doc_nodes (pro, r, epi)) ++ pre), post, s, s'. rewrite <- !app_assoc. auto.
  Qed.

  Lemma w_rw_flat w w' a : w_rw g w = Some (w', a) ->
    doc_shape w' = doc_shape w /\ loose_ids w' = loose_ids w /\ at_one (wflat w) (wflat w') a.
  Proof.
    unfold w_rw, wflat, forest, doc_shape, loose_ids. intros E. destruct (rw_docs g (docs w)) as [[d' a']|] eqn:Ed.
    - injection E as <- <-. cbn [docs loose]. destruct (rw_docs_flat _ _ _ Ed) as [Hs (pre & post & s & s' & Hg & E1 & E2)].
      split; [exact Hs|]. split; [reflexivity|]. rewrite !flat_map_app, E1, E2.
      exists pre, (post ++ flat_map flat (loose w)), s, s'. rewrite <- !app_assoc. auto.
    - destruct (rw_list (t_rw g) (loose w)) as [[l' a']|] eqn:El; [|discriminate]. injection E as <- <-. cbn [docs loose].
      destruct (rw_list_flat _ _ _ El) as [Hid (pre & post & s & s' & Hg & E1 & E2)].
      split; [reflexivity|]. split; [exact Hid|]. rewrite !flat_map_app, E1, E2.
      exists (flat_map flat (flat_map doc_nodes (docs w)) ++ pre), post, s, s'. rewrite <- !app_assoc. auto.
  Qed.
End RwFlat.

(* ------------------------------------------------------------------ what each primitive update does to the flat view *)
Lemma take_id_split x l : forall u r, take_id x l = Some (u, r) ->
  exists l1 l2, l = l1 ++ u :: l2 /\ r = l1 ++ l2 /\ has_id x u = true /\ existsb (has_id x) l1 = false.
Proof.
  induction l as [|t l IH]; intros u r E; [discriminate|]. cbn [take_id] in E. destruct (has_id x t) eqn:Et.
  - injection E as <- <-. exists [], l. auto.
  - destruct (take_id x l) as [[u' r']|] eqn:El; [|discriminate]. injection E as <- <-.
    destruct (IH _ _ eq_refl) as (l1 & l2 & -> & -> & H1 & H2). exists (t :: l1), l2. cbn [app existsb]. rewrite Et, H2. auto.
Qed.
Lemma remove_first_split x (l1 : list itree) u l2 : has_id x u = true -> existsb (has_id x) l1 = false ->
  remove_first x (map iid (l1 ++ u :: l2)) = map iid (l1 ++ l2).
Proof.
  intros Hu. induction l1 as [|t r IH]; cbn [app map remove_first existsb]; intros H.
  - unfold has_id in Hu. rewrite Hu. reflexivity.
  - apply orb_false_iff in H as [H1 H2]. unfold has_id in H1. rewrite H1, (IH H2). reflexivity.
Qed.
Lemma in_split_first x (l : list itree) : existsb (has_id x) l = true ->
  exists a xk b, l = a ++ xk :: b /\ has_id x xk = true /\ existsb (has_id x) a = false.
Proof.
  induction l as [|t r IH]; [discriminate|]. cbn [existsb]. destruct (has_id x t) eqn:Et.
  - intros _. exists [], t, r. auto.
  - cbn [orb]. intros H. destruct (IH H) as (a & xk & b & -> & H1 & H2). exists (t :: a), xk, b. cbn [app existsb].
    rewrite Et, H2. auto.
Qed.
Lemma ins_after_split x n a xk b : has_id x xk = true -> existsb (has_id x) a = false ->
  ins_after x n (a ++ xk :: b) = a ++ xk :: n :: b.
Proof.
  intros H1. induction a as [|t r IH]; cbn [app ins_after existsb]; intros H2; [rewrite H1; reflexivity|].
  apply orb_false_iff in H2 as [H2 H3]. rewrite H2, (IH H3). reflexivity.
Qed.
Lemma ins_before_split x n a xk b : has_id x xk = true -> existsb (has_id x) a = false ->
  ins_before x n (a ++ xk :: b) = a ++ n :: xk :: b.
Proof.
  intros H1. induction a as [|t r IH]; cbn [app ins_before existsb]; intros H2; [rewrite H1; reflexivity|].
  apply orb_false_iff in H2 as [H2 H3]. rewrite H2, (IH H3). reflexivity.
Qed.
Lemma find_split x a xk (b : list itree) : has_id x xk = true -> existsb (has_id x) a = false ->
  find (has_id x) (a ++ xk :: b) = Some xk.
Proof.
  intros H1. induction a as [|t r IH]; cbn [app find existsb]; intros H2; [rewrite H1; reflexivity|].
  apply orb_false_iff in H2 as [H2 H3]. rewrite H2. apply IH, H3.
Qed.
Lemma existsb_ids x (l : list itree) : existsb (has_id x) l = existsb (N.eqb x) (map iid l).
Proof.
  induction l as [|t r IH]; [reflexivity|]. cbn [existsb map]. rewrite IH. unfold has_id. rewrite N.eqb_sym. reflexivity.
Qed.

(* where a node lands: its new parent's children split into those before and those after it *)
Definition lands (Pos : nid -> list nid -> list nid -> Prop) (t s s' : itree) : Prop :=
  exists a b, ikids s = a ++ b /\ s' = INode (iid s) (ipayload s) (a ++ t :: b) /\ Pos (iid s) (map iid a) (map iid b).
(* directly after the first x / directly before the first x / first / last *)
Definition pos_after (x : nid) (P : nid) (La Lb : list nid) : Prop := exists L0, La = L0 ++ [x] /\ ~ In x L0.
Definition pos_before (x : nid) (P : nid) (La Lb : list nid) : Prop := exists L1, Lb = x :: L1 /\ ~ In x La.
Definition pos_first (p : nid) (P : nid) (La Lb : list nid) : Prop := P = p /\ La = [].
Definition pos_last (p : nid) (P : nid) (La Lb : list nid) : Prop := P = p /\ Lb = [].

Lemma not_in_existsb x (l : list itree) : existsb (has_id x) l = false -> ~ In x (map iid l).
Proof. rewrite existsb_ids. intros H. apply memb_false. exact H. Qed.

Lemma lands_after x t s s' u : at_parent_of x (ins_after x t) s = Some (s', u) -> lands (pos_after x) t s s'.
Proof.
  destruct s as [i p kids]. cbn [at_parent_of]. destruct (existsb (has_id x) kids) eqn:E; [|discriminate].
  intros H. injection H as <- _. destruct (in_split_first _ _ E) as (a & xk & b & -> & H1 & H2).
  exists (a ++ [xk]), b. cbn [ikids iid ipayload]. rewrite <- !app_assoc. cbn [app]. split; [reflexivity|].
  split; [rewrite (ins_after_split _ _ _ _ _ H1 H2); reflexivity|]. exists (map iid a). rewrite map_app. cbn [map].
  unfold has_id in H1. apply N.eqb_eq in H1. rewrite H1. split; [reflexivity|apply not_in_existsb, H2].
Qed.
Lemma lands_before x t s s' u : g_before x t s = Some (s', u) -> lands (pos_before x) t s s'.
Proof.
  destruct s as [i p kids]. cbn [g_before]. destruct (find (has_id x) kids) as [xk0|] eqn:E; [|discriminate].
  destruct (is_itext t && negb (is_itext xk0))%bool; [discriminate|]. intros H. injection H as <- _.
  destruct (in_split_first _ _ (find_existsb _ _ _ E)) as (a & xk & b & -> & H1 & H2).
  exists a, (xk :: b). cbn [ikids iid ipayload]. split; [reflexivity|].
  split; [rewrite (ins_before_split _ _ _ _ _ H1 H2); reflexivity|]. exists (map iid b). cbn [map].
  unfold has_id in H1. apply N.eqb_eq in H1. rewrite H1. split; [reflexivity|apply not_in_existsb, H2].
Qed.
Lemma lands_first p t s s' u : at_tag p (fun q => INode (iid q) (ipayload q) (t :: ikids q)) s = Some (s', u) ->
  lands (pos_first p) t s s'.
Proof.
  unfold at_tag. destruct (has_id p s && nkind_eqb (ikind s) NTag)%bool eqn:E; [|discriminate]. intros H. injection H as <- _.
  apply andb_true_iff in E as [E _]. unfold has_id in E. apply N.eqb_eq in E.
  exists [], (ikids s). cbn [app map]. repeat split; auto.
Qed.
Lemma lands_last p t s s' u : at_tag p (fun q => INode (iid q) (ipayload q) (ikids q ++ [t])) s = Some (s', u) ->
  lands (pos_last p) t s s'.
Proof.
  unfold at_tag. destruct (has_id p s && nkind_eqb (ikind s) NTag)%bool eqn:E; [|discriminate]. intros H. injection H as <- _.
  apply andb_true_iff in E as [E _]. unfold has_id in E. apply N.eqb_eq in E.
  exists (ikids s), []. rewrite app_nil_r. repeat split; auto.
Qed.

Lemma lands_id Pos t s s' : lands Pos t s s' -> iid s' = iid s.
Proof. intros (a & b & _ & -> & _). reflexivity. Qed.

Lemma flat_map_flat_app l1 l2 : flat_map flat (l1 ++ l2) = flat_map flat l1 ++ flat_map flat l2.
Proof. apply flat_map_app. Qed.

Lemma perm_swap3 {X} (a b c : list X) : Permutation (a ++ b ++ c) (b ++ a ++ c).
Proof. rewrite !app_assoc. apply Permutation_app_tail. apply Permutation_app_comm. Qed.

Lemma perm_swap3' {X} (a b c : list X) : Permutation (a ++ b ++ c) (a ++ c ++ b).
Proof. apply Permutation_app_head. apply Permutation_app_comm. Qed.
Ltac fail_show := match goal with |- ?g => fail 0 g end.
(* the effect of moving the parentless node n to the place a local function g determines *)
Theorem move_effect n ok (g : itree -> itree -> option (itree * unit)) Pos w tn l' w2 :
  (forall t s s' u, g t s = Some (s', u) -> lands Pos t s s') ->
  NoDup (world_ids_a w) ->
  take_id n (loose w) = Some (tn, l') -> ok tn = true -> w_rw (g tn) {| docs := docs w; loose := l' |} = Some (w2, tt) ->
  a_move n ok g w = w2 /\
  exists P p La Lb,
    In tn (loose w) /\ iid tn = n /\ node_of w P = Some (p, La ++ Lb) /\ Pos P La Lb /\
    (forall q, node_of w2 q = if N.eqb P q then Some (p, La ++ n :: Lb) else node_of w q) /\
    loose_ids w2 = remove_first n (loose_ids w) /\ doc_shape w2 = doc_shape w.
Proof.
  intros Hg N Et Eok Er. split; [unfold a_move, take_loose; rewrite Et, Eok, Er; reflexivity|].
  destruct (take_id_split _ _ _ _ Et) as (l1 & l2 & El & -> & Hn & Hl1).
  assert (Gid : forall s s' a, g tn s = Some (s', a) -> iid s' = iid s) by (intros s s' a H; eapply lands_id, Hg, H).
  destruct (w_rw_flat (g tn) Gid _ _ _ Er) as (Hds & Hlo & pre & post & s & s' & Hgs & E1 & E2).
  destruct (Hg _ _ _ _ Hgs) as (a & b & Hk & -> & HPos). destruct s as [P p kids]. cbn [ikids iid ipayload] in *. subst kids.
  exists P, p, (map iid a), (map iid b).
  assert (Hin : In tn (loose w)) by (rewrite El; apply in_or_app; right; left; reflexivity).
  assert (Hid : iid tn = n) by (unfold has_id in Hn; apply N.eqb_eq, Hn).
  (* the entries of w and of the result, up to order *)
  set (X := flat tn ++ pre ++ flat_map flat a ++ flat_map flat b ++ post).
  assert (PW : Permutation (wflat w) ((P, p, map iid a ++ map iid b) :: X)).
  { assert (P1 : Permutation (wflat w) (flat tn ++ wflat {| docs := docs w; loose := l1 ++ l2 |})).
    { unfold wflat, forest. cbn [docs loose]. rewrite El, !flat_map_app. cbn [flat_map].
      set (D := flat_map flat (flat_map doc_nodes (docs w))). rewrite (app_assoc D). rewrite (app_assoc D _ (flat_map flat l2)).
      apply perm_swap3. }
    rewrite P1, E1. rewrite flat_eq, flat_map_flat_app, map_app. rewrite <- app_comm_cons, <- app_assoc.
    rewrite (app_assoc (flat tn) pre). apply Permutation_sym. unfold X. rewrite (app_assoc (flat tn) pre).
    apply Permutation_middle. }
  assert (PW' : Permutation (wflat w2) ((P, p, map iid a ++ n :: map iid b) :: X)).
  { rewrite E2, flat_eq. rewrite flat_map_flat_app. rewrite (List.map_app iid a (tn :: b)). cbn [map flat_map]. rewrite Hid.
    rewrite <- app_comm_cons, <- !app_assoc. apply Permutation_sym. etransitivity; [|apply Permutation_middle].
    apply perm_skip. unfold X. rewrite (app_assoc pre (flat_map flat a)). rewrite (app_assoc pre (flat_map flat a)).
    apply perm_swap3. }
  repeat split; try assumption.
  - unfold node_of. rewrite (lookup_perm P _ _ (eq_ind_r (fun l => NoDup l) N (wflat_keys w)) PW). cbn [lookup].
    rewrite N.eqb_refl. reflexivity.
  - intros q. unfold node_of.
    apply (lookup_swap q P p (map iid a ++ map iid b) (map iid a ++ n :: map iid b) X); [rewrite wflat_keys; exact N|exact PW|exact PW'].
  - rewrite Hlo. unfold loose_ids. cbn [loose]. rewrite El. symmetry. apply remove_first_split; assumption.
Qed.

Lemma wflat_add_loose t w : wflat (add_loose t w) = wflat w ++ flat t.
Proof. unfold wflat, forest, add_loose. cbn [docs loose]. rewrite !flat_map_app. cbn [flat_map]. rewrite app_nil_r, app_assoc. reflexivity. Qed.

Theorem detach_effect x w : NoDup (world_ids_a w) ->
  apply_a (UDetach x) w = w \/
  exists P p La Lb,
    node_of w P = Some (p, La ++ x :: Lb) /\ ~ In x La /\
    (forall q, node_of (apply_a (UDetach x) w) q = if N.eqb P q then Some (p, La ++ Lb) else node_of w q) /\
    loose_ids (apply_a (UDetach x) w) = loose_ids w ++ [x] /\ doc_shape (apply_a (UDetach x) w) = doc_shape w.
Proof.
  intros N. cbn [apply_a]. destruct (w_rw (g_extract x) w) as [[w1 u]|] eqn:Er; [|left; reflexivity]. right.
  assert (Gid : forall s s' a, g_extract x s = Some (s', a) -> iid s' = iid s).
  { intros [i p kids] s' a. cbn [g_extract]. destruct (take_id x kids) as [[u' r]|]; [|discriminate]. intros H. injection H as <- _. reflexivity. }
  destruct (w_rw_flat (g_extract x) Gid _ _ _ Er) as (Hds & Hlo & pre & post & s & s' & Hgs & E1 & E2).
  destruct s as [P p kids]. cbn [g_extract] in Hgs. destruct (take_id x kids) as [[u' r]|] eqn:Et; [|discriminate].
  injection Hgs as <- <-. destruct (take_id_split _ _ _ _ Et) as (a & b & -> & -> & Hx & Ha).
  assert (Hid : iid u' = x) by (unfold has_id in Hx; apply N.eqb_eq, Hx).
  exists P, p, (map iid a), (map iid b).
  set (X := pre ++ flat_map flat a ++ flat_map flat b ++ post ++ flat u').
  assert (PW : Permutation (wflat w) ((P, p, map iid a ++ x :: map iid b) :: X)).
  { rewrite E1, flat_eq, flat_map_flat_app, (List.map_app iid a (u' :: b)). cbn [map flat_map]. rewrite Hid.
    rewrite <- app_comm_cons, <- !app_assoc. apply Permutation_sym. etransitivity; [|apply Permutation_middle].
    apply perm_skip. unfold X. apply Permutation_app_head. apply Permutation_app_head.
    rewrite (app_assoc (flat_map flat b) post). apply Permutation_app_comm. }
  assert (PW' : Permutation (wflat (add_loose u' w1)) ((P, p, map iid a ++ map iid b) :: X)).
  { rewrite wflat_add_loose, E2, flat_eq, flat_map_flat_app, (List.map_app iid a b).
    rewrite <- app_comm_cons, <- !app_assoc. apply Permutation_sym. unfold X.
    rewrite <- app_comm_cons, <- !app_assoc. apply Permutation_middle. }
  repeat split.
  - unfold node_of. rewrite (lookup_perm P _ _ (eq_ind_r (fun l => NoDup l) N (wflat_keys w)) PW). cbn [lookup].
    rewrite N.eqb_refl. reflexivity.
  - apply not_in_existsb, Ha.
  - intros q. unfold node_of.
    apply (lookup_swap q P p (map iid a ++ x :: map iid b) (map iid a ++ map iid b) X); [rewrite wflat_keys; exact N|exact PW|exact PW'].
  - unfold loose_ids, add_loose. cbn [loose]. rewrite map_app. cbn [map]. rewrite Hid. f_equal. exact Hlo.
  - unfold doc_shape, add_loose. cbn [docs]. exact Hds.
Qed.

(* ------------------------------------------------------------------ queries of the scripts, on the flat view *)
Lemma first_some_app {X Y} (f : X -> option Y) l1 l2 :
  first_some f (l1 ++ l2) = match first_some f l1 with Some r => Some r | None => first_some f l2 end.
Proof. induction l1 as [|a r IH]; [reflexivity|]. cbn [app first_some]. destruct (f a); [reflexivity|exact IH]. Qed.

Definition entry_of (s : itree) : payload * list nid := (ipayload s, map iid (ikids s)).

Lemma t_find_flat q t : lookup q (flat t) = option_map entry_of (t_find q t).
Proof.
  induction t as [i p kids IH] using itree_ind'. rewrite flat_eq. cbn [lookup t_find]. destruct (N.eqb i q); [reflexivity|].
  fold (first_some (t_find q)). induction kids as [|k r IHr]; [reflexivity|]. inversion IH as [|? ? Hk Hr]; subst.
  cbn [flat_map first_some]. rewrite lookup_app, Hk. destruct (t_find q k); [reflexivity|]. cbn [option_map]. apply IHr, Hr.
Qed.
Lemma forest_find_flat q l : lookup q (flat_map flat l) = option_map entry_of (first_some (t_find q) l).
Proof.
  induction l as [|t r IH]; [reflexivity|]. cbn [flat_map first_some]. rewrite lookup_app, t_find_flat.
  destruct (t_find q t); [reflexivity|exact IH].
Qed.
Lemma w_find_node_of w q : node_of w q = option_map entry_of (w_find w q).
Proof. unfold node_of, wflat, w_find. apply forest_find_flat. Qed.

Lemma t_find_in q t s : t_find q t = Some s -> iid s = q /\ incl (flat s) (flat t).
Proof.
  induction t as [i p kids IH] using itree_ind'. cbn [t_find]. destruct (N.eqb_spec i q) as [E|E].
  - intros H. injection H as <-. split; [exact E|apply incl_refl].
  - fold (first_some (t_find q)). intros H. rewrite flat_eq.
    assert (K : iid s = q /\ incl (flat s) (flat_map flat kids)).
    { induction kids as [|k r IHr]; [discriminate|]. inversion IH as [|? ? Hk Hr]; subst. cbn [first_some] in H.
      cbn [flat_map]. destruct (t_find q k) eqn:Ek.
      - injection H as ->. destruct (Hk eq_refl) as [H1 H2]. split; [exact H1|]. apply incl_appl, H2.
      - destruct (IHr Hr H) as [H1 H2]. split; [exact H1|]. apply incl_appr, H2. }
    destruct K as [K1 K2]. split; [exact K1|]. apply incl_tl, K2.
Qed.
Lemma t_find_none_ids q t : t_find q t = None <-> ~ In q (ids t).
Proof.
  rewrite <- flat_keys. pose proof (t_find_flat q t) as H. split.
  - intros E. rewrite E in H. cbn in H. intros Hin. apply in_map_iff in Hin as [[[i p] ks] [Hk Hin]]. cbn in Hk. subst i.
    clear E. induction (flat t) as [|[[i' p'] ks'] r IH]; [destruct Hin|]. cbn [lookup] in H.
    destruct (N.eqb_spec i' q) as [E|E]; [discriminate|]. destruct Hin as [Hin|Hin]; [injection Hin as -> _ _; contradiction|].
    apply IH; assumption.
  - intros Hn. destruct (t_find q t) eqn:E; [|reflexivity]. exfalso. apply Hn. destruct (t_find_in _ _ _ E) as [H1 H2].
    apply in_map_iff. exists (q, ipayload i, map iid (ikids i)). split; [reflexivity|]. apply H2. destruct i. cbn in *. subst. left. reflexivity.
Qed.

(* the parent, found by the same traversal as the rewrite at the parent *)
Lemma t_parent_entry x t s : t_parent x t = Some s ->
  In (iid s, ipayload s, map iid (ikids s)) (flat t) /\ In x (map iid (ikids s)).
Proof.
  induction t as [i p kids IH] using itree_ind'. cbn [t_parent]. destruct (existsb (has_id x) kids) eqn:E.
  - intros H. injection H as <-. cbn [iid ipayload ikids]. split; [left; reflexivity|].
    apply existsb_exists in E as [k [Hk Hx]]. apply in_map_iff. exists k. unfold has_id in Hx. apply N.eqb_eq in Hx. auto.
  - fold (first_some (t_parent x)). intros H. rewrite flat_eq.
    assert (K : In (iid s, ipayload s, map iid (ikids s)) (flat_map flat kids) /\ In x (map iid (ikids s))).
    { clear E. induction kids as [|k r IHr]; [discriminate|]. inversion IH as [|? ? Hk Hr]; subst. cbn [first_some] in H.
      cbn [flat_map]. destruct (t_parent x k) eqn:Ek.
      - injection H as ->. destruct (Hk eq_refl) as [H1 H2]. split; [apply in_or_app; left; exact H1|exact H2].
      - destruct (IHr Hr H) as [H1 H2]. split; [apply in_or_app; right; exact H1|exact H2]. }
    destruct K as [K1 K2]. split; [right; exact K1|exact K2].
Qed.
Lemma w_parent_node_of w x s : NoDup (world_ids_a w) -> w_parent w x = Some s ->
  node_of w (iid s) = Some (entry_of s) /\ In x (map iid (ikids s)).
Proof.
  intros N H. unfold w_parent in H.
  assert (K : In (iid s, ipayload s, map iid (ikids s)) (wflat w) /\ In x (map iid (ikids s))).
  { unfold wflat. induction (forest w) as [|t r IH]; [discriminate|]. cbn [first_some] in H. cbn [flat_map].
    destruct (t_parent x t) eqn:Et.
    - injection H as ->. destruct (t_parent_entry _ _ _ Et) as [H1 H2]. split; [apply in_or_app; left; exact H1|exact H2].
    - destruct (IH H) as [H1 H2]. split; [apply in_or_app; right; exact H1|exact H2]. }
  destruct K as [K1 K2]. split; [|exact K2]. unfold node_of, entry_of. apply lookup_in; [rewrite wflat_keys; exact N|exact K1].
Qed.

Lemma t_rw_parent x (fn : list itree -> list itree) t :
  (t_rw (at_parent_of x fn) t = None <-> t_parent x t = None).
Proof.
  induction t as [i p kids IH] using itree_ind'. cbn [t_rw t_parent at_parent_of]. destruct (existsb (has_id x) kids).
  - split; discriminate.
  - fold (rw_list (t_rw (at_parent_of x fn))). fold (first_some (t_parent x)).
    assert (K : rw_list (t_rw (at_parent_of x fn)) kids = None <-> first_some (t_parent x) kids = None).
    { induction kids as [|k r IHr]; [split; reflexivity|]. inversion IH as [|? ? Hk Hr]; subst. cbn [rw_list first_some].
      fold (rw_list (t_rw (at_parent_of x fn))). destruct (t_rw (at_parent_of x fn) k) as [[k' a]|] eqn:Ek.
      - destruct (t_parent x k) eqn:Ep; [split; discriminate|]. destruct Hk as [_ Hk]. specialize (Hk eq_refl). discriminate.
      - destruct (t_parent x k) eqn:Ep; [destruct Hk as [Hk _]; specialize (Hk eq_refl); discriminate|].
        specialize (IHr Hr). destruct (rw_list (t_rw (at_parent_of x fn)) r) as [[r' a]|].
        + split; [discriminate|]. intros E. apply IHr in E. discriminate.
        + split; [intros _; apply IHr; reflexivity|reflexivity]. }
    destruct (rw_list (t_rw (at_parent_of x fn)) kids) as [[kids' a]|].
    + split; [discriminate|]. intros E. apply K in E. discriminate.
    + split; [intros _; apply K; reflexivity|reflexivity].
Qed.

(* comments / PIs next to a document's root have no children *)
Definition doc_sibs (d : list itree * itree * list itree) : list itree := match d with (pro, _, epi) => pro ++ epi end.
Definition sibs_ok (w : world) : Prop := forall d t, In d (docs w) -> In t (doc_sibs d) -> ikids t = [] /\ is_cpik (ikind t) = true.

Lemma rw_list_parent x fn l :
  rw_list (t_rw (at_parent_of x fn)) l = None <-> first_some (t_parent x) l = None.
Proof.
  induction l as [|k r IHr]; [split; reflexivity|]. cbn [rw_list first_some]. fold (rw_list (t_rw (at_parent_of x fn))).
  pose proof (t_rw_parent x fn k) as Hk.
  destruct (t_rw (at_parent_of x fn) k) as [[k' a]|]; destruct (t_parent x k).
  - split; discriminate.
  - destruct Hk as [_ Hk]. specialize (Hk eq_refl). discriminate.
  - destruct Hk as [Hk _]. specialize (Hk eq_refl). discriminate.
  - destruct (rw_list (t_rw (at_parent_of x fn)) r) as [[r' a]|].
    + split; [discriminate|]. intros E. apply IHr in E. discriminate.
    + split; [intros _; apply IHr; reflexivity|reflexivity].
Qed.
Lemma childless_parent x t : ikids t = [] -> t_parent x t = None.
Proof. destruct t as [i p kids]. cbn. intros ->. reflexivity. Qed.
Lemma first_some_none {X Y} (f : X -> option Y) l : (forall t, In t l -> f t = None) -> first_some f l = None.
Proof. induction l as [|a r IH]; [reflexivity|]. intros H. cbn [first_some]. rewrite (H a (or_introl eq_refl)). apply IH. intros t Ht. apply H. right. exact Ht. Qed.

Lemma rw_docs_parent x fn ds :
  (forall d t, In d ds -> In t (doc_sibs d) -> ikids t = [] /\ is_cpik (ikind t) = true) ->
  (rw_docs (at_parent_of x fn) ds = None <-> first_some (t_parent x) (flat_map doc_nodes ds) = None).
Proof.
  induction ds as [|[[pro r] epi] rest IH]; intros Hs; [split; reflexivity|]. cbn [rw_docs flat_map doc_nodes].
  fold (rw_docs (at_parent_of x fn)).
  assert (Hpro : first_some (t_parent x) pro = None).
  { apply first_some_none. intros t Ht. apply childless_parent. eapply proj1. apply (Hs (pro, r, epi)); [left; reflexivity|]. apply in_or_app. left. exact Ht. }
  assert (Hepi : first_some (t_parent x) epi = None).
  { apply first_some_none. intros t Ht. apply childless_parent. eapply proj1. apply (Hs (pro, r, epi)); [left; reflexivity|]. apply in_or_app. right. exact Ht. }
  rewrite !first_some_app, Hpro. cbn [first_some]. pose proof (t_rw_parent x fn r) as Hr.
  assert (IH' := IH (fun d t Hd Ht => Hs d t (or_intror Hd) Ht)).
  destruct (t_rw (at_parent_of x fn) r) as [[r' a]|]; destruct (t_parent x r).
  - split; discriminate.
  - destruct Hr as [_ Hr]. specialize (Hr eq_refl). discriminate.
  - destruct Hr as [Hr _]. specialize (Hr eq_refl). discriminate.
  - rewrite Hepi. destruct (rw_docs (at_parent_of x fn) rest) as [[rest' a]|].
    + split; [discriminate|]. intros E. apply IH' in E. discriminate.
    + split; [intros _; apply IH'; reflexivity|reflexivity].
Qed.
Lemma w_rw_parent x fn w : sibs_ok w -> (w_rw (at_parent_of x fn) w = None <-> w_parent w x = None).
Proof.
  intros Hs. unfold w_rw, w_parent, forest. rewrite first_some_app. pose proof (rw_docs_parent x fn (docs w) Hs) as D.
  pose proof (rw_list_parent x fn (loose w)) as L.
  destruct (rw_docs (at_parent_of x fn) (docs w)) as [[d' a]|].
  - split; [discriminate|]. intros E. destruct (first_some (t_parent x) (flat_map doc_nodes (docs w))); [discriminate|].
    destruct D as [_ D]. specialize (D eq_refl). discriminate.
  - destruct D as [D _]. rewrite (D eq_refl). destruct (rw_list (t_rw (at_parent_of x fn)) (loose w)) as [[l' a]|].
    + split; [discriminate|]. intros E. apply L in E. discriminate.
    + split; [intros _; apply L; reflexivity|reflexivity].
Qed.

(* ------------------------------------------------------------------ when a rewrite succeeds *)
Lemma rw_list_skip {A} (rec : itree -> option (itree * A)) T l1 l2 : rec T = None ->
  (rw_list rec (l1 ++ T :: l2) = None <-> rw_list rec (l1 ++ l2) = None).
Proof.
  intros HT. induction l1 as [|t r IH]; cbn [app rw_list].
  - rewrite HT. fold (rw_list rec). destruct (rw_list rec l2) as [[? ?]|]; split; auto; discriminate.
  - destruct (rec t) as [[t' a]|]; [split; discriminate|]. fold (rw_list rec).
    destruct (rw_list rec (r ++ T :: l2)) as [[? ?]|]; destruct (rw_list rec (r ++ l2)) as [[? ?]|]; try (split; auto; discriminate).
    + destruct IH as [_ IH]. specialize (IH eq_refl). discriminate.
    + destruct IH as [IH _]. specialize (IH eq_refl). discriminate.
Qed.
(* taking a parentless tree that the rewrite would not touch out of the world does not make the rewrite fail *)
Lemma w_rw_without {A} (g : itree -> option (itree * A)) w T l1 l2 : loose w = l1 ++ T :: l2 -> t_rw g T = None ->
  w_rw g w <> None -> w_rw g {| docs := docs w; loose := l1 ++ l2 |} <> None.
Proof.
  intros El HT. unfold w_rw. cbn [docs loose]. destruct (rw_docs g (docs w)) as [[d' a]|]; [discriminate|].
  rewrite El. pose proof (rw_list_skip (t_rw g) T l1 l2 HT) as K.
  destruct (rw_list (t_rw g) (l1 ++ T :: l2)) as [[? ?]|]; [|intros H; contradiction].
  destruct (rw_list (t_rw g) (l1 ++ l2)) as [[? ?]|]; [discriminate|]. destruct K as [_ K]. specialize (K eq_refl). discriminate.
Qed.

(* unique identities: the tree with identity n is the one *)
Lemma nodup_app_disj {X} (l1 l2 : list X) x : NoDup (l1 ++ l2) -> In x l1 -> In x l2 -> False.
Proof.
  induction l1 as [|a r IH]; intros N H1 H2; [destruct H1|]. inversion N as [|? ? Hn Hr]; subst.
  destruct H1 as [->|H1]; [apply Hn; apply in_or_app; right; exact H2|]. apply (IH Hr H1 H2).
Qed.
Lemma iid_in_ids t : In (iid t) (ids t). Proof. destruct t. left. reflexivity. Qed.
Lemma forest_find_unique l T : NoDup (flat_map ids l) -> In T l -> first_some (t_find (iid T)) l = Some T.
Proof.
  induction l as [|t r IH]; intros N Hin; [destruct Hin|]. cbn [flat_map] in N. cbn [first_some].
  destruct Hin as [->|Hin].
  - destruct T as [i p k]. cbn [t_find iid]. rewrite N.eqb_refl. reflexivity.
  - destruct (t_find (iid T) t) eqn:E.
    + exfalso. assert (H1 : In (iid T) (ids t)).
      { destruct (t_find_none_ids (iid T) t) as [_ H]. destruct (in_dec N.eq_dec (iid T) (ids t)) as [Hi|Hi]; [exact Hi|].
        rewrite (H Hi) in E. discriminate. }
      apply (nodup_app_disj _ _ _ N H1). apply in_flat_map. exists T. split; [exact Hin|apply iid_in_ids].
    + apply IH; [|exact Hin]. apply (Permutation_NoDup (Permutation_app_comm _ _)) in N. apply nodup_app_l in N. exact N.
Qed.
Lemma loose_find_unique w T : NoDup (world_ids_a w) -> In T (loose w) -> w_find w (iid T) = Some T.
Proof.
  intros N Hin. unfold w_find. apply forest_find_unique; [exact N|]. unfold forest. apply in_or_app. right. exact Hin.
Qed.

Lemma rw_list_exists {A} (rec : itree -> option (itree * A)) l k : In k l -> rec k <> None -> rw_list rec l <> None.
Proof.
  induction l as [|t r IH]; intros Hin Hk; [destruct Hin|]. cbn [rw_list]. destruct (rec t) as [[t' a]|] eqn:Et; [discriminate|].
  fold (rw_list rec). destruct Hin as [->|Hin]; [contradiction|]. specialize (IH Hin Hk).
  destruct (rw_list rec r) as [[? ?]|]; [discriminate|contradiction].
Qed.
Lemma first_some_in {X Y} (f : X -> option Y) l y : first_some f l = Some y -> exists t, In t l /\ f t = Some y.
Proof.
  induction l as [|a r IH]; [discriminate|]. cbn [first_some]. destruct (f a) eqn:E.
  - intros H. injection H as <-. exists a. split; [left; reflexivity|exact E].
  - intros H. destruct (IH H) as (t & H1 & H2). exists t. split; [right; exact H1|exact H2].
Qed.
Lemma t_rw_root_some {A} (g : itree -> option (itree * A)) i p kids k :
  In k kids -> t_rw g k <> None -> t_rw g (INode i p kids) <> None.
Proof.
  intros Hin Hk. cbn [t_rw]. destruct (g (INode i p kids)); [discriminate|]. fold (rw_list (t_rw g)).
  pose proof (rw_list_exists (t_rw g) kids k Hin Hk) as H. destruct (rw_list (t_rw g) kids) as [[? ?]|]; [discriminate|contradiction].
Qed.

Lemma t_rw_at_tag p fn t s : t_find p t = Some s -> ikind s = NTag -> t_rw (at_tag p fn) t <> None.
Proof.
  induction t as [i q kids IH] using itree_ind'. cbn [t_find]. destruct (N.eqb_spec i p) as [E|E].
  - intros H Hk. injection H as <-. cbn [t_rw]. unfold at_tag, has_id. cbn [iid]. rewrite E, N.eqb_refl. unfold ikind in *. cbn [ipayload] in *.
    rewrite Hk. cbn. discriminate.
  - fold (first_some (t_find p)). intros H Hk. destruct (first_some_in _ _ _ H) as (k & Hin & Hf).
    apply (t_rw_root_some _ i q kids k Hin). rewrite Forall_forall in IH. apply (IH k Hin Hf Hk).
Qed.
Lemma w_rw_exists {A} (g : itree -> option (itree * A)) w t :
  (In t (loose w) \/ exists pro epi, In (pro, t, epi) (docs w)) -> t_rw g t <> None -> w_rw g w <> None.
Proof.
  intros Hin Ht. unfold w_rw. destruct (rw_docs g (docs w)) as [[d' a]|] eqn:Ed; [discriminate|].
  destruct Hin as [Hin|(pro & epi & Hin)].
  - pose proof (rw_list_exists (t_rw g) (loose w) t Hin Ht) as H. destruct (rw_list (t_rw g) (loose w)) as [[? ?]|]; [discriminate|contradiction].
  - exfalso. clear -Ed Hin Ht. induction (docs w) as [|[[pro' r'] epi'] rest IH]; [destruct Hin|]. cbn [rw_docs] in Ed.
    destruct Hin as [E|Hin].
    + injection E as -> -> ->. destruct (t_rw g t) as [[? ?]|]; [discriminate|contradiction].
    + destruct (t_rw g r') as [[? ?]|]; [discriminate|]. fold (rw_docs g) in Ed. destruct (rw_docs g rest) as [[? ?]|]; [discriminate|].
      apply IH; auto.
Qed.
Lemma w_rw_at_tag p fn w s : sibs_ok w -> w_find w p = Some s -> ikind s = NTag -> w_rw (at_tag p fn) w <> None.
Proof.
  intros Hs Hf Hk. unfold w_find, forest in Hf. rewrite first_some_app in Hf.
  destruct (first_some (t_find p) (flat_map doc_nodes (docs w))) eqn:Ed.
  - injection Hf as ->. destruct (first_some_in _ _ _ Ed) as (t & Hin & Ht). apply in_flat_map in Hin as ([[pro r] epi] & Hd & Hin).
    cbn [doc_nodes] in Hin. apply in_app_or in Hin. destruct Hin as [Hin|[<-|Hin]].
    + exfalso. destruct (Hs _ t Hd (in_or_app _ _ _ (or_introl Hin))) as [H1 H2]. destruct t as [i q k]. cbn in H1. subst k.
      cbn [t_find] in Ht. destruct (N.eqb i p); [injection Ht as <-; rewrite Hk in H2; discriminate|discriminate].
    + apply (w_rw_exists _ w r); [right; exists pro, epi; exact Hd|]. eapply t_rw_at_tag; eassumption.
    + exfalso. destruct (Hs _ t Hd (in_or_app _ _ _ (or_intror Hin))) as [H1 H2]. destruct t as [i q k]. cbn in H1. subst k.
      cbn [t_find] in Ht. destruct (N.eqb i p); [injection Ht as <-; rewrite Hk in H2; discriminate|discriminate].
  - destruct (first_some_in _ _ _ Hf) as (t & Hin & Ht). apply (w_rw_exists _ w t); [left; exact Hin|].
    eapply t_rw_at_tag; eassumption.
Qed.

(* two local functions that apply at the same nodes make the rewrite succeed on the same worlds *)
Section SameDom.
  Context {A B : Type}.
  Variable g1 : itree -> option (itree * A).
  Variable g2 : itree -> option (itree * B).
  Hypothesis dom : forall s, g1 s = None <-> g2 s = None.
  Lemma rw_list_dom (rec1 : itree -> option (itree * A)) (rec2 : itree -> option (itree * B)) l :
    Forall (fun k => rec1 k = None <-> rec2 k = None) l -> (rw_list rec1 l = None <-> rw_list rec2 l = None).
  Proof.
    induction l as [|k r IH]; intros HF; [split; reflexivity|]. inversion HF as [|? ? Hk Hr]; subst. cbn [rw_list].
    fold (rw_list rec1). fold (rw_list rec2). specialize (IH Hr).
    destruct (rec1 k) as [[? ?]|]; destruct (rec2 k) as [[? ?]|].
    - split; discriminate.
    - destruct Hk as [_ Hk]. specialize (Hk eq_refl). discriminate.
    - destruct Hk as [Hk _]. specialize (Hk eq_refl). discriminate.
    - destruct (rw_list rec1 r) as [[? ?]|]; destruct (rw_list rec2 r) as [[? ?]|]; try (split; auto; discriminate).
      + destruct IH as [_ IH]. specialize (IH eq_refl). discriminate.
      + destruct IH as [IH _]. specialize (IH eq_refl). discriminate.
  Qed.
  Lemma t_rw_dom t : t_rw g1 t = None <-> t_rw g2 t = None.
  Proof.
    induction t as [i p kids IH] using itree_ind'. cbn [t_rw]. pose proof (dom (INode i p kids)) as D.
    fold (rw_list (t_rw g1)). fold (rw_list (t_rw g2)). pose proof (rw_list_dom (t_rw g1) (t_rw g2) kids IH) as K.
    destruct (g1 (INode i p kids)) as [[? ?]|]; destruct (g2 (INode i p kids)) as [[? ?]|].
    - split; discriminate.
    - destruct D as [_ D]. specialize (D eq_refl). discriminate.
    - destruct D as [D _]. specialize (D eq_refl). discriminate.
    - destruct (rw_list (t_rw g1) kids) as [[? ?]|]; destruct (rw_list (t_rw g2) kids) as [[? ?]|]; try (split; auto; discriminate).
      + destruct K as [_ K]. specialize (K eq_refl). discriminate.
      + destruct K as [K _]. specialize (K eq_refl). discriminate.
  Qed.
  Lemma rw_docs_dom ds : rw_docs g1 ds = None <-> rw_docs g2 ds = None.
  Proof.
    induction ds as [|[[pro r] epi] rest IH]; [split; reflexivity|]. cbn [rw_docs]. fold (rw_docs g1). fold (rw_docs g2).
    pose proof (t_rw_dom r) as D.
    destruct (t_rw g1 r) as [[? ?]|]; destruct (t_rw g2 r) as [[? ?]|].
    - split; discriminate.
    - destruct D as [_ D]. specialize (D eq_refl). discriminate.
    - destruct D as [D _]. specialize (D eq_refl). discriminate.
    - destruct (rw_docs g1 rest) as [[? ?]|]; destruct (rw_docs g2 rest) as [[? ?]|]; try (split; auto; discriminate).
      + destruct IH as [_ IH]. specialize (IH eq_refl). discriminate.
      + destruct IH as [IH _]. specialize (IH eq_refl). discriminate.
  Qed.
  Lemma w_rw_dom w : w_rw g1 w = None <-> w_rw g2 w = None.
  Proof.
    unfold w_rw. pose proof (rw_docs_dom (docs w)) as D.
    assert (L : rw_list (t_rw g1) (loose w) = None <-> rw_list (t_rw g2) (loose w) = None)
      by (apply rw_list_dom, Forall_forall; intros k _; apply t_rw_dom).
    destruct (rw_docs g1 (docs w)) as [[? ?]|]; destruct (rw_docs g2 (docs w)) as [[? ?]|].
    - split; discriminate.
    - destruct D as [_ D]. specialize (D eq_refl). discriminate.
    - destruct D as [D _]. specialize (D eq_refl). discriminate.
    - destruct (rw_list (t_rw g1) (loose w)) as [[? ?]|]; destruct (rw_list (t_rw g2) (loose w)) as [[? ?]|]; try (split; auto; discriminate).
      + destruct L as [_ L]. specialize (L eq_refl). discriminate.
      + destruct L as [L _]. specialize (L eq_refl). discriminate.
  Qed.
End SameDom.

Lemma take_id_none_iff x l : take_id x l = None <-> existsb (has_id x) l = false.
Proof.
  induction l as [|t r IH]; [split; reflexivity|]. cbn [take_id existsb]. destruct (has_id x t); [split; discriminate|]. cbn [orb].
  destruct (take_id x r) as [[? ?]|]; destruct (existsb (has_id x) r); try (split; auto; discriminate).
  - destruct IH as [_ IH]. specialize (IH eq_refl). discriminate.
  - destruct IH as [IH _]. specialize (IH eq_refl). discriminate.
Qed.
Lemma extract_dom x fn s : g_extract x s = None <-> at_parent_of x fn s = None.
Proof.
  destruct s as [i p kids]. cbn [g_extract at_parent_of]. pose proof (take_id_none_iff x kids) as K.
  destruct (take_id x kids) as [[? ?]|]; destruct (existsb (has_id x) kids); try (split; auto; discriminate).
  - destruct K as [_ K]. specialize (K eq_refl). discriminate.
  - destruct K as [K _]. specialize (K eq_refl). discriminate.
Qed.

(* an entry that lists x among the children means x has a parent *)
Lemma entry_parent x t P p ks : In (P, p, ks) (flat t) -> In x ks -> t_parent x t <> None.
Proof.
  induction t as [i q kids IH] using itree_ind'. rewrite flat_eq. intros [E|Hin] Hx.
  - injection E as -> -> <-. cbn [t_parent]. assert (H : existsb (has_id x) kids = true).
    { rewrite existsb_ids. apply existsb_exists. exists x. split; [exact Hx|apply N.eqb_refl]. }
    rewrite H. discriminate.
  - cbn [t_parent]. destruct (existsb (has_id x) kids); [discriminate|]. fold (first_some (t_parent x)).
    apply in_flat_map in Hin as (k & Hk & Hin). rewrite Forall_forall in IH. specialize (IH k Hk Hin Hx).
    clear -Hk IH. induction kids as [|k' r IHr]; [destruct Hk|]. cbn [first_some]. destruct (t_parent x k') eqn:E; [discriminate|].
    destruct Hk as [->|Hk]; [contradiction|]. apply IHr, Hk.
Qed.
Lemma node_of_parent w x P p ks : node_of w P = Some (p, ks) -> In x ks -> w_parent w x <> None.
Proof.
  unfold node_of, w_parent, wflat. intros H Hx. apply lookup_some_in in H. apply in_flat_map in H as (t & Ht & Hin).
  pose proof (entry_parent x t P p ks Hin Hx) as Hp. clear -Ht Hp. induction (forest w) as [|t' r IH]; [destruct Ht|].
  cbn [first_some]. destruct (t_parent x t') eqn:E; [discriminate|]. destruct Ht as [->|Ht]; [contradiction|]. apply IH, Ht.
Qed.

Lemma t_parent_incl x t s : t_parent x t = Some s -> incl (flat s) (flat t).
Proof.
  induction t as [i p kids IH] using itree_ind'. cbn [t_parent]. destruct (existsb (has_id x) kids).
  - intros H. injection H as <-. apply incl_refl.
  - fold (first_some (t_parent x)). intros H. destruct (first_some_in _ _ _ H) as (k & Hk & Hp). rewrite Forall_forall in IH.
    rewrite flat_eq. apply incl_tl. intros e He. apply in_flat_map. exists k. split; [exact Hk|apply (IH k Hk Hp), He].
Qed.
Lemma w_parent_incl w x s : w_parent w x = Some s -> incl (flat s) (wflat w).
Proof.
  unfold w_parent, wflat. intros H. destruct (first_some_in _ _ _ H) as (t & Ht & Hp). intros e He. apply in_flat_map.
  exists t. split; [exact Ht|apply (t_parent_incl _ _ _ Hp), He].
Qed.
(* under unique identities a child of the parent found for x that carries x's identity is the node x *)
Lemma kid_is_node w x s xk sx : NoDup (world_ids_a w) -> w_parent w x = Some s -> In xk (ikids s) -> iid xk = x ->
  w_find w x = Some sx -> ipayload xk = ipayload sx.
Proof.
  intros N Hp Hk Hid Hf. pose proof (w_find_node_of w x) as H. rewrite Hf in H. cbn [option_map] in H.
  assert (Hin : In (x, ipayload xk, map iid (ikids xk)) (wflat w)).
  { apply (w_parent_incl _ _ _ Hp). destruct s as [i p kids]. rewrite flat_eq. right. cbn [ikids] in Hk. apply in_flat_map.
    exists xk. split; [exact Hk|]. destruct xk as [j q kk]. cbn in *. subst j. left. reflexivity. }
  unfold node_of in H. rewrite (lookup_in _ _ _ _ (eq_ind_r (fun l => NoDup l) N (wflat_keys w)) Hin) in H.
  unfold entry_of in H. injection H as H _. exact H.
Qed.

Lemma find_some_existsb x (l : list itree) : existsb (has_id x) l = true -> exists xk, find (has_id x) l = Some xk /\ In xk l /\ iid xk = x.
Proof.
  induction l as [|t r IH]; [discriminate|]. cbn [existsb find]. destruct (has_id x t) eqn:E.
  - intros _. exists t. unfold has_id in E. apply N.eqb_eq in E. auto using in_eq.
  - cbn [orb]. intros H. destruct (IH H) as (xk & H1 & H2 & H3). exists xk. auto using in_cons.
Qed.
Lemma find_none_existsb x (l : list itree) : existsb (has_id x) l = false -> find (has_id x) l = None.
Proof. induction l as [|t r IH]; [reflexivity|]. cbn [existsb find]. destruct (has_id x t); [discriminate|]. exact IH. Qed.

Lemma t_rw_before x n t s : t_parent x t = Some s ->
  (forall xk, In xk (ikids s) -> iid xk = x -> (is_itext n && negb (is_itext xk))%bool = false) ->
  t_rw (g_before x n) t <> None.
Proof.
  induction t as [i p kids IH] using itree_ind'. cbn [t_parent]. destruct (existsb (has_id x) kids) eqn:E.
  - intros H Hc. injection H as <-. cbn [t_rw g_before]. destruct (find_some_existsb _ _ E) as (xk & Hf & Hin & Hid).
    rewrite Hf, (Hc xk Hin Hid). discriminate.
  - fold (first_some (t_parent x)). intros H Hc. destruct (first_some_in _ _ _ H) as (k & Hk & Hp).
    apply (t_rw_root_some _ i p kids k Hk). rewrite Forall_forall in IH. apply (IH k Hk Hp Hc).
Qed.
Lemma w_parent_tree w x s : sibs_ok w -> w_parent w x = Some s ->
  exists t, (In t (loose w) \/ exists pro epi, In (pro, t, epi) (docs w)) /\ t_parent x t = Some s.
Proof.
  intros Hs H. unfold w_parent, forest in H. rewrite first_some_app in H.
  destruct (first_some (t_parent x) (flat_map doc_nodes (docs w))) eqn:Ed.
  - injection H as ->. destruct (first_some_in _ _ _ Ed) as (t & Hin & Ht). apply in_flat_map in Hin as ([[pro r] epi] & Hd & Hin).
    cbn [doc_nodes] in Hin. apply in_app_or in Hin. destruct Hin as [Hin|[<-|Hin]].
    + exfalso. destruct (Hs _ t Hd (in_or_app _ _ _ (or_introl Hin))) as [H1 _]. rewrite (childless_parent x t H1) in Ht. discriminate.
    + exists r. split; [right; exists pro, epi; exact Hd|exact Ht].
    + exfalso. destruct (Hs _ t Hd (in_or_app _ _ _ (or_intror Hin))) as [H1 _]. rewrite (childless_parent x t H1) in Ht. discriminate.
  - destruct (first_some_in _ _ _ H) as (t & Hin & Ht). exists t. auto.
Qed.
Lemma w_rw_before x n w s : sibs_ok w -> w_parent w x = Some s ->
  (forall xk, In xk (ikids s) -> iid xk = x -> (is_itext n && negb (is_itext xk))%bool = false) ->
  w_rw (g_before x n) w <> None.
Proof.
  intros Hs Hp Hc. destruct (w_parent_tree _ _ _ Hs Hp) as (t & Ht & Hpt). apply (w_rw_exists _ w t Ht).
  eapply t_rw_before; eassumption.
Qed.

(* nodes with children are tag nodes *)
Definition tags_only (w : world) : Prop := forall q p ks, node_of w q = Some (p, ks) -> ks <> [] -> kind_of_payload p = NTag.

(* ------------------------------------------------------------------ a node has one parent *)
Definition all_kid_ids (l : list entry) : list nid := flat_map (fun e : entry => snd e) l.
Lemma all_kid_ids_app l1 l2 : all_kid_ids (l1 ++ l2) = all_kid_ids l1 ++ all_kid_ids l2.
Proof. apply flat_map_app. Qed.
Lemma perm_cons_flat {X Y} (h : X -> Y) (K : X -> list Y) l :
  Permutation (flat_map (fun k => h k :: K k) l) (map h l ++ flat_map K l).
Proof.
  induction l as [|k r IH]; [reflexivity|]. cbn [flat_map map app]. apply perm_skip. rewrite IH.
  rewrite !app_assoc. apply Permutation_app_tail. apply Permutation_app_comm.
Qed.
Lemma ids_kid_ids t : Permutation (ids t) (iid t :: all_kid_ids (flat t)).
Proof.
  induction t as [i p kids IH] using itree_ind'. rewrite ids_eq, flat_eq. cbn [iid all_kid_ids flat_map snd]. apply perm_skip.
  fold (all_kid_ids (flat_map flat kids)).
  assert (E : Permutation (flat_map ids kids) (flat_map (fun k => iid k :: all_kid_ids (flat k)) kids)).
  { induction kids as [|k r IHr]; [reflexivity|]. inversion IH as [|? ? Hk Hr]; subst. cbn [flat_map]. rewrite Hk, (IHr Hr). reflexivity. }
  rewrite E, perm_cons_flat. apply Permutation_app_head.
  clear. induction kids as [|k r IHr]; [reflexivity|]. cbn [flat_map]. rewrite all_kid_ids_app, IHr. reflexivity.
Qed.
Lemma world_kid_ids_nodup w : NoDup (world_ids_a w) -> NoDup (all_kid_ids (wflat w)).
Proof.
  unfold world_ids_a, wflat. induction (forest w) as [|t r IH]; intros N; [constructor|]. cbn [flat_map] in *.
  rewrite all_kid_ids_app. rewrite (ids_kid_ids t) in N. cbn [app] in N. inversion N as [|? ? _ N']; subst.
  assert (N2 : NoDup (flat_map ids r)) by (apply (Permutation_NoDup (Permutation_app_comm _ _)) in N'; apply nodup_app_l in N'; exact N').
  specialize (IH N2). clear N.
  (* kid ids of t are ids of t; kid ids of the rest are ids of the rest *)
  assert (S2 : incl (all_kid_ids (flat_map flat r)) (flat_map ids r)).
  { clear. induction r as [|t r IH]; [intros x []|]. cbn [flat_map]. rewrite all_kid_ids_app. intros x Hx. apply in_app_or in Hx.
    apply in_or_app. destruct Hx as [Hx|Hx]; [left|right; apply IH, Hx].
    apply (Permutation_in _ (Permutation_sym (ids_kid_ids t))). right. exact Hx. }
  revert N'. generalize (all_kid_ids (flat t)) as A. intros A N'. induction A as [|a A IHA]; [exact IH|]. cbn [app] in *.
  inversion N' as [|? ? Hn Hr]; subst. constructor; [|apply IHA, Hr]. intros Hin. apply Hn. apply in_app_or in Hin. apply in_or_app.
  destruct Hin as [Hin|Hin]; [left; exact Hin|right; apply S2, Hin].
Qed.
Lemma nodup_flat_unique {X} (l : list (list X)) a b y : NoDup (concat l) -> In a l -> In b l -> In y a -> In y b -> a = b.
Proof.
  induction l as [|c r IH]; intros N Ha Hb Hya Hyb; [destruct Ha|]. cbn [concat] in N.
  assert (Nr : NoDup (concat r)) by (apply (Permutation_NoDup (Permutation_app_comm _ _)) in N; apply nodup_app_l in N; exact N).
  destruct Ha as [->|Ha], Hb as [->|Hb]; [reflexivity| | |apply IH; assumption].
  - exfalso. apply (nodup_app_disj _ _ y N Hya). apply in_concat. exists b. auto.
  - exfalso. apply (nodup_app_disj _ _ y N Hyb). apply in_concat. exists a. auto.
Qed.
Lemma parent_unique w P p ks P' p' ks' y : NoDup (world_ids_a w) ->
  node_of w P = Some (p, ks) -> node_of w P' = Some (p', ks') -> In y ks -> In y ks' -> P = P' /\ ks = ks'.
Proof.
  intros N H1 H2 Hy Hy'. apply world_kid_ids_nodup in N. unfold all_kid_ids in N. rewrite flat_map_concat_map in N.
  unfold node_of in *. apply lookup_some_in in H1, H2.
  assert (E : ks = ks').
  { apply (nodup_flat_unique _ ks ks' y N); try assumption.
    - apply in_map_iff. exists (P, p, ks). auto.
    - apply in_map_iff. exists (P', p', ks'). auto. }
  split; [|exact E]. subst ks'.
  (* same child list and unique identities: same entry *)
  destruct ks as [|k0 ks0]; [destruct Hy|].
  (* the position of the entries: use NoDup of the concatenation once more via the first child *)
  assert (In k0 (k0 :: ks0)) by (left; reflexivity).
  clear Hy Hy'. revert N H1 H2. generalize (wflat w) as l.
  induction l as [|e r IH]; intros N H1 H2; [destruct H1|]. cbn [map concat] in N.
  assert (Nr : NoDup (concat (map (fun e : entry => snd e) r))) by (apply (Permutation_NoDup (Permutation_app_comm _ _)) in N; apply nodup_app_l in N; exact N).
  destruct H1 as [->|H1], H2 as [E2|H2].
  - injection E2 as -> _. reflexivity.
  - exfalso. cbn [snd] in N. apply (nodup_app_disj _ _ k0 N (or_introl eq_refl)). apply in_concat. exists (k0 :: ks0). split; [|left; reflexivity].
    apply in_map_iff. exists (P', p', k0 :: ks0). auto.
  - exfalso. subst e. cbn [snd] in N. apply (nodup_app_disj _ _ k0 N (or_introl eq_refl)). apply in_concat. exists (k0 :: ks0). split; [|left; reflexivity].
    apply in_map_iff. exists (P, p, k0 :: ks0). auto.
  - apply IH; assumption.
Qed.

(* ------------------------------------------------------------------ visible children *)
Lemma w_find_incl w q t : w_find w q = Some t -> iid t = q /\ incl (flat t) (wflat w).
Proof.
  unfold w_find, wflat. intros H. destruct (first_some_in _ _ _ H) as (T & HT & Hf). destruct (t_find_in _ _ _ Hf) as [H1 H2].
  split; [exact H1|]. intros e He. apply in_flat_map. exists T. split; [exact HT|apply H2, He].
Qed.
Lemma kid_entry w p t k : NoDup (world_ids_a w) -> w_find w p = Some t -> In k (ikids t) -> node_of w (iid k) = Some (entry_of k).
Proof.
  intros N Hf Hk. destruct (w_find_incl _ _ _ Hf) as [_ Hi]. unfold node_of, entry_of.
  apply lookup_in; [rewrite wflat_keys; exact N|]. apply Hi. destruct t as [i q kids]. rewrite flat_eq. right. cbn [ikids] in Hk.
  apply in_flat_map. exists k. split; [exact Hk|]. destruct k. left. reflexivity.
Qed.
Lemma kids_of_find w p t : w_find w p = Some t -> kids_of w p = map iid (ikids t).
Proof. intros H. unfold kids_of. rewrite w_find_node_of, H. reflexivity. Qed.
Lemma vis_children_ids F w p : NoDup (world_ids_a w) -> vis_children F w p = filter (vis_id F w) (kids_of w p).
Proof.
  intros N. unfold vis_children, children_ids. destruct (w_find w p) as [t|] eqn:Hf.
  - rewrite (kids_of_find _ _ _ Hf). assert (H : forall k, In k (ikids t) -> vis_id F w (iid k) = vis F (ikind k)).
    { intros k Hk. unfold vis_id, kind_id. rewrite (kid_entry _ _ _ _ N Hf Hk). reflexivity. }
    induction (ikids t) as [|k r IH]; [reflexivity|]. cbn [filter map]. rewrite (H k (or_introl eq_refl)).
    destruct (vis F (ikind k)); cbn [map]; rewrite IH; auto; intros k' Hk'; apply H; right; exact Hk'.
  - unfold kids_of. rewrite w_find_node_of, Hf. reflexivity.
Qed.

(* ------------------------------------------------------------------ what lies inside a parentless tree *)
Lemma world_ids_perm w : Permutation (world_ids_a w) (map iid (forest w) ++ all_kid_ids (wflat w)).
Proof.
  unfold world_ids_a, wflat. induction (forest w) as [|t r IH]; [reflexivity|]. cbn [flat_map map app].
  rewrite all_kid_ids_app, (ids_kid_ids t), IH. cbn [app]. apply perm_skip. rewrite !app_assoc. apply Permutation_app_tail.
  apply Permutation_app_comm.
Qed.
Lemma entry_ids t P p ks : In (P, p, ks) (flat t) -> In P (ids t) /\ incl ks (ids t).
Proof.
  intros H. split.
  - rewrite <- flat_keys. apply in_map_iff. exists (P, p, ks). auto.
  - intros y Hy. apply (Permutation_in _ (Permutation_sym (ids_kid_ids t))). right. unfold all_kid_ids. apply in_flat_map.
    exists (P, p, ks). auto.
Qed.
Lemma key_entry t P : In P (ids t) -> exists p ks, In (P, p, ks) (flat t).
Proof. rewrite <- flat_keys. intros H. apply in_map_iff in H as ([[i p] ks] & E & Hin). cbn in E. subst. eauto. Qed.
Lemma loose_flat_incl w tn : In tn (loose w) -> incl (flat tn) (wflat w).
Proof. intros H e He. unfold wflat, forest. apply in_flat_map. exists tn. split; [apply in_or_app; right; exact H|exact He]. Qed.

Lemma outside_parent w tn x P p ks : NoDup (world_ids_a w) -> In tn (loose w) -> ~ In x (ids tn) ->
  node_of w P = Some (p, ks) -> In x ks -> ~ In P (ids tn) /\ (forall y, In y ks -> ~ In y (ids tn)).
Proof.
  intros N Hin Hx HP Hxk. assert (Nk : NoDup (map ekey (wflat w))) by (rewrite wflat_keys; exact N).
  assert (HPn : ~ In P (ids tn)).
  { intros HPi. destruct (key_entry _ _ HPi) as (p' & ks' & He). pose proof (lookup_in _ _ _ _ Nk (loose_flat_incl _ _ Hin _ He)) as Hl.
    unfold node_of in HP. rewrite Hl in HP. injection HP as -> ->. apply Hx. apply (proj2 (entry_ids _ _ _ _ He)), Hxk. }
  split; [exact HPn|]. intros y Hy Hyi.
  apply (Permutation_in _ (ids_kid_ids tn)) in Hyi. destruct Hyi as [E|Hyi].
  - (* y is the parentless root itself: it cannot also be somebody's child *)
    pose proof (Permutation_NoDup (world_ids_perm w) N) as N2. apply (nodup_app_disj _ _ y N2).
    + rewrite <- E. apply in_map. unfold forest. apply in_or_app. right. exact Hin.
    + unfold all_kid_ids. apply in_flat_map. exists (P, p, ks). split; [apply lookup_some_in; exact HP|exact Hy].
  - unfold all_kid_ids in Hyi. apply in_flat_map in Hyi as ([[P' p'] ks'] & He & Hy'). cbn [snd] in Hy'.
    pose proof (lookup_in _ _ _ _ Nk (loose_flat_incl _ _ Hin _ He)) as Hl.
    destruct (parent_unique w P p ks P' p' ks' y N HP Hl Hy Hy') as [-> _]. apply HPn. apply (proj1 (entry_ids _ _ _ _ He)).
Qed.

(* ------------------------------------------------------------------ content assignment on the flat view *)
Lemma set_text_first_split x s a xk (b : list itree) : has_id x xk = true -> existsb (has_id x) a = false ->
  set_text_first x s (a ++ xk :: b) = a ++ set_text s xk :: b.
Proof.
  intros H1. induction a as [|t r IH]; cbn [app set_text_first existsb]; intros H2; [rewrite H1; reflexivity|].
  apply orb_false_iff in H2 as [H2 H3]. rewrite H2, (IH H3). reflexivity.
Qed.
Lemma perm_mid {X} (e : X) (a b : list X) : Permutation (a ++ e :: b) (e :: a ++ b).
Proof. apply Permutation_sym, Permutation_middle. Qed.

Theorem set_content_effect x s w old ks : NoDup (world_ids_a w) -> sibs_ok w ->
  node_of w x = Some (PText old, ks) -> (is_loose w x = true \/ w_parent w x <> None) ->
  (forall q, node_of (apply_a (USetContent x s) w) q = if N.eqb x q then Some (PText s, ks) else node_of w q) /\
  loose_ids (apply_a (USetContent x s) w) = loose_ids w /\ doc_shape (apply_a (USetContent x s) w) = doc_shape w.
Proof.
  intros N S Hx Hwhere. assert (Nk : NoDup (map ekey (wflat w))) by (rewrite wflat_keys; exact N). cbn [apply_a].
  destruct (is_loose w x) eqn:El.
  - unfold is_loose in El. destruct (in_split_first _ _ El) as (l1 & t & l2 & Eloose & Ht & Hl1).
    assert (Hin : In t (loose w)) by (rewrite Eloose; apply in_or_app; right; left; reflexivity).
    assert (Hid : iid t = x) by (unfold has_id in Ht; apply N.eqb_eq, Ht).
    pose proof (loose_find_unique _ _ N Hin) as Hf. rewrite Hid in Hf. rewrite w_find_node_of, Hf in Hx. cbn [option_map] in Hx.
    destruct t as [i pt kk]. cbn in Hid. subst i. unfold entry_of in Hx. cbn [ipayload ikids] in Hx. injection Hx as -> <-.
    rewrite Eloose, (set_text_first_split _ _ _ _ _ Ht Hl1). cbn [set_text].
    set (D := flat_map flat (flat_map doc_nodes (docs w))).
    set (X := D ++ flat_map flat l1 ++ flat_map flat kk ++ flat_map flat l2).
    assert (PW : Permutation (wflat w) ((x, PText old, map iid kk) :: X)).
    { unfold wflat, forest. rewrite Eloose, !flat_map_app. cbn [flat_map]. rewrite flat_eq. fold D. unfold X.
      rewrite (app_assoc D). rewrite <- app_comm_cons. rewrite perm_mid. rewrite <- !app_assoc. reflexivity. }
    assert (PW' : Permutation (wflat {| docs := docs w; loose := l1 ++ INode x (PText s) kk :: l2 |}) ((x, PText s, map iid kk) :: X)).
    { unfold wflat, forest. cbn [docs loose]. rewrite !flat_map_app. cbn [flat_map]. rewrite flat_eq. fold D. unfold X.
      rewrite (app_assoc D). rewrite <- app_comm_cons. rewrite perm_mid. rewrite <- !app_assoc. reflexivity. }
    split; [|split].
    + intros q. unfold node_of. apply (lookup_swap2 q x (PText old) (PText s) (map iid kk) (map iid kk) X _ _ Nk PW PW').
    + unfold loose_ids. cbn [loose]. rewrite Eloose, !map_app. reflexivity.
    + reflexivity.
  - destruct Hwhere as [Hc|Hp]; [discriminate|].
    assert (Gid : forall s0 s' a, at_parent_of x (set_text_first x s) s0 = Some (s', a) -> iid s' = iid s0).
    { intros [i p kids] s' a. cbn [at_parent_of]. destruct (existsb (has_id x) kids); [|discriminate]. intros H. injection H as <- _. reflexivity. }
    destruct (w_rw (at_parent_of x (set_text_first x s)) w) as [[w1 []]|] eqn:Er.
    2:{ exfalso. apply Hp. apply (w_rw_parent x (set_text_first x s) w S). exact Er. }
    destruct (w_rw_flat _ Gid _ _ _ Er) as (Hds & Hlo & pre & post & s0 & s0' & Hgs & E1 & E2).
    destruct s0 as [P p kids]. cbn [at_parent_of] in Hgs. destruct (existsb (has_id x) kids) eqn:Ex; [|discriminate]. injection Hgs as <-.
    destruct (in_split_first _ _ Ex) as (a & xk & b & -> & Hxk & Ha). rewrite (set_text_first_split _ _ _ _ _ Hxk Ha) in E2.
    assert (Hid : iid xk = x) by (unfold has_id in Hxk; apply N.eqb_eq, Hxk). destruct xk as [i pk kk]. cbn in Hid. subst i.
    assert (Hin : In (x, pk, map iid kk) (wflat w)).
    { rewrite E1. apply in_or_app. right. apply in_or_app. left. rewrite flat_eq. right. rewrite flat_map_flat_app. apply in_or_app. right.
      cbn [flat_map]. rewrite flat_eq. left. reflexivity. }
    unfold node_of in Hx. rewrite (lookup_in _ _ _ _ Nk Hin) in Hx. injection Hx as -> <-. cbn [set_text] in E2.
    assert (Hids : map iid (a ++ INode x (PText s) kk :: b) = map iid (a ++ INode x (PText old) kk :: b)) by (rewrite !map_app; reflexivity).
    set (A1 := pre ++ (P, p, map iid (a ++ INode x (PText old) kk :: b)) :: flat_map flat a).
    set (B1 := flat_map flat kk ++ flat_map flat b ++ post).
    set (X := A1 ++ B1).
    assert (EW : wflat w = A1 ++ (x, PText old, map iid kk) :: B1).
    { rewrite E1, flat_eq, flat_map_flat_app. cbn [flat_map]. rewrite flat_eq. unfold A1, B1.
      repeat (rewrite <- ?app_assoc; cbn [app]). reflexivity. }
    assert (EW' : wflat w1 = A1 ++ (x, PText s, map iid kk) :: B1).
    { rewrite E2, flat_eq, flat_map_flat_app, Hids. cbn [flat_map]. rewrite flat_eq. unfold A1, B1.
      repeat (rewrite <- ?app_assoc; cbn [app]). reflexivity. }
    assert (PW : Permutation (wflat w) ((x, PText old, map iid kk) :: X)) by (rewrite EW; apply perm_mid).
    assert (PW' : Permutation (wflat w1) ((x, PText s, map iid kk) :: X)) by (rewrite EW'; apply perm_mid).
    split; [|split; assumption].
    intros q. unfold node_of. apply (lookup_swap2 q x (PText old) (PText s) (map iid kk) (map iid kk) X _ _ Nk PW PW').
Qed.

(* ------------------------------------------------------------------ where a node can be *)
Lemma t_find_inner x T t : t_find x T = Some t -> iid T <> x -> t_parent x T <> None.
Proof.
  induction T as [i p kids IH] using itree_ind'. cbn [t_find iid]. destruct (N.eqb_spec i x) as [E|E]; [intros _ H; contradiction|].
  fold (first_some (t_find x)). intros H _. cbn [t_parent]. destruct (existsb (has_id x) kids) eqn:Ex; [discriminate|].
  fold (first_some (t_parent x)). destruct (first_some_in _ _ _ H) as (k & Hk & Hf).
  assert (Hne : iid k <> x).
  { intros Hid. assert (existsb (has_id x) kids = true); [|congruence]. apply existsb_exists. exists k. split; [exact Hk|]. unfold has_id. apply N.eqb_eq, Hid. }
  rewrite Forall_forall in IH. specialize (IH k Hk Hf Hne). clear -Hk IH. induction kids as [|k' r IHr]; [destruct Hk|].
  cbn [first_some]. destruct (t_parent x k') eqn:E; [discriminate|]. destruct Hk as [->|Hk]; [contradiction|]. apply IHr, Hk.
Qed.
Lemma first_some_exists {X Y} (f : X -> option Y) l t : In t l -> f t <> None -> first_some f l <> None.
Proof.
  induction l as [|a r IH]; intros Hin Hf; [destruct Hin|]. cbn [first_some]. destruct (f a) eqn:E; [discriminate|].
  destruct Hin as [->|Hin]; [contradiction|]. apply IH; assumption.
Qed.
Definition roots_tag (w : world) : Prop := forall d, In d (docs w) -> ikind (doc_root d) = NTag.
Lemma text_place w x t : sibs_ok w -> roots_tag w -> w_find w x = Some t -> ikind t = NText ->
  is_loose w x = true \/ w_parent w x <> None.
Proof.
  intros S R Hf Hk. unfold w_find in Hf. destruct (first_some_in _ _ _ Hf) as (T & HT & HfT).
  destruct (N.eq_dec (iid T) x) as [E|E].
  - (* the found node is the top of its tree *)
    assert (t = T) by (destruct T as [i p kk]; cbn in E; subst i; cbn [t_find] in HfT; rewrite N.eqb_refl in HfT; injection HfT as <-; reflexivity).
    subst t. unfold forest in HT. apply in_app_or in HT. destruct HT as [HT|HT].
    + exfalso. apply in_flat_map in HT as ([[pro r] epi] & Hd & Hin). cbn [doc_nodes] in Hin. apply in_app_or in Hin.
      destruct Hin as [Hin|[<-|Hin]].
      * destruct (S _ T Hd (in_or_app _ _ _ (or_introl Hin))) as [_ H2]. rewrite Hk in H2. discriminate.
      * pose proof (R _ Hd) as H2. cbn in H2. rewrite Hk in H2. discriminate.
      * destruct (S _ T Hd (in_or_app _ _ _ (or_intror Hin))) as [_ H2]. rewrite Hk in H2. discriminate.
    + left. unfold is_loose. apply existsb_exists. exists T. split; [exact HT|]. unfold has_id. apply N.eqb_eq, E.
  - right. unfold w_parent. apply (first_some_exists _ _ T HT). eapply t_find_inner; eassumption.
Qed.

Lemma not_own_kid_t T P p ks : NoDup (ids T) -> In (P, p, ks) (flat T) -> ~ In P ks.
Proof.
  induction T as [i q kids IH] using itree_ind'. rewrite ids_eq, flat_eq. intros N [E|Hin].
  - injection E as -> -> <-. inversion N as [|? ? Hn _]; subst. intros Hi. apply Hn. apply in_map_iff in Hi as (k & Hk & Hin).
    apply in_flat_map. exists k. split; [exact Hin|]. rewrite <- Hk. apply iid_in_ids.
  - apply in_flat_map in Hin as (k & Hk & Hin). rewrite Forall_forall in IH. apply (IH k Hk); [|exact Hin].
    inversion N as [|? ? _ N']; subst. clear -Hk N'. induction kids as [|k' r IHr]; [destruct Hk|]. cbn [flat_map] in N'.
    destruct Hk as [->|Hk]; [apply nodup_app_l in N'; exact N'|]. apply IHr; [exact Hk|].
    apply (Permutation_NoDup (Permutation_app_comm _ _)) in N'. apply nodup_app_l in N'. exact N'.
Qed.
Lemma not_own_kid w P p ks : NoDup (world_ids_a w) -> node_of w P = Some (p, ks) -> ~ In P ks.
Proof.
  intros N H. unfold node_of in H. apply lookup_some_in in H. unfold wflat in H. apply in_flat_map in H as (T & HT & Hin).
  apply (not_own_kid_t T P p ks); [|exact Hin]. unfold world_ids_a in N. clear -HT N. induction (forest w) as [|t r IH]; [destruct HT|].
  cbn [flat_map] in N. destruct HT as [->|HT]; [apply nodup_app_l in N; exact N|]. apply IH; [|exact HT].
  apply (Permutation_NoDup (Permutation_app_comm _ _)) in N. apply nodup_app_l in N. exact N.
Qed.
Lemma index_of_split x (a : list itree) xk b : has_id x xk = true -> existsb (has_id x) a = false -> index_of x (a ++ xk :: b) = length a.
Proof.
  intros H1 H2. unfold index_of.
  assert (G : forall i, (fix go (l : list itree) (i : nat) {struct l} : nat :=
    match l with [] => i | t :: r => if has_id x t then i else go r (Datatypes.S i) end) (a ++ xk :: b) i = (i + length a)%nat).
  { induction a as [|t r IH]; intros i; cbn [app length].
    - rewrite H1. lia.
    - cbn [existsb] in H2. apply orb_false_iff in H2 as [H2 H3]. rewrite H2, (IH H3). lia. }
  exact (G 0%nat).
Qed.
