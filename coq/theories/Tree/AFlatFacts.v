(* Facts about the flat view: what a rewrite at one node does to it, and lookups under unique identities. *)
From Coq Require Import Permutation Lia.
From Delb.Base Require Import PyStr.
From Delb.Tree Require Import ATree ITree AOps AGuard AOpsFacts AFlat.

Lemma flat_eq i p kids : flat (INode i p kids) = (i, p, map iid kids) :: flat_map flat kids. Proof. reflexivity. Qed.
Lemma flat_keys t : map ekey (flat t) = ids t.
Proof.
  induction t as [i p kids IH] using itree_ind'. rewrite flat_eq, ids_eq. cbn [map ekey fst]. apply (f_equal (cons i)).
  induction kids as [|k r IHr]; [reflexivity|]. inversion IH as [|? ? Hk Hr]; subst. cbn [flat_map]. rewrite map_app, Hk, (IHr Hr).
  reflexivity.
Qed.
Lemma wflat_keys w : map ekey (wflat w) = world_ids_a w.
Proof.
  unfold wflat, world_ids_a. induction (forest w) as [|t r IH]; [reflexivity|]. cbn [flat_map]. rewrite map_app, flat_keys, IH.
  reflexivity.
Qed.

(* ------------------------------------------------------------------ lookups *)
Lemma lookup_app q l1 l2 : lookup q (l1 ++ l2) = match lookup q l1 with Some r => Some r | None => lookup q l2 end.
Proof. induction l1 as [|[[i p] ks] r IH]; [reflexivity|]. cbn [app lookup]. destruct (N.eqb i q); [reflexivity|exact IH]. Qed.
Lemma lookup_none q l : ~ In q (map ekey l) -> lookup q l = None.
Proof.
  induction l as [|[[i p] ks] r IH]; [reflexivity|]. cbn [map ekey fst lookup]. intros H.
  destruct (N.eqb_spec i q) as [E|E]; [exfalso; apply H; left; exact E|]. apply IH. intros Hin. apply H. right. exact Hin.
Qed.
Lemma lookup_in q l p ks : NoDup (map ekey l) -> In (q, p, ks) l -> lookup q l = Some (p, ks).
Proof.
  induction l as [|[[i p'] ks'] r IH]; intros N Hin; [destruct Hin|]. cbn [map ekey fst] in N. inversion N as [|? ? Hn Hr]; subst.
  cbn [lookup]. destruct Hin as [E|Hin].
  - injection E as -> -> ->. rewrite N.eqb_refl. reflexivity.
  - destruct (N.eqb_spec i q) as [E|E]; [|apply IH; assumption]. subst. exfalso. apply Hn.
    apply (in_map ekey) in Hin. exact Hin.
Qed.
Lemma lookup_some_in q l p ks : lookup q l = Some (p, ks) -> In (q, p, ks) l.
Proof.
  induction l as [|[[i p'] ks'] r IH]; [discriminate|]. cbn [lookup]. destruct (N.eqb_spec i q) as [E|E].
  - intros H. injection H as -> ->. subst. left. reflexivity.
  - intros H. right. apply IH, H.
Qed.
Lemma lookup_perm q l l' : NoDup (map ekey l) -> Permutation l l' -> lookup q l = lookup q l'.
Proof.
  intros N P. assert (N' : NoDup (map ekey l')) by (eapply Permutation_NoDup; [apply Permutation_map, P|exact N]).
  destruct (lookup q l) as [[p ks]|] eqn:E.
  - symmetry. apply lookup_in; [exact N'|]. eapply Permutation_in; [exact P|]. apply lookup_some_in, E.
  - destruct (lookup q l') as [[p ks]|] eqn:E'; [|reflexivity]. apply lookup_some_in in E'.
    apply (Permutation_in _ (Permutation_sym P)) in E'. rewrite (lookup_in _ _ _ _ N E') in E. discriminate.
Qed.
(* two lists that agree except for the entry of P *)
Lemma lookup_swap q P p ks ks' X l l' :
  NoDup (map ekey l) -> Permutation l ((P, p, ks) :: X) -> Permutation l' ((P, p, ks') :: X) ->
  lookup q l' = if N.eqb P q then Some (p, ks') else lookup q l.
Proof.
  intros N H H'.
  assert (N1 : NoDup (map ekey ((P, p, ks) :: X))) by (eapply Permutation_NoDup; [apply Permutation_map, H|exact N]).
  assert (N' : NoDup (map ekey l')).
  { eapply Permutation_NoDup; [apply Permutation_map, Permutation_sym, H'|]. exact N1. }
  rewrite (lookup_perm q l' _ N' H'), (lookup_perm q l _ N H). cbn [lookup]. destruct (N.eqb P q); reflexivity.
Qed.

(* ------------------------------------------------------------------ a rewrite changes the flat view at one node *)
Section RwFlat.
  Context {A : Type}.
  Variable g : itree -> option (itree * A).
  Hypothesis g_id : forall s s' a, g s = Some (s', a) -> iid s' = iid s.

  Definition at_one (l l' : list entry) (a : A) : Prop :=
    exists pre post s s', g s = Some (s', a) /\ l = pre ++ flat s ++ post /\ l' = pre ++ flat s' ++ post.

  Lemma t_rw_flat t : forall t' a, t_rw g t = Some (t', a) -> iid t' = iid t /\ at_one (flat t) (flat t') a.
  Proof.
    induction t as [i p kids IH] using itree_ind'. intros t' a E. cbn [t_rw] in E.
    destruct (g (INode i p kids)) as [[t1 a1]|] eqn:Eg.
    - injection E as <- <-. split; [apply (g_id _ _ _ Eg)|]. exists [], [], (INode i p kids), t1.
      rewrite !app_nil_r. auto.
    - fold (rw_list (t_rw g)) in E. destruct (rw_list (t_rw g) kids) as [[kids' a']|] eqn:Ek; [|discriminate].
      injection E as <- <-. split; [reflexivity|].
      assert (K : map iid kids' = map iid kids /\ at_one (flat_map flat kids) (flat_map flat kids') a').
      { clear Eg. revert kids' a' Ek. induction kids as [|k r IHr]; intros kids' a' Ek; [discriminate|].
        inversion IH as [|? ? Hk Hr]; subst. cbn [rw_list] in Ek. destruct (t_rw g k) as [[k' ak]|] eqn:Etk.
        - injection Ek as <- <-. destruct (Hk _ _ eq_refl) as [Hid (pre & post & s & s' & Hg & E1 & E2)]. split.
          + cbn [map]. rewrite Hid. reflexivity.
          + exists pre, (post ++ flat_map flat r), s, s'. cbn [flat_map]. rewrite E1, E2, <- !app_assoc. auto.
        - fold (rw_list (t_rw g)) in Ek. destruct (rw_list (t_rw g) r) as [[r' ar]|] eqn:Er; [|discriminate].
          injection Ek as <- <-. destruct (IHr Hr _ _ eq_refl) as [Hid (pre & post & s & s' & Hg & E1 & E2)]. split.
          + cbn [map]. rewrite Hid. reflexivity.
          + exists (flat k ++ pre), post, s, s'. cbn [flat_map]. rewrite E1, E2, <- !app_assoc. auto. }
      destruct K as [Hid (pre & post & s & s' & Hg & E1 & E2)]. rewrite !flat_eq, Hid.
      exists ((i, p, map iid kids) :: pre), post, s, s'. rewrite E1, E2. auto.
  Qed.

  Lemma rw_list_flat l : forall l' a, rw_list (t_rw g) l = Some (l', a) ->
    map iid l' = map iid l /\ at_one (flat_map flat l) (flat_map flat l') a.
  Proof.
    induction l as [|k r IHr]; intros l' a Ek; [discriminate|]. cbn [rw_list] in Ek.
    destruct (t_rw g k) as [[k' ak]|] eqn:Etk.
    - injection Ek as <- <-. destruct (t_rw_flat _ _ _ Etk) as [Hid (pre & post & s & s' & Hg & E1 & E2)]. split.
      + cbn [map]. rewrite Hid. reflexivity.
      + exists pre, (post ++ flat_map flat r), s, s'. cbn [flat_map]. rewrite E1, E2, <- !app_assoc. auto.
    - fold (rw_list (t_rw g)) in Ek. destruct (rw_list (t_rw g) r) as [[r' ar]|] eqn:Er; [|discriminate].
      injection Ek as <- <-. destruct (IHr _ _ eq_refl) as [Hid (pre & post & s & s' & Hg & E1 & E2)]. split.
      + cbn [map]. rewrite Hid. reflexivity.
      + exists (flat k ++ pre), post, s, s'. cbn [flat_map]. rewrite E1, E2, <- !app_assoc. auto.
  Qed.

  Lemma forest_flat_docs ds : flat_map flat (flat_map doc_nodes ds)
    = flat_map (fun d => match d with (pro, r, epi) => flat_map flat pro ++ flat r ++ flat_map flat epi end) ds.
  Proof.
    induction ds as [|[[pro r] epi] rest IH]; [reflexivity|]. cbn [flat_map doc_nodes]. rewrite !flat_map_app, IH.
    cbn [flat_map]. rewrite <- !app_assoc. reflexivity.
  Qed.

  Lemma rw_docs_flat ds : forall ds' a, rw_docs g ds = Some (ds', a) ->
    map (fun d => match d with (pro, r, epi) => (map iid pro, iid r, map iid epi) end) ds'
    = map (fun d => match d with (pro, r, epi) => (map iid pro, iid r, map iid epi) end) ds /\
    at_one (flat_map flat (flat_map doc_nodes ds)) (flat_map flat (flat_map doc_nodes ds')) a.
  Proof.
    induction ds as [|[[pro r] epi] rest IH]; intros ds' a E; [discriminate|]. cbn [rw_docs] in E.
    destruct (t_rw g r) as [[r' ar]|] eqn:Er.
    - injection E as <- <-. destruct (t_rw_flat _ _ _ Er) as [Hid (pre & post & s & s' & Hg & E1 & E2)]. split.
      + cbn [map]. rewrite Hid. reflexivity.
      + rewrite !forest_flat_docs. cbn [flat_map]. rewrite E1, E2.
        exists (flat_map flat pro ++ pre),
               (post ++ flat_map flat epi ++ flat_map (fun d => match d with (pro, r, epi) => flat_map flat pro ++ flat r ++ flat_map flat epi end) rest),
               s, s'.
        rewrite <- !app_assoc. auto.
    - fold (rw_docs g) in E. destruct (rw_docs g rest) as [[rest' a']|] eqn:Es; [|discriminate].
      injection E as <- <-. destruct (IH _ _ eq_refl) as [Hid (pre & post & s & s' & Hg & E1 & E2)]. split.
      + cbn [map]. rewrite Hid. reflexivity.
      + cbn [flat_map]. rewrite !flat_map_app, E1, E2.
        exists (flat_map flat (doc_nodes (pro, r, epi)) ++ pre), post, s, s'. rewrite <- !app_assoc. auto.
  Qed.

  Lemma w_rw_flat w w' a : w_rw g w = Some (w', a) ->
    doc_shape w' = doc_shape w /\ loose_ids w' = loose_ids w /\ at_one (wflat w) (wflat w') a.
  Proof.
    unfold w_rw, wflat, forest, doc_shape, loose_ids. intros E. destruct (rw_docs g (docs w)) as [[d' a']|] eqn:Ed.
    - injection E as <- <-. cbn [docs loose]. destruct (rw_docs_flat _ _ _ Ed) as [Hs (pre & post & s & s' & Hg & E1 & E2)].
      split; [exact Hs|]. split; [reflexivity|]. rewrite !flat_map_app, E1, E2.
      exists pre, (post ++ flat_map flat (loose w)), s, s'. rewrite <- !app_assoc. auto.
    - destruct (rw_list (t_rw g) (loose w)) as [[l' a']|] eqn:El; [|discriminate]. injection E as <- <-. cbn [docs loose].
      destruct (rw_list_flat _ _ _ El) as [Hid (pre & post & s & s' & Hg & E1 & E2)].
      split; [reflexivity|]. split; [exact Hid|]. rewrite !flat_map_app, E1, E2.
      exists (flat_map flat (flat_map doc_nodes (docs w)) ++ pre), post, s, s'. rewrite <- !app_assoc. auto.
  Qed.
End RwFlat.

(* ------------------------------------------------------------------ what each primitive update does to the flat view *)
Lemma take_id_split x l : forall u r, take_id x l = Some (u, r) ->
  exists l1 l2, l = l1 ++ u :: l2 /\ r = l1 ++ l2 /\ has_id x u = true /\ existsb (has_id x) l1 = false.
Proof.
  induction l as [|t l IH]; intros u r E; [discriminate|]. cbn [take_id] in E. destruct (has_id x t) eqn:Et.
  - injection E as <- <-. exists [], l. auto.
  - destruct (take_id x l) as [[u' r']|] eqn:El; [|discriminate]. injection E as <- <-.
    destruct (IH _ _ eq_refl) as (l1 & l2 & -> & -> & H1 & H2). exists (t :: l1), l2. cbn [app existsb]. rewrite Et, H2. auto.
Qed.
Lemma remove_first_split x (l1 : list itree) u l2 : has_id x u = true -> existsb (has_id x) l1 = false ->
  remove_first x (map iid (l1 ++ u :: l2)) = map iid (l1 ++ l2).
Proof.
  intros Hu. induction l1 as [|t r IH]; cbn [app map remove_first existsb]; intros H.
  - unfold has_id in Hu. rewrite Hu. reflexivity.
  - apply orb_false_iff in H as [H1 H2]. unfold has_id in H1. rewrite H1, (IH H2). reflexivity.
Qed.
Lemma in_split_first x (l : list itree) : existsb (has_id x) l = true ->
  exists a xk b, l = a ++ xk :: b /\ has_id x xk = true /\ existsb (has_id x) a = false.
Proof.
  induction l as [|t r IH]; [discriminate|]. cbn [existsb]. destruct (has_id x t) eqn:Et.
  - intros _. exists [], t, r. auto.
  - cbn [orb]. intros H. destruct (IH H) as (a & xk & b & -> & H1 & H2). exists (t :: a), xk, b. cbn [app existsb].
    rewrite Et, H2. auto.
Qed.
Lemma ins_after_split x n a xk b : has_id x xk = true -> existsb (has_id x) a = false ->
  ins_after x n (a ++ xk :: b) = a ++ xk :: n :: b.
Proof.
  intros H1. induction a as [|t r IH]; cbn [app ins_after existsb]; intros H2; [rewrite H1; reflexivity|].
  apply orb_false_iff in H2 as [H2 H3]. rewrite H2, (IH H3). reflexivity.
Qed.
Lemma ins_before_split x n a xk b : has_id x xk = true -> existsb (has_id x) a = false ->
  ins_before x n (a ++ xk :: b) = a ++ n :: xk :: b.
Proof.
  intros H1. induction a as [|t r IH]; cbn [app ins_before existsb]; intros H2; [rewrite H1; reflexivity|].
  apply orb_false_iff in H2 as [H2 H3]. rewrite H2, (IH H3). reflexivity.
Qed.
Lemma find_split x a xk (b : list itree) : has_id x xk = true -> existsb (has_id x) a = false ->
  find (has_id x) (a ++ xk :: b) = Some xk.
Proof.
  intros H1. induction a as [|t r IH]; cbn [app find existsb]; intros H2; [rewrite H1; reflexivity|].
  apply orb_false_iff in H2 as [H2 H3]. rewrite H2. apply IH, H3.
Qed.
Lemma existsb_ids x (l : list itree) : existsb (has_id x) l = existsb (N.eqb x) (map iid l).
Proof.
  induction l as [|t r IH]; [reflexivity|]. cbn [existsb map]. rewrite IH. unfold has_id. rewrite N.eqb_sym. reflexivity.
Qed.

(* where a node lands: its new parent's children split into those before and those after it *)
Definition lands (Pos : list nid -> list nid -> Prop) (t s s' : itree) : Prop :=
  exists a b, ikids s = a ++ b /\ s' = INode (iid s) (ipayload s) (a ++ t :: b) /\ Pos (map iid a) (map iid b).
(* directly after the first x / directly before the first x / first / last *)
Definition pos_after (x : nid) (La Lb : list nid) : Prop := exists L0, La = L0 ++ [x] /\ ~ In x L0.
Definition pos_before (x : nid) (La Lb : list nid) : Prop := exists L1, Lb = x :: L1 /\ ~ In x La.
Definition pos_first (La Lb : list nid) : Prop := La = [].
Definition pos_last (La Lb : list nid) : Prop := Lb = [].

Lemma not_in_existsb x (l : list itree) : existsb (has_id x) l = false -> ~ In x (map iid l).
Proof. rewrite existsb_ids. intros H. apply memb_false. exact H. Qed.

Lemma lands_after x t s s' u : at_parent_of x (ins_after x t) s = Some (s', u) -> lands (pos_after x) t s s'.
Proof.
  destruct s as [i p kids]. cbn [at_parent_of]. destruct (existsb (has_id x) kids) eqn:E; [|discriminate].
  intros H. injection H as <- _. destruct (in_split_first _ _ E) as (a & xk & b & -> & H1 & H2).
  exists (a ++ [xk]), b. cbn [ikids iid ipayload]. rewrite <- !app_assoc. cbn [app]. split; [reflexivity|].
  split; [rewrite (ins_after_split _ _ _ _ _ H1 H2); reflexivity|]. exists (map iid a). rewrite map_app. cbn [map].
  unfold has_id in H1. apply N.eqb_eq in H1. rewrite H1. split; [reflexivity|apply not_in_existsb, H2].
Qed.
Lemma lands_before x t s s' u : g_before x t s = Some (s', u) -> lands (pos_before x) t s s'.
Proof.
  destruct s as [i p kids]. cbn [g_before]. destruct (find (has_id x) kids) as [xk0|] eqn:E; [|discriminate].
  destruct (is_itext t && negb (is_itext xk0))%bool; [discriminate|]. intros H. injection H as <- _.
  destruct (in_split_first _ _ (find_existsb _ _ _ E)) as (a & xk & b & -> & H1 & H2).
  exists a, (xk :: b). cbn [ikids iid ipayload]. split; [reflexivity|].
  split; [rewrite (ins_before_split _ _ _ _ _ H1 H2); reflexivity|]. exists (map iid b). cbn [map].
  unfold has_id in H1. apply N.eqb_eq in H1. rewrite H1. split; [reflexivity|apply not_in_existsb, H2].
Qed.
Lemma lands_first p t s s' u : at_tag p (fun q => INode (iid q) (ipayload q) (t :: ikids q)) s = Some (s', u) ->
  lands pos_first t s s'.
Proof.
  unfold at_tag. destruct (has_id p s && nkind_eqb (ikind s) NTag)%bool; [|discriminate]. intros H. injection H as <- _.
  exists [], (ikids s). cbn [app map]. repeat split; reflexivity.
Qed.
Lemma lands_last p t s s' u : at_tag p (fun q => INode (iid q) (ipayload q) (ikids q ++ [t])) s = Some (s', u) ->
  lands pos_last t s s'.
Proof.
  unfold at_tag. destruct (has_id p s && nkind_eqb (ikind s) NTag)%bool; [|discriminate]. intros H. injection H as <- _.
  exists (ikids s), []. rewrite app_nil_r. repeat split; reflexivity.
Qed.

Lemma lands_id Pos t s s' : lands Pos t s s' -> iid s' = iid s.
Proof. intros (a & b & _ & -> & _). reflexivity. Qed.

Lemma flat_map_flat_app l1 l2 : flat_map flat (l1 ++ l2) = flat_map flat l1 ++ flat_map flat l2.
Proof. apply flat_map_app. Qed.

Lemma perm_swap3 {X} (a b c : list X) : Permutation (a ++ b ++ c) (b ++ a ++ c).
Proof. rewrite !app_assoc. apply Permutation_app_tail. apply Permutation_app_comm. Qed.

Lemma perm_swap3' {X} (a b c : list X) : Permutation (a ++ b ++ c) (a ++ c ++ b).
Proof. apply Permutation_app_head. apply Permutation_app_comm. Qed.
Ltac fail_show := match goal with |- ?g => fail 0 g end.
(* the effect of moving the parentless node n to the place a local function g determines *)
Theorem move_effect n ok (g : itree -> itree -> option (itree * unit)) Pos w :
  (forall t s s' u, g t s = Some (s', u) -> lands Pos t s s') ->
  NoDup (world_ids_a w) ->
  a_move n ok g w = w \/
  exists tn P p La Lb,
    In tn (loose w) /\ iid tn = n /\ ok tn = true /\ node_of w P = Some (p, La ++ Lb) /\ Pos La Lb /\
    (forall q, node_of (a_move n ok g w) q = if N.eqb P q then Some (p, La ++ n :: Lb) else node_of w q) /\
    loose_ids (a_move n ok g w) = remove_first n (loose_ids w) /\ doc_shape (a_move n ok g w) = doc_shape w.
Proof.
  intros Hg N. unfold a_move, take_loose. destruct (take_id n (loose w)) as [[tn l']|] eqn:Et; [|left; reflexivity].
  destruct (ok tn) eqn:Eok; [|left; reflexivity].
  destruct (w_rw (g tn) {| docs := docs w; loose := l' |}) as [[w2 []]|] eqn:Er; [|left; reflexivity]. right.
  destruct (take_id_split _ _ _ _ Et) as (l1 & l2 & El & -> & Hn & Hl1).
  assert (Gid : forall s s' a, g tn s = Some (s', a) -> iid s' = iid s) by (intros s s' a H; eapply lands_id, Hg, H).
  destruct (w_rw_flat (g tn) Gid _ _ _ Er) as (Hds & Hlo & pre & post & s & s' & Hgs & E1 & E2).
  destruct (Hg _ _ _ _ Hgs) as (a & b & Hk & -> & HPos). destruct s as [P p kids]. cbn [ikids iid ipayload] in *. subst kids.
  exists tn, P, p, (map iid a), (map iid b).
  assert (Hin : In tn (loose w)) by (rewrite El; apply in_or_app; right; left; reflexivity).
  assert (Hid : iid tn = n) by (unfold has_id in Hn; apply N.eqb_eq, Hn).
  (* the entries of w and of the result, up to order *)
  set (X := flat tn ++ pre ++ flat_map flat a ++ flat_map flat b ++ post).
  assert (PW : Permutation (wflat w) ((P, p, map iid a ++ map iid b) :: X)).
  { assert (P1 : Permutation (wflat w) (flat tn ++ wflat {| docs := docs w; loose := l1 ++ l2 |})).
    { unfold wflat, forest. cbn [docs loose]. rewrite El, !flat_map_app. cbn [flat_map].
      set (D := flat_map flat (flat_map doc_nodes (docs w))). rewrite (app_assoc D). rewrite (app_assoc D _ (flat_map flat l2)).
      apply perm_swap3. }
    rewrite P1, E1. rewrite flat_eq, flat_map_flat_app, map_app. rewrite <- app_comm_cons, <- app_assoc.
    rewrite (app_assoc (flat tn) pre). apply Permutation_sym. unfold X. rewrite (app_assoc (flat tn) pre).
    apply Permutation_middle. }
  assert (PW' : Permutation (wflat w2) ((P, p, map iid a ++ n :: map iid b) :: X)).
  { rewrite E2, flat_eq. rewrite flat_map_flat_app. rewrite (List.map_app iid a (tn :: b)). cbn [map flat_map]. rewrite Hid.
    rewrite <- app_comm_cons, <- !app_assoc. apply Permutation_sym. etransitivity; [|apply Permutation_middle].
    apply perm_skip. unfold X. rewrite (app_assoc pre (flat_map flat a)). rewrite (app_assoc pre (flat_map flat a)).
    apply perm_swap3. }
  repeat split; try assumption.
  - unfold node_of. rewrite (lookup_perm P _ _ (eq_ind_r (fun l => NoDup l) N (wflat_keys w)) PW). cbn [lookup].
    rewrite N.eqb_refl. reflexivity.
  - intros q. unfold node_of.
    apply (lookup_swap q P p (map iid a ++ map iid b) (map iid a ++ n :: map iid b) X); [rewrite wflat_keys; exact N|exact PW|exact PW'].
  - rewrite Hlo. unfold loose_ids. cbn [loose]. rewrite El. symmetry. apply remove_first_split; assumption.
Qed.

Lemma wflat_add_loose t w : wflat (add_loose t w) = wflat w ++ flat t.
Proof. unfold wflat, forest, add_loose. cbn [docs loose]. rewrite !flat_map_app. cbn [flat_map]. rewrite app_nil_r, app_assoc. reflexivity. Qed.

Theorem detach_effect x w : NoDup (world_ids_a w) ->
  apply_a (UDetach x) w = w \/
  exists P p La Lb,
    node_of w P = Some (p, La ++ x :: Lb) /\ ~ In x La /\
    (forall q, node_of (apply_a (UDetach x) w) q = if N.eqb P q then Some (p, La ++ Lb) else node_of w q) /\
    loose_ids (apply_a (UDetach x) w) = loose_ids w ++ [x] /\ doc_shape (apply_a (UDetach x) w) = doc_shape w.
Proof.
  intros N. cbn [apply_a]. destruct (w_rw (g_extract x) w) as [[w1 u]|] eqn:Er; [|left; reflexivity]. right.
  assert (Gid : forall s s' a, g_extract x s = Some (s', a) -> iid s' = iid s).
  { intros [i p kids] s' a. cbn [g_extract]. destruct (take_id x kids) as [[u' r]|]; [|discriminate]. intros H. injection H as <- _. reflexivity. }
  destruct (w_rw_flat (g_extract x) Gid _ _ _ Er) as (Hds & Hlo & pre & post & s & s' & Hgs & E1 & E2).
  destruct s as [P p kids]. cbn [g_extract] in Hgs. destruct (take_id x kids) as [[u' r]|] eqn:Et; [|discriminate].
  injection Hgs as <- <-. destruct (take_id_split _ _ _ _ Et) as (a & b & -> & -> & Hx & Ha).
  assert (Hid : iid u' = x) by (unfold has_id in Hx; apply N.eqb_eq, Hx).
  exists P, p, (map iid a), (map iid b).
  set (X := pre ++ flat_map flat a ++ flat_map flat b ++ post ++ flat u').
  assert (PW : Permutation (wflat w) ((P, p, map iid a ++ x :: map iid b) :: X)).
  { rewrite E1, flat_eq, flat_map_flat_app, (List.map_app iid a (u' :: b)). cbn [map flat_map]. rewrite Hid.
    rewrite <- app_comm_cons, <- !app_assoc. apply Permutation_sym. etransitivity; [|apply Permutation_middle].
    apply perm_skip. unfold X. apply Permutation_app_head. apply Permutation_app_head.
    rewrite (app_assoc (flat_map flat b) post). apply Permutation_app_comm. }
  assert (PW' : Permutation (wflat (add_loose u' w1)) ((P, p, map iid a ++ map iid b) :: X)).
  { rewrite wflat_add_loose, E2, flat_eq, flat_map_flat_app, (List.map_app iid a b).
    rewrite <- app_comm_cons, <- !app_assoc. apply Permutation_sym. unfold X.
    rewrite <- app_comm_cons, <- !app_assoc. apply Permutation_middle. }
  repeat split.
  - unfold node_of. rewrite (lookup_perm P _ _ (eq_ind_r (fun l => NoDup l) N (wflat_keys w)) PW). cbn [lookup].
    rewrite N.eqb_refl. reflexivity.
  - apply not_in_existsb, Ha.
  - intros q. unfold node_of.
    apply (lookup_swap q P p (map iid a ++ x :: map iid b) (map iid a ++ map iid b) X); [rewrite wflat_keys; exact N|exact PW|exact PW'].
  - unfold loose_ids, add_loose. cbn [loose]. rewrite map_app. cbn [map]. rewrite Hid. f_equal. exact Hlo.
  - unfold doc_shape, add_loose. cbn [docs]. exact Hds.
Qed.
