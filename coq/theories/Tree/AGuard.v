(* Decidable side conditions on the specification side (frame / identity / text-conservation theorems).
   Definitions only. *)
From Delb.Base Require Import PyStr.
From Delb.Tree Require Import ATree ITree AOps.

Definition memb (x : nid) (l : list nid) : bool := existsb (N.eqb x) l.

(* the nodes an update names *)
Definition upd_ids (u : upd) : list nid :=
  match u with
  | UNewText _ _ => []
  | UNewTag ctx _ _ _ => []
  | UAddFollowing x n | UTextAddPreceding x n | UAddPrevious x n | UBindData x n | UAppendEl x n => [x; n]
  | UDetach x | USetContent x _ | UMerge x => [x]
  end.
(* the objects an update creates *)
Definition upd_new (u : upd) : list nid :=
  match u with UNewText f _ | UNewTag _ f _ _ => [f] | _ => [] end.

(* no update of the run names a node of the tree t *)
Definition avoids (t : itree) (u : upd) : bool := forallb (fun x => negb (memb x (ids t))) (upd_ids u).
Fixpoint run_avoids (t : itree) (p : prog) (w : world) : bool :=
  match p with
  | Ret _ => true
  | Upd u k => avoids t u && run_avoids t k (apply_a u w)
  | Ask k => run_avoids t (k w) w
  end.

Definition world_ids_a (w : world) : list nid := flat_map ids (forest w).
(* every object created along the run is new *)
Fixpoint run_fresh (p : prog) (w : world) : bool :=
  match p with
  | Ret _ => true
  | Upd u k => forallb (fun f => negb (memb f (world_ids_a w))) (upd_new u) && run_fresh k (apply_a u w)
  | Ask k => run_fresh (k w) w
  end.

(* histories on the plain tree *)
Fixpoint arun_w (w : world) (ops : list (filt * op)) : world :=
  match ops with [] => w | (F, o) :: r => arun_w (fst (astep F w o)) r end.
Fixpoint hist_avoids (t : itree) (w : world) (ops : list (filt * op)) : bool :=
  match ops with
  | [] => true
  | (F, o) :: r => run_avoids t (script F o) w && hist_avoids t (fst (astep F w o)) r
  end.
Fixpoint hist_fresh (w : world) (ops : list (filt * op)) : bool :=
  match ops with
  | [] => true
  | (F, o) :: r => run_fresh (script F o) w && hist_fresh (fst (astep F w o)) r
  end.

(* text nodes of a world as (identity, content) pairs, in document order *)
Definition text_item (i : nid) (p : payload) : list (nid * str) := match p with PText s => [(i, s)] | _ => [] end.
Fixpoint tree_texts (t : itree) : list (nid * str) :=
  match t with INode i p kids => text_item i p ++ flat_map tree_texts kids end.
Definition world_texts (w : world) : list (nid * str) := flat_map tree_texts (forest w).

Definition structural (u : upd) : bool := match u with USetContent _ _ | UMerge _ => false | _ => true end.
(* the run neither assigns content nor merges: it only creates text nodes and moves nodes *)
Fixpoint run_structural (p : prog) (w : world) : bool :=
  match p with
  | Ret _ => true
  | Upd u k => structural u && run_structural k (apply_a u w)
  | Ask k => run_structural (k w) w
  end.
Fixpoint run_new_texts (p : prog) (w : world) : list (nid * str) :=
  match p with
  | Ret _ => []
  | Upd u k => (match u with UNewText f s => [(f, s)] | _ => [] end) ++ run_new_texts k (apply_a u w)
  | Ask k => run_new_texts (k w) w
  end.
