(* Merging adjacent text nodes and dropping empty ones: what TagNode.merge_text_nodes does to the
   content tree, and what an XML parser does implicitly. *)
From Delb.Base Require Import PyStr.
From Delb.Tree Require Import ATree.

Definition drop_empty (l : list node) : list node := filter (fun k => negb (is_empty_text k)) l.

Definition merge_items (rec : node -> node) :=
  fix go (l : list node) : list node :=
    match l with
    | [] => []
    | x :: r =>
        match x with
        | Text s => match go r with
                    | Text s' :: r' => Text (s ++ s') :: r'
                    | r' => Text s :: r'
                    end
        | _ => rec x :: go r
        end
    end.

Fixpoint merge_tree (n : node) : node :=
  match n with
  | Tag ns name attrs kids => Tag ns name attrs (drop_empty (merge_items merge_tree kids))
  | _ => n
  end.

(* no two adjacent text children anywhere *)
Fixpoint no_adjacent_text (prev_text : bool) (l : list node) : bool :=
  match l with
  | [] => true
  | x :: r => (negb (prev_text && is_text x) && no_adjacent_text (is_text x) r)%bool
  end.
Fixpoint merged (n : node) : bool :=
  match n with
  | Tag _ _ _ kids => (no_adjacent_text false kids && forallb merged kids)%bool
  | _ => true
  end.
(* no empty text node anywhere *)
Fixpoint no_empty (n : node) : bool :=
  match n with
  | Tag _ _ _ kids => forallb (fun k => (negb (is_empty_text k) && no_empty k)%bool) kids
  | _ => true
  end.
Definition clean (n : node) : bool := (merged n && no_empty n)%bool.
