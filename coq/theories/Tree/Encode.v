(* Canonical encoding of content trees as number lists, used by the correspondence check to
   bring model results out of Coq (harness/common.py enc_node computes the same on its side). *)
From Delb.Base Require Import PyStr.
From Delb.Tree Require Import ATree.

Definition enc_str (s : str) : list N := N.of_nat (length s) :: s.
Definition enc_attr (a : attr) : list N := let '(n, k, v) := a in enc_str n ++ enc_str k ++ enc_str v.
Fixpoint enc_node (n : node) : list N :=
  match n with
  | Tag ns name attrs kids =>
      0%N :: enc_str ns ++ enc_str name ++ N.of_nat (length attrs) :: flat_map enc_attr attrs
        ++ N.of_nat (length kids) :: flat_map enc_node kids
  | Text s => 1%N :: enc_str s
  | Comment s => 2%N :: enc_str s
  | PI t c => 3%N :: enc_str t ++ enc_str c
  end.
Definition enc_bool (b : bool) : list N := [if b then 1%N else 0%N].
Definition enc_list {A} (f : A -> list N) (l : list A) : list N := N.of_nat (length l) :: flat_map f l.
