(* The plain ordered tree *with node identity*: the specification side of the tree-edit,
   navigation, clone and XPath properties.  `nid` is the identity of a node object as a client
   sees it (`is`).  Definitions only. *)
From Delb.Base Require Import PyStr.
From Delb.Tree Require Import ATree.

Definition nid := N.

Inductive payload :=
| PTag (ns name : str) (attrs : list attr)     (* attributes under their presented (ns, local) keys *)
| PText (s : str)
| PComment (s : str)
| PPI (target content : str).

Inductive itree := INode (id : nid) (p : payload) (kids : list itree).

Definition iid (t : itree) : nid := match t with INode i _ _ => i end.
Definition ipayload (t : itree) : payload := match t with INode _ p _ => p end.
Definition ikids (t : itree) : list itree := match t with INode _ _ k => k end.

Section ITreeInd.
  Variable P : itree -> Prop.
  Hypothesis H : forall id p kids, Forall P kids -> P (INode id p kids).
  Fixpoint itree_ind' (t : itree) : P t :=
    match t with
    | INode id p kids =>
        H id p kids ((fix go (l : list itree) : Forall P l :=
                        match l with [] => Forall_nil P | x :: r => Forall_cons x (itree_ind' x) (go r) end) kids)
    end.
End ITreeInd.

(* forgetting identity: the content tree of ATree.v (kids of non-tag nodes are ignored) *)
Fixpoint content (t : itree) : node :=
  match t with
  | INode _ (PTag ns name attrs) kids => Tag ns name attrs (map content kids)
  | INode _ (PText s) _ => Text s
  | INode _ (PComment s) _ => Comment s
  | INode _ (PPI tg c) _ => PI tg c
  end.

(* all ids, in document (pre-)order *)
Fixpoint ids (t : itree) : list nid :=
  match t with INode i _ kids => i :: flat_map ids kids end.

(* a world: documents (prologue, root, epilogue) and parentless trees *)
Record world := { docs : list (list itree * itree * list itree); loose : list itree }.
