(* The flat view of a world: for every node its payload and the identities of its children, in document order, plus
   the identities at the top level.  With unique identities it is a finite map `node_of`; "a node keeps its parent,
   its position among its siblings and its payload" is an equation between such maps.  Definitions only. *)
From Delb.Base Require Import PyStr.
From Delb.Tree Require Import ATree ITree AOps AGuard.

Definition entry := (nid * payload * list nid)%type.
Definition ekey (e : entry) : nid := fst (fst e).
Fixpoint flat (t : itree) : list entry :=
  match t with INode i p kids => (i, p, map iid kids) :: flat_map flat kids end.
Definition wflat (w : world) : list entry := flat_map flat (forest w).
Fixpoint lookup (q : nid) (l : list entry) : option (payload * list nid) :=
  match l with
  | [] => None
  | (i, p, ks) :: r => if N.eqb i q then Some (p, ks) else lookup q r
  end.
(* payload and child identities of node q *)
Definition node_of (w : world) (q : nid) : option (payload * list nid) := lookup q (wflat w).
Definition loose_ids (w : world) : list nid := map iid (loose w).
Definition doc_shape (w : world) : list (list nid * nid * list nid) :=
  map (fun d => match d with (pro, r, epi) => (map iid pro, iid r, map iid epi) end) (docs w).

Definition kids_of (w : world) (q : nid) : list nid := match node_of w q with Some (_, ks) => ks | None => [] end.
Definition kind_id (w : world) (q : nid) : option nkind :=
  match node_of w q with Some (p, _) => Some (kind_of_payload p) | None => None end.
Definition vis_id (F : filt) (w : world) (q : nid) : bool :=
  match kind_id w q with Some k => vis F k | None => false end.
Fixpoint remove_first (x : nid) (l : list nid) : list nid :=
  match l with [] => [] | y :: r => if N.eqb y x then r else y :: remove_first x r end.
