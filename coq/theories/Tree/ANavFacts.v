(* Facts about navigation on the plain ordered tree (Tree/ANav.v): the mutual consistency of the relations,
   stated purely on `itree`.  Hypothesis everywhere: node identities are unique (`NoDup (ids t)`). *)
From Coq Require Import List NArith ZArith Bool Lia Permutation.
From Delb.Base Require Import PyStr.
From Delb.Tree Require Import ATree ITree ANav.
Import ListNotations.

(* ---------------------------------------------------------------- lists *)
Lemma memb_In n l : memb n l = true <-> In n l.
Proof.
  unfold memb. rewrite existsb_exists. split.
  - intros [x [H1 H2]]. apply N.eqb_eq in H2. subst. exact H1.
  - intros H. exists n. split; [exact H|apply N.eqb_refl].
Qed.
Lemma memb_false n l : memb n l = false <-> ~ In n l.
Proof. rewrite <- memb_In. destruct (memb n l); split; congruence. Qed.

Lemma after_split l1 n l2 : ~ In n l1 -> after n (l1 ++ n :: l2) = l2.
Proof.
  induction l1 as [|x r IH]; intros Hn; cbn.
  - rewrite N.eqb_refl. reflexivity.
  - destruct (N.eqb x n) eqn:E; [apply N.eqb_eq in E; subst; exfalso; apply Hn; left; reflexivity|].
    apply IH. intros H. apply Hn. right. exact H.
Qed.
Lemma before_split l1 n l2 : ~ In n l1 -> before n (l1 ++ n :: l2) = l1.
Proof.
  induction l1 as [|x r IH]; intros Hn; cbn.
  - rewrite N.eqb_refl. reflexivity.
  - destruct (N.eqb x n) eqn:E; [apply N.eqb_eq in E; subst; exfalso; apply Hn; left; reflexivity|].
    f_equal. apply IH. intros H. apply Hn. right. exact H.
Qed.
Lemma index_of_split l1 n l2 : ~ In n l1 -> index_of n (l1 ++ n :: l2) = Some (length l1).
Proof.
  induction l1 as [|x r IH]; intros Hn; cbn.
  - rewrite N.eqb_refl. reflexivity.
  - destruct (N.eqb x n) eqn:E; [apply N.eqb_eq in E; subst; exfalso; apply Hn; left; reflexivity|].
    rewrite IH; [reflexivity|]. intros H. apply Hn. right. exact H.
Qed.
Lemma in_split_first (n : nid) l : In n l -> exists l1 l2, l = l1 ++ n :: l2 /\ ~ In n l1.
Proof.
  induction l as [|x r IH]; intros H; [destruct H|].
  destruct (N.eq_dec x n) as [->|Hne].
  - exists [], r. split; [reflexivity|intros []].
  - destruct H as [H|H]; [congruence|]. destruct (IH H) as [l1 [l2 [E Hn]]].
    exists (x :: l1), l2. split; [cbn; rewrite E; reflexivity|]. intros [H1|H1]; [congruence|auto].
Qed.
Lemma before_after n l : In n l -> before n l ++ n :: after n l = l.
Proof.
  intros H. destruct (in_split_first n l H) as [l1 [l2 [E Hn]]]. subst l.
  rewrite before_split, after_split by exact Hn. reflexivity.
Qed.
Lemma after_not_in n l : ~ In n l -> after n l = [].
Proof.
  induction l as [|x r IH]; intros H; cbn; [reflexivity|].
  destruct (N.eqb x n) eqn:E; [apply N.eqb_eq in E; subst; exfalso; apply H; left; reflexivity|].
  apply IH. intros H1. apply H. right. exact H1.
Qed.
Lemma after_length n l : length (after n l) <= length l.
Proof. induction l as [|x r IH]; cbn; [lia|]. destruct (N.eqb x n); cbn; lia. Qed.
Lemma before_length n l : length (before n l) <= length l.
Proof. induction l as [|x r IH]; cbn; [lia|]. destruct (N.eqb x n); cbn; lia. Qed.
Lemma filter_length_le {A} (P : A -> bool) l : length (filter P l) <= length l.
Proof. induction l as [|x r IH]; cbn; [lia|]. destruct (P x); cbn; lia. Qed.
Lemma filter_head_split {A} (P : A -> bool) l x l' : filter P l = x :: l' ->
  exists l1 l2, l = l1 ++ x :: l2 /\ filter P l1 = [] /\ filter P l2 = l' /\ P x = true.
Proof.
  induction l as [|a r IH]; intros H; [discriminate|]. cbn in H. destruct (P a) eqn:E.
  - injection H as -> H. exists [], r. auto.
  - destruct (IH H) as [l1 [l2 [E1 [E2 [E3 E4]]]]]. exists (a :: l1), l2. cbn. rewrite E, E1. auto.
Qed.
Lemma last_error_app {A} (l : list A) x : last_error (l ++ [x]) = Some x.
Proof. induction l as [|y r IH]; [reflexivity|]. cbn [app last_error]. destruct (r ++ [x]) eqn:E; [destruct r; discriminate|exact IH]. Qed.
Lemma hd_error_rev {A} (l : list A) : hd_error (rev l) = last_error l.
Proof.
  induction l as [|x r IH] using rev_ind; [reflexivity|].
  rewrite rev_app_distr, last_error_app. reflexivity.
Qed.

Lemma nodup_app_disj {A} (l1 l2 : list A) x : NoDup (l1 ++ l2) -> In x l1 -> In x l2 -> False.
Proof.
  induction l1 as [|a r IH]; intros Hnd H1 H2; [destruct H1|].
  cbn in Hnd. inversion Hnd as [|? ? Hna Hnd']; subst.
  destruct H1 as [->|H1]; [apply Hna; apply in_or_app; right; exact H2|exact (IH Hnd' H1 H2)].
Qed.
Lemma nodup_app_l {A} (l1 l2 : list A) : NoDup (l1 ++ l2) -> NoDup l1.
Proof.
  induction l1 as [|a r IH]; intros H; [constructor|]. cbn in H. inversion H; subst.
  constructor; [intros Hin; apply H2; apply in_or_app; left; exact Hin|auto].
Qed.
Lemma nodup_app_r {A} (l1 l2 : list A) : NoDup (l1 ++ l2) -> NoDup l2.
Proof. induction l1 as [|a r IH]; intros H; [exact H|]. cbn in H. inversion H; subst. auto. Qed.
Lemma nodup_split_notin {A} (l1 l2 : list A) n : NoDup (l1 ++ n :: l2) -> ~ In n l1 /\ ~ In n l2.
Proof.
  intros H. split; intros Hin.
  - eapply nodup_app_disj; [exact H|exact Hin|left; reflexivity].
  - apply nodup_app_r in H. inversion H; subst. auto.
Qed.

Lemma find_unique {A} (p : A -> bool) l x :
  In x l -> p x = true -> (forall y, In y l -> p y = true -> y = x) -> find p l = Some x.
Proof.
  induction l as [|a r IH]; intros Hin Hp Hu; [destruct Hin|]. cbn.
  destruct (p a) eqn:E.
  - f_equal. apply Hu; [left; reflexivity|exact E].
  - apply IH; [destruct Hin as [->|H]; [congruence|exact H]|exact Hp|].
    intros y Hy. apply Hu. right. exact Hy.
Qed.
Lemma find_none_all {A} (p : A -> bool) l : (forall y, In y l -> p y = false) -> find p l = None.
Proof.
  induction l as [|a r IH]; intros H; [reflexivity|]. cbn. rewrite (H a (or_introl eq_refl)).
  apply IH. intros y Hy. apply H. right. exact Hy.
Qed.
Lemma nodup_map_inj {A B} (f : A -> B) l x y : NoDup (map f l) -> In x l -> In y l -> f x = f y -> x = y.
Proof.
  induction l as [|a r IH]; intros Hnd Hx Hy E; [destruct Hx|]. cbn in Hnd. inversion Hnd as [|? ? Hna Hnd']; subst.
  destruct Hx as [->|Hx], Hy as [->|Hy]; auto.
  - exfalso. apply Hna. rewrite E. apply in_map. exact Hy.
  - exfalso. apply Hna. rewrite <- E. apply in_map. exact Hx.
Qed.
Lemma flat_map_map {A B C} (f : B -> list C) (g : A -> B) l : flat_map f (map g l) = flat_map (fun x => f (g x)) l.
Proof. induction l as [|x r IH]; [reflexivity|]. cbn. rewrite IH. reflexivity. Qed.
Lemma flat_map_ext_in' {A B} (f g : A -> list B) l : (forall x, In x l -> f x = g x) -> flat_map f l = flat_map g l.
Proof.
  induction l as [|x r IH]; intros H; [reflexivity|]. cbn. rewrite (H x (or_introl eq_refl)), IH; [reflexivity|].
  intros y Hy. apply H. right. exact Hy.
Qed.
Lemma flat_map_nodup_owner {A B} (f : A -> list B) l x y n :
  NoDup (flat_map f l) -> In x l -> In y l -> In n (f x) -> In n (f y) -> x = y.
Proof.
  induction l as [|a r IH]; intros Hnd Hx Hy Hnx Hny; [destruct Hx|]. cbn in Hnd.
  destruct Hx as [->|Hx], Hy as [->|Hy]; auto.
  - exfalso. eapply nodup_app_disj; [exact Hnd|exact Hnx|]. apply in_flat_map. exists y. auto.
  - exfalso. eapply nodup_app_disj; [exact Hnd|exact Hny|]. apply in_flat_map. exists x. auto.
  - apply IH; auto. eapply nodup_app_r. exact Hnd.
Qed.
Lemma flat_map_nodup_part {A B} (f : A -> list B) l x : NoDup (flat_map f l) -> In x l -> NoDup (f x).
Proof.
  induction l as [|a r IH]; intros Hnd Hx; [destruct Hx|]. cbn in Hnd.
  destruct Hx as [->|Hx]; [eapply nodup_app_l; exact Hnd|apply IH; [eapply nodup_app_r; exact Hnd|exact Hx]].
Qed.

(* ---------------------------------------------------------------- subtrees and identities *)
Lemma subtrees_unfold i p kids : subtrees (INode i p kids) = INode i p kids :: flat_map subtrees kids.
Proof. reflexivity. Qed.
Lemma ids_unfold i p kids : ids (INode i p kids) = i :: flat_map ids kids.
Proof. reflexivity. Qed.

Lemma ids_subtrees t : ids t = map iid (subtrees t).
Proof.
  induction t as [i p kids IH] using itree_ind'. rewrite ids_unfold, subtrees_unfold. cbn [map iid]. f_equal.
  induction IH as [|k r Hk _ IHr]; [reflexivity|]. cbn [flat_map]. rewrite map_app, Hk, IHr. reflexivity.
Qed.
Lemma self_in_subtrees t : In t (subtrees t).
Proof. destruct t. left. reflexivity. Qed.
Lemma subtrees_trans t : forall s s', In s (subtrees t) -> In s' (subtrees s) -> In s' (subtrees t).
Proof.
  induction t as [i p kids IH] using itree_ind'. intros s s' Hs Hs'. rewrite subtrees_unfold in Hs.
  destruct Hs as [<-|Hs]; [exact Hs'|]. rewrite subtrees_unfold. right.
  apply in_flat_map in Hs. destruct Hs as [k [Hk Hs]]. apply in_flat_map. exists k. split; [exact Hk|].
  rewrite Forall_forall in IH. exact (IH k Hk s s' Hs Hs').
Qed.
Lemma kid_in_subtrees t s k : In s (subtrees t) -> In k (ikids s) -> In k (subtrees t).
Proof.
  intros Hs Hk. apply (subtrees_trans t s k Hs). destruct s as [i p kids]. rewrite subtrees_unfold. right.
  apply in_flat_map. exists k. split; [exact Hk|apply self_in_subtrees].
Qed.
Lemma sub_id_in t s : In s (subtrees t) -> In (iid s) (ids t).
Proof. intros H. rewrite ids_subtrees. apply in_map. exact H. Qed.
Lemma ids_sub_incl t s : In s (subtrees t) -> incl (ids s) (ids t).
Proof.
  intros Hs n Hn. rewrite ids_subtrees in Hn. apply in_map_iff in Hn. destruct Hn as [s' [<- Hs']].
  apply sub_id_in. exact (subtrees_trans t s s' Hs Hs').
Qed.

(* every node except the root is a child exactly once *)
Lemma ids_perm_kids t : Permutation (ids t) (iid t :: flat_map kid_ids (subtrees t)).
Proof.
  induction t as [i p kids IH] using itree_ind'. rewrite ids_unfold, subtrees_unfold. cbn [iid flat_map].
  apply perm_skip. unfold kid_ids at 1. cbn [ikids].
  induction IH as [|k r Hk _ IHr]; [reflexivity|].
  cbn [flat_map map]. rewrite flat_map_app.
  etransitivity; [apply Permutation_app; [exact Hk|exact IHr]|].
  cbn [app]. apply perm_skip. rewrite !app_assoc. apply Permutation_app_tail. apply Permutation_app_comm.
Qed.
Lemma kids_nodup t : NoDup (ids t) -> NoDup (iid t :: flat_map kid_ids (subtrees t)).
Proof. intros H. eapply Permutation_NoDup; [apply ids_perm_kids|exact H]. Qed.

Lemma sub_ids_nodup_aux t : NoDup (ids t) -> forall s, In s (subtrees t) -> NoDup (ids s).
Proof.
  induction t as [i p kids IH] using itree_ind'. intros Hnd s Hs. rewrite subtrees_unfold in Hs.
  destruct Hs as [<-|Hs]; [exact Hnd|]. apply in_flat_map in Hs. destruct Hs as [k [Hk Hs]].
  rewrite Forall_forall in IH. apply (IH k Hk); [|exact Hs].
  rewrite ids_unfold in Hnd. inversion Hnd as [|? ? _ H]; subst. exact (flat_map_nodup_part ids kids k H Hk).
Qed.
Definition sub_ids_nodup t (H : NoDup (ids t)) s := sub_ids_nodup_aux t H s.

Section Facts.
  Variable t : itree.
  Hypothesis Hnd : NoDup (ids t).

  Lemma a_sub_in s : In s (subtrees t) -> a_sub t (iid s) = Some s.
  Proof.
    intros Hs. unfold a_sub. apply find_unique; [exact Hs|apply N.eqb_refl|].
    intros y Hy E. apply N.eqb_eq in E. rewrite ids_subtrees in Hnd. exact (nodup_map_inj iid _ y s Hnd Hy Hs E).
  Qed.
  Lemma a_sub_some n s : a_sub t n = Some s -> In s (subtrees t) /\ iid s = n.
  Proof. unfold a_sub. intros H. apply find_some in H. destruct H as [H1 H2]. apply N.eqb_eq in H2. auto. Qed.
  Lemma a_sub_of_id n : In n (ids t) -> exists s, In s (subtrees t) /\ iid s = n /\ a_sub t n = Some s.
  Proof.
    intros H. rewrite ids_subtrees in H. apply in_map_iff in H. destruct H as [s [E Hs]].
    exists s. split; [exact Hs|split; [exact E|]]. rewrite <- E. apply a_sub_in. exact Hs.
  Qed.
  Lemma a_sub_none n : ~ In n (ids t) -> a_sub t n = None.
  Proof.
    intros H. unfold a_sub. apply find_none_all. intros y Hy. apply N.eqb_neq. intros E. apply H. subst n.
    apply sub_id_in. exact Hy.
  Qed.
  Lemma a_children_in s : In s (subtrees t) -> a_children t (iid s) = kid_ids s.
  Proof. intros Hs. unfold a_children. rewrite (a_sub_in s Hs). reflexivity. Qed.

  Lemma a_parent_of_kid s n : In s (subtrees t) -> In n (kid_ids s) -> a_parent t n = Some (iid s).
  Proof.
    intros Hs Hn. unfold a_parent. erewrite find_unique with (x := s); [reflexivity|exact Hs|apply memb_In; exact Hn|].
    intros y Hy Hm. apply memb_In in Hm. pose proof (kids_nodup t Hnd) as H. inversion H as [|? ? _ H']; subst.
    exact (flat_map_nodup_owner kid_ids _ y s n H' Hy Hs Hm Hn).
  Qed.
  Lemma a_parent_root : a_parent t (iid t) = None.
  Proof.
    unfold a_parent. rewrite find_none_all; [reflexivity|]. intros y Hy. apply memb_false. intros Hin.
    pose proof (kids_nodup t Hnd) as H. inversion H as [|? ? Hna _]; subst. apply Hna. apply in_flat_map. exists y. auto.
  Qed.
  Lemma has_parent n : In n (ids t) -> n <> iid t -> exists s, In s (subtrees t) /\ In n (kid_ids s).
  Proof.
    intros Hin Hne. apply (Permutation_in _ (ids_perm_kids t)) in Hin. destruct Hin as [E|Hin]; [congruence|].
    apply in_flat_map in Hin. exact Hin.
  Qed.
  Lemma a_parent_some n p : a_parent t n = Some p -> exists s, In s (subtrees t) /\ iid s = p /\ In n (kid_ids s).
  Proof.
    unfold a_parent. destruct (find _ _) as [s|] eqn:E; [|discriminate]. intros [= <-].
    apply find_some in E. destruct E as [E1 E2]. apply memb_In in E2. exists s. auto.
  Qed.
  Lemma kid_ids_nodup s : In s (subtrees t) -> NoDup (kid_ids s).
  Proof.
    intros Hs. pose proof (kids_nodup t Hnd) as H. inversion H as [|? ? _ H']; subst.
    exact (flat_map_nodup_part kid_ids _ s H' Hs).
  Qed.
  Lemma kid_id_in s n : In s (subtrees t) -> In n (kid_ids s) -> In n (ids t).
  Proof.
    intros Hs Hn. unfold kid_ids in Hn. apply in_map_iff in Hn. destruct Hn as [k [<- Hk]].
    apply sub_id_in. exact (kid_in_subtrees t s k Hs Hk).
  Qed.

  (* a node at a known place among its siblings *)
  Section Place.
    Variables (s : itree) (l1 l2 : list nid) (n : nid).
    Hypothesis Hs : In s (subtrees t).
    Hypothesis Hsplit : kid_ids s = l1 ++ n :: l2.

    Lemma place_in : In n (kid_ids s).
    Proof. rewrite Hsplit. apply in_or_app. right. left. reflexivity. Qed.
    Lemma place_notin : ~ In n l1 /\ ~ In n l2.
    Proof. apply nodup_split_notin. rewrite <- Hsplit. apply kid_ids_nodup. exact Hs. Qed.
    Lemma place_parent : a_parent t n = Some (iid s).
    Proof. apply a_parent_of_kid; [exact Hs|exact place_in]. Qed.
    Lemma place_siblings : a_siblings t n = l1 ++ n :: l2.
    Proof. unfold a_siblings. rewrite place_parent, (a_children_in s Hs). exact Hsplit. Qed.
    Lemma place_fsibs : a_fsibs t n = l2.
    Proof. unfold a_fsibs. rewrite place_siblings. apply after_split. apply place_notin. Qed.
    Lemma place_psibs : a_psibs t n = rev l1.
    Proof. unfold a_psibs. rewrite place_siblings, before_split; [reflexivity|apply place_notin]. Qed.
    Lemma place_index : a_index t n = Some (length l1).
    Proof. unfold a_index. rewrite place_parent, place_siblings. apply index_of_split. apply place_notin. Qed.
    Lemma place_next : a_next_sibling t n = hd_error l2.
    Proof. unfold a_next_sibling. rewrite place_fsibs. reflexivity. Qed.
    Lemma place_prev : a_prev_sibling t n = last_error l1.
    Proof. unfold a_prev_sibling. rewrite place_psibs. apply hd_error_rev. Qed.
  End Place.

  Lemma place_exists n : In n (ids t) -> n <> iid t ->
    exists s l1 l2, In s (subtrees t) /\ kid_ids s = l1 ++ n :: l2.
  Proof.
    intros Hin Hne. destruct (has_parent n Hin Hne) as [s [Hs Hn]].
    destruct (in_split_first n _ Hn) as [l1 [l2 [E _]]]. exists s, l1, l2. auto.
  Qed.

  (* ---- the statements of the property, on the plain tree ---- *)

  (* a node is among its parent's children exactly once, at its index *)
  Theorem child_once_at_index n p : a_parent t n = Some p ->
    exists i, a_index t n = Some i /\ nth_error (a_children t p) i = Some n /\ NoDup (a_children t p).
  Proof.
    intros Hp. destruct (a_parent_some n p Hp) as [s [Hs [<- Hn]]].
    destruct (in_split_first n _ Hn) as [l1 [l2 [E _]]].
    exists (length l1). rewrite (place_index s l1 l2 n Hs E), (a_children_in s Hs), E.
    split; [reflexivity|split].
    - rewrite nth_error_app2 by lia. rewrite Nat.sub_diag. reflexivity.
    - rewrite <- E. apply kid_ids_nodup. exact Hs.
  Qed.
  Theorem parent_iff_child n p : In p (ids t) -> (a_parent t n = Some p <-> In n (a_children t p)).
  Proof.
    intros Hp. destruct (a_sub_of_id p Hp) as [s [Hs [E _]]]. subst p. rewrite (a_children_in s Hs). split.
    - intros H. destruct (a_parent_some n _ H) as [s' [Hs' [E Hn]]].
      rewrite ids_subtrees in Hnd. rewrite (nodup_map_inj iid _ s s' Hnd Hs Hs' (eq_sym E)). exact Hn.
    - intros H. apply a_parent_of_kid; assumption.
  Qed.

  (* following / preceding sibling are inverse *)
  Theorem siblings_inverse n m : In n (ids t) -> In m (ids t) ->
    (a_next_sibling t n = Some m <-> a_prev_sibling t m = Some n).
  Proof.
    intros Hn Hm. split; intros H.
    - destruct (N.eq_dec n (iid t)) as [->|Hne].
      { unfold a_next_sibling, a_fsibs, a_siblings in H. rewrite a_parent_root in H. discriminate. }
      destruct (place_exists n Hn Hne) as [s [l1 [l2 [Hs E]]]].
      rewrite (place_next s l1 l2 n Hs E) in H. destruct l2 as [|m' l2']; [discriminate|]. injection H as ->.
      assert (E' : kid_ids s = (l1 ++ [n]) ++ m :: l2') by (rewrite <- app_assoc; exact E).
      rewrite (place_prev s _ _ m Hs E'). apply last_error_app.
    - destruct (N.eq_dec m (iid t)) as [->|Hne].
      { unfold a_prev_sibling, a_psibs, a_siblings in H. rewrite a_parent_root in H. discriminate. }
      destruct (place_exists m Hm Hne) as [s [l1 [l2 [Hs E]]]].
      rewrite (place_prev s l1 l2 m Hs E) in H.
      destruct l1 as [|x l1'] using rev_ind; [discriminate|]. rewrite last_error_app in H. injection H as ->.
      assert (E' : kid_ids s = l1' ++ n :: m :: l2) by (rewrite E, <- app_assoc; reflexivity).
      rewrite (place_next s _ _ n Hs E'). reflexivity.
  Qed.

  (* the sibling lists continue each other: what the pointer walks rely on *)
  Lemma fsibs_step n m r : a_fsibs t n = m :: r -> a_fsibs t m = r.
  Proof.
    intros H. destruct (a_parent t n) as [p|] eqn:Hp; [|unfold a_fsibs, a_siblings in H; rewrite Hp in H; discriminate].
    destruct (a_parent_some n p Hp) as [s [Hs [_ Hn]]]. destruct (in_split_first n _ Hn) as [l1 [l2 [E _]]].
    rewrite (place_fsibs s l1 l2 n Hs E) in H. subst l2.
    assert (E' : kid_ids s = (l1 ++ [n]) ++ m :: r) by (rewrite <- app_assoc; exact E).
    exact (place_fsibs s _ _ m Hs E').
  Qed.
  Lemma psibs_step n m r : a_psibs t n = m :: r -> a_psibs t m = r.
  Proof.
    intros H. destruct (a_parent t n) as [p|] eqn:Hp; [|unfold a_psibs, a_siblings in H; rewrite Hp in H; discriminate].
    destruct (a_parent_some n p Hp) as [s [Hs [_ Hn]]]. destruct (in_split_first n _ Hn) as [l1 [l2 [E _]]].
    rewrite (place_psibs s l1 l2 n Hs E) in H.
    assert (E1 : l1 = rev r ++ [m]) by (rewrite <- (rev_involutive l1), H; reflexivity).
    assert (E' : kid_ids s = rev r ++ m :: n :: l2) by (rewrite E, E1, <- app_assoc; reflexivity).
    rewrite (place_psibs s _ _ m Hs E'). apply rev_involutive.
  Qed.
  Lemma fsibs_step_gen n l1 m r : a_fsibs t n = l1 ++ m :: r -> a_fsibs t m = r.
  Proof.
    intros H. destruct (a_parent t n) as [p|] eqn:Hp;
      [|unfold a_fsibs, a_siblings in H; rewrite Hp in H; destruct l1; discriminate].
    destruct (a_parent_some n p Hp) as [s [Hs [_ Hn]]]. destruct (in_split_first n _ Hn) as [l0 [l2 [E _]]].
    rewrite (place_fsibs s l0 l2 n Hs E) in H. subst l2.
    assert (E' : kid_ids s = (l0 ++ n :: l1) ++ m :: r) by (rewrite <- app_assoc; exact E).
    exact (place_fsibs s _ _ m Hs E').
  Qed.
  Lemma psibs_step_gen n l1 m r : a_psibs t n = l1 ++ m :: r -> a_psibs t m = r.
  Proof.
    intros H. destruct (a_parent t n) as [p|] eqn:Hp;
      [|unfold a_psibs, a_siblings in H; rewrite Hp in H; destruct l1; discriminate].
    destruct (a_parent_some n p Hp) as [s [Hs [_ Hn]]]. destruct (in_split_first n _ Hn) as [l0 [l2 [E _]]].
    rewrite (place_psibs s l0 l2 n Hs E) in H.
    assert (E1 : l0 = rev r ++ m :: rev l1).
    { rewrite <- (rev_involutive l0), H, rev_app_distr. cbn [rev]. rewrite <- app_assoc. reflexivity. }
    assert (E' : kid_ids s = rev r ++ m :: (rev l1 ++ n :: l2)) by (rewrite E, E1, <- app_assoc; reflexivity).
    rewrite (place_psibs s _ _ m Hs E'). apply rev_involutive.
  Qed.
  Lemma a_children_length n : length (a_children t n) <= length (ids t).
  Proof.
    unfold a_children. destruct (a_sub t n) as [s|] eqn:E; [|cbn; lia]. destruct (a_sub_some n s E) as [Hs _].
    apply NoDup_incl_length; [apply kid_ids_nodup; exact Hs|]. intros x Hx. exact (kid_id_in s x Hs Hx).
  Qed.
  Lemma a_siblings_length n : length (a_siblings t n) <= length (ids t).
  Proof. unfold a_siblings. destruct (a_parent t n); [apply a_children_length|cbn; lia]. Qed.
  Lemma a_fsibs_length n : length (a_fsibs t n) <= length (ids t).
  Proof. unfold a_fsibs. pose proof (after_length n (a_siblings t n)). pose proof (a_siblings_length n). lia. Qed.
  Lemma a_psibs_length n : length (a_psibs t n) <= length (ids t).
  Proof.
    unfold a_psibs. rewrite rev_length. pose proof (before_length n (a_siblings t n)). pose proof (a_siblings_length n). lia.
  Qed.
  Lemma children_step n c r : In n (ids t) -> a_children t n = c :: r -> a_fsibs t c = r.
  Proof.
    intros Hn H. destruct (a_sub_of_id n Hn) as [s [Hs [E _]]]. subst n. rewrite (a_children_in s Hs) in H.
    exact (place_fsibs s [] r c Hs H).
  Qed.
  Lemma fsibs_in n m : In m (a_fsibs t n) -> In m (ids t).
  Proof.
    intros H. destruct (a_parent t n) as [p|] eqn:Hp; [|unfold a_fsibs, a_siblings in H; rewrite Hp in H; destruct H].
    destruct (a_parent_some n p Hp) as [s [Hs [_ Hn]]]. destruct (in_split_first n _ Hn) as [l1 [l2 [E _]]].
    rewrite (place_fsibs s l1 l2 n Hs E) in H. apply (kid_id_in s m Hs). rewrite E. apply in_or_app. right. right. exact H.
  Qed.
  Lemma psibs_in n m : In m (a_psibs t n) -> In m (ids t).
  Proof.
    intros H. destruct (a_parent t n) as [p|] eqn:Hp; [|unfold a_psibs, a_siblings in H; rewrite Hp in H; destruct H].
    destruct (a_parent_some n p Hp) as [s [Hs [_ Hn]]]. destruct (in_split_first n _ Hn) as [l1 [l2 [E _]]].
    rewrite (place_psibs s l1 l2 n Hs E) in H. apply in_rev in H. apply (kid_id_in s m Hs). rewrite E. apply in_or_app. left. exact H.
  Qed.
  Lemma children_in n m : In m (a_children t n) -> In m (ids t).
  Proof.
    unfold a_children. destruct (a_sub t n) as [s|] eqn:E; [|intros []]. intros H.
    destruct (a_sub_some n s E) as [Hs _]. exact (kid_id_in s m Hs H).
  Qed.

  (* descendants are the depth-first pre-order of the children relation *)
  Theorem descendants_preorder n : In n (ids t) ->
    a_descendants t n = flat_map (fun k => k :: a_descendants t k) (a_children t n).
  Proof.
    intros Hn. destruct (a_sub_of_id n Hn) as [s [Hs [E Hsub]]]. unfold a_descendants at 1, a_children. rewrite Hsub.
    unfold kid_ids. rewrite flat_map_map. apply flat_map_ext_in'.
    intros k Hk. assert (Hin : In k (subtrees t)) by exact (kid_in_subtrees t s k Hs Hk).
    pose proof (a_sub_in k Hin) as H. destruct k as [i p kids]. rewrite ids_unfold. cbn [iid] in *. f_equal.
    unfold a_descendants. rewrite H. reflexivity.
  Qed.

  (* document order: nodes before, the node, nodes after partition the tree *)
  Theorem partition n : In n (ids t) -> rev (a_preceding t n) ++ n :: a_following t n = ids t.
  Proof. intros H. unfold a_preceding, a_following. rewrite rev_involutive. apply before_after. exact H. Qed.
  Theorem partition_disjoint n : In n (ids t) ->
    ~ In n (a_preceding t n) /\ ~ In n (a_following t n) /\ (forall x, In x (a_preceding t n) -> ~ In x (a_following t n)).
  Proof.
    intros H. pose proof (partition n H) as E. pose proof Hnd as Hnd'. rewrite <- E in Hnd'.
    destruct (nodup_split_notin _ _ _ Hnd') as [H1 H2].
    split; [intros Hin; apply H1; exact (proj1 (in_rev _ _) Hin)|split; [exact H2|]].
    intros x Hx Hf. pose proof (proj1 (in_rev (a_preceding t n) x) Hx) as Hx'.
    eapply nodup_app_disj; [exact Hnd'|exact Hx'|right; exact Hf].
  Qed.
End Facts.

(* ---------------------------------------------------------------- ancestors: the path from the root *)
Lemma first_some_none {A B} (f : A -> option B) l : (forall x, In x l -> f x = None) -> first_some (map f l) = None.
Proof.
  induction l as [|a r IH]; intros H; [reflexivity|]. cbn. rewrite (H a (or_introl eq_refl)). apply IH.
  intros x Hx. apply H. right. exact Hx.
Qed.
Lemma first_some_pick {A B} (f : A -> option B) l1 k l2 v :
  (forall x, In x l1 -> f x = None) -> f k = Some v -> first_some (map f (l1 ++ k :: l2)) = Some v.
Proof.
  induction l1 as [|a r IH]; intros H Hk; cbn.
  - rewrite Hk. reflexivity.
  - rewrite (H a (or_introl eq_refl)). apply IH; [|exact Hk]. intros x Hx. apply H. right. exact Hx.
Qed.
Lemma first_some_in {A B} (f : A -> option B) l v : first_some (map f l) = Some v -> exists k, In k l /\ f k = Some v.
Proof.
  induction l as [|a r IH]; intros H; [discriminate|]. cbn in H. destruct (f a) eqn:E.
  - injection H as ->. exists a. split; [left; reflexivity|exact E].
  - destruct (IH H) as [k [Hk Hv]]. exists k. split; [right; exact Hk|exact Hv].
Qed.
Lemma a_path_unfold n i p kids :
  a_path n (INode i p kids) =
  if N.eqb i n then Some [] else match first_some (map (a_path n) kids) with Some q => Some (i :: q) | None => None end.
Proof. reflexivity. Qed.
Lemma a_path_none n t : ~ In n (ids t) -> a_path n t = None.
Proof.
  induction t as [i p kids IH] using itree_ind'. intros Hn. rewrite a_path_unfold. rewrite ids_unfold in Hn.
  destruct (N.eqb i n) eqn:E; [apply N.eqb_eq in E; subst; exfalso; apply Hn; left; reflexivity|].
  rewrite first_some_none; [reflexivity|]. intros k Hk. rewrite Forall_forall in IH. apply (IH k Hk).
  intros Hin. apply Hn. right. apply in_flat_map. exists k. auto.
Qed.
Lemma a_path_root t : a_path (iid t) t = Some [].
Proof. destruct t as [i p kids]. rewrite a_path_unfold. cbn [iid]. rewrite N.eqb_refl. reflexivity. Qed.
Lemma a_path_length n t : forall q, a_path n t = Some q -> length q < length (ids t).
Proof.
  induction t as [i p kids IH] using itree_ind'. intros q H. rewrite a_path_unfold in H. rewrite ids_unfold. cbn [length].
  destruct (N.eqb i n); [injection H as <-; cbn; lia|].
  destruct (first_some (map (a_path n) kids)) as [q'|] eqn:E; [|discriminate]. injection H as <-.
  destruct (first_some_in _ _ _ E) as [k [Hk Hq]]. rewrite Forall_forall in IH. specialize (IH k Hk q' Hq). cbn [length].
  assert (length (ids k) <= length (flat_map ids kids)).
  { clear - Hk. induction kids as [|a r IHr]; [destruct Hk|]. cbn. rewrite app_length. destruct Hk as [->|Hk]; [lia|specialize (IHr Hk); lia]. }
  lia.
Qed.
(* descending into the kid that holds the node *)
Lemma a_path_into i p l1 k l2 m : NoDup (ids (INode i p (l1 ++ k :: l2))) -> In m (ids k) ->
  a_path m (INode i p (l1 ++ k :: l2)) = match a_path m k with Some q => Some (i :: q) | None => None end.
Proof.
  intros Hnd Hm. rewrite a_path_unfold. rewrite ids_unfold in Hnd. inversion Hnd as [|? ? Hni Hnd']; subst.
  assert (Hin : In m (flat_map ids (l1 ++ k :: l2))) by (apply in_flat_map; exists k; split; [apply in_or_app; right; left; reflexivity|exact Hm]).
  destruct (N.eqb i m) eqn:E; [apply N.eqb_eq in E; subst; contradiction|].
  destruct (a_path m k) as [q|] eqn:Eq.
  - rewrite (first_some_pick (a_path m) l1 k l2 q); [reflexivity| |exact Eq].
    intros x Hx. apply a_path_none. intros Hmx. rewrite flat_map_app in Hnd'.
    eapply nodup_app_disj; [exact Hnd'|apply in_flat_map; exists x; split; [exact Hx|exact Hmx]|].
    cbn [flat_map]. apply in_or_app. left. exact Hm.
  - exfalso. clear - Eq Hm. revert Eq. generalize m Hm. clear. induction k as [j pk kk IHk] using itree_ind'. intros m Hm Eq.
    rewrite a_path_unfold in Eq. rewrite ids_unfold in Hm. destruct (N.eqb j m) eqn:E; [discriminate|].
    destruct Hm as [->|Hm]; [rewrite N.eqb_refl in E; discriminate|].
    apply in_flat_map in Hm. destruct Hm as [x [Hx Hm]]. rewrite Forall_forall in IHk.
    destruct (first_some (map (a_path m) kk)) eqn:F; [discriminate|].
    destruct (in_split _ _ Hx) as [a [b ->]].
    assert (Hex : exists q, a_path m x = Some q).
    { destruct (a_path m x) eqn:G; [eexists; reflexivity|]. exfalso. exact (IHk x Hx m Hm G). }
    destruct Hex as [q Hq]. clear - F Hq.
    induction a as [|y a IHa]; cbn in F; [rewrite Hq in F; discriminate|]. destruct (a_path m y); [discriminate|]. exact (IHa F).
Qed.
Lemma a_path_kid t : NoDup (ids t) -> forall s n, In s (subtrees t) -> In n (kid_ids s) ->
  exists ps, a_path (iid s) t = Some ps /\ a_path n t = Some (ps ++ [iid s]).
Proof.
  induction t as [i p kids IH] using itree_ind'. intros Hnd s n Hs Hn. rewrite subtrees_unfold in Hs. destruct Hs as [<-|Hs].
  - exists []. split; [apply (a_path_root (INode i p kids))|]. unfold kid_ids in Hn. cbn [ikids] in Hn.
    apply in_map_iff in Hn. destruct Hn as [k [<- Hk]]. destruct (in_split _ _ Hk) as [l1 [l2 ->]].
    rewrite (a_path_into i p l1 k l2 (iid k) Hnd); [rewrite a_path_root; reflexivity|].
    destruct k. rewrite ids_unfold. left. reflexivity.
  - apply in_flat_map in Hs. destruct Hs as [k [Hk Hs]]. destruct (in_split _ _ Hk) as [l1 [l2 E]]. subst kids.
    assert (Hndk : NoDup (ids k)).
    { rewrite ids_unfold in Hnd. inversion Hnd as [|? ? _ H]; subst. exact (flat_map_nodup_part ids _ k H Hk). }
    rewrite Forall_forall in IH. destruct (IH k Hk Hndk s n Hs Hn) as [ps [H1 H2]].
    exists (i :: ps). split.
    + rewrite (a_path_into i p l1 k l2 (iid s) Hnd (sub_id_in k s Hs)), H1. reflexivity.
    + rewrite (a_path_into i p l1 k l2 n Hnd (kid_id_in k s n Hs Hn)), H2. reflexivity.
Qed.

Theorem ancestors_chain t : NoDup (ids t) -> forall n, In n (ids t) ->
  a_ancestors t n = match a_parent t n with Some p => p :: a_ancestors t p | None => [] end.
Proof.
  intros Hnd n Hn. destruct (N.eq_dec n (iid t)) as [->|Hne].
  - rewrite (a_parent_root t Hnd). unfold a_ancestors. rewrite a_path_root. reflexivity.
  - destruct (has_parent t n Hn Hne) as [s [Hs Hk]]. rewrite (a_parent_of_kid t Hnd s n Hs Hk).
    destruct (a_path_kid t Hnd s n Hs Hk) as [ps [H1 H2]]. unfold a_ancestors. rewrite H1, H2, rev_app_distr. reflexivity.
Qed.
Lemma ancestors_length t n : length (a_ancestors t n) < length (ids t) \/ a_ancestors t n = [].
Proof.
  unfold a_ancestors. destruct (a_path n t) as [q|] eqn:E; [left; rewrite rev_length; exact (a_path_length n t q E)|right; reflexivity].
Qed.

(* the ancestor chain of a node continues with the ancestor chain of each of its members *)
Lemma ancestors_split t : NoDup (ids t) -> forall a n x b, In n (ids t) -> a_ancestors t n = a ++ x :: b ->
  In x (ids t) /\ b = a_ancestors t x /\ exists y, In y (ids t) /\ a_parent t y = Some x.
Proof.
  intros Hnd. induction a as [|y a' IH]; intros n x b Hn E; rewrite (ancestors_chain t Hnd n Hn) in E;
    destruct (a_parent t n) as [p|] eqn:Hp; try discriminate; cbn [app] in E; injection E as -> E.
  - assert (Hx : In x (ids t)) by (destruct (a_parent_some t n x Hp) as [s [Hs [<- _]]]; apply sub_id_in; exact Hs).
    split; [exact Hx|]. split; [symmetry; exact E|]. exists n. auto.
  - assert (Hy : In y (ids t)) by (destruct (a_parent_some t n y Hp) as [s [Hs [<- _]]]; apply sub_id_in; exact Hs).
    exact (IH y x b Hy E).
Qed.
Lemma in_removelast_split {A} (x : A) : forall L, In x (removelast L) -> exists a b, L = a ++ x :: b /\ b <> [].
Proof.
  induction L as [|y r IH]; intros H; [destruct H|]. destruct r as [|z r']; [destruct H|].
  change (removelast (y :: z :: r')) with (y :: removelast (z :: r')) in H. destruct H as [->|H].
  - exists [], (z :: r'). split; [reflexivity|discriminate].
  - destruct (IH H) as [a [b [E Hb]]]. exists (y :: a), b. split; [cbn; rewrite E; reflexivity|exact Hb].
Qed.
Lemma index_of_in n l : In n l -> exists i, index_of n l = Some i.
Proof.
  induction l as [|x r IH]; intros H; [destruct H|]. cbn. destruct (N.eqb x n) eqn:E; [eexists; reflexivity|].
  destruct H as [->|H]; [rewrite N.eqb_refl in E; discriminate|]. destruct (IH H) as [i Hi]. rewrite Hi. eexists. reflexivity.
Qed.

(* the relations of one tree agree with each other *)
Theorem tree_consistency t : NoDup (ids t) -> forall n, In n (ids t) ->
  (* a node is among its parent's children exactly once, at its index *)
  (forall p, a_parent t n = Some p ->
     exists i, a_index t n = Some i /\ nth_error (a_children t p) i = Some n /\ NoDup (a_children t p))
  (* parent and children are the same relation *)
  /\ (forall p, In p (ids t) -> (a_parent t n = Some p <-> In n (a_children t p)))
  (* following / preceding sibling are inverse *)
  /\ (forall m, In m (ids t) -> (a_next_sibling t n = Some m <-> a_prev_sibling t m = Some n))
  (* descendants are the depth-first pre-order of the children relation *)
  /\ a_descendants t n = flat_map (fun k => k :: a_descendants t k) (a_children t n)
  (* nodes before + the node + nodes after, in document order, partition the tree *)
  /\ rev (a_preceding t n) ++ n :: a_following t n = ids t
  /\ ~ In n (a_preceding t n) /\ ~ In n (a_following t n)
  /\ (forall x, In x (a_preceding t n) -> ~ In x (a_following t n)).
Proof.
  intros Hnd n Hn. split; [intros p Hp; exact (child_once_at_index t Hnd n p Hp)|].
  split; [intros p Hp; exact (parent_iff_child t Hnd n p Hp)|].
  split; [intros m Hm; exact (siblings_inverse t Hnd n m Hn Hm)|].
  split; [exact (descendants_preorder t Hnd n Hn)|].
  split; [exact (partition t n Hn)|]. exact (partition_disjoint t Hnd n Hn).
Qed.

(* ---------------------------------------------------------------- filters, indexing *)
Lemma filter_fand (D F : nfilter) l : filter (fand D F) l = filter F (filter D l).
Proof.
  induction l as [|x r IH]; [reflexivity|]. cbn. unfold fand at 1. destruct (D x); cbn; [destruct (F x); rewrite IH; reflexivity|exact IH].
Qed.
Lemma filter_ftrue l : filter ftrue l = l.
Proof. induction l as [|x r IH]; [reflexivity|]. cbn. rewrite IH. reflexivity. Qed.
Lemma fand_ftrue_r D x : fand D ftrue x = D x.
Proof. unfold fand, ftrue. apply andb_true_r. Qed.
Lemma filter_fand_ftrue D l : filter (fand D ftrue) l = filter D l.
Proof. apply filter_ext. intros x. apply fand_ftrue_r. Qed.

(* indexed access agrees with the child iteration, negative indices included *)
Lemma py_index_nonneg {A} (l : list A) i : (i < length l)%nat -> py_index l (Z.of_nat i) = nth_error l i.
Proof.
  intros _. unfold py_index. destruct (Z.ltb_spec (Z.of_nat i) 0); [lia|].
  destruct (Z.ltb_spec (Z.of_nat i) 0); [lia|]. rewrite Nat2Z.id. reflexivity.
Qed.
Lemma py_index_neg {A} (l : list A) i : (i < length l)%nat ->
  py_index l (Z.of_nat i - Z.of_nat (length l)) = nth_error l i.
Proof.
  intros H. unfold py_index. destruct (Z.ltb_spec (Z.of_nat i - Z.of_nat (length l)) 0); [|lia].
  replace (Z.of_nat (length l) + (Z.of_nat i - Z.of_nat (length l)))%Z with (Z.of_nat i) by lia.
  destruct (Z.ltb_spec (Z.of_nat i) 0); [lia|]. rewrite Nat2Z.id. reflexivity.
Qed.
Lemma py_index_both (l : list nid) i : (i < length l)%nat ->
  py_index l (Z.of_nat i - Z.of_nat (length l)) = nth_error l i /\ py_index l (Z.of_nat i) = nth_error l i.
Proof. intros H. split; [exact (py_index_neg l i H)|exact (py_index_nonneg l i H)]. Qed.
Lemma py_slice_all {A} (l : list A) : py_slice l None None = l.
Proof. unfold py_slice, py_bound. rewrite Nat.sub_0_r. cbn [skipn]. apply firstn_all. Qed.
