(* The plain content tree shared by the serializer, whitespace and comparison models:
   what a client sees of a node, without object identity. *)
From Delb.Base Require Import PyStr.

Definition attr := (str * str * str)%type.          (* namespace, local name, value *)
Inductive node :=
| Tag (ns name : str) (attrs : list attr) (kids : list node)
| Text (s : str)
| Comment (s : str)
| PI (target content : str).

Definition is_text (n : node) : bool := match n with Text _ => true | _ => false end.
Definition is_tag (n : node) : bool := match n with Tag _ _ _ _ => true | _ => false end.
Definition is_empty_text (n : node) : bool := match n with Text [] => true | _ => false end.

Section NodeInd.
  Variable P : node -> Prop.
  Hypothesis HTag : forall ns name attrs kids, Forall P kids -> P (Tag ns name attrs kids).
  Hypothesis HText : forall s, P (Text s).
  Hypothesis HComment : forall s, P (Comment s).
  Hypothesis HPI : forall t c, P (PI t c).
  Fixpoint node_ind' (n : node) : P n :=
    match n with
    | Tag ns name attrs kids =>
        HTag ns name attrs kids
          ((fix go (l : list node) : Forall P l :=
              match l with [] => Forall_nil P | x :: r => Forall_cons x (node_ind' x) (go r) end) kids)
    | Text s => HText s
    | Comment s => HComment s
    | PI t c => HPI t c
    end.
End NodeInd.

Fixpoint get_attr (ns name : str) (l : list attr) : option str :=
  match l with
  | [] => None
  | (n, k, v) :: r => if (str_eqb n ns && str_eqb k name)%bool then Some v else get_attr ns name r
  end.
