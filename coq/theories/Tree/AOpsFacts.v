(* Facts about editing the plain tree: updates are local to the trees they name (frame), they permute the nodes
   (identities are neither lost nor duplicated) and conserve text. *)
From Coq Require Import Permutation Lia.
From Delb.Base Require Import PyStr.
From Delb.Tree Require Import ATree ITree AOps AGuard.

(* ------------------------------------------------------------------ frame *)
Lemma ids_eq i p kids : ids (INode i p kids) = i :: flat_map ids kids. Proof. reflexivity. Qed.
Lemma in_kid_ids x k kids : In k kids -> In x (ids k) -> In x (flat_map ids kids).
Proof. intros Hk Hx. apply in_flat_map. exists k. auto. Qed.
Lemma has_id_in x t : has_id x t = true -> In x (ids t).
Proof. unfold has_id. intros H. apply N.eqb_eq in H. destruct t. cbn in *. left. exact H. Qed.
Lemma existsb_has_id_in x kids : existsb (has_id x) kids = true -> In x (flat_map ids kids).
Proof. intros H. apply existsb_exists in H as [k [Hk Hx]]. eapply in_kid_ids; [exact Hk|apply has_id_in, Hx]. Qed.

Section Local.
  Context {A : Type}.
  Variable x : nid.
  Variable g : itree -> option (itree * A).
  (* g only applies to trees that contain x *)
  Hypothesis g_local : forall s, ~ In x (ids s) -> g s = None.

  Lemma t_rw_none t : ~ In x (ids t) -> t_rw g t = None.
  Proof.
    induction t as [i p kids IH] using itree_ind'. intros Hx. cbn [t_rw]. rewrite (g_local _ Hx).
    assert (E : rw_list (t_rw g) kids = None).
    { rewrite ids_eq in Hx. induction kids as [|k r IHr]; [reflexivity|]. inversion IH as [|? ? Hk Hr]; subst.
      cbn [rw_list]. rewrite Hk; [|intros H; apply Hx; right; cbn [flat_map]; apply in_or_app; left; exact H].
      fold (rw_list (t_rw g)). rewrite IHr; [reflexivity|exact Hr|].
      intros [H|H]; apply Hx; [left; exact H|right; cbn [flat_map]; apply in_or_app; right; exact H]. }
    fold (rw_list (t_rw g)). rewrite E. reflexivity.
  Qed.
End Local.

Lemma rw_list_keeps {A} (rec : itree -> option (itree * A)) T : rec T = None ->
  forall l l' a, rw_list rec l = Some (l', a) -> In T l -> In T l'.
Proof.
  intros HT. induction l as [|t r IH]; intros l' a E Hin; [discriminate|]. cbn [rw_list] in E.
  destruct (rec t) as [[t' a']|] eqn:Et.
  - injection E as <- <-. destruct Hin as [->|Hin]; [rewrite HT in Et; discriminate|right; exact Hin].
  - fold (rw_list rec) in E. destruct (rw_list rec r) as [[r' a']|] eqn:Er; [|discriminate]. injection E as <- <-.
    destruct Hin as [->|Hin]; [left; reflexivity|right; eapply IH; [reflexivity|exact Hin]].
Qed.
Lemma rw_docs_keeps {A} (g : itree -> option (itree * A)) d : t_rw g (doc_root d) = None ->
  forall l l' a, rw_docs g l = Some (l', a) -> In d l -> In d l'.
Proof.
  intros HT. induction l as [|[[pro r] epi] rest IH]; intros l' a E Hin; [discriminate|]. cbn [rw_docs] in E.
  destruct (t_rw g r) as [[r' a']|] eqn:Et.
  - injection E as <- <-. destruct Hin as [<-|Hin]; [cbn in HT; rewrite HT in Et; discriminate|right; exact Hin].
  - fold (rw_docs g) in E. destruct (rw_docs g rest) as [[rest' a']|] eqn:Er; [|discriminate]. injection E as <- <-.
    destruct Hin as [<-|Hin]; [left; reflexivity|right; eapply IH; [reflexivity|exact Hin]].
Qed.

(* a tree of the world: a parentless tree, or a document (its root is what can be edited) *)
Inductive component := CLoose (t : itree) | CDoc (d : list itree * itree * list itree).
Definition comp_root (c : component) : itree := match c with CLoose t => t | CDoc d => doc_root d end.
Definition comp_in (c : component) (w : world) : Prop :=
  match c with CLoose t => In t (loose w) | CDoc d => In d (docs w) end.

Lemma w_rw_keeps {A} (g : itree -> option (itree * A)) c w w' a :
  t_rw g (comp_root c) = None -> w_rw g w = Some (w', a) -> comp_in c w -> comp_in c w'.
Proof.
  intros HT E Hin. unfold w_rw in E. destruct (rw_docs g (docs w)) as [[d' a']|] eqn:Ed.
  - injection E as <- <-. destruct c as [t|d]; cbn [comp_in docs loose] in *; [exact Hin|].
    eapply rw_docs_keeps; [exact HT|exact Ed|exact Hin].
  - destruct (rw_list (t_rw g) (loose w)) as [[l' a']|] eqn:El; [|discriminate]. injection E as <- <-.
    destruct c as [t|d]; cbn [comp_in docs loose] in *; [|exact Hin].
    eapply rw_list_keeps; [exact HT|exact El|exact Hin].
Qed.

Lemma take_id_keeps n T : has_id n T = false -> forall l u l', take_id n l = Some (u, l') -> In T l -> In T l'.
Proof.
  intros HT. induction l as [|t r IH]; intros u l' E Hin; [discriminate|]. cbn [take_id] in E.
  destruct (has_id n t) eqn:Et.
  - injection E as <- <-. destruct Hin as [->|Hin]; [rewrite HT in Et; discriminate|exact Hin].
  - destruct (take_id n r) as [[u' r']|] eqn:Er; [|discriminate]. injection E as <- <-.
    destruct Hin as [->|Hin]; [left; reflexivity|right; eapply IH; [reflexivity|exact Hin]].
Qed.

Lemma memb_false x l : memb x l = false -> ~ In x l.
Proof.
  unfold memb. intros H Hin. assert (existsb (N.eqb x) l = true); [|congruence].
  apply existsb_exists. exists x. split; [exact Hin|apply N.eqb_refl].
Qed.
Lemma not_in_has_id x T : ~ In x (ids T) -> has_id x T = false.
Proof. intros H. destruct (has_id x T) eqn:E; [|reflexivity]. exfalso. apply H, has_id_in, E. Qed.

Lemma at_parent_local x fn s : ~ In x (ids s) -> at_parent_of x fn s = None.
Proof.
  destruct s as [i p kids]. intros H. cbn [at_parent_of]. destruct (existsb (has_id x) kids) eqn:E; [|reflexivity].
  exfalso. apply H. rewrite ids_eq. right. apply existsb_has_id_in, E.
Qed.
Lemma g_before_local x n s : ~ In x (ids s) -> g_before x n s = None.
Proof.
  destruct s as [i p kids]. intros H. cbn [g_before]. destruct (find (has_id x) kids) as [xk|] eqn:E; [|reflexivity].
  exfalso. apply H. rewrite ids_eq. right. apply find_some in E as [E1 E2]. eapply in_kid_ids; [exact E1|apply has_id_in, E2].
Qed.
Lemma at_tag_local x fn s : ~ In x (ids s) -> at_tag x fn s = None.
Proof. intros H. unfold at_tag. rewrite (not_in_has_id _ _ H). reflexivity. Qed.
Lemma take_id_in x l u r : take_id x l = Some (u, r) -> In x (flat_map ids l).
Proof.
  revert u r. induction l as [|t l IH]; intros u r E; [discriminate|]. cbn [take_id] in E. cbn [flat_map].
  apply in_or_app. destruct (has_id x t) eqn:Et; [left; apply has_id_in, Et|].
  destruct (take_id x l) as [[u' r']|] eqn:El; [|discriminate]. right. eapply IH. reflexivity.
Qed.
Lemma g_extract_local x s : ~ In x (ids s) -> g_extract x s = None.
Proof.
  destruct s as [i p kids]. intros H. cbn [g_extract]. destruct (take_id x kids) as [[u r]|] eqn:E; [|reflexivity].
  exfalso. apply H. rewrite ids_eq. right. eapply take_id_in, E.
Qed.

Lemma a_move_keeps c w n ok x (g : itree -> itree -> option (itree * unit)) :
  (forall t s, ~ In x (ids s) -> g t s = None) ->
  ~ In x (ids (comp_root c)) -> ~ In n (ids (comp_root c)) ->
  comp_in c w -> comp_in c (a_move n ok g w).
Proof.
  intros Hg Hx Hn Hin. unfold a_move, take_loose. destruct (take_id n (loose w)) as [[t l']|] eqn:Et; [|exact Hin].
  destruct (ok t); [|exact Hin].
  destruct (w_rw (g t) {| docs := docs w; loose := l' |}) as [[w2 []]|] eqn:Er; [|exact Hin].
  eapply w_rw_keeps; [apply (t_rw_none x); [apply Hg|exact Hx]|exact Er|].
  destruct c as [T|d]; cbn [comp_in docs loose] in *; [|exact Hin].
  eapply take_id_keeps; [apply not_in_has_id, Hn|exact Et|exact Hin].
Qed.

Theorem apply_a_frame c u w : avoids (comp_root c) u = true -> comp_in c w -> comp_in c (apply_a u w).
Proof.
  intros Ha Hin. unfold avoids in Ha.
  assert (NI : forall x, In x (upd_ids u) -> ~ In x (ids (comp_root c))).
  { intros x Hx. rewrite forallb_forall in Ha. specialize (Ha x Hx). apply negb_true_iff in Ha. apply memb_false, Ha. }
  destruct u; cbn [apply_a upd_ids] in *.
  - destruct c; cbn [comp_in add_loose docs loose] in *; [apply in_or_app; left|]; exact Hin.
  - destruct c; cbn [comp_in add_loose docs loose] in *; [apply in_or_app; left|]; exact Hin.
  - apply (a_move_keeps c w n _ x); [intros; apply at_parent_local; assumption|apply NI; cbn; auto|apply NI; cbn; auto|exact Hin].
  - apply (a_move_keeps c w n _ x); [intros; apply g_before_local; assumption|apply NI; cbn; auto|apply NI; cbn; auto|exact Hin].
  - apply (a_move_keeps c w n _ x); [intros; apply g_before_local; assumption|apply NI; cbn; auto|apply NI; cbn; auto|exact Hin].
  - apply (a_move_keeps c w n _ p); [intros; apply at_tag_local; assumption|apply NI; cbn; auto|apply NI; cbn; auto|exact Hin].
  - apply (a_move_keeps c w n _ p); [intros; apply at_tag_local; assumption|apply NI; cbn; auto|apply NI; cbn; auto|exact Hin].
  - destruct (w_rw (g_extract x) w) as [[w1 t]|] eqn:E; [|exact Hin].
    assert (H1 : comp_in c w1).
    { eapply w_rw_keeps; [apply (t_rw_none x); [apply g_extract_local|apply NI; cbn; auto]|exact E|exact Hin]. }
    destruct c; cbn [comp_in add_loose docs loose] in *; [apply in_or_app; left|]; exact H1.
  - assert (Hx : ~ In x (ids (comp_root c))) by (apply NI; cbn; auto).
    destruct (is_loose w x).
    + destruct c as [T|d]; cbn [comp_in comp_root docs loose] in *; [|exact Hin].
      clear Ha NI. induction (loose w) as [|t r IH]; [destruct Hin|]. cbn [set_text_first].
      destruct Hin as [->|Hin].
      * rewrite (not_in_has_id _ _ Hx). left. reflexivity.
      * destruct (has_id x t); right; [exact Hin|apply IH, Hin].
    + destruct (w_rw (at_parent_of x (set_text_first x s)) w) as [[w1 []]|] eqn:E; [|exact Hin].
      eapply w_rw_keeps; [apply (t_rw_none x); [apply at_parent_local|exact Hx]|exact E|exact Hin].
  - destruct (w_rw (at_tag p merge_tree) w) as [[w1 []]|] eqn:E; [|exact Hin].
    eapply w_rw_keeps; [apply (t_rw_none p); [apply at_tag_local|apply NI; cbn; auto]|exact E|exact Hin].
Qed.

Theorem run_frame c p : forall w, run_avoids (comp_root c) p w = true -> comp_in c w -> comp_in c (fst (run_a p w)).
Proof.
  induction p as [r|u k IH|k IH]; intros w Ha Hin; cbn [run_a run_avoids] in *.
  - exact Hin.
  - apply andb_true_iff in Ha as [H1 H2]. apply IH; [exact H2|apply apply_a_frame; assumption].
  - apply IH; assumption.
Qed.
Theorem hist_frame c ops : forall w, hist_avoids (comp_root c) w ops = true -> comp_in c w -> comp_in c (arun_w w ops).
Proof.
  induction ops as [|[F o] r IH]; intros w Ha Hin; cbn [arun_w hist_avoids] in *; [exact Hin|].
  apply andb_true_iff in Ha as [H1 H2]. apply IH; [exact H2|]. unfold astep. apply run_frame; assumption.
Qed.

(* ------------------------------------------------------------------ nodes are permuted, never lost or duplicated *)
Section Items.
  Context {X : Type}.
  Variable f : nid -> payload -> list X.          (* what one node contributes *)
  Fixpoint items (t : itree) : list X := match t with INode i p kids => f i p ++ flat_map items kids end.
  Definition fitems (l : list itree) : list X := flat_map items l.
  Definition ditems (d : list itree * itree * list itree) : list X :=
    match d with (pro, r, epi) => fitems pro ++ items r ++ fitems epi end.
  Definition witems (w : world) : list X := flat_map ditems (docs w) ++ fitems (loose w).

  Lemma fitems_app l1 l2 : fitems (l1 ++ l2) = fitems l1 ++ fitems l2.
  Proof. apply flat_map_app. Qed.

  Section Rw.
    Context {A : Type}.
    Variable g : itree -> option (itree * A).
    Variable R : list X -> list X -> A -> Prop.
    Hypothesis R_ctx : forall pre post l l' a, R l l' a -> R (pre ++ l ++ post) (pre ++ l' ++ post) a.
    Hypothesis g_R : forall t t' a, g t = Some (t', a) -> R (items t) (items t') a.

    Lemma rw_list_R l : Forall (fun k => forall k' a, t_rw g k = Some (k', a) -> R (items k) (items k') a) l ->
      forall l' a, rw_list (t_rw g) l = Some (l', a) -> R (fitems l) (fitems l') a.
    Proof.
      induction l as [|t r IH]; intros HF l' a E; [discriminate|]. inversion HF as [|? ? Ht Hr]; subst.
      cbn [rw_list] in E. destruct (t_rw g t) as [[t' a']|] eqn:Et.
      - injection E as <- <-. cbn [fitems flat_map]. apply (R_ctx [] (flat_map items r)). apply Ht. reflexivity.
      - fold (rw_list (t_rw g)) in E. destruct (rw_list (t_rw g) r) as [[r' a']|] eqn:Er; [|discriminate].
        injection E as <- <-. cbn [fitems flat_map]. specialize (IH Hr _ _ eq_refl).
        pose proof (R_ctx (items t) [] _ _ _ IH) as H. rewrite !app_nil_r in H. exact H.
    Qed.
    Lemma t_rw_R t : forall t' a, t_rw g t = Some (t', a) -> R (items t) (items t') a.
    Proof.
      induction t as [i p kids IH] using itree_ind'. intros t' a E. cbn [t_rw] in E.
      destruct (g (INode i p kids)) as [[t1 a1]|] eqn:Eg.
      - injection E as <- <-. apply g_R, Eg.
      - fold (rw_list (t_rw g)) in E. destruct (rw_list (t_rw g) kids) as [[kids' a']|] eqn:Ek; [|discriminate].
        injection E as <- <-. cbn [items]. pose proof (rw_list_R kids IH _ _ Ek) as H.
        pose proof (R_ctx (f i p) [] _ _ _ H) as H'. rewrite !app_nil_r in H'. exact H'.
    Qed.
    Lemma rw_docs_R ds : forall ds' a, rw_docs g ds = Some (ds', a) -> R (flat_map ditems ds) (flat_map ditems ds') a.
    Proof.
      induction ds as [|[[pro r] epi] rest IH]; intros ds' a E; [discriminate|]. cbn [rw_docs] in E.
      destruct (t_rw g r) as [[r' a']|] eqn:Er.
      - injection E as <- <-. cbn [flat_map ditems]. rewrite <- !app_assoc.
        apply (R_ctx (fitems pro) (fitems epi ++ flat_map ditems rest)). apply t_rw_R, Er.
      - fold (rw_docs g) in E. destruct (rw_docs g rest) as [[rest' a']|] eqn:Es; [|discriminate].
        injection E as <- <-. cbn [flat_map]. specialize (IH _ _ eq_refl).
        pose proof (R_ctx (ditems (pro, r, epi)) [] _ _ _ IH) as H. rewrite !app_nil_r in H. exact H.
    Qed.
    Lemma w_rw_R w w' a : w_rw g w = Some (w', a) -> R (witems w) (witems w') a.
    Proof.
      unfold w_rw, witems. intros E. destruct (rw_docs g (docs w)) as [[d' a']|] eqn:Ed.
      - injection E as <- <-. cbn [docs loose]. pose proof (R_ctx [] (fitems (loose w)) _ _ _ (rw_docs_R _ _ _ Ed)) as H.
        exact H.
      - destruct (rw_list (t_rw g) (loose w)) as [[l' a']|] eqn:El; [|discriminate]. injection E as <- <-.
        cbn [docs loose]. assert (HF : Forall (fun k => forall k' a, t_rw g k = Some (k', a) -> R (items k) (items k') a) (loose w))
          by (apply Forall_forall; intros k _; apply t_rw_R).
        pose proof (R_ctx (flat_map ditems (docs w)) [] _ _ _ (rw_list_R _ HF _ _ El)) as H.
        rewrite !app_nil_r in H. exact H.
    Qed.
  End Rw.

  (* closure of the three relations used *)
  Lemma perm_ins_ctx (ins pre post l l' : list X) : Permutation l' (ins ++ l) ->
    Permutation (pre ++ l' ++ post) (ins ++ pre ++ l ++ post).
  Proof.
    intros H. rewrite (app_assoc ins). rewrite (Permutation_app_comm ins pre). rewrite <- app_assoc.
    apply Permutation_app_head. rewrite app_assoc. apply Permutation_app_tail. exact H.
  Qed.
  Lemma perm_out_ctx (out pre post l l' : list X) : Permutation (l' ++ out) l ->
    Permutation ((pre ++ l' ++ post) ++ out) (pre ++ l ++ post).
  Proof.
    intros H. rewrite <- !app_assoc. apply Permutation_app_head. rewrite (Permutation_app_comm post out).
    rewrite !app_assoc. apply Permutation_app_tail. exact H.
  Qed.

  (* local list surgery *)
  Lemma ins_after_items x n l : existsb (has_id x) l = true -> Permutation (fitems (ins_after x n l)) (items n ++ fitems l).
  Proof.
    induction l as [|t r IH]; intros H; [discriminate|]. cbn [existsb ins_after] in *. destruct (has_id x t).
    - cbn [fitems flat_map]. rewrite !app_assoc. apply Permutation_app_tail. apply Permutation_app_comm.
    - cbn [orb] in H. cbn [fitems flat_map]. fold (fitems (ins_after x n r)). rewrite (IH H).
      fold (fitems r). rewrite !app_assoc. apply Permutation_app_tail. apply Permutation_app_comm.
  Qed.
  Lemma ins_before_items x n l : existsb (has_id x) l = true -> Permutation (fitems (ins_before x n l)) (items n ++ fitems l).
  Proof.
    induction l as [|t r IH]; intros H; [discriminate|]. cbn [existsb ins_before] in *. destruct (has_id x t).
    - reflexivity.
    - cbn [orb] in H. cbn [fitems flat_map]. fold (fitems (ins_before x n r)). rewrite (IH H).
      fold (fitems r). rewrite !app_assoc. apply Permutation_app_tail. apply Permutation_app_comm.
  Qed.
  Lemma take_id_items x l : forall u r, take_id x l = Some (u, r) -> Permutation (fitems r ++ items u) (fitems l).
  Proof.
    induction l as [|t l IH]; intros u r E; [discriminate|]. cbn [take_id] in E. destruct (has_id x t).
    - injection E as <- <-. cbn [fitems flat_map]. apply Permutation_app_comm.
    - destruct (take_id x l) as [[u' r']|] eqn:El; [|discriminate]. injection E as <- <-.
      cbn [fitems flat_map]. rewrite <- app_assoc. apply Permutation_app_head. apply IH. reflexivity.
  Qed.
  Lemma find_existsb x (l : list itree) xk : find (has_id x) l = Some xk -> existsb (has_id x) l = true.
  Proof. intros H. apply find_some in H as [H1 H2]. apply existsb_exists. exists xk. auto. Qed.

  Definition Rins (ins : list X) (l l' : list X) (_ : unit) : Prop := Permutation l' (ins ++ l).
  Definition Rout (O : itree -> list X) (l l' : list X) (a : itree) : Prop := Permutation (l' ++ O a) l.

  Lemma a_move_items n ok (g : itree -> itree -> option (itree * unit)) w :
    (forall t s s' a, g t s = Some (s', a) -> Permutation (items s') (items t ++ items s)) ->
    Permutation (witems (a_move n ok g w)) (witems w).
  Proof.
    intros Hg. unfold a_move, take_loose. destruct (take_id n (loose w)) as [[t l']|] eqn:Et; [|reflexivity].
    destruct (ok t); [|reflexivity].
    destruct (w_rw (g t) {| docs := docs w; loose := l' |}) as [[w2 []]|] eqn:Er; [|reflexivity].
    pose proof (w_rw_R (g t) (Rins (items t)) (fun pre post l l' a => perm_ins_ctx (items t) pre post l l')
                  (fun s s' a E => Hg t s s' a E) _ _ _ Er) as H. unfold Rins in H. rewrite H.
    unfold witems. cbn [docs loose]. rewrite (Permutation_app_comm (items t)), <- app_assoc.
    apply Permutation_app_head. apply (take_id_items _ _ _ _ Et).
  Qed.

  Lemma at_parent_ins_after x t s s' a : at_parent_of x (ins_after x t) s = Some (s', a) ->
    Permutation (items s') (items t ++ items s).
  Proof.
    destruct s as [i p kids]. cbn [at_parent_of]. destruct (existsb (has_id x) kids) eqn:E; [|discriminate].
    intros H. injection H as <- _. cbn [items]. fold (fitems (ins_after x t kids)). rewrite (ins_after_items _ _ _ E).
    fold (fitems kids). rewrite !app_assoc. apply Permutation_app_tail. apply Permutation_app_comm.
  Qed.
  Lemma g_before_items x t s s' a : g_before x t s = Some (s', a) -> Permutation (items s') (items t ++ items s).
  Proof.
    destruct s as [i p kids]. cbn [g_before]. destruct (find (has_id x) kids) as [xk|] eqn:E; [|discriminate].
    destruct (is_itext t && negb (is_itext xk))%bool; [discriminate|]. intros H. injection H as <- _. cbn [items].
    fold (fitems (ins_before x t kids)). rewrite (ins_before_items _ _ _ (find_existsb _ _ _ E)).
    fold (fitems kids). rewrite !app_assoc. apply Permutation_app_tail. apply Permutation_app_comm.
  Qed.
  Lemma at_tag_cons_items p t s s' a : at_tag p (fun q => INode (iid q) (ipayload q) (t :: ikids q)) s = Some (s', a) ->
    Permutation (items s') (items t ++ items s).
  Proof.
    unfold at_tag. destruct (has_id p s && nkind_eqb (ikind s) NTag)%bool; [|discriminate]. intros H. injection H as <- _.
    destruct s as [i q kids]. cbn [items iid ipayload ikids flat_map]. rewrite !app_assoc. apply Permutation_app_tail.
    apply Permutation_app_comm.
  Qed.
  Lemma at_tag_snoc_items p t s s' a : at_tag p (fun q => INode (iid q) (ipayload q) (ikids q ++ [t])) s = Some (s', a) ->
    Permutation (items s') (items t ++ items s).
  Proof.
    unfold at_tag. destruct (has_id p s && nkind_eqb (ikind s) NTag)%bool; [|discriminate]. intros H. injection H as <- _.
    destruct s as [i q kids]. cbn [items iid ipayload ikids]. rewrite flat_map_app. cbn [flat_map]. rewrite app_nil_r.
    rewrite (Permutation_app_comm (items t)). rewrite !app_assoc. reflexivity.
  Qed.
  Lemma g_extract_items x s s' u : g_extract x s = Some (s', u) -> Permutation (items s' ++ items u) (items s).
  Proof.
    destruct s as [i p kids]. cbn [g_extract]. destruct (take_id x kids) as [[u' r]|] eqn:E; [|discriminate].
    intros H. injection H as <- <-. cbn [items]. rewrite <- app_assoc. apply Permutation_app_head.
    apply (take_id_items _ _ _ _ E).
  Qed.

  (* the structural updates -- everything but content assignment and merging -- only move nodes around *)
  Definition structural (u : upd) : bool := match u with USetContent _ _ | UMerge _ => false | _ => true end.
  Definition created (u : upd) : list X :=
    match u with
    | UNewText fresh s => f fresh (PText s)
    | UNewTag _ fresh ns name => f fresh (PTag ns name [])
    | _ => []
    end.
  Theorem apply_a_items u w : structural u = true -> Permutation (witems (apply_a u w)) (witems w ++ created u).
  Proof.
    intros Hs. destruct u; try discriminate; cbn [apply_a created]; rewrite ?app_nil_r.
    - unfold witems, add_loose. cbn [docs loose]. rewrite fitems_app. cbn [fitems flat_map items]. rewrite !app_nil_r, app_assoc. reflexivity.
    - unfold witems, add_loose. cbn [docs loose]. rewrite fitems_app. cbn [fitems flat_map items]. rewrite !app_nil_r, app_assoc. reflexivity.
    - apply a_move_items. intros t s s' a. apply at_parent_ins_after.
    - apply a_move_items. intros t s s' a. apply g_before_items.
    - apply a_move_items. intros t s s' a. apply g_before_items.
    - apply a_move_items. intros t s s' a. apply at_tag_cons_items.
    - apply a_move_items. intros t s s' a. apply at_tag_snoc_items.
    - destruct (w_rw (g_extract x) w) as [[w1 t]|] eqn:E; [|reflexivity].
      pose proof (w_rw_R (g_extract x) (Rout items) (fun pre post l l' a => perm_out_ctx (items a) pre post l l')
                    (fun s s' a Es => g_extract_items x s s' a Es) _ _ _ E) as H. unfold Rout in H. rewrite <- H.
      unfold witems, add_loose. cbn [docs loose]. rewrite fitems_app. cbn [fitems flat_map]. rewrite app_nil_r, app_assoc.
      reflexivity.
  Qed.
End Items.

(* ------------------------------------------------------------------ identities *)
Definition fid (i : nid) (_ : payload) : list nid := [i].
Lemma items_ids t : items fid t = ids t.
Proof.
  induction t as [i p kids IH] using itree_ind'. cbn [items ids fid app]. apply (f_equal (cons i)).
  induction kids as [|k r IHr]; [reflexivity|]. inversion IH as [|? ? Hk Hr]; subst. cbn [flat_map].
  rewrite Hk, (IHr Hr). reflexivity.
Qed.
Lemma fitems_ids l : fitems fid l = flat_map ids l.
Proof. induction l as [|t r IH]; [reflexivity|]. cbn [fitems flat_map]. rewrite items_ids. f_equal; try exact IH. Qed.
Lemma witems_ids w : witems fid w = world_ids_a w.
Proof.
  unfold witems, world_ids_a, forest. rewrite flat_map_app, fitems_ids. f_equal.
  induction (docs w) as [|[[pro r] epi] rest IH]; [reflexivity|]. cbn [flat_map ditems doc_nodes].
  rewrite !flat_map_app, IH. cbn [flat_map]. rewrite !fitems_ids, items_ids, <- !app_assoc. reflexivity.
Qed.

Lemma tree_texts_items t : items text_item t = tree_texts t.
Proof.
  induction t as [i p kids IH] using itree_ind'. cbn [items tree_texts]. apply (f_equal (app (text_item i p))).
  induction kids as [|k r IHr]; [reflexivity|]. inversion IH as [|? ? Hk Hr]; subst. cbn [flat_map].
  rewrite Hk, (IHr Hr). reflexivity.
Qed.
Lemma witems_texts w : witems text_item w = world_texts w.
Proof.
  assert (F : forall l, fitems text_item l = flat_map tree_texts l).
  { induction l as [|t r IH]; [reflexivity|]. cbn [fitems flat_map]. rewrite tree_texts_items. f_equal; try exact IH. }
  unfold witems, world_texts, forest. rewrite flat_map_app, F. f_equal.
  induction (docs w) as [|[[pro r] epi] rest IH]; [reflexivity|]. cbn [flat_map ditems doc_nodes].
  rewrite !flat_map_app, IH. cbn [flat_map]. rewrite !F, tree_texts_items, <- !app_assoc. reflexivity.
Qed.

(* content assignment keeps every identity where it is *)
Lemma set_text_first_ids x s l : fitems fid (set_text_first x s l) = fitems fid l.
Proof.
  induction l as [|t r IH]; [reflexivity|]. cbn [set_text_first]. destruct (has_id x t).
  - cbn [fitems flat_map]. f_equal. destruct t as [i [] k]; reflexivity.
  - cbn [fitems flat_map]. f_equal. exact IH.
Qed.
Definition Req (l l' : list nid) (_ : unit) : Prop := l' = l.
Lemma set_content_ids x s w : witems fid (apply_a (USetContent x s) w) = witems fid w.
Proof.
  cbn [apply_a]. destruct (is_loose w x).
  - unfold witems. cbn [docs loose]. rewrite set_text_first_ids. reflexivity.
  - destruct (w_rw (at_parent_of x (set_text_first x s)) w) as [[w1 []]|] eqn:E; [|reflexivity].
    apply (w_rw_R fid (at_parent_of x (set_text_first x s)) Req) with (a := tt) (w := w); [| |exact E].
    + intros pre post l l' a H. unfold Req in *. rewrite H. reflexivity.
    + intros t t' a H. unfold Req. destruct t as [i p kids]. cbn [at_parent_of] in H.
      destruct (existsb (has_id x) kids); [|discriminate]. injection H as <- _. cbn [items]. f_equal.
      apply set_text_first_ids.
Qed.

(* merging drops identities (those of the text nodes merged into their predecessor), it never adds or repeats one *)
Definition Sub (l' l : list nid) : Prop := exists out, Permutation (l' ++ out) l.
Lemma Sub_refl l : Sub l l. Proof. exists []. rewrite app_nil_r. reflexivity. Qed.
Lemma Sub_app a a' b b' : Sub a' a -> Sub b' b -> Sub (a' ++ b') (a ++ b).
Proof.
  intros [o1 H1] [o2 H2]. exists (o1 ++ o2). rewrite <- H1, <- H2. rewrite <- !app_assoc. apply Permutation_app_head.
  rewrite !app_assoc. apply Permutation_app_tail. apply Permutation_app_comm.
Qed.
Lemma Sub_drop a l' l : Sub l' l -> Sub l' (a ++ l).
Proof. intros [o H]. exists (o ++ a). rewrite app_assoc, H. apply Permutation_app_comm. Qed.
Lemma nodup_app_l {X} (l1 l2 : list X) : NoDup (l1 ++ l2) -> NoDup l1.
Proof.
  induction l1 as [|a r IH]; intros H; [constructor|]. inversion H as [|? ? Hn Hr]; subst. constructor.
  - intros Hin. apply Hn. apply in_or_app. left. exact Hin.
  - apply IH, Hr.
Qed.
Lemma nodup_snoc {X} (l : list X) a : NoDup l -> ~ In a l -> NoDup (l ++ [a]).
Proof.
  intros N Ha. apply (Permutation_NoDup (l := a :: l)); [|constructor; assumption].
  change (a :: l) with ([a] ++ l). apply Permutation_app_comm.
Qed.
Lemma Sub_nodup l' l : Sub l' l -> NoDup l -> NoDup l'.
Proof. intros [o H] N. apply (Permutation_NoDup (Permutation_sym H)) in N. apply nodup_app_l in N. exact N. Qed.

Lemma Sub_nil l : Sub [] l. Proof. exists l. reflexivity. Qed.
Lemma Sub_trans a b c : Sub a b -> Sub b c -> Sub a c.
Proof. intros [o1 H1] [o2 H2]. exists (o1 ++ o2). rewrite app_assoc, H1. exact H2. Qed.
Lemma merge_run_sub l : forall acc, Sub (fitems fid (merge_run acc l)) (fitems fid (acc :: l)).
Proof.
  induction l as [|t r IH]; intros acc; cbn [merge_run]; [apply Sub_refl|].
  destruct (is_itext acc && is_itext t)%bool eqn:E.
  - apply andb_true_iff in E as [Ea Et]. destruct acc as [i p k], t as [j q k'].
    destruct p; try discriminate. destruct q; try discriminate. cbn [iid text_of ipayload].
    eapply Sub_trans; [apply IH|]. cbn [fitems flat_map items fid].
    apply Sub_app.
    + apply (Sub_app [i] [i] (flat_map (items fid) k) []); [apply Sub_refl|apply Sub_nil].
    + apply Sub_drop. apply Sub_refl.
  - cbn [fitems flat_map]. apply Sub_app; [apply Sub_refl|apply IH].
Qed.
Lemma merge_list_sub l : Sub (fitems fid (merge_list l)) (fitems fid l).
Proof. destruct l as [|t r]; [apply Sub_refl|apply merge_run_sub]. Qed.
Lemma merge_tree_sub t : Sub (items fid (merge_tree t)) (items fid t).
Proof.
  induction t as [i p kids IH] using itree_ind'. cbn [merge_tree items]. apply Sub_app; [apply Sub_refl|].
  fold (fitems fid (merge_list (map merge_tree kids))). fold (fitems fid kids).
  destruct (merge_list_sub (map merge_tree kids)) as [o H].
  assert (S : Sub (fitems fid (map merge_tree kids)) (fitems fid kids)).
  { clear H. induction kids as [|k r IHr]; [apply Sub_refl|]. inversion IH; subst. cbn [map fitems flat_map].
    apply Sub_app; auto. }
  destruct S as [o2 H2]. exists (o ++ o2). rewrite app_assoc, H. exact H2.
Qed.
Lemma merge_ids p w : Sub (witems fid (apply_a (UMerge p) w)) (witems fid w).
Proof.
  cbn [apply_a]. destruct (w_rw (at_tag p merge_tree) w) as [[w1 []]|] eqn:E; [|apply Sub_refl].
  apply (w_rw_R fid (at_tag p merge_tree) (fun l l' (_ : unit) => Sub l' l)) with (a := tt) (w := w); [| |exact E].
  - intros pre post l l' a H. apply Sub_app; [apply Sub_refl|]. apply Sub_app; [exact H|apply Sub_refl].
  - intros t t' a H. unfold at_tag in H. destruct (has_id p t && nkind_eqb (ikind t) NTag)%bool; [|discriminate].
    injection H as <- _. apply merge_tree_sub.
Qed.

Lemma memb_in x l : memb x l = false <-> ~ In x l.
Proof.
  split; [apply memb_false|]. intros H. unfold memb. destruct (existsb (N.eqb x) l) eqn:E; [|reflexivity].
  apply existsb_exists in E as [y [Hy E]]. apply N.eqb_eq in E. subst. contradiction.
Qed.

Theorem apply_a_nodup u w : NoDup (world_ids_a w) ->
  forallb (fun f => negb (memb f (world_ids_a w))) (upd_new u) = true -> NoDup (world_ids_a (apply_a u w)).
Proof.
  intros N Hf. rewrite <- !witems_ids in *. destruct (AOpsFacts.structural u) eqn:Es.
  - apply (Permutation_NoDup (Permutation_sym (apply_a_items fid u w Es))).
    destruct u; cbn [created upd_new forallb fid] in *; rewrite ?app_nil_r; try exact N;
      (apply andb_true_iff in Hf as [Hf _]; apply negb_true_iff, memb_in in Hf;
       apply nodup_snoc; assumption).
  - destruct u; try discriminate.
    + rewrite set_content_ids. exact N.
    + eapply Sub_nodup; [apply merge_ids|exact N].
Qed.

Theorem run_nodup p : forall w, NoDup (world_ids_a w) -> run_fresh p w = true -> NoDup (world_ids_a (fst (run_a p w))).
Proof.
  induction p as [r|u k IH|k IH]; intros w N Hf; cbn [run_a run_fresh] in *; [exact N| |apply IH; assumption].
  apply andb_true_iff in Hf as [H1 H2]. apply IH; [apply apply_a_nodup; assumption|exact H2].
Qed.

(* ------------------------------------------------------------------ text is conserved *)
Lemma structural_eq u : AOpsFacts.structural u = AGuard.structural u. Proof. destruct u; reflexivity. Qed.
Theorem run_texts p : forall w, run_structural p w = true ->
  Permutation (world_texts (fst (run_a p w))) (world_texts w ++ run_new_texts p w).
Proof.
  induction p as [r|u k IH|k IH]; intros w Hs; cbn [run_a run_structural run_new_texts] in *.
  - rewrite app_nil_r. reflexivity.
  - apply andb_true_iff in Hs as [H1 H2]. rewrite (IH _ H2). rewrite <- !witems_texts.
    rewrite <- structural_eq in H1. rewrite (apply_a_items text_item u w H1). rewrite <- app_assoc.
    apply Permutation_app_head. apply Permutation_app_tail. destruct u; reflexivity.
  - apply IH, Hs.
Qed.

(* ------------------------------------------------------------------ merging, characterised independently *)
From Delb.Tree Require Import AFlat AEdit.
Lemma cons_c_text s s' X : cons_c (CText s) (cons_c (CText s') X) = cons_c (CText (s ++ s')) X.
Proof. destruct X as [|[b|i p k] r]; cbn [cons_c]; rewrite ?app_assoc; reflexivity. Qed.
Lemma norm_text i s k : norm (INode i (PText s) k) = CText s. Proof. reflexivity. Qed.
Lemma merge_run_norm l : forall acc,
  fold_right cons_c [] (map norm (merge_run acc l)) = fold_right cons_c [] (map norm (acc :: l)).
Proof.
  induction l as [|t r IH]; intros acc; cbn [merge_run]; [reflexivity|].
  destruct (is_itext acc && is_itext t)%bool eqn:E.
  - apply andb_true_iff in E as [Ea Et]. destruct acc as [i p k], t as [j q k']. destruct p; try discriminate. destruct q; try discriminate.
    rewrite IH. cbn [map fold_right iid text_of ipayload]. rewrite !norm_text. rewrite cons_c_text. reflexivity.
  - cbn [map fold_right]. rewrite IH. reflexivity.
Qed.
Lemma merge_tree_norm t : norm (merge_tree t) = norm t.
Proof.
  induction t as [i p kids IH] using itree_ind'. cbn [merge_tree]. destruct p; try reflexivity; cbn [norm]; f_equal;
    (assert (E : map norm (map merge_tree kids) = map norm kids)
       by (clear -IH; induction kids as [|k r IHr]; [reflexivity|]; inversion IH as [|? ? Hk Hr]; subst; cbn [map]; rewrite Hk, (IHr Hr); reflexivity));
    (destruct (map merge_tree kids) as [|a l] eqn:Em; [destruct kids; [reflexivity|discriminate]|]);
    cbn [merge_list]; rewrite merge_run_norm, <- E; reflexivity.
Qed.

Lemma no_adj_cons a b r : no_adjacent_texts (a :: b :: r) = (negb (is_itext a && is_itext b) && no_adjacent_texts (b :: r))%bool.
Proof. reflexivity. Qed.
Lemma merge_run_no_adjacent l : forall acc, no_adjacent_texts (merge_run acc l) = true /\
  (is_itext acc = false -> exists r, merge_run acc l = acc :: r).
Proof.
  induction l as [|t r IH]; intros acc; cbn [merge_run].
  - split; [reflexivity|]. intros _. exists []. reflexivity.
  - destruct (is_itext acc && is_itext t)%bool eqn:E.
    + destruct (IH (INode (iid acc) (PText (text_of acc ++ text_of t)) [])) as [H1 _]. split; [exact H1|].
      intros Ha. apply andb_true_iff in E as [Ea _]. congruence.
    + destruct (IH t) as [H1 H2]. split; [|intros _; eexists; reflexivity].
      destruct (merge_run t r) as [|b r'] eqn:Em; [reflexivity|]. rewrite no_adj_cons, H1, andb_true_r.
      (* the head of merge_run t r is text iff t is *)
      assert (Hb : is_itext b = is_itext t).
      { clear -Em. revert t b r' Em. induction r as [|u r IHr]; intros t b r' Em; cbn [merge_run] in Em.
        - injection Em as <- _. reflexivity.
        - destruct (is_itext t && is_itext u)%bool eqn:E2.
          + apply andb_true_iff in E2 as [Et _]. rewrite (IHr _ _ _ Em). rewrite Et. reflexivity.
          + injection Em as <- _. reflexivity. }
      rewrite Hb, E. reflexivity.
Qed.
Lemma merge_tree_merged t : merged (merge_tree t) = true.
Proof.
  induction t as [i p kids IH] using itree_ind'. cbn [merge_tree merged]. apply andb_true_iff. split.
  - destruct (map merge_tree kids) as [|a l]; [reflexivity|]. cbn [merge_list]. apply merge_run_no_adjacent.
  - (* every member of the merged list is a merged tree: a merged child, or a text leaf *)
    assert (HK : forallb merged (map merge_tree kids) = true).
    { clear -IH. induction kids as [|k r IHr]; [reflexivity|]. inversion IH as [|? ? Hk Hr]; subst. cbn [map forallb]. rewrite Hk, (IHr Hr). reflexivity. }
    destruct (map merge_tree kids) as [|a l]; [reflexivity|]. cbn [merge_list]. cbn [forallb] in HK. apply andb_true_iff in HK as [Ha Hl].
    clear -Ha Hl. revert a Ha Hl. induction l as [|t r IHr]; intros a Ha Hl; cbn [merge_run forallb] in *.
    + rewrite Ha. reflexivity.
    + apply andb_true_iff in Hl as [Ht Hr]. destruct (is_itext a && is_itext t)%bool; [apply IHr; [reflexivity|exact Hr]|].
      cbn [forallb]. rewrite Ha. apply IHr; assumption.
Qed.
