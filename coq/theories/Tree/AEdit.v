(* `edit_ok`: what each editing call has to do to a plain ordered tree with node identity, stated as a *relation*
   between the world before and after -- on the flat view (payload and child identities of every node, identities at
   the top level), without reference to the scripts of AOps.v that compute positions.  Definitions only.

   The building blocks:
     offered w w0 src n   the offered source `src` stands for node n: an existing parentless node (w0 = w), or a text
                          node / tag node made from a string / tag() definition (w0 = w plus that parentless node)
     moved Pos w w' n     the parentless node n becomes a child of some node P; P's children split into those before n
                          (La) and after n (Lb) as `Pos P La Lb` demands; P keeps its payload; every other node
                          (including n and everything below it) keeps payload and children -- hence every node other
                          than n keeps its parent and its order among its siblings; n leaves the parentless nodes, the
                          documents are untouched
     detached w w' x      x leaves its parent's child list, nothing else changes there; x becomes parentless
   Positions count the children *visible under the ambient filter F*:
     directly after x / before x with nothing visible in between / after every visible child of p / with exactly i
     visible children of p before it. *)
From Coq Require Import Permutation.
From Delb.Base Require Import PyStr.
From Delb.Tree Require Import ATree ITree AOps AGuard AFlat.

Definition invisible (F : filt) (w : world) (l : list nid) : Prop := forall y, In y l -> vis_id F w y = false.
Definition visible_count (F : filt) (w : world) (l : list nid) : nat := length (filter (vis_id F w) l).

(* positions: P is the new parent, La / Lb its children before / after the new node *)
Definition pos_follow (x : nid) (P : nid) (La Lb : list nid) : Prop := exists L0, La = L0 ++ [x].
Definition pos_precede (F : filt) (w : world) (x : nid) (P : nid) (La Lb : list nid) : Prop :=
  exists I L1, Lb = I ++ x :: L1 /\ invisible F w I.
Definition pos_append (F : filt) (w : world) (p : nid) (P : nid) (La Lb : list nid) : Prop :=
  P = p /\ invisible F w Lb.
Definition pos_index (F : filt) (w : world) (p : nid) (i : nat) (P : nid) (La Lb : list nid) : Prop :=
  P = p /\ visible_count F w La = i.

Definition same_docs (w w' : world) : Prop := doc_shape w' = doc_shape w.

Definition moved (Pos : nid -> list nid -> list nid -> Prop) (w w' : world) (n : nid) : Prop :=
  exists P p La Lb,
    In n (loose_ids w) /\ node_of w P = Some (p, La ++ Lb) /\ Pos P La Lb /\
    (forall q, node_of w' q = if N.eqb P q then Some (p, La ++ n :: Lb) else node_of w q) /\
    loose_ids w' = remove_first n (loose_ids w) /\ same_docs w w'.

Definition created (w w0 : world) (f : nid) (p : payload) : Prop :=
  node_of w f = None /\
  (forall q, node_of w0 q = if N.eqb f q then Some (p, []) else node_of w q) /\
  loose_ids w0 = loose_ids w ++ [f] /\ same_docs w w0.

(* the namespace a tag() definition takes: that of the context node, or of its parent when it is not a tag node *)
Definition ctx_namespace (w : world) (ctx : nid) (ns : str) : Prop :=
  match node_of w ctx with
  | Some (PTag n _ _, _) => ns = n
  | Some _ => exists P n nm at_ ks, node_of w P = Some (PTag n nm at_, ks) /\ In ctx ks /\ ns = n
  | None => False
  end.

Definition offered (w w0 : world) (ctx : nid) (src : nsrc) (n : nid) : Prop :=
  match src with
  | SNode m => n = m /\ w0 = w /\ In m (loose_ids w)
  | SStr f s => n = f /\ created w w0 f (PText s)
  | STag f name => n = f /\ exists ns, ctx_namespace w ctx ns /\ created w w0 f (PTag ns name [])
  end.

Definition detached (w w' : world) (x : nid) : Prop :=
  exists P p La Lb,
    node_of w P = Some (p, La ++ x :: Lb) /\ ~ In x La /\
    (forall q, node_of w' q = if N.eqb P q then Some (p, La ++ Lb) else node_of w q) /\
    loose_ids w' = loose_ids w ++ [x] /\ same_docs w w'.

(* the offered nodes one after the other, each directly after the previous *)
Fixpoint chain_follow (w : world) (x : nid) (srcs : list nsrc) (w' : world) : Prop :=
  match srcs with
  | [] => w' = w
  | s :: r => exists w0 w1 n, offered w w0 x s n /\ moved (pos_follow x) w0 w1 n /\ chain_follow w1 n r w'
  end.
(* add_preceding_siblings(a, b, c): a before the target, b before a, c before b *)
Fixpoint chain_precede (F : filt) (w : world) (x : nid) (srcs : list nsrc) (w' : world) : Prop :=
  match srcs with
  | [] => w' = w
  | s :: r => exists w0 w1 n, offered w w0 x s n /\ moved (pos_precede F w0 x) w0 w1 n /\ chain_precede F w1 n r w'
  end.

(* ---- what merging text nodes must and must not change, stated without the merge function ----
   `norm` is the content of a tree with the identities of text nodes forgotten and every run of adjacent text
   nodes read as one string: two trees with the same `norm` have the same element-like nodes with the same identities,
   payloads, parents and order, and the same text between any two of them.  `merged` says no two adjacent children of
   any node are text nodes. *)
Inductive ctree := CText (s : str) | CNode (i : nid) (p : payload) (kids : list ctree).
Definition cons_c (x : ctree) (l : list ctree) : list ctree :=
  match x, l with CText a, CText b :: r => CText (a ++ b) :: r | _, _ => x :: l end.
Fixpoint norm (t : itree) : ctree :=
  match t with
  | INode _ (PText s) _ => CText s
  | INode i p kids => CNode i p (fold_right cons_c [] (map norm kids))
  end.
Fixpoint no_adjacent_texts (l : list itree) : bool :=
  match l with
  | a :: ((b :: _) as r) => negb (is_itext a && is_itext b) && no_adjacent_texts r
  | _ => true
  end.
Fixpoint merged (t : itree) : bool :=
  match t with INode _ _ kids => no_adjacent_texts kids && forallb merged kids end.

Definition nth_visible (F : filt) (w : world) (p : nid) (i : nat) : option nid :=
  nth_error (filter (vis_id F w) (kids_of w p)) i.

Definition edit_ok (F : filt) (w : world) (o : op) (w' : world) : Prop :=
  match o with
  | OAddFollowing x srcs => chain_follow w x srcs w'
  | OAddPreceding x srcs => chain_precede F w x srcs w'
  | OAppend p srcs =>
      match srcs with
      | [] => w' = w
      | s :: r =>
          (* the first node after every visible child of p; the context of a tag() definition is the last visible
             child, or p itself when it has none *)
          exists ctx w0 w1 n, offered w w0 ctx s n /\ moved (pos_append F w0 p) w0 w1 n /\ chain_follow w1 n r w'
      end
  | OPrepend p srcs | OInsert p _ srcs =>
      let i := match o with OInsert _ i _ => Z.to_nat i | _ => O end in
      match srcs with
      | [] => w' = w
      | s :: r =>
          (* the first node with exactly i visible children of p before it, the others after the child at visible
             index i (the first node itself when it is visible) *)
          exists ctx w0 w1 n, offered w w0 ctx s n /\ moved (pos_index F w0 p i) w0 w1 n /\
                              match r with
                              | [] => w' = w1
                              | _ => exists y, nth_visible F w1 p i = Some y /\ chain_follow w1 y r w'
                              end
      end
  | ODetach x false => detached w w' x \/ (w' = w /\ forall P p ks, node_of w P = Some (p, ks) -> ~ In x ks)
  | ODetach x true =>
      (* a parentless non-tag node: nothing; otherwise the node leaves, its children leave it, and they are inserted
         where it was (all nodes count: detach works under the empty filter) *)
      (w' = w /\ forall P p ks, node_of w P = Some (p, ks) -> ~ In x ks) \/
      exists P p La Lb w1, node_of w P = Some (p, La ++ x :: Lb) /\ ~ In x La /\ detached w w1 x /\
        (kind_id w x <> Some NTag -> w' = w1) /\
        (kind_id w x = Some NTag ->
           exists w2, (fix all_detached (l : list nid) (a b : world) : Prop :=
                         match l with [] => b = a | c :: r => exists m, detached a m c /\ all_detached r m b end)
                        (kids_of w x) w1 w2 /\
                      match kids_of w x with
                      | [] => w' = w2
                      | c :: r => exists w3, moved (pos_index fall w2 P (length La)) w2 w3 c /\
                                             match r with
                                             | [] => w' = w3
                                             | _ => exists y, nth_visible fall w3 P (length La) = Some y /\
                                                              chain_follow w3 y (map SNode r) w'
                                             end
                      end)
  | OReplace x src => exists w0 w1 n, offered w w0 x src n /\ moved (pos_follow x) w0 w1 n /\ detached w1 w' x
  | OSetItem p i src =>
      match filter (vis_id F w) (kids_of w p) with
      | [] => (* no visible child: the node becomes one (only index 0 is legal) *)
          exists w0 n, offered w w0 p src n /\ moved (pos_index F w0 p O) w0 w' n
      | _ => exists y w0 w1 n, nth_visible F w p (Z.to_nat i) = Some y /\
                               offered w w0 y src n /\ moved (pos_follow y) w0 w1 n /\ detached w1 w' y
      end
  | ODelItem p i =>
      exists y, nth_visible F w p (Z.to_nat (if (i <? 0)%Z then Z.of_nat (visible_count F w (kids_of w p)) + i else i)%Z) = Some y /\
                detached w w' y
  | OSetContent x s =>
      exists old ks, node_of w x = Some (PText old, ks) /\
        (forall q, node_of w' q = if N.eqb x q then Some (PText s, ks) else node_of w q) /\
        loose_ids w' = loose_ids w /\ same_docs w w'
  | OMerge p =>
      (* the flat view changes only inside the subtree s at p; the new subtree s' has the same normal form (same
         element-like nodes, same text between them), no adjacent text nodes, and no identity that s did not have *)
      w' = w \/
      exists pre post s s', iid s = p /\ wflat w = pre ++ flat s ++ post /\ wflat w' = pre ++ flat s' ++ post /\
        norm s' = norm s /\ merged s' = true /\ (exists out, Permutation (ids s' ++ out) (ids s)) /\
        loose_ids w' = loose_ids w /\ same_docs w w'
  end.

