(* C08, first half - the default-filter stack under arbitrary interleavings of the caller's own
   `with altered_default_filters(...)` blocks, library calls, and resumptions / finalisations of
   (partially consumed, suspended, abandoned) library generators.  Definitions only.

   `_delb.nodes.default_filters` is a process-global stack; `altered_default_filters` (a
   contextmanager, also used as decorator) pushes one entry on entry and pops one on exit.
   A library routine is summarised by the stack operations it performs in each *segment* between
   two consecutive suspension points (call -> first yield, yield -> yield, last yield -> exhaustion
   or finalisation).  The summaries of the real routines are generated from /repo's AST on every
   run (Gen/GenFilterFx.v, translate/gen_filters.py). *)
From Coq Require Import List Arith Bool String.
Import ListNotations.

(* library side: entering / leaving `with altered_default_filters(...)` inside library code *)
Inductive sop := LPush | LPop.

Record fsum := mk_fsum {
  f_file : string;            (* source file *)
  f_name : string;            (* qualified function name *)
  f_decorated : bool;         (* @altered_default_filters(...) on the function *)
  f_generator : bool;         (* the function's own body contains yield / yield from *)
  f_segs : list (list sop)    (* stack operations per segment *)
}.

Section Stack.
  Variable filt : Type.                         (* a tuple of filters established by the client *)
  (* a stack entry is either one the client pushed (Some f) or one library code pushed (None) *)
  Definition stack := list (option filt).

  Fixpoint run_ops (ops : list sop) (st : stack) : option stack :=
    match ops with
    | [] => Some st
    | LPush :: r => run_ops r (None :: st)
    | LPop :: r => match st with [] => None | _ :: st' => run_ops r st' end
    end.

  Definition routine := list (list sop).
  Definition balanced_seg (seg : list sop) : Prop := forall st, run_ops seg st = Some st.
  Definition balanced (r : routine) : Prop := Forall balanced_seg r.

  (* what client code does *)
  Inductive act :=
  | CPush (f : filt)           (* the client enters `with altered_default_filters(f)` *)
  | CPop                       (* ... and leaves it *)
  | Seg (r : nat) (i : nat).   (* library code runs segment i of routine r: a call, the resumption of a
                                  suspended generator, or its finalisation; any order, any number of times *)

  Variable routines : list routine.
  Definition seg_of (r i : nat) : list sop := nth i (nth r routines []) [].

  (* the stack as it really evolves *)
  Fixpoint run (p : list act) (st : stack) : option stack :=
    match p with
    | [] => Some st
    | CPush f :: q => run q (Some f :: st)
    | CPop :: q => match st with [] => None | _ :: st' => run q st' end
    | Seg r i :: q => match run_ops (seg_of r i) st with Some st' => run q st' | None => None end
    end.

  (* the stack the client's own blocks establish (library activity ignored) *)
  Fixpoint own (p : list act) (st : stack) : option stack :=
    match p with
    | [] => Some st
    | CPush f :: q => own q (Some f :: st)
    | CPop :: q => match st with [] => None | _ :: st' => own q st' end
    | Seg _ _ :: q => own q st
    end.
End Stack.
Arguments CPush {filt} f.
Arguments CPop {filt}.
Arguments Seg {filt} r i.

(* the decidable check the generated summaries are put through: starting at relative depth d a
   segment never pops below its own entries and ends at depth 0 *)
Fixpoint depth_ok (seg : list sop) (d : nat) : bool :=
  match seg with
  | [] => Nat.eqb d 0
  | LPush :: r => depth_ok r (S d)
  | LPop :: r => match d with 0 => false | S d' => depth_ok r d' end
  end.
Definition segs_ok (segs : list (list sop)) : bool := forallb (fun seg => depth_ok seg 0) segs.

(* a decorator on a generator function wraps only the call that creates the generator object: the
   body then runs under whatever filters are active when it is resumed *)
Definition decoration_effective (r : fsum) : bool := negb (f_decorated r && f_generator r).
Definition routine_ok (r : fsum) : bool := segs_ok (f_segs r) && decoration_effective r.

Definition mem (s : string) (l : list string) : bool := existsb (String.eqb s) l.

(* routines known not to pass the check (open findings of findings.d/C08.json).  Empty since /repo
   commits b5ea840 and 7e4e5e3 repaired TagNode.iterate_descendants, _Epilogue._iter_all,
   _Prologue._iter_all (context held across yield) and NodeBase._iterate_preceding (decorated
   generator function). *)
Definition known_offenders : list string := [].

Definition offenders (rs : list fsum) : list string :=
  map f_name (filter (fun r => negb (routine_ok r)) rs).
Definition guarded (rs : list fsum) : list fsum :=
  filter (fun r => negb (mem (f_name r) known_offenders)) rs.

(* inside a shielded call: the segment opens with a library entry and that entry stays open until the
   segment's last operation (`@altered_default_filters()` around a plain function: LPush, body, LPop) *)
Fixpoint stays_open (ops : list sop) (d : nat) : bool :=
  match ops with
  | [] => false
  | LPush :: r => stays_open r (S d)
  | LPop :: r => match d with
                 | 0 => false
                 | 1 => match r with [] => true | _ => false end     (* the closing pop is the last operation *)
                 | S d' => stays_open r d'
                 end
  end.
Definition shielded_seg (seg : list sop) : bool :=
  match seg with LPush :: r => stays_open r 1 | _ => false end.

(* the entry points of the operations the property lists that are shielded by a decorator on a plain
   (non-generator) function: their bodies run under the library's own entry `()` whatever the caller
   has active (top_during_shielded_call in FiltersFacts.v) *)
Definition shielded (rs : list fsum) : list string :=
  map f_name (filter (fun r => f_decorated r && negb (f_generator r) && segs_ok (f_segs r)
                               && forallb shielded_seg (f_segs r)) rs).
Definition listed_entry_points : list string :=
  [ "NodeBase.serialize"; "TagNode.serialize"; "NodeBase.xpath"; "TagNode.clone"; "_ElementWrappingNode.detach";
    "TagNode.detach"; "TagNode.merge_text_nodes"; "TagNode._reduce_whitespace"; "Document.__serialize" ]%string.

Fixpoint index_of (s : string) (rs : list fsum) : nat :=
  match rs with [] => 0 | r :: q => if String.eqb (f_name r) s then 0 else S (index_of s q) end.
