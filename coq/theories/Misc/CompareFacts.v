(* C17 - lemmas about the compare_trees model (Misc/Compare.v). *)
From Coq Require Import List NArith Bool Arith Lia.
From Delb.Base Require Import PyStr PyStrFacts.
From Delb.Tree Require Import ATree.
From Delb.Misc Require Import Compare.
Import ListNotations.

(* ------------------------------------------------------------------ attributes as mappings *)
Lemma get_attr_some_in ns k v l : get_attr ns k l = Some v -> In (ns, k, v) l.
Proof.
  induction l as [|[[n' k'] v'] l IH]; cbn [get_attr]; [discriminate|].
  destruct (str_eqb n' ns && str_eqb k' k) eqn:E.
  - apply andb_true_iff in E. destruct E as [E1 E2]. apply str_eqb_eq in E1, E2. subst.
    intros [= ->]. left. reflexivity.
  - intros H. right. apply IH, H.
Qed.

Lemma get_attr_none ns k l : get_attr ns k l = None <-> ~ In (ns, k) (map akey l).
Proof.
  induction l as [|[[n' k'] v'] l IH]; cbn [get_attr map akey].
  - split; [intros _ []|reflexivity].
  - destruct (str_eqb n' ns && str_eqb k' k) eqn:E.
    + apply andb_true_iff in E. destruct E as [E1 E2]. apply str_eqb_eq in E1, E2. subst.
      split; [discriminate|]. intros H. exfalso. apply H. left. reflexivity.
    + rewrite IH. split.
      * intros H [Heq|Hin]; [|exact (H Hin)]. injection Heq as -> ->.
        rewrite !str_eqb_refl in E. discriminate.
      * intros H Hin. apply H. right. exact Hin.
Qed.

Lemma get_attr_in_nodup ns k v l : NoDup (map akey l) -> In (ns, k, v) l -> get_attr ns k l = Some v.
Proof.
  induction l as [|[[n' k'] v'] l IH]; cbn [get_attr map akey]; intros Hnd Hin; [destruct Hin|].
  inversion Hnd as [|? ? Hnotin Hnd']; subst.
  destruct Hin as [Heq|Hin].
  - injection Heq as -> -> ->. rewrite !str_eqb_refl. reflexivity.
  - destruct (str_eqb n' ns && str_eqb k' k) eqn:E.
    + apply andb_true_iff in E. destruct E as [E1 E2]. apply str_eqb_eq in E1, E2. subst.
      exfalso. apply Hnotin. apply (in_map akey) in Hin. exact Hin.
    + apply IH; assumption.
Qed.

Lemma attr_in_iff b ns k v : attr_in b (ns, k, v) = true <-> get_attr ns k b = Some v.
Proof.
  unfold attr_in. destruct (get_attr ns k b) as [v'|].
  - rewrite str_eqb_eq. split; [intros ->; reflexivity|intros [= ->]; reflexivity].
  - split; discriminate.
Qed.

Lemma key_in_exists ns k l : In (ns, k) (map akey l) -> exists v, In (ns, k, v) l.
Proof.
  intros H. apply in_map_iff in H. destruct H as [[[n' k'] v'] [Hk Hin]]. cbn in Hk.
  injection Hk as -> ->. exists v'. exact Hin.
Qed.

Lemma forallb_attr_in_incl a b : forallb (attr_in b) a = true -> incl (map akey a) (map akey b).
Proof.
  intros Hall [ns k] Hin. apply key_in_exists in Hin. destruct Hin as [v Hin].
  rewrite forallb_forall in Hall. specialize (Hall _ Hin). apply attr_in_iff in Hall.
  apply get_attr_some_in in Hall. apply (in_map akey) in Hall. exact Hall.
Qed.

Lemma attrs_same_forallb a b : NoDup (map akey a) -> attrs_same a b -> forallb (attr_in b) a = true.
Proof.
  intros Hnd Hs. apply forallb_forall. intros [[ns k] v] Hin. apply attr_in_iff.
  rewrite <- Hs. apply get_attr_in_nodup; assumption.
Qed.

Lemma attrs_same_sym a b : attrs_same a b -> attrs_same b a.
Proof. intros H ns k. symmetry. apply H. Qed.

(* TagAttributes.__eq__ (equal sizes, then one direction only) decides equality of the mappings *)
Lemma attrs_eq_dict a b : NoDup (map akey a) -> NoDup (map akey b) ->
  (attrs_eqb a b = true <-> attrs_same a b).
Proof.
  intros Ha Hb. unfold attrs_eqb. rewrite andb_true_iff, Nat.eqb_eq. split.
  - intros [Hlen Hall].
    pose proof (forallb_attr_in_incl _ _ Hall) as Hi1.
    assert (Hi2 : incl (map akey b) (map akey a)).
    { apply NoDup_length_incl; [exact Ha| |exact Hi1]. rewrite !map_length. lia. }
    intros ns k. destruct (get_attr ns k a) as [v|] eqn:Ega.
    + apply get_attr_some_in in Ega. rewrite forallb_forall in Hall. specialize (Hall _ Ega).
      apply attr_in_iff in Hall. symmetry. exact Hall.
    + symmetry. apply get_attr_none. intros Hin. apply Hi2 in Hin.
      apply get_attr_none in Ega. exact (Ega Hin).
  - intros Hs. split.
    + pose proof (forallb_attr_in_incl _ _ (attrs_same_forallb _ _ Ha Hs)) as Hi1.
      pose proof (forallb_attr_in_incl _ _ (attrs_same_forallb _ _ Hb (attrs_same_sym _ _ Hs))) as Hi2.
      pose proof (NoDup_incl_length Ha Hi1) as L1. pose proof (NoDup_incl_length Hb Hi2) as L2.
      rewrite !map_length in L1, L2. lia.
    + apply attrs_same_forallb; assumption.
Qed.

(* the oracle's attribute test (inclusion both ways) is the same relation *)
Lemma attrs_sameb_iff a b : NoDup (map akey a) -> NoDup (map akey b) ->
  (attrs_sameb a b = true <-> attrs_same a b).
Proof.
  intros Ha Hb. unfold attrs_sameb. rewrite andb_true_iff. split.
  - intros [H1 H2] ns k. rewrite forallb_forall in H1, H2.
    destruct (get_attr ns k a) as [v|] eqn:Ega.
    + apply get_attr_some_in in Ega. specialize (H1 _ Ega). apply attr_in_iff in H1. symmetry. exact H1.
    + destruct (get_attr ns k b) as [v|] eqn:Egb; [|reflexivity].
      apply get_attr_some_in in Egb. specialize (H2 _ Egb). apply attr_in_iff in H2. congruence.
  - intros Hs. split; apply attrs_same_forallb; auto using attrs_same_sym.
Qed.

(* ------------------------------------------------------------------ small list helpers *)
Lemma Forall_and' {A} (P Q : A -> Prop) l : Forall P l -> Forall Q l -> Forall (fun x => P x /\ Q x) l.
Proof. induction 1 as [|x l Hx Hl IH]; intros HQ; inversion HQ; subst; constructor; auto. Qed.

Lemma Forall_firstn' {A} (P : A -> Prop) n l : Forall P l -> Forall P (firstn n l).
Proof.
  revert n. induction l as [|x l IH]; intros [|n] H; cbn [firstn]; try constructor; inversion H; subst; auto.
Qed.

Lemma Forall_filter' {A} (P : A -> Prop) f l : Forall P l -> Forall P (filter f l).
Proof. induction 1 as [|x l Hx Hl IH]; cbn [filter]; [constructor|]. destruct (f x); [constructor|]; auto. Qed.

Lemma Forall2_len {A B} (P : A -> B -> Prop) l r : Forall2 P l r -> length l = length r.
Proof. induction 1; cbn; congruence. Qed.

Lemma Forall2_iff_left {A B} (P Q : A -> B -> Prop) (W : B -> Prop) l r :
  Forall (fun x => forall y, W y -> (P x y <-> Q x y)) l -> Forall W r ->
  (Forall2 P l r <-> Forall2 Q l r).
Proof.
  revert r. induction l as [|x l IH]; intros r Hl Hr.
  - split; intros H; inversion H; subst; constructor.
  - inversion Hl as [|? ? Hx Hl']; subst. split; intros H; inversion H as [|? y ? r' Hxy Hrest]; subst;
      inversion Hr as [|? ? Wy Wr']; subst; constructor;
      try (apply (Hx y Wy); exact Hxy); apply (IH r' Hl' Wr'); exact Hrest.
Qed.

(* ------------------------------------------------------------------ unfolding the model *)
Definition allF (n : node) : bool := true.

Definition go_kids (F : node -> bool) (rec : node -> node -> result) :=
  fix go (i : nat) (l r : list node) {struct l} : result :=
    match l with
    | [] => None
    | x :: l' =>
        if F x then
          match r with
          | [] => None
          | y :: r' => match rec x y with None => go (S i) l' r' | Some (p, k) => Some (i :: p, k) end
          end
        else go i l' r
    end.

Lemma compare_tag F nsa na aa ka nsb nb ab kb :
  compare F (Tag nsa na aa ka) (Tag nsb nb ab kb) =
    if negb (str_eqb nsa nsb) then Some ([], DNamespace) else
    if negb (str_eqb na nb) then Some ([], DLocalName) else
    if negb (attrs_eqb aa ab) then Some ([], DAttributes) else
    if negb (Nat.eqb (length (filter F ka)) (length (filter F kb))) then Some ([], DChildrenSize) else
    go_kids F (compare F) 0 ka (filter F kb).
Proof. reflexivity. Qed.

Lemma compare_kind F a b : kind_of a <> kind_of b -> compare F a b = Some ([], DNodeType).
Proof.
  intros H. destruct a, b; cbn in H; try congruence; reflexivity.
Qed.

Lemma compare_leaf F a b : kind_of a = kind_of b -> kind_of a <> 0 ->
  compare F a b = if content_eqb a b then None else Some ([], DNodeContent).
Proof. intros H H0. destruct a, b; cbn in H, H0; try congruence; reflexivity. Qed.

(* the zip over two lists of visible children *)
Fixpoint go_vis (rec : node -> node -> result) (i : nat) (l r : list node) : result :=
  match l, r with
  | x :: l', y :: r' => match rec x y with None => go_vis rec (S i) l' r' | Some (p, k) => Some (i :: p, k) end
  | _, _ => None
  end.

Lemma go_kids_filter F rec l : forall i r, go_kids F rec i l r = go_vis rec i (filter F l) r.
Proof.
  induction l as [|x l IH]; intros i r; cbn [go_kids filter].
  - destruct r; reflexivity.
  - destruct (F x).
    + cbn [go_vis]. destruct r as [|y r']; [reflexivity|]. destruct (rec x y) as [[p k]|]; [reflexivity|]. apply IH.
    + apply IH.
Qed.

Lemma filter_allF (l : list node) : filter allF l = l.
Proof. induction l as [|x l IH]; cbn; [reflexivity|]. f_equal. exact IH. Qed.

Lemma go_vis_ext rec1 rec2 f l : forall i r,
  Forall (fun x => forall y, rec1 x y = rec2 (f x) (f y)) l ->
  go_vis rec1 i l r = go_vis rec2 i (map f l) (map f r).
Proof.
  induction l as [|x l IH]; intros i r Hl; cbn [go_vis map]; [reflexivity|].
  inversion Hl as [|? ? Hx Hl']; subst. destruct r as [|y r']; cbn [map]; [reflexivity|].
  rewrite <- Hx. destruct (rec1 x y) as [[p k]|]; [reflexivity|]. apply IH. exact Hl'.
Qed.

Lemma go_vis_none rec l : forall r i, length l = length r ->
  (go_vis rec i l r = None <-> Forall2 (fun x y => rec x y = None) l r).
Proof.
  induction l as [|x l IH]; intros [|y r] i Hlen; cbn [length go_vis] in *; try lia.
  - split; [constructor|reflexivity].
  - destruct (rec x y) as [[p k]|] eqn:E.
    + split; [discriminate|]. intros H. inversion H; subst. congruence.
    + rewrite (IH r (S i)) by lia. split; [intros H; constructor; assumption|intros H; inversion H; subst; assumption].
Qed.

Lemma go_vis_some rec l : forall r i q k, go_vis rec i l r = Some (q, k) ->
  exists j p x y, q = (i + j) :: p /\ nth_error l j = Some x /\ nth_error r j = Some y /\ rec x y = Some (p, k)
                  /\ Forall2 (fun x y => rec x y = None) (firstn j l) (firstn j r).
Proof.
  induction l as [|x l IH]; intros [|y r] i q k H; cbn [go_vis] in H; try discriminate.
  destruct (rec x y) as [[p k']|] eqn:E.
  - injection H as <- <-. exists 0, p, x, y. rewrite Nat.add_0_r. cbn. repeat split; auto.
  - apply IH in H. destruct H as (j & p & x' & y' & -> & Hx & Hy & Hr & Hpre).
    exists (S j), p, x', y'. cbn [nth_error firstn].
    split; [f_equal; lia|]. split; [exact Hx|]. split; [exact Hy|]. split; [exact Hr|].
    constructor; assumption.
Qed.

(* ------------------------------------------------------------------ filtering first = filtering while walking *)
Definition ft_kids (F : node -> bool) :=
  fix go (l : list node) : list node :=
    match l with [] => [] | x :: r => if F x then filter_tree F x :: go r else go r end.

Lemma ft_kids_map F l : ft_kids F l = map (filter_tree F) (filter F l).
Proof. induction l as [|x l IH]; cbn [ft_kids filter]; [reflexivity|]. destruct (F x); cbn [map]; congruence. Qed.

Lemma filter_tree_tag F ns name attrs kids :
  filter_tree F (Tag ns name attrs kids) = Tag ns name attrs (map (filter_tree F) (filter F kids)).
Proof. rewrite <- ft_kids_map. reflexivity. Qed.

Lemma kind_of_filter_tree F n : kind_of (filter_tree F n) = kind_of n.
Proof. destruct n; reflexivity. Qed.

Lemma filter_tree_leaf F n : kind_of n <> 0 -> filter_tree F n = n.
Proof. destruct n; cbn; congruence. Qed.

Lemma wf_filter_tree F n : wf n -> wf (filter_tree F n).
Proof.
  induction n as [ns name attrs kids IH| | |] using node_ind'; intros H; try exact H.
  rewrite filter_tree_tag. inversion H as [? ? ? ? Hnd Hk| | |]; subst. constructor; [exact Hnd|].
  apply Forall_forall. intros y Hy. apply in_map_iff in Hy. destruct Hy as [x [<- Hx]].
  apply filter_In in Hx. destruct Hx as [Hx _]. rewrite Forall_forall in IH, Hk. apply IH; auto.
Qed.

(* compare_trees under the ambient filter is compare_trees without filter on the filtered trees *)
Lemma compare_filter F a : forall b, compare F a b = compare allF (filter_tree F a) (filter_tree F b).
Proof.
  induction a as [nsa na aa ka IH| | |] using node_ind'; intros b.
  - destruct b as [nsb nb ab kb| | |]; try reflexivity.
    rewrite !filter_tree_tag, !compare_tag, !filter_allF, !map_length, !go_kids_filter, filter_allF.
    destruct (negb (str_eqb nsa nsb)); [reflexivity|]. destruct (negb (str_eqb na nb)); [reflexivity|].
    destruct (negb (attrs_eqb aa ab)); [reflexivity|].
    destruct (negb (Nat.eqb (length (filter F ka)) (length (filter F kb)))); [reflexivity|].
    apply go_vis_ext. apply Forall_filter'. exact IH.
  - destruct b; reflexivity.
  - destruct b; reflexivity.
  - destruct b; reflexivity.
Qed.

(* ------------------------------------------------------------------ tree_eq *)
Lemma tree_eq_refl a : tree_eq a a.
Proof.
  induction a as [ns name attrs kids IH| | |] using node_ind'; constructor.
  - intros ? ?. reflexivity.
  - induction IH; constructor; assumption.
Qed.

Lemma tree_eq_sym a : forall b, tree_eq a b -> tree_eq b a.
Proof.
  induction a as [ns name attrs kids IH| | |] using node_ind'; intros b H;
    inversion H as [? ? ? ab ? kb Hs HF| | |]; subst; constructor.
  - apply attrs_same_sym. assumption.
  - clear H Hs. revert IH. induction HF as [|x y l r Hxy Hrest IHF]; intros IH; constructor;
      inversion IH; subst; auto.
Qed.

Lemma tree_eq_kind a b : tree_eq a b -> kind_of a = kind_of b.
Proof. intros H; inversion H; reflexivity. Qed.

Lemma content_eqb_iff a b : kind_of a = kind_of b -> kind_of a <> 0 -> (content_eqb a b = true <-> a = b).
Proof.
  intros Hk H0. destruct a, b; cbn in Hk, H0; try congruence; cbn [content_eqb].
  - rewrite str_eqb_eq. split; congruence.
  - rewrite str_eqb_eq. split; congruence.
  - rewrite andb_true_iff, !str_eqb_eq. split; [intros [-> ->]; reflexivity|intros [= -> ->]; auto].
Qed.

Lemma tree_eq_leaf a b : kind_of a <> 0 -> (tree_eq a b <-> a = b).
Proof.
  intros H0. split.
  - intros H. inversion H; subst; cbn in H0; congruence.
  - intros ->. apply tree_eq_refl.
Qed.

(* ------------------------------------------------------------------ the main induction (no filter) *)
Definition cmp_ok (a : node) : Prop := forall b, wf a -> wf b ->
  (compare allF a b = None <-> tree_eq a b) /\
  (forall p k, compare allF a b = Some (p, k) -> diff_at p k a b).

Lemma cmp_ok_all a : cmp_ok a.
Proof.
  induction a as [nsa na aa ka IH| | |] using node_ind'; intros b Wa Wb.
  - destruct b as [nsb nb ab kb| | |].
    2-4: (rewrite compare_kind by (cbn; congruence); split;
          [split; [discriminate|intros H; inversion H]
          |intros p k [= <- <-]; constructor; cbn; congruence]).
    inversion Wa as [? ? ? ? NDa Wka| | |]; subst. inversion Wb as [? ? ? ? NDb Wkb| | |]; subst.
    rewrite compare_tag, !filter_allF, go_kids_filter, filter_allF.
    destruct (str_eqb nsa nsb) eqn:Ens; cbn [negb].
    2:{ assert (nsa <> nsb) by (intros ->; rewrite str_eqb_refl in Ens; discriminate). split.
        - split; [discriminate|]. intros H'; inversion H'; subst; congruence.
        - intros p k [= <- <-]. constructor. cbn. do 8 eexists. repeat split; eauto. }
    apply str_eqb_eq in Ens. subst nsb.
    destruct (str_eqb na nb) eqn:En; cbn [negb].
    2:{ assert (na <> nb) by (intros ->; rewrite str_eqb_refl in En; discriminate). split.
        - split; [discriminate|]. intros H'; inversion H'; subst; congruence.
        - intros p k [= <- <-]. constructor. cbn. do 7 eexists. repeat split; eauto. }
    apply str_eqb_eq in En. subst nb.
    destruct (attrs_eqb aa ab) eqn:Ea; cbn [negb].
    2:{ assert (~ attrs_same aa ab) by (intros Hs; apply (attrs_eq_dict _ _ NDa NDb) in Hs; congruence). split.
        - split; [discriminate|]. intros H'; inversion H'; subst; tauto.
        - intros p k [= <- <-]. constructor. cbn. do 6 eexists. repeat split; eauto. }
    apply (attrs_eq_dict _ _ NDa NDb) in Ea.
    destruct (Nat.eqb (length ka) (length kb)) eqn:El; cbn [negb].
    2:{ apply Nat.eqb_neq in El. split.
        - split; [discriminate|]. intros H'; inversion H' as [? ? ? ? ? ? ? HF| | |]; subst.
          apply Forall2_len in HF. congruence.
        - intros p k [= <- <-]. constructor. cbn. do 6 eexists. repeat split; eauto. }
    apply Nat.eqb_eq in El.
    (* per-child facts with the well-formedness of the left child resolved *)
    assert (IH' : Forall (fun x => forall y, wf y ->
                     (compare allF x y = None <-> tree_eq x y) /\
                     (forall p k, compare allF x y = Some (p, k) -> diff_at p k x y)) ka).
    { apply (Forall_impl _ (P := fun x => cmp_ok x /\ wf x)); [|apply Forall_and'; assumption].
      intros x [Hx Wx] y Wy. apply Hx; assumption. }
    assert (IHiff : forall l r, Forall (fun x => forall y, wf y ->
                     (compare allF x y = None <-> tree_eq x y) /\
                     (forall p k, compare allF x y = Some (p, k) -> diff_at p k x y)) l -> Forall wf r ->
                   (Forall2 (fun x y => compare allF x y = None) l r <-> Forall2 tree_eq l r)).
    { intros l r Hl Hr. apply (Forall2_iff_left _ _ wf); [|exact Hr].
      apply (Forall_impl _ (P := fun x => forall y, wf y -> (compare allF x y = None <-> tree_eq x y) /\
                     (forall p k, compare allF x y = Some (p, k) -> diff_at p k x y))); [|exact Hl].
      intros x Hx y Wy. apply Hx. exact Wy. }
    split.
    + rewrite (go_vis_none _ _ _ _ El), (IHiff _ _ IH' Wkb). split.
      * intros HF. constructor; assumption.
      * intros H'. inversion H'; subst. assumption.
    + intros q k Hgo. apply go_vis_some in Hgo. destruct Hgo as (j & p & x & y & -> & Hx & Hy & Hr & Hpre).
      cbn [Nat.add]. apply (DA_below j p k nsa na aa ab ka kb x y); auto.
      * apply IHiff; [apply Forall_firstn'; exact IH'|apply Forall_firstn'; exact Wkb|exact Hpre].
      * apply nth_error_In in Hx, Hy. rewrite Forall_forall in IH', Wkb.
        apply (IH' x Hx y (Wkb y Hy)). exact Hr.
  - destruct (Nat.eq_dec (kind_of (Text s)) (kind_of b)) as [Hk|Hk].
    + rewrite compare_leaf by (auto; cbn; congruence).
      pose proof (content_eqb_iff (Text s) b Hk ltac:(cbn; congruence)) as Hc.
      rewrite (tree_eq_leaf (Text s) b) by (cbn; congruence).
      destruct (content_eqb (Text s) b); split.
      * split; [intros _; apply Hc; reflexivity|reflexivity].
      * discriminate.
      * split; [discriminate|]. intros Heq. apply Hc in Heq. discriminate.
      * intros p k [= <- <-]. constructor. cbn [differs]. repeat split; auto; [cbn; congruence|].
        intros Heq. apply Hc in Heq. discriminate.
    + rewrite compare_kind by exact Hk. split.
      * split; [discriminate|]. intros H'. apply tree_eq_kind in H'. congruence.
      * intros p k [= <- <-]. constructor. exact Hk.
  - destruct (Nat.eq_dec (kind_of (Comment s)) (kind_of b)) as [Hk|Hk].
    + rewrite compare_leaf by (auto; cbn; congruence).
      pose proof (content_eqb_iff (Comment s) b Hk ltac:(cbn; congruence)) as Hc.
      rewrite (tree_eq_leaf (Comment s) b) by (cbn; congruence).
      destruct (content_eqb (Comment s) b); split.
      * split; [intros _; apply Hc; reflexivity|reflexivity].
      * discriminate.
      * split; [discriminate|]. intros Heq. apply Hc in Heq. discriminate.
      * intros p k [= <- <-]. constructor. cbn [differs]. repeat split; auto; [cbn; congruence|].
        intros Heq. apply Hc in Heq. discriminate.
    + rewrite compare_kind by exact Hk. split.
      * split; [discriminate|]. intros H'. apply tree_eq_kind in H'. congruence.
      * intros p k [= <- <-]. constructor. exact Hk.
  - destruct (Nat.eq_dec (kind_of (PI t c)) (kind_of b)) as [Hk|Hk].
    + rewrite compare_leaf by (auto; cbn; congruence).
      pose proof (content_eqb_iff (PI t c) b Hk ltac:(cbn; congruence)) as Hc.
      rewrite (tree_eq_leaf (PI t c) b) by (cbn; congruence).
      destruct (content_eqb (PI t c) b); split.
      * split; [intros _; apply Hc; reflexivity|reflexivity].
      * discriminate.
      * split; [discriminate|]. intros Heq. apply Hc in Heq. discriminate.
      * intros p k [= <- <-]. constructor. cbn [differs]. repeat split; auto; [cbn; congruence|].
        intros Heq. apply Hc in Heq. discriminate.
    + rewrite compare_kind by exact Hk. split.
      * split; [discriminate|]. intros H'. apply tree_eq_kind in H'. congruence.
      * intros p k [= <- <-]. constructor. exact Hk.
Qed.

(* ------------------------------------------------------------------ the statements Props/C17.v closes *)
Lemma compare_iff F a b : wf a -> wf b ->
  (compare F a b = None <-> tree_eq (filter_tree F a) (filter_tree F b)).
Proof.
  intros Wa Wb. rewrite compare_filter. apply cmp_ok_all; apply wf_filter_tree; assumption.
Qed.

Lemma compare_diff F a b p k : wf a -> wf b ->
  compare F a b = Some (p, k) -> diff_at p k (filter_tree F a) (filter_tree F b).
Proof.
  intros Wa Wb. rewrite compare_filter. apply cmp_ok_all; apply wf_filter_tree; assumption.
Qed.

(* a difference as described by diff_at is a real one *)
Lemma differs_real k a b : differs k a b -> ~ tree_eq a b.
Proof.
  destruct k; cbn [differs].
  - intros H T. apply tree_eq_kind in T. congruence.
  - intros (nsa & na & aa & ka & nsb & nb & ab & kb & -> & -> & Hne) T. inversion T; subst. congruence.
  - intros (ns & na & aa & ka & nb & ab & kb & -> & -> & Hne) T. inversion T; subst. congruence.
  - intros (ns & name & aa & ka & ab & kb & -> & -> & Hne) T. inversion T; subst. tauto.
  - intros (ns & name & aa & ka & ab & kb & -> & -> & _ & Hne) T. inversion T as [? ? ? ? ? ? ? HF| | |]; subst.
    apply Forall2_len in HF. congruence.
  - intros (Hk & H0 & Hne) T. apply (tree_eq_leaf a b H0) in T. congruence.
Qed.

Lemma Forall2_nth_error {A B} (P : A -> B -> Prop) l r i x y :
  Forall2 P l r -> nth_error l i = Some x -> nth_error r i = Some y -> P x y.
Proof.
  intros H. revert i. induction H as [|a b l r Hab Hrest IH]; intros [|i] Hx Hy; cbn in Hx, Hy; try discriminate.
  - congruence.
  - eapply IH; eassumption.
Qed.

Lemma diff_at_real p k a b : diff_at p k a b -> ~ tree_eq a b.
Proof.
  induction 1 as [k a b Hd|i p k ns name aa ab ka kb x y Hs Hl Hpre Hx Hy Hd IH].
  - apply differs_real with k. exact Hd.
  - intros T. inversion T as [? ? ? ? ? ? ? HF| | |]; subst. apply IH.
    eapply Forall2_nth_error; eassumption.
Qed.

Lemma compare_sym F a b : wf a -> wf b -> (compare F a b = None <-> compare F b a = None).
Proof.
  intros Wa Wb. rewrite !compare_iff by assumption. split; apply tree_eq_sym.
Qed.

(* the executable oracle decides tree_eq *)
Definition eqb_kids (rec : node -> node -> bool) :=
  fix go (l r : list node) {struct l} : bool :=
    match l, r with
    | [], [] => true
    | x :: l', y :: r' => rec x y && go l' r'
    | _, _ => false
    end.

Lemma tree_eqb_tag nsa na aa ka nsb nb ab kb :
  tree_eqb (Tag nsa na aa ka) (Tag nsb nb ab kb) =
    str_eqb nsa nsb && str_eqb na nb && attrs_sameb aa ab && eqb_kids tree_eqb ka kb.
Proof. reflexivity. Qed.

Lemma tree_eqb_iff a : forall b, wf a -> wf b -> (tree_eqb a b = true <-> tree_eq a b).
Proof.
  induction a as [nsa na aa ka IH| | |] using node_ind'; intros b Wa Wb.
  - destruct b as [nsb nb ab kb| | |]; try (split; [discriminate|intros H; inversion H]).
    inversion Wa as [? ? ? ? NDa Wka| | |]; subst. inversion Wb as [? ? ? ? NDb Wkb| | |]; subst.
    rewrite tree_eqb_tag, !andb_true_iff, !str_eqb_eq, (attrs_sameb_iff _ _ NDa NDb).
    assert (Hk : eqb_kids tree_eqb ka kb = true <-> Forall2 tree_eq ka kb).
    { clear NDa NDb Wa Wb. revert kb Wkb. induction IH as [|x l Hx Hl IHl]; intros [|y r] Wr; cbn [eqb_kids].
      - split; constructor.
      - split; [discriminate|intros H; inversion H].
      - split; [discriminate|intros H; inversion H].
      - inversion Wka; subst. inversion Wr; subst. rewrite andb_true_iff, Hx, IHl by assumption.
        split; [intros [? ?]; constructor; assumption|intros H; inversion H; subst; split; assumption]. }
    rewrite Hk. split.
    + intros [[[-> ->] Hs] HF]. constructor; assumption.
    + intros H. inversion H; subst. auto.
  - destruct b; cbn [tree_eqb]; try (split; [discriminate|intros H; inversion H]).
    rewrite str_eqb_eq. split; [intros ->; constructor|intros H; inversion H; reflexivity].
  - destruct b; cbn [tree_eqb]; try (split; [discriminate|intros H; inversion H]).
    rewrite str_eqb_eq. split; [intros ->; constructor|intros H; inversion H; reflexivity].
  - destruct b; cbn [tree_eqb]; try (split; [discriminate|intros H; inversion H]).
    rewrite andb_true_iff, !str_eqb_eq. split; [intros [-> ->]; constructor|intros H; inversion H; auto].
Qed.

Lemma spec_equal_iff F a b : wf a -> wf b ->
  (spec_equal F a b = true <-> tree_eq (filter_tree F a) (filter_tree F b)).
Proof. intros Wa Wb. apply tree_eqb_iff; apply wf_filter_tree; assumption. Qed.

(* dropping the length test (the blind spot the property text mentions) is visible: the model
   without it would accept a tree and the same tree with a child removed *)
Lemma length_test_needed :
  let a := Tag [] [114%N] [] [Text [120%N]] in
  let b := Tag [] [114%N] [] [] in
  compare allF a b = Some ([], DChildrenSize) /\ go_kids allF (compare allF) 0 [Text [120%N]] [] = None.
Proof. split; reflexivity. Qed.
