(* C04 - lemmas about the eviction rule (Misc/GC.v). *)
From Coq Require Import List NArith Bool Arith Lia.
From Delb.Base Require Import PyStr.
From Delb.Gen Require Import GenGC.
From Delb.Misc Require Import GC.
Import ListNotations.

(* the constants the source uses on this run are the numbers of internal references the object graph
   has; a changed constant in __gc_callback__ breaks this lemma (and the ones below that rely on it) *)
Lemma gc_constants : node_base = 4 /\ doc_base = 4 /\ app_base = 3 /\ head_base = 3.
Proof. vm_compute. repeat split. Qed.

Lemma refs_pos w o : 0 < refs w o <-> In o (held w).
Proof. unfold refs. split; intros H; apply (count_occ_In Nat.eq_dec); exact H. Qed.

Lemma refs_zero w o : refs w o = 0 <-> ~ In o (held w).
Proof. rewrite <- refs_pos. lia. Qed.

Lemma mem_oid_in o l : mem_oid o l = true <-> In o l.
Proof.
  unfold mem_oid. rewrite existsb_exists. split.
  - intros [x [Hin Hx]]. apply Nat.eqb_eq in Hx. subst. exact Hin.
  - intros H. exists o. split; [exact H|apply Nat.eqb_refl].
Qed.

Lemma mapM_Forall2 {A B} (f : A -> option B) l : forall l', mapM f l = Some l' -> Forall2 (fun a b => f a = Some b) l l'.
Proof.
  induction l as [|a r IH]; intros l' H; cbn [mapM] in H.
  - injection H as <-. constructor.
  - destruct (f a) as [b|] eqn:Ea; [|discriminate]. destruct (mapM f r) as [r'|]; [|discriminate].
    injection H as <-. constructor; [exact Ea|apply IH; reflexivity].
Qed.

Lemma mapM_total {A B} (f : A -> option B) l : Forall (fun a => exists b, f a = Some b) l -> exists l', mapM f l = Some l'.
Proof.
  induction 1 as [|a r [b Hb] Hr [r' IH]]; cbn [mapM]; [eexists; reflexivity|].
  rewrite Hb, IH. eexists; reflexivity.
Qed.

(* ---------------------------------------------------------------- what "not kept" means *)
Lemma node_referenced_false w x : node_referenced w x = false ->
  ~ In (w_id x) (held w) /\ (forall d, w_doc x = Some d -> ~ In d (held w)).
Proof.
  unfold node_referenced, threshold, rc_node, rc_doc, node_base, doc_base. intros H. apply Nat.ltb_ge in H.
  destruct (w_doc x) as [d|].
  - destruct (Nat.eqb_spec (4 + refs w d) 4) as [E|E]; cbn [b2n] in H.
    + split; [apply refs_zero; lia|]. intros d' [= <-]. apply refs_zero. lia.
    + exfalso. lia.
  - split; [apply refs_zero; lia|]. intros d' [=].
Qed.

Lemma node_referenced_true w x : In (w_id x) (held w) -> node_referenced w x = true.
Proof.
  intros H. apply refs_pos in H. unfold node_referenced, threshold, rc_node, node_base, doc_base. apply Nat.ltb_lt.
  destruct (w_doc x); [destruct (Nat.eqb _ 4)|]; cbn [b2n]; lia.
Qed.

Lemma app_ref_false w l : app_ref w l = false -> forall t, In t l -> ~ In (t_id t) (held w).
Proof.
  induction l as [|t r IH]; cbn [app_ref]; intros H t' Hin; [destruct Hin|].
  apply orb_false_iff in H. destruct H as [H1 H2]. destruct Hin as [<-|Hin]; [|apply IH; assumption].
  apply Nat.ltb_ge in H1. unfold rc_text, app_base in H1. apply refs_zero. lia.
Qed.

Lemma app_ref_nothing_held w l : held w = [] -> app_ref w l = false.
Proof.
  intros Hh. induction l as [|t r IH]; cbn [app_ref]; [reflexivity|]. rewrite IH, orb_false_r.
  apply Nat.ltb_ge. unfold rc_text, refs, app_base. rewrite Hh. cbn. lia.
Qed.

Lemma head_ref_false w o app : head_ref w o app = false -> ~ In o (held w).
Proof. unfold head_ref, rc_head, head_base. intros H. apply Nat.ltb_ge in H. apply refs_zero. lia. Qed.

Lemma head_ref_nothing_held w o app : held w = [] -> head_ref w o app = false.
Proof. intros Hh. unfold head_ref, rc_head, refs, head_base. rewrite Hh. cbn [count_occ]. apply Nat.ltb_ge. lia. Qed.

Lemma keep_nothing_held w x : held w = [] -> keep w x = false.
Proof.
  intros Hh. unfold keep. rewrite !app_ref_nothing_held, !head_ref_nothing_held by exact Hh.
  rewrite !andb_false_r, !orb_false_r.
  unfold node_referenced, threshold, rc_node, rc_doc, refs, node_base, doc_base. rewrite Hh. cbn [count_occ].
  apply Nat.ltb_ge. destruct (w_doc x); cbn; lia.
Qed.

Lemma keep_false w x : keep w x = false ->
  node_referenced w x = false /\ ~ In (w_th x) (held w) /\ (w_tag x = true -> ~ In (w_dh x) (held w)) /\
  (w_tag x = true -> app_ref w (w_dapp x) = false) /\ app_ref w (w_tapp x) = false.
Proof.
  unfold keep. intros H. apply orb_false_iff in H. destruct H as [H H5]. apply orb_false_iff in H.
  destruct H as [H H4]. apply orb_false_iff in H. destruct H as [H H3]. apply orb_false_iff in H.
  destruct H as [H1 H2]. split; [exact H1|]. split; [exact (head_ref_false _ _ _ H2)|]. split; [|split].
  - intros Ht. rewrite Ht in H3. exact (head_ref_false _ _ _ H3).
  - intros Ht. rewrite Ht in H4. exact H4.
  - exact H5.
Qed.

(* ---------------------------------------------------------------- content *)
Lemma vis_merge slot app m : merge_slot slot app = Some m -> vis m [] = vis slot app.
Proof.
  unfold merge_slot, vis. destruct app as [|t r].
  - intros [= <-]. reflexivity.
  - destruct slot as [s|]; [|discriminate]. intros [= <-]. cbn [cat map concat]. rewrite app_nil_r. reflexivity.
Qed.

Lemma gc_entry_content w e e' : gc_entry w e = Some e' -> content_entry e' = content_entry e.
Proof.
  unfold gc_entry. destruct (e_w e) as [x|] eqn:Ew; [|intros [= <-]; reflexivity].
  destruct (keep w x); [intros [= <-]; reflexivity|].
  destruct (w_tag x) eqn:Et.
  - destruct (merge_slot (e_text e) (w_dapp x)) as [tx|] eqn:E1; [|discriminate].
    destruct (merge_slot (e_tail e) (w_tapp x)) as [tl|] eqn:E2; [|discriminate].
    intros [= <-]. unfold content_entry, dapps, tapps. cbn [e_id e_text e_tail e_w]. rewrite Ew, Et.
    rewrite (vis_merge _ _ _ E1), (vis_merge _ _ _ E2). reflexivity.
  - destruct (merge_slot (e_tail e) (w_tapp x)) as [tl|] eqn:E2; [|discriminate].
    intros [= <-]. unfold content_entry, dapps, tapps. cbn [e_id e_text e_tail e_w]. rewrite Ew, Et.
    rewrite (vis_merge _ _ _ E2). unfold vis. destruct (e_text e); [cbn; rewrite app_nil_r|]; reflexivity.
Qed.

Lemma gc_step_ents w w' : gc_step w = Some w' ->
  (locks w <> 0 /\ w' = w) \/
  (locks w = 0 /\ held w' = held w /\ locks w' = locks w /\ Forall2 (fun e e' => gc_entry w e = Some e') (ents w) (ents w')).
Proof.
  unfold gc_step. destruct (Nat.eqb_spec (locks w) 0) as [E|E].
  - destruct (mapM (gc_entry w) (ents w)) as [es|] eqn:Em; [|discriminate]. intros [= <-]. right.
    cbn. repeat split; auto. apply mapM_Forall2. exact Em.
  - intros [= <-]. left. split; [exact E|reflexivity].
Qed.

Lemma content_unchanged w w' : gc_step w = Some w' -> content w' = content w.
Proof.
  intros H. apply gc_step_ents in H. destruct H as [[_ ->]|(_ & _ & _ & HF)]; [reflexivity|].
  unfold content. induction HF as [|e e' l l' He Hl IH]; cbn [map]; [reflexivity|].
  rewrite (gc_entry_content _ _ _ He), IH. reflexivity.
Qed.

(* a collection does not raise unless some head is empty with a chain behind it *)
Lemma gc_entry_total w e : slots_entry e = true -> exists e', gc_entry w e = Some e'.
Proof.
  unfold slots_entry, gc_entry. destruct (e_w e) as [x|]; [|eexists; reflexivity].
  intros H. destruct (keep w x); [eexists; reflexivity|].
  apply andb_true_iff in H. destruct H as [H1 H2].
  assert (T : exists tl, merge_slot (e_tail e) (w_tapp x) = Some tl).
  { unfold merge_slot. destruct (w_tapp x); [eexists; reflexivity|]. destruct (e_tail e); [eexists; reflexivity|discriminate]. }
  destruct T as [tl ->]. destruct (w_tag x); cbn [negb orb] in H1.
  - assert (D : exists tx, merge_slot (e_text e) (w_dapp x) = Some tx).
    { unfold merge_slot. destruct (w_dapp x); [eexists; reflexivity|]. destruct (e_text e); [eexists; reflexivity|discriminate]. }
    destruct D as [tx ->]. eexists; reflexivity.
  - eexists; reflexivity.
Qed.

Lemma gc_step_total w : slots_guard w = true -> exists w', gc_step w = Some w'.
Proof.
  unfold slots_guard, gc_step. intros H. destruct (Nat.eqb (locks w) 0); [|eexists; reflexivity].
  destruct (mapM_total (gc_entry w) (ents w)) as [es ->]; [|eexists; reflexivity].
  rewrite forallb_forall in H. apply Forall_forall. intros e He. apply gc_entry_total. apply H. exact He.
Qed.

(* ---------------------------------------------------------------- release *)
Lemma release_empties w w' : held w = [] -> locks w = 0 -> gc_step w = Some w' -> cache_size w' = 0.
Proof.
  intros Hh Hl H. apply gc_step_ents in H. destruct H as [[Hn _]|(_ & _ & _ & HF)]; [congruence|].
  unfold cache_size. induction HF as [|e e' l l' He Hl' IH]; [reflexivity|]. cbn [filter].
  assert (e_w e' = None) as ->; [|exact IH].
  unfold gc_entry in He. destruct (e_w e) as [x|] eqn:Ew; [|injection He as <-; exact Ew].
  rewrite (keep_nothing_held w x Hh) in He.
  destruct (if w_tag x then merge_slot (e_text e) (w_dapp x) else Some (e_text e)); [|discriminate].
  destruct (merge_slot (e_tail e) (w_tapp x)); [|discriminate]. injection He as <-. reflexivity.
Qed.

(* ---------------------------------------------------------------- identity *)
Lemma nth_error_id_in (l : list tobj) k o : option_map t_id (nth_error l k) = Some o -> exists t, In t l /\ t_id t = o.
Proof.
  destruct (nth_error l k) as [t|] eqn:E; [|discriminate]. intros [= <-]. exists t. split; [|reflexivity].
  eapply nth_error_In. exact E.
Qed.

(* an evicted wrapper had no held object at any of its positions *)
Lemma evicted_positions_unheld w e x wh o : e_w e = Some x -> keep w x = false ->
  obj_at e wh = Some o -> ~ In o (held w).
Proof.
  intros Ew Hk Ho. apply keep_false in Hk. destruct Hk as (Hn & Hth & Hdh & Hd & Ht).
  unfold obj_at in Ho. rewrite Ew in Ho. destruct wh.
  - injection Ho as <-. apply node_referenced_false in Hn. exact (proj1 Hn).
  - destruct (w_tag x) eqn:Et; [|discriminate]. injection Ho as <-. exact (Hdh eq_refl).
  - injection Ho as <-. exact Hth.
  - destruct (w_tag x) eqn:Et; [|discriminate]. apply nth_error_id_in in Ho. destruct Ho as [t [Hin <-]].
    apply (app_ref_false w _ (Hd eq_refl) t Hin).
  - apply nth_error_id_in in Ho. destruct Ho as [t [Hin <-]]. apply (app_ref_false w _ Ht t Hin).
Qed.

Lemma gc_entry_identity w e e' : gc_entry w e = Some e' ->
  e_id e' = e_id e /\ forall wh o, In o (held w) -> obj_at e wh = Some o -> obj_at e' wh = Some o.
Proof.
  intros He. unfold gc_entry in He. destruct (e_w e) as [x|] eqn:Ew.
  2:{ injection He as <-. split; [reflexivity|auto]. }
  destruct (keep w x) eqn:Hk.
  - injection He as <-. split; [reflexivity|auto].
  - destruct (if w_tag x then merge_slot (e_text e) (w_dapp x) else Some (e_text e)); [|discriminate].
    destruct (merge_slot (e_tail e) (w_tapp x)); [|discriminate]. injection He as <-. split; [reflexivity|].
    intros wh ob Hin Ho. exfalso. exact (evicted_positions_unheld w e x wh ob Ew Hk Ho Hin).
Qed.

Lemma identity_kept w w' : gc_step w = Some w' ->
  Forall2 (fun e e' => e_id e' = e_id e /\
                       forall wh o, In o (held w) -> obj_at e wh = Some o -> obj_at e' wh = Some o) (ents w) (ents w').
Proof.
  intros H. apply gc_step_ents in H. destruct H as [[_ ->]|(_ & _ & _ & HF)].
  - induction (ents w); constructor; auto.
  - induction HF as [|e e' l l' He Hl IH]; constructor; [apply gc_entry_identity; assumption|exact IH].
Qed.

(* appended text objects need no guard: a held appended text object keeps its place *)
Lemma appended_kept w e e' k o : gc_entry w e = Some e' -> In o (held w) ->
  (obj_at e (WDataApp k) = Some o -> obj_at e' (WDataApp k) = Some o) /\
  (obj_at e (WTailApp k) = Some o -> obj_at e' (WTailApp k) = Some o).
Proof.
  intros He Hin. unfold gc_entry in He. destruct (e_w e) as [x|] eqn:Ew.
  2:{ injection He as <-. auto. }
  destruct (keep w x) eqn:Hk; [injection He as <-; auto|].
  apply keep_false in Hk. destruct Hk as (_ & _ & _ & Hd & Ht). unfold obj_at. rewrite Ew. split; intros Ho; exfalso.
  - destruct (w_tag x) eqn:Et; [|discriminate]. apply nth_error_id_in in Ho. destruct Ho as [t [Hin' <-]].
    exact (app_ref_false w _ (Hd eq_refl) t Hin' Hin).
  - apply nth_error_id_in in Ho. destruct Ho as [t [Hin' <-]]. exact (app_ref_false w _ Ht t Hin' Hin).
Qed.

Lemma coalesce_only_unheld w w' : gc_step w = Some w' ->
  Forall2 (fun e e' => forall k o, In o (held w) ->
     (obj_at e (WDataApp k) = Some o -> obj_at e' (WDataApp k) = Some o) /\
     (obj_at e (WTailApp k) = Some o -> obj_at e' (WTailApp k) = Some o)) (ents w) (ents w').
Proof.
  intros H. apply gc_step_ents in H. destruct H as [[_ ->]|(_ & _ & _ & HF)].
  - induction (ents w); constructor; auto.
  - induction HF as [|e e' l l' He Hl IH]; constructor; [|exact IH].
    intros k o Hin. exact (appended_kept w e e' k o He Hin).
Qed.

(* ---------------------------------------------------------------- edits through held text objects *)
Lemma ins_after_absent o n l : ~ In o (map t_id l) -> ins_after o n l = l.
Proof.
  induction l as [|t r IH]; cbn [ins_after map]; intros H; [reflexivity|].
  destruct (Nat.eqb_spec (t_id t) o) as [E|E]; [exfalso; apply H; left; exact E|].
  f_equal. apply IH. intros Hin. apply H. right. exact Hin.
Qed.

Lemma unheld_ids w (l : list tobj) o : (forall t, In t l -> ~ In (t_id t) (held w)) -> In o (held w) -> ~ In o (map t_id l).
Proof. intros H Hin Hm. apply in_map_iff in Hm. destruct Hm as [t [<- Ht]]. exact (H t Ht Hin). Qed.

Lemma append_entry_evicted w e x o n : e_w e = Some x -> keep w x = false ->
  In o (held w) -> content_entry (append_entry o n e) = content_entry e.
Proof.
  intros Ew Hk Hin.
  assert (Hdh : w_tag x = true -> w_dh x <> o).
  { intros Et E. apply (evicted_positions_unheld w e x WDataHead o Ew Hk); [|exact Hin].
    unfold obj_at. rewrite Ew, Et, E. reflexivity. }
  assert (Hth : w_th x <> o).
  { intros E. apply (evicted_positions_unheld w e x WTailHead o Ew Hk); [|exact Hin].
    unfold obj_at. rewrite Ew, E. reflexivity. }
  apply keep_false in Hk. destruct Hk as (_ & _ & _ & Hd & Ht).
  unfold append_entry, content_entry, dapps, tapps. rewrite Ew. cbn [e_id e_text e_tail e_w w_tag w_dapp w_tapp].
  apply Nat.eqb_neq in Hth. rewrite Hth.
  rewrite (ins_after_absent o n (w_tapp x)) by (apply (unheld_ids w); [apply app_ref_false; exact Ht|exact Hin]).
  destruct (w_tag x) eqn:Et; [|reflexivity]. cbn [andb].
  specialize (Hdh eq_refl). apply Nat.eqb_neq in Hdh. rewrite Hdh.
  rewrite (ins_after_absent o n (w_dapp x)) by (apply (unheld_ids w); [apply app_ref_false; exact (Hd eq_refl)|exact Hin]).
  reflexivity.
Qed.

Lemma edit_entry w e e' o n : gc_entry w e = Some e' -> In o (held w) ->
  content_entry (append_entry o n e') = content_entry (append_entry o n e).
Proof.
  intros He Hin. pose proof (gc_entry_content w e e' He) as Hc. unfold gc_entry in He.
  destruct (e_w e) as [x|] eqn:Ew; [|injection He as <-; reflexivity].
  destruct (keep w x) eqn:Hk; [injection He as <-; reflexivity|].
  rewrite (append_entry_evicted w e x o n Ew Hk Hin), <- Hc.
  destruct (if w_tag x then merge_slot (e_text e) (w_dapp x) else Some (e_text e)); [|discriminate].
  destruct (merge_slot (e_tail e) (w_tapp x)); [|discriminate]. injection He as <-. reflexivity.
Qed.

Lemma edits_take_effect w w' o n : gc_step w = Some w' -> In o (held w) ->
  content (append_after o n w') = content (append_after o n w).
Proof.
  intros H Hin. apply gc_step_ents in H. destruct H as [[_ ->]|(_ & _ & _ & HF)]; [reflexivity|].
  unfold content, append_after. cbn [ents].
  induction HF as [|e e' l l' He Hl IH]; [reflexivity|]. cbn [map].
  rewrite (edit_entry w e e' o n) by assumption. f_equal. exact IH.
Qed.

(* ---------------------------------------------------------------- the lock *)
(* while a function holds `with _wrapper_cache:` (locks > 0) a collection does nothing at all *)
Lemma locked_is_identity w : locks w <> 0 -> gc_step w = Some w.
Proof. intros H. unfold gc_step. apply Nat.eqb_neq in H. rewrite H. reflexivity. Qed.
