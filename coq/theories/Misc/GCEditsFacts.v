(* C04 - edits through held text objects commute with collections; schedules. *)
From Coq Require Import List NArith Bool Arith Lia.
From Delb.Base Require Import PyStr.
From Delb.Misc Require Import GC GCFacts GCEdits.
Import ListNotations.

Lemma in_map_nth (l : list tobj) o : In o (map t_id l) -> exists k, option_map t_id (nth_error l k) = Some o.
Proof.
  intros H. apply in_map_iff in H. destruct H as [t [<- Hin]]. apply In_nth_error in Hin.
  destruct Hin as [k Hk]. exists k. rewrite Hk. reflexivity.
Qed.

Lemma objs_obj_at e o : In o (objs e) -> exists wh, obj_at e wh = Some o.
Proof.
  unfold objs, obj_at. destruct (e_w e) as [x|]; [|intros []]. intros [<-|H]; [exists WNode; reflexivity|].
  apply in_app_or in H. destruct H as [H|H].
  - destruct (w_tag x) eqn:Et; [|destruct H]. destruct H as [<-|H].
    + exists WDataHead. reflexivity.
    + apply in_map_nth in H. destruct H as [k Hk]. exists (WDataApp k). exact Hk.
  - destruct H as [<-|H]; [exists WTailHead; reflexivity|].
    apply in_map_nth in H. destruct H as [k Hk]. exists (WTailApp k). exact Hk.
Qed.

Lemma evicted_objs_unheld w e x o : e_w e = Some x -> keep w x = false -> In o (held w) -> ~ In o (objs e).
Proof.
  intros Ew Hk Hin Ho. apply objs_obj_at in Ho. destruct Ho as [wh Ho].
  exact (evicted_positions_unheld w e x wh o Ew Hk Ho Hin).
Qed.

Lemma in_chain_false o h app : in_chain o h app = false -> h <> o /\ ~ In o (map t_id app).
Proof.
  unfold in_chain. intros H. apply orb_false_iff in H. destruct H as [H1 H2]. split.
  - apply Nat.eqb_neq. exact H1.
  - intros Hin. apply mem_oid_in in Hin. congruence.
Qed.

Lemma in_chain_absent o h app : h <> o -> ~ In o (map t_id app) -> in_chain o h app = false.
Proof.
  intros H1 H2. unfold in_chain. apply orb_false_iff. split; [apply Nat.eqb_neq; exact H1|].
  destruct (mem_oid o (map t_id app)) eqn:E; [|reflexivity]. apply mem_oid_in in E. contradiction.
Qed.

(* an edit through an object that is wired nowhere at this element leaves the element alone *)
Lemma on_chains_absent o e k : ~ In o (objs e) -> on_chains o e k = [e].
Proof.
  unfold on_chains, objs. destruct (e_w e) as [x|]; [|reflexivity]. intros H.
  assert (Ht : in_chain o (w_th x) (w_tapp x) = false).
  { apply in_chain_absent.
    - intros E. apply H. right. apply in_or_app. right. left. exact E.
    - intros Hin. apply H. right. apply in_or_app. right. right. exact Hin. }
  rewrite Ht. destruct (w_tag x) eqn:Et; [|reflexivity]. cbn [andb].
  rewrite in_chain_absent; [reflexivity| |].
  - intros E. apply H. right. apply in_or_app. left. left. exact E.
  - intros Hin. apply H. right. apply in_or_app. left. right. exact Hin.
Qed.

Lemma apply_edit_absent ed e : ~ In (edit_obj ed) (objs e) -> apply_edit ed e = [e].
Proof. destruct ed; cbn [apply_edit edit_obj]; apply on_chains_absent. Qed.

(* ---------------------------------------------------------------- eviction depends on `held` only *)
Lemma refs_ext w w' o : held w = held w' -> refs w o = refs w' o.
Proof. unfold refs. intros ->. reflexivity. Qed.

Lemma app_ref_ext w w' l : held w = held w' -> app_ref w l = app_ref w' l.
Proof.
  intros H. induction l as [|t r IH]; cbn [app_ref]; [reflexivity|]. unfold rc_text. rewrite (refs_ext w w' _ H), IH. reflexivity.
Qed.

Lemma keep_ext w w' x : held w = held w' -> keep w x = keep w' x.
Proof.
  intros H. unfold keep, node_referenced, threshold, rc_node, rc_doc, head_ref, rc_head.
  rewrite !(app_ref_ext w w' _ H), !(refs_ext w w' _ H). destruct (w_doc x) as [d|]; [rewrite (refs_ext w w' d H)|]; reflexivity.
Qed.

Lemma gc_entry_ext w w' e : held w = held w' -> gc_entry w e = gc_entry w' e.
Proof. intros H. unfold gc_entry. destruct (e_w e) as [x|]; [|reflexivity]. rewrite (keep_ext w w' x H). reflexivity. Qed.

Lemma gc_entry_evicted_none w e x e' : e_w e = Some x -> keep w x = false -> gc_entry w e = Some e' -> e_w e' = None.
Proof.
  intros Ew Hk H. unfold gc_entry in H. rewrite Ew, Hk in H.
  destruct (if w_tag x then merge_slot (e_text e) (w_dapp x) else Some (e_text e)); [|discriminate].
  destruct (merge_slot (e_tail e) (w_tapp x)); [|discriminate]. injection H as <-. reflexivity.
Qed.

(* ---------------------------------------------------------------- one edit after one collection *)
Lemma edit_entry_generic w e e' ed : gc_entry w e = Some e' -> In (edit_obj ed) (held w) ->
  map content_entry (apply_edit ed e') = map content_entry (apply_edit ed e).
Proof.
  intros He Hin. pose proof (gc_entry_content w e e' He) as Hc. unfold gc_entry in He.
  destruct (e_w e) as [x|] eqn:Ew; [|injection He as <-; reflexivity].
  destruct (keep w x) eqn:Hk; [injection He as <-; reflexivity|].
  assert (Hn : e_w e' = None).
  { apply (gc_entry_evicted_none w e x e' Ew Hk). unfold gc_entry. rewrite Ew, Hk. exact He. }
  rewrite (apply_edit_absent ed e) by (apply (evicted_objs_unheld w e x); assumption).
  rewrite (apply_edit_absent ed e') by (unfold objs; rewrite Hn; intros []).
  cbn [map]. rewrite Hc. reflexivity.
Qed.

Lemma edit_after_collection w w' ed : gc_step w = Some w' -> In (edit_obj ed) (held w) ->
  content (apply_world ed w') = content (apply_world ed w).
Proof.
  intros H Hin. apply gc_step_ents in H. destruct H as [[_ ->]|(_ & _ & _ & HF)]; [reflexivity|].
  unfold content, apply_world. cbn [ents].
  induction HF as [|e e' l l' He Hl IH]; [reflexivity|]. cbn [flat_map]. rewrite !map_app.
  rewrite (edit_entry_generic w e e' ed He Hin), IH. reflexivity.
Qed.

(* ---------------------------------------------------------------- schedules *)
(* e1 is e0, or e0 with its unreferenced wrapper evicted *)
Definition rel (wr : world) (e1 e0 : entry) : Prop :=
  e1 = e0 \/ exists x, e_w e0 = Some x /\ keep wr x = false /\ gc_entry wr e0 = Some e1.

Lemma rel_content wr e1 e0 : rel wr e1 e0 -> content_entry e1 = content_entry e0.
Proof. intros [->|(x & _ & _ & H)]; [reflexivity|]. exact (gc_entry_content wr e0 e1 H). Qed.

Lemma Forall2_compose {A} (P R : A -> A -> Prop) l1 l1' l0 :
  (forall a a' b, P a a' -> R a b -> R a' b) -> Forall2 P l1 l1' -> Forall2 R l1 l0 -> Forall2 R l1' l0.
Proof.
  intros Hc HP. revert l0. induction HP as [|a a' l l' Ha Hl IH]; intros l0 HR; inversion HR; subst; constructor.
  - eapply Hc; eassumption.
  - apply IH. assumption.
Qed.

Lemma Forall2_flat_map {A B} (R : B -> B -> Prop) (f g : A -> list B) l1 l0 :
  Forall2 (fun a b => Forall2 R (f a) (g b)) l1 l0 -> Forall2 R (flat_map f l1) (flat_map g l0).
Proof. induction 1 as [|a b l l' Hab Hl IH]; cbn [flat_map]; [constructor|]. apply Forall2_app; assumption. Qed.

Lemma Forall2_impl' {A B} (P Q : A -> B -> Prop) l l' : (forall a b, P a b -> Q a b) -> Forall2 P l l' -> Forall2 Q l l'.
Proof. intros H. induction 1; constructor; auto. Qed.

Lemma Forall2_refl_rel wr l : Forall2 (rel wr) l l.
Proof. induction l; constructor; [left; reflexivity|assumption]. Qed.

Lemma rel_collect wr w1 e1 e1' e0 : held w1 = held wr -> gc_entry w1 e1 = Some e1' -> rel wr e1 e0 -> rel wr e1' e0.
Proof.
  intros Hh He Hr. rewrite (gc_entry_ext w1 wr e1 Hh) in He. destruct Hr as [->|(x & Ew & Hk & Hg)].
  - destruct (e_w e0) as [x|] eqn:Ew.
    + destruct (keep wr x) eqn:Hk.
      * unfold gc_entry in He. rewrite Ew, Hk in He. injection He as <-. left. reflexivity.
      * right. exists x. auto.
    + unfold gc_entry in He. rewrite Ew in He. injection He as <-. left. reflexivity.
  - pose proof (gc_entry_evicted_none wr e0 x e1 Ew Hk Hg) as Hn.
    unfold gc_entry in He. rewrite Hn in He. injection He as <-. right. exists x. auto.
Qed.

Lemma rel_edit wr ed e1 e0 : In (edit_obj ed) (held wr) -> rel wr e1 e0 ->
  Forall2 (rel wr) (apply_edit ed e1) (apply_edit ed e0).
Proof.
  intros Hin [->|(x & Ew & Hk & Hg)]; [apply Forall2_refl_rel|].
  rewrite (apply_edit_absent ed e0) by (apply (evicted_objs_unheld wr e0 x); assumption).
  rewrite (apply_edit_absent ed e1).
  - constructor; [|constructor]. right. exists x. auto.
  - unfold objs. rewrite (gc_entry_evicted_none wr e0 x e1 Ew Hk Hg). intros [].
Qed.

Lemma schedule_rel wr h : forall w1 w0 wf,
  held w1 = held wr -> held w0 = held wr ->
  (forall ed, In (Do ed) h -> In (edit_obj ed) (held wr)) ->
  Forall2 (rel wr) (ents w1) (ents w0) ->
  run_sched h w1 = Some wf -> Forall2 (rel wr) (ents wf) (ents (run_plain h w0)).
Proof.
  induction h as [|s h IH]; intros w1 w0 wf H1 H0 Hed HR Hrun; cbn [run_sched run_plain] in *.
  - injection Hrun as <-. exact HR.
  - destruct s as [|ed].
    + destruct (gc_step w1) as [w1'|] eqn:Eg; [|discriminate].
      assert (Hed' : forall ed, In (Do ed) h -> In (edit_obj ed) (held wr)) by (intros ed Hi; apply Hed; right; exact Hi).
      pose proof (gc_step_ents _ _ Eg) as Hs. destruct Hs as [[_ ->]|(_ & Hh & _ & HF)].
      * exact (IH w1 w0 wf H1 H0 Hed' HR Hrun).
      * apply (IH w1' w0 wf); try assumption; [congruence|].
        apply (Forall2_compose (fun e e' => gc_entry w1 e = Some e') (rel wr) (ents w1) (ents w1') (ents w0)); try assumption.
        intros a a' b Ha Hr. exact (rel_collect wr w1 a a' b H1 Ha Hr).
    + assert (Hin : In (edit_obj ed) (held wr)) by (apply Hed; left; reflexivity).
      apply (IH (apply_world ed w1) (apply_world ed w0) wf); try assumption.
      * intros ed' Hi. apply Hed. right. exact Hi.
      * cbn [apply_world ents]. apply Forall2_flat_map.
        apply (Forall2_impl' (rel wr)); [|exact HR]. intros a b Hab. exact (rel_edit wr ed a b Hin Hab).
Qed.

(* any placement of collections in a history of edits through held text objects leaves the final
   content what it is without collections *)
Theorem schedule_content h w wf :
  (forall ed, In (Do ed) h -> In (edit_obj ed) (held w)) ->
  run_sched h w = Some wf -> content wf = content (run_plain h w).
Proof.
  intros Hed Hrun.
  pose proof (schedule_rel w h w w wf eq_refl eq_refl Hed (Forall2_refl_rel w (ents w)) Hrun) as HR.
  unfold content. induction HR as [|e1 e0 l1 l0 He Hl IH]; [reflexivity|]. cbn [map].
  rewrite (rel_content w e1 e0 He), IH. reflexivity.
Qed.
