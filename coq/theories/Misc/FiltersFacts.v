(* C08 - lemmas about the default-filter stack model (Misc/Filters.v). *)
From Coq Require Import String List Arith Bool Lia.
From Delb.Misc Require Import Filters.
Import ListNotations.

Section Frame.
  Variable filt : Type.
  Variable routines : list routine.

  Lemma seg_balanced r i : Forall (balanced filt) routines -> balanced_seg filt (seg_of routines r i).
  Proof.
    intros H. unfold seg_of.
    destruct (Nat.lt_ge_cases r (length routines)) as [Hr|Hr].
    - assert (Hb : balanced filt (nth r routines [])).
      { rewrite Forall_forall in H. apply H. apply nth_In. exact Hr. }
      destruct (Nat.lt_ge_cases i (length (nth r routines []))) as [Hi|Hi].
      + unfold balanced in Hb. rewrite Forall_forall in Hb. apply Hb. apply nth_In. exact Hi.
      + rewrite (nth_overflow _ _ Hi). intros st. reflexivity.
    - rewrite (nth_overflow _ _ Hr). destruct i; intros st; reflexivity.
  Qed.

  (* the frame theorem: if every segment of every library routine is balanced, then at every point of
     every interleaving the stack is exactly what the client's own blocks established *)
  Theorem frame : Forall (balanced filt) routines -> forall p st, run filt routines p st = own filt p st.
  Proof.
    intros H. induction p as [|a q IH]; intros st; [reflexivity|].
    destruct a as [f| |r i]; cbn [run own].
    - apply IH.
    - destruct st; [reflexivity|apply IH].
    - rewrite (seg_balanced r i H st). apply IH.
  Qed.

  (* ... in particular after every prefix of the program, i.e. also inside loop bodies over a
     suspended generator and after abandoning one *)
  Corollary frame_prefix : Forall (balanced filt) routines -> forall p q st,
    run filt routines (firstn q p) st = own filt (firstn q p) st.
  Proof. intros H p q st. apply frame. exact H. Qed.
End Frame.

Lemma depth_ok_run filt seg : forall d (pre st : stack filt), length pre = d -> depth_ok seg d = true ->
  run_ops filt seg (pre ++ st) = Some st.
Proof.
  induction seg as [|o r IH]; intros d pre st Hl H; cbn [depth_ok run_ops] in *.
  - apply Nat.eqb_eq in H. subst d. destruct pre; [reflexivity|discriminate].
  - destruct o.
    + apply (IH (S d) (None :: pre) st); [cbn; lia|exact H].
    + destruct d; [discriminate|]. destruct pre as [|x pre']; [discriminate|]. cbn [app].
      apply (IH d pre' st); [cbn in Hl; lia|exact H].
Qed.

Lemma depth_ok_balanced filt seg : depth_ok seg 0 = true -> balanced_seg filt seg.
Proof. intros H st. exact (depth_ok_run filt seg 0 [] st eq_refl H). Qed.

Lemma segs_ok_balanced filt segs : segs_ok segs = true -> balanced filt segs.
Proof.
  unfold segs_ok, balanced. rewrite forallb_forall, Forall_forall. intros H seg Hin.
  apply depth_ok_balanced. apply H. exact Hin.
Qed.

Lemma all_ok_balanced filt (rs : list fsum) :
  forallb routine_ok rs = true -> Forall (balanced filt) (map f_segs rs).
Proof.
  rewrite forallb_forall, Forall_forall. intros H segs Hin. apply in_map_iff in Hin.
  destruct Hin as [r [<- Hr]]. apply segs_ok_balanced. specialize (H r Hr).
  unfold routine_ok in H. apply andb_true_iff in H. apply H.
Qed.

(* the frame theorem over generated summaries that pass the decidable check *)
Theorem frame_checked filt (rs : list fsum) : forallb routine_ok rs = true ->
  forall p st, run filt (map f_segs rs) p st = own filt p st.
Proof. intros H. apply frame. apply all_ok_balanced. exact H. Qed.

(* the check is not vacuous: the summary of a generator that holds the context across a yield fails
   it, the one of a decorated plain function passes *)
Example holding_across_yield_fails : segs_ok [[LPush]; []; [LPop]] = false.
Proof. reflexivity. Qed.
Example decorated_call_passes : segs_ok [[LPush; LPop]] = true.
Proof. reflexivity. Qed.

(* ---------------------------------------------------------------- reading default_filters[-1] inside a shielded call *)
(* library entries are `None` in the model: tuples chosen by library code (`()` for every decorator,
   translate/gen_filters.py fails closed on decorator arguments and on `extend=`), never derived from
   the caller's stack *)
Lemma stays_open_inside filt : forall pre r d post (st : stack filt),
  r = pre ++ post -> post <> [] -> stays_open r (S d) = true ->
  exists d', run_ops filt pre (repeat None (S d) ++ st) = Some (repeat None (S d') ++ st).
Proof.
  induction pre as [|op pre IH]; intros r d post st Hr Hp Hs.
  - exists d. reflexivity.
  - subst r. cbn [app] in Hs. destruct op; cbn [stays_open] in Hs.
    + cbn [run_ops]. apply (IH (pre ++ post) (S d) post st eq_refl Hp) in Hs. exact Hs.
    + destruct d as [|d'].
      * destruct (pre ++ post) eqn:E; [|discriminate]. apply app_eq_nil in E. destruct E as [_ E]. contradiction.
      * cbn [run_ops repeat app]. apply (IH (pre ++ post) d' post st eq_refl Hp) in Hs. exact Hs.
Qed.

(* whatever the caller's stack st is, at every point strictly inside a shielded segment the top of
   default_filters is the library's own entry, and the caller's stack lies untouched below it *)
Theorem top_during_shielded_call filt seg : shielded_seg seg = true ->
  forall pre post (st : stack filt), seg = pre ++ post -> pre <> [] -> post <> [] ->
  exists st', run_ops filt pre st = Some st' /\ hd_error st' = Some None /\ exists d, st' = repeat None (S d) ++ st.
Proof.
  intros Hs pre post st Hseg Hpre Hpost. destruct seg as [|[|] r]; try discriminate. cbn [shielded_seg] in Hs.
  destruct pre as [|op pre']; [contradiction|]. cbn [app] in Hseg. injection Hseg as <- Hr.
  cbn [run_ops]. destruct (stays_open_inside filt pre' r 0 post st Hr Hpost Hs) as [d' Hd].
  cbn [repeat app] in Hd. exists (repeat None (S d') ++ st). split; [exact Hd|]. split; [reflexivity|].
  exists d'. reflexivity.
Qed.

(* hence what a shielded routine reads does not depend on the caller: two callers with different
   stacks see the same top inside the call *)
Corollary shielded_reads_same filt seg : shielded_seg seg = true ->
  forall pre post (st1 st2 : stack filt), seg = pre ++ post -> pre <> [] -> post <> [] ->
  exists s1 s2, run_ops filt pre st1 = Some s1 /\ run_ops filt pre st2 = Some s2 /\ hd_error s1 = hd_error s2.
Proof.
  intros Hs pre post st1 st2 Hseg Hpre Hpost.
  destruct (top_during_shielded_call filt seg Hs pre post st1 Hseg Hpre Hpost) as (s1 & H1 & T1 & _).
  destruct (top_during_shielded_call filt seg Hs pre post st2 Hseg Hpre Hpost) as (s2 & H2 & T2 & _).
  exists s1, s2. rewrite T1, T2. auto.
Qed.
