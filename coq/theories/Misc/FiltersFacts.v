(* C08 - lemmas about the default-filter stack model (Misc/Filters.v). *)
From Coq Require Import String List Arith Bool Lia.
From Delb.Misc Require Import Filters.
Import ListNotations.

Section Frame.
  Variable filt : Type.
  Variable routines : list routine.

  Lemma seg_balanced r i : Forall (balanced filt) routines -> balanced_seg filt (seg_of routines r i).
  Proof.
    intros H. unfold seg_of.
    destruct (Nat.lt_ge_cases r (length routines)) as [Hr|Hr].
    - assert (Hb : balanced filt (nth r routines [])).
      { rewrite Forall_forall in H. apply H. apply nth_In. exact Hr. }
      destruct (Nat.lt_ge_cases i (length (nth r routines []))) as [Hi|Hi].
      + unfold balanced in Hb. rewrite Forall_forall in Hb. apply Hb. apply nth_In. exact Hi.
      + rewrite (nth_overflow _ _ Hi). intros st. reflexivity.
    - rewrite (nth_overflow _ _ Hr). destruct i; intros st; reflexivity.
  Qed.

  (* the frame theorem: if every segment of every library routine is balanced, then at every point of
     every interleaving the stack is exactly what the client's own blocks established *)
  Theorem frame : Forall (balanced filt) routines -> forall p st, run filt routines p st = own filt p st.
  Proof.
    intros H. induction p as [|a q IH]; intros st; [reflexivity|].
    destruct a as [f| |r i]; cbn [run own].
    - apply IH.
    - destruct st; [reflexivity|apply IH].
    - rewrite (seg_balanced r i H st). apply IH.
  Qed.

  (* ... in particular after every prefix of the program, i.e. also inside loop bodies over a
     suspended generator and after abandoning one *)
  Corollary frame_prefix : Forall (balanced filt) routines -> forall p q st,
    run filt routines (firstn q p) st = own filt (firstn q p) st.
  Proof. intros H p q st. apply frame. exact H. Qed.
End Frame.

Lemma depth_ok_run filt seg : forall d (pre st : stack filt), length pre = d -> depth_ok seg d = true ->
  run_ops filt seg (pre ++ st) = Some st.
Proof.
  induction seg as [|o r IH]; intros d pre st Hl H; cbn [depth_ok run_ops] in *.
  - apply Nat.eqb_eq in H. subst d. destruct pre; [reflexivity|discriminate].
  - destruct o.
    + apply (IH (S d) (None :: pre) st); [cbn; lia|exact H].
    + destruct d; [discriminate|]. destruct pre as [|x pre']; [discriminate|]. cbn [app].
      apply (IH d pre' st); [cbn in Hl; lia|exact H].
Qed.

Lemma depth_ok_balanced filt seg : depth_ok seg 0 = true -> balanced_seg filt seg.
Proof. intros H st. exact (depth_ok_run filt seg 0 [] st eq_refl H). Qed.

Lemma segs_ok_balanced filt segs : segs_ok segs = true -> balanced filt segs.
Proof.
  unfold segs_ok, balanced. rewrite forallb_forall, Forall_forall. intros H seg Hin.
  apply depth_ok_balanced. apply H. exact Hin.
Qed.

Lemma all_ok_balanced filt (rs : list fsum) :
  forallb routine_ok rs = true -> Forall (balanced filt) (map f_segs rs).
Proof.
  rewrite forallb_forall, Forall_forall. intros H segs Hin. apply in_map_iff in Hin.
  destruct Hin as [r [<- Hr]]. apply segs_ok_balanced. specialize (H r Hr).
  unfold routine_ok in H. apply andb_true_iff in H. apply H.
Qed.

(* the frame theorem over generated summaries that pass the decidable check *)
Theorem frame_checked filt (rs : list fsum) : forallb routine_ok rs = true ->
  forall p st, run filt (map f_segs rs) p st = own filt p st.
Proof. intros H. apply frame. apply all_ok_balanced. exact H. Qed.

(* the check is not vacuous: the summary of a generator that holds the context across a yield fails
   it, the one of a decorated plain function passes *)
Example holding_across_yield_fails : segs_ok [[LPush]; []; [LPop]] = false.
Proof. reflexivity. Qed.
Example decorated_call_passes : segs_ok [[LPush; LPop]] = true.
Proof. reflexivity. Qed.
