(* C04 (partial) - the logic of _WrapperCache.__gc_callback__ at quiescent points (between API calls).
   Definitions only.  What is *not* modelled: collections that fire inside library calls (they depend
   on frame references); those are exercised by harness/props/c04.py, not proved.

   The world: the lxml elements with their text/tail slots; per element, optionally, the cached wrapper
   object (the cache `_wrapper_cache.wrappers` is the partial map element -> wrapper, kept here next
   to its element); per wrapper the two head text objects (`_data_node`, `_tail_node`) and the chains
   of appended text objects hanging off them (their content lives in the objects, not in lxml); and
   the multiset `held` of objects client code references (wrappers, text objects, documents).
   Reference counts are *derived* from this graph and `gc_step` applies the code's thresholds. *)
From Coq Require Import List NArith Bool Arith.
From Delb.Base Require Import PyStr.
From Delb.Gen Require Import GenGC.
Import ListNotations.

Definition oid := nat.                                  (* identity of a Python object *)
Record tobj := mk_tobj { t_id : oid; t_s : str }.       (* an APPENDED text object and its content *)
Record wrapper := mk_wrapper {
  w_id : oid;                 (* the node object itself *)
  w_tag : bool;               (* TagNode (true) or CommentNode / ProcessingInstructionNode *)
  w_doc : option oid;         (* `__document__`: the Document object when this is a document's root *)
  w_dh : oid;                 (* `_data_node`: head of the data chain (TagNode only) *)
  w_dapp : list tobj;         (* text objects appended to it *)
  w_th : oid;                 (* `_tail_node` *)
  w_tapp : list tobj }.
Record entry := mk_entry {
  e_id : nat;                 (* the lxml element *)
  e_text : option str;        (* its .text slot *)
  e_tail : option str;        (* its .tail slot *)
  e_w : option wrapper }.     (* `_wrapper_cache.wrappers.get(element)` *)
Record world := mk_world { ents : list entry; locks : nat; held : list oid }.

Definition b2n (b : bool) : nat := if b then 1 else 0.
Definition mem_oid (o : oid) (l : list oid) : bool := existsb (Nat.eqb o) l.

(* ---------------------------------------------------------------- derived reference counts *)
(* references from client code *)
Definition refs (w : world) (o : oid) : nat := count_occ Nat.eq_dec (held w) o.
(* getrefcount(node.__document__): the call's argument, root.__document__, head_nodes._document,
   tail_nodes._document, + client references *)
Definition rc_doc (w : world) (d : oid) : nat := 4 + refs w d.
(* getrefcount(node) inside the callback: the call's argument, self.wrappers, the iterated tuple, the
   local `node`, node.attributes.__node for a TagNode, the document's reference to its root,
   + client references *)
Definition rc_node (w : world) (x : wrapper) : nat :=
  4 + b2n (w_tag x) + (match w_doc x with Some _ => 1 | None => 0 end) + refs w (w_id x).
(* `4 + isinstance(node, TagNode) + (node.__document__ is not None and getrefcount(node.__document__) == 4)`;
   the two constants are the ones the source has on this run (Gen/GenGC.v), whereas the 4s and 3s in the
   rc_* definitions count the references the object graph really contains *)
Definition threshold (w : world) (x : wrapper) : nat :=
  node_base + b2n (w_tag x) + match w_doc x with Some d => b2n (Nat.eqb (rc_doc w d) doc_base) | None => 0 end.
Definition node_referenced (w : world) (x : wrapper) : bool := threshold w x <? rc_node w x.
(* getrefcount(current) for an appended text object: the call's argument, the predecessor's
   `_appended_text_node`, the local `current`, the successor's `_bound_to` if any, + client references *)
Definition rc_text (w : world) (t : tobj) (has_next : bool) : nat := 3 + b2n has_next + refs w (t_id t).
(* `getrefcount(current) > 3 + (_next is not None)` somewhere along the chain *)
Fixpoint app_ref (w : world) (l : list tobj) : bool :=
  match l with
  | [] => false
  | t :: r => let hn := negb (null r) in (app_base + b2n hn <? rc_text w t hn) || app_ref w r
  end.
(* getrefcount(head) for `_tail_node` / `_data_node` (since /repo e92425d): the call's argument, the
   wrapper's attribute, the local, the first appended object's `_bound_to` if any, + client references *)
Definition rc_head (w : world) (o : oid) (has_app : bool) : nat := 3 + b2n has_app + refs w o.
(* `getrefcount(tail_node) > 3 + (tail_node._appended_text_node is not None)` *)
Definition head_ref (w : world) (o : oid) (app : list tobj) : bool :=
  let ha := negb (null app) in head_base + b2n ha <? rc_head w o ha.
(* the `continue`s: wrapper referenced; tail head referenced; data head referenced (TagNode); an
   appendee of the data chain (TagNode) or of the tail chain referenced *)
Definition keep (w : world) (x : wrapper) : bool :=
  node_referenced w x || head_ref w (w_th x) (w_tapp x) || (w_tag x && head_ref w (w_dh x) (w_dapp x))
  || (w_tag x && app_ref w (w_dapp x)) || app_ref w (w_tapp x).
(* the rule before e92425d, which never looked at the head text objects (finding C04-held-head-text) *)
Definition keep_old (w : world) (x : wrapper) : bool :=
  node_referenced w x || (w_tag x && app_ref w (w_dapp x)) || app_ref w (w_tapp x).

(* ---------------------------------------------------------------- eviction *)
Definition cat (l : list tobj) : str := concat (map t_s l).
(* TextNode._merge_appended_text_nodes on a head: `self.content += appendix`; with an empty
   (None) slot and a non-empty chain that is `None + str`: TypeError (finding 16) *)
Definition merge_slot (slot : option str) (app : list tobj) : option (option str) :=
  match app with
  | [] => Some slot
  | _ => match slot with None => None | Some s => Some (Some (s ++ cat app)) end
  end.
Definition gc_entry (w : world) (e : entry) : option entry :=
  match e_w e with
  | None => Some e
  | Some x =>
      if keep w x then Some e else
      match (if w_tag x then merge_slot (e_text e) (w_dapp x) else Some (e_text e)),
            merge_slot (e_tail e) (w_tapp x) with
      | Some tx, Some tl => Some (mk_entry (e_id e) tx tl None)      (* self.wrappers.pop(element) *)
      | _, _ => None                                                 (* exception escapes the callback *)
      end
  end.
Fixpoint mapM {A B} (f : A -> option B) (l : list A) : option (list B) :=
  match l with
  | [] => Some []
  | a :: r => match f a, mapM f r with Some b, Some r' => Some (b :: r') | _, _ => None end
  end.
(* one collection: `if phase != "stop" or self.locks: return`, else the sweep over the cache *)
Definition gc_step (w : world) : option world :=
  if Nat.eqb (locks w) 0 then
    match mapM (gc_entry w) (ents w) with
    | Some es => Some (mk_world es (locks w) (held w))
    | None => None
    end
  else Some w.

(* ---------------------------------------------------------------- what a program observes *)
(* text as the API shows it: slot content followed by the appended objects' content; an empty (None)
   head hides its chain (finding 15) *)
Definition vis (slot : option str) (app : list tobj) : str :=
  match slot with None => [] | Some s => s ++ cat app end.
Definition dapps (e : entry) : list tobj :=
  match e_w e with Some x => if w_tag x then w_dapp x else [] | None => [] end.
Definition tapps (e : entry) : list tobj := match e_w e with Some x => w_tapp x | None => [] end.
Definition content_entry (e : entry) : nat * str * str :=
  (e_id e, vis (e_text e) (dapps e), vis (e_tail e) (tapps e)).
Definition content (w : world) : list (nat * str * str) := map content_entry (ents w).

(* positions at an element, and the object navigation returns for a position (None: not in the
   cache, navigation creates a fresh object) *)
Inductive which := WNode | WDataHead | WTailHead | WDataApp (k : nat) | WTailApp (k : nat).
Definition obj_at (e : entry) (wh : which) : option oid :=
  match e_w e with
  | None => None
  | Some x =>
      match wh with
      | WNode => Some (w_id x)
      | WDataHead => if w_tag x then Some (w_dh x) else None
      | WTailHead => Some (w_th x)
      | WDataApp k => if w_tag x then option_map t_id (nth_error (w_dapp x) k) else None
      | WTailApp k => option_map t_id (nth_error (w_tapp x) k)
      end
  end.

(* an edit through a text object o: `o.add_following_siblings("...")` wires a new text object n right
   after o in the chain o belongs to; through an object that is not wired into any cached wrapper
   nothing in the tree changes *)
Fixpoint ins_after (o : oid) (n : tobj) (l : list tobj) : list tobj :=
  match l with
  | [] => []
  | t :: r => if Nat.eqb (t_id t) o then t :: n :: r else t :: ins_after o n r
  end.
Definition append_entry (o : oid) (n : tobj) (e : entry) : entry :=
  match e_w e with
  | None => e
  | Some x =>
      let d := if w_tag x && Nat.eqb (w_dh x) o then n :: w_dapp x else ins_after o n (w_dapp x) in
      let t := if Nat.eqb (w_th x) o then n :: w_tapp x else ins_after o n (w_tapp x) in
      mk_entry (e_id e) (e_text e) (e_tail e)
        (Some (mk_wrapper (w_id x) (w_tag x) (w_doc x) (w_dh x) d (w_th x) t))
  end.
Definition append_after (o : oid) (n : tobj) (w : world) : world :=
  mk_world (map (append_entry o n) (ents w)) (locks w) (held w).

(* ---------------------------------------------------------------- guard (decidable) *)
(* finding 16: no empty head with a chain behind it *)
Definition slots_entry (e : entry) : bool :=
  match e_w e with
  | None => true
  | Some x => (negb (w_tag x) || match e_text e, w_dapp x with None, _ :: _ => false | _, _ => true end)
              && match e_tail e, w_tapp x with None, _ :: _ => false | _, _ => true end
  end.
Definition slots_guard (w : world) : bool := forallb slots_entry (ents w).

Definition cache_size (w : world) : nat := length (filter (fun e => match e_w e with Some _ => true | None => false end) (ents w)).

(* ---------------------------------------------------------------- encodings for the harness *)
Definition enc_survivors (w : option world) : list N :=
  match w with
  | None => [2%N]
  | Some w' => 1%N :: flat_map (fun e => match e_w e with Some _ => [N.of_nat (e_id e)] | None => [] end) (ents w')
  end.
Definition enc_opt_str (o : option str) : list N :=
  match o with None => [0%N] | Some s => 1%N :: N.of_nat (length s) :: s end.
(* after a collection: per element, whether its wrapper is still cached, and the lxml slots *)
Definition enc_after (w : option world) : list N :=
  match w with
  | None => [2%N]
  | Some w' => 1%N :: flat_map (fun e => N.of_nat (e_id e) :: (match e_w e with Some _ => 1%N | None => 0%N end)
                                          :: enc_opt_str (e_text e) ++ enc_opt_str (e_tail e)) (ents w')
  end.
