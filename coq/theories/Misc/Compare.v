(* C17 - model of delb.utils.compare_trees over the shared content tree, and its specification.
   Definitions only; lemmas are in CompareFacts.v, the property statements in Props/C17.v.

   The ambient default filters (`default_filters[-1]`, a tuple of predicates that must all hold) are
   a parameter `F : node -> bool`; `len(node)` and `node.iterate_children()` see exactly the children
   that pass it.  The two roots handed to compare_trees are never filtered. *)
From Coq Require Import List NArith Bool Arith.
From Delb.Base Require Import PyStr.
From Delb.Tree Require Import ATree.
Import ListNotations.

(* ---------------------------------------------------------------- ambient filters, as data *)
(* what the harness can establish with altered_default_filters and what Coq can evaluate *)
Inductive fspec :=
| FTag | FText | FComment | FPI            (* is_tag_node, is_text_node, is_comment_node, is_processing_instruction_node *)
| FTagOrText                               (* _is_tag_or_text_node, the library default *)
| FNot (f : fspec)
| FOr (f g : fspec)
| FNameIs (s : str)                        (* custom: a tag node with that local name *)
| FContentIs (s : str)                     (* custom: a text/comment/PI node with that content *)
| FNone.                                   (* custom: rejects every node *)

Definition is_comment (n : node) : bool := match n with Comment _ => true | _ => false end.
Definition is_pi (n : node) : bool := match n with PI _ _ => true | _ => false end.

Fixpoint feval (f : fspec) (n : node) : bool :=
  match f with
  | FTag => is_tag n
  | FText => is_text n
  | FComment => is_comment n
  | FPI => is_pi n
  | FTagOrText => is_tag n || is_text n
  | FNot g => negb (feval g n)
  | FOr g h => feval g n || feval h n
  | FNameIs s => match n with Tag _ name _ _ => str_eqb name s | _ => false end
  | FContentIs s => match n with Text c | Comment c | PI _ c => str_eqb c s | _ => false end
  | FNone => false
  end.

(* default_filters[-1] is a tuple: a node is visible when every member accepts it *)
Definition passes (fs : list fspec) (n : node) : bool := forallb (fun f => feval f n) fs.

(* ---------------------------------------------------------------- the code *)
Inductive dkind := DNodeType | DNamespace | DLocalName | DAttributes | DChildrenSize | DNodeContent.

Definition kind_of (n : node) : nat :=
  match n with Tag _ _ _ _ => 0 | Text _ => 1 | Comment _ => 2 | PI _ _ => 3 end.

(* TagAttributes.__eq__ against another TagAttributes: equal sizes, then every own item is looked
   up in the other mapping (`other.get((ns, name))`), absent or different value -> False *)
Definition attr_in (b : list attr) (x : attr) : bool :=
  let '(ns, k, v) := x in
  match get_attr ns k b with Some v' => str_eqb v v' | None => false end.
Definition attrs_eqb (a b : list attr) : bool :=
  Nat.eqb (length a) (length b) && forallb (attr_in b) a.

(* CommentNode/ProcessingInstructionNode/TextNode.__eq__ for two nodes of the same class *)
Definition content_eqb (a b : node) : bool :=
  match a, b with
  | Text s, Text t => str_eqb s t
  | Comment s, Comment t => str_eqb s t
  | PI t1 c1, PI t2 c2 => str_eqb t1 t2 && str_eqb c1 c2
  | _, _ => false
  end.

Definition result := option (list nat * dkind).    (* None = TreeDifferenceKind.None_; else the path
                                                      (indexes among visible children) of the reported
                                                      node pair and the difference kind *)

(* compare_trees.  `zip(lhr.iterate_children(), rhr.iterate_children())`: the left children are
   walked in place (invisible ones skipped), the right ones are the filtered list; zip ends with
   the shorter side. *)
Fixpoint compare (F : node -> bool) (a b : node) {struct a} : result :=
  if negb (Nat.eqb (kind_of a) (kind_of b)) then Some ([], DNodeType) else
  match a, b with
  | Tag nsa na aa ka, Tag nsb nb ab kb =>
      if negb (str_eqb nsa nsb) then Some ([], DNamespace) else
      if negb (str_eqb na nb) then Some ([], DLocalName) else
      if negb (attrs_eqb aa ab) then Some ([], DAttributes) else
      if negb (Nat.eqb (length (filter F ka)) (length (filter F kb))) then Some ([], DChildrenSize) else
      (fix go (i : nat) (l r : list node) {struct l} : result :=
         match l with
         | [] => None
         | x :: l' =>
             if F x then
               match r with
               | [] => None
               | y :: r' =>
                   match compare F x y with
                   | None => go (S i) l' r'
                   | Some (p, k) => Some (i :: p, k)
                   end
               end
             else go i l' r
         end) 0 ka (filter F kb)
  | _, _ => if content_eqb a b then None else Some ([], DNodeContent)
  end.

(* ---------------------------------------------------------------- the specification *)
(* what a client sees of a tree under the ambient filter: invisible descendants removed (the
   predicate judges the node as it is, before its own children are filtered); the root stays *)
Fixpoint filter_tree (F : node -> bool) (n : node) : node :=
  match n with
  | Tag ns name attrs kids =>
      Tag ns name attrs
        ((fix go (l : list node) : list node :=
            match l with
            | [] => []
            | x :: r => if F x then filter_tree F x :: go r else go r
            end) kids)
  | _ => n
  end.

(* attributes are a mapping: two attribute lists are the same when every lookup agrees *)
Definition attrs_same (a b : list attr) : Prop := forall ns k, get_attr ns k a = get_attr ns k b.

(* trees agree: kinds, names, namespaces, attributes (as mappings), content, children in order *)
Inductive tree_eq : node -> node -> Prop :=
| TE_tag ns name aa ab ka kb : attrs_same aa ab -> Forall2 tree_eq ka kb -> tree_eq (Tag ns name aa ka) (Tag ns name ab kb)
| TE_text s : tree_eq (Text s) (Text s)
| TE_comment s : tree_eq (Comment s) (Comment s)
| TE_pi t c : tree_eq (PI t c) (PI t c).

(* the same, executable and written the obvious way (inclusion of the mappings in both directions,
   children pairwise with both lists exhausted together): the oracle of the direct search *)
Definition attrs_sameb (a b : list attr) : bool := forallb (attr_in b) a && forallb (attr_in a) b.
Fixpoint tree_eqb (a b : node) {struct a} : bool :=
  match a, b with
  | Tag nsa na aa ka, Tag nsb nb ab kb =>
      str_eqb nsa nsb && str_eqb na nb && attrs_sameb aa ab &&
      (fix go (l r : list node) {struct l} : bool :=
         match l, r with
         | [], [] => true
         | x :: l', y :: r' => tree_eqb x y && go l' r'
         | _, _ => false
         end) ka kb
  | Text s, Text t => str_eqb s t
  | Comment s, Comment t => str_eqb s t
  | PI t1 c1, PI t2 c2 => str_eqb t1 t2 && str_eqb c1 c2
  | _, _ => false
  end.
Definition spec_equal (F : node -> bool) (a b : node) : bool := tree_eqb (filter_tree F a) (filter_tree F b).

(* attribute keys are unique (they come out of a mapping) *)
Definition akey (x : attr) : str * str := let '(ns, k, _) := x in (ns, k).
Inductive wf : node -> Prop :=
| WF_tag ns name attrs kids : NoDup (map akey attrs) -> Forall wf kids -> wf (Tag ns name attrs kids)
| WF_text s : wf (Text s)
| WF_comment s : wf (Comment s)
| WF_pi t c : wf (PI t c).

(* what a reported difference means *)
Definition differs (k : dkind) (a b : node) : Prop :=
  match k with
  | DNodeType => kind_of a <> kind_of b
  | DNamespace => exists nsa na aa ka nsb nb ab kb, a = Tag nsa na aa ka /\ b = Tag nsb nb ab kb /\ nsa <> nsb
  | DLocalName => exists ns na aa ka nb ab kb, a = Tag ns na aa ka /\ b = Tag ns nb ab kb /\ na <> nb
  | DAttributes => exists ns name aa ka ab kb, a = Tag ns name aa ka /\ b = Tag ns name ab kb /\ ~ attrs_same aa ab
  | DChildrenSize => exists ns name aa ka ab kb, a = Tag ns name aa ka /\ b = Tag ns name ab kb /\ attrs_same aa ab
                                                /\ length ka <> length kb
  | DNodeContent => kind_of a = kind_of b /\ kind_of a <> 0 /\ a <> b
  end.

(* the pair at path p differs in kind k; every pair above it agrees in name, namespace, attributes
   and number of children, and all earlier siblings along the path are equal trees *)
Inductive diff_at : list nat -> dkind -> node -> node -> Prop :=
| DA_here k a b : differs k a b -> diff_at [] k a b
| DA_below i p k ns name aa ab ka kb x y :
    attrs_same aa ab -> length ka = length kb ->
    Forall2 tree_eq (firstn i ka) (firstn i kb) ->
    nth_error ka i = Some x -> nth_error kb i = Some y ->
    diff_at p k x y ->
    diff_at (i :: p) k (Tag ns name aa ka) (Tag ns name ab kb).

(* ---------------------------------------------------------------- encodings for the harness *)
Definition enc_dkind (k : dkind) : N :=
  match k with DNodeType => 1 | DNamespace => 2 | DLocalName => 3 | DAttributes => 4 | DChildrenSize => 5
             | DNodeContent => 6 end%N.
Definition enc_result (r : result) : list N :=
  match r with
  | None => [0%N]
  | Some (p, k) => enc_dkind k :: N.of_nat (length p) :: map N.of_nat p
  end.

(* one observation per ambient filter setting: verdict a/b, verdict b/a, the oracle *)
Definition obs1 (a b : node) (fs : list fspec) : list N :=
  enc_result (compare (passes fs) a b) ++ enc_result (compare (passes fs) b a)
    ++ [if spec_equal (passes fs) a b then 1%N else 0%N].
Definition obs (grid : list (list fspec)) (a b : node) : list N := flat_map (obs1 a b) grid.
