(* C04 - edits made through a held text object, and schedules of collections interleaved with them.
   Definitions only (lemmas: GCEditsFacts.v).  The edits are hand-modelled on the reference graph of
   Misc/GC.v at the level GC.v works at (per element: slots, cached wrapper, chains of text objects);
   they say where the text objects and their content go, not where elements sit in the tree. *)
From Coq Require Import List NArith Bool Arith.
From Delb.Base Require Import PyStr.
From Delb.Misc Require Import GC.
Import ListNotations.

(* every object wired at an element *)
Definition objs (e : entry) : list oid :=
  match e_w e with
  | None => []
  | Some x => w_id x :: (if w_tag x then w_dh x :: map t_id (w_dapp x) else []) ++ w_th x :: map t_id (w_tapp x)
  end.

(* a chain: head object, the lxml slot holding the head's content, appended objects *)
Definition chain := (oid * option str * list tobj)%type.
Definition in_chain (o : oid) (h : oid) (app : list tobj) : bool := Nat.eqb h o || mem_oid o (map t_id app).
Definition chain_of (x : wrapper) (e : entry) (is_data : bool) : chain :=
  if is_data then (w_dh x, e_text e, w_dapp x) else (w_th x, e_tail e, w_tapp x).
Definition put_chain (x : wrapper) (e : entry) (is_data : bool) (c : chain) : entry :=
  let '(h, s, a) := c in
  if is_data then mk_entry (e_id e) s (e_tail e) (Some (mk_wrapper (w_id x) (w_tag x) (w_doc x) h a (w_th x) (w_tapp x)))
  else mk_entry (e_id e) (e_text e) s (Some (mk_wrapper (w_id x) (w_tag x) (w_doc x) (w_dh x) (w_dapp x) h a)).

(* an edit through text object o touches the chain o is wired into; through an object that is wired
   nowhere (no cached wrapper refers to it) nothing in the tree changes *)
Definition on_chains (o : oid) (e : entry) (k : wrapper -> bool -> list entry) : list entry :=
  match e_w e with
  | None => [e]
  | Some x =>
      if w_tag x && in_chain o (w_dh x) (w_dapp x) then k x true
      else if in_chain o (w_th x) (w_tapp x) then k x false
      else [e]
  end.

Fixpoint ins_before (o : oid) (n : tobj) (l : list tobj) : list tobj :=
  match l with [] => [] | t :: r => if Nat.eqb (t_id t) o then n :: t :: r else t :: ins_before o n r end.
Fixpoint split_after (o : oid) (l : list tobj) : list tobj * list tobj :=
  match l with
  | [] => ([], [])
  | t :: r => if Nat.eqb (t_id t) o then ([t], r) else let '(k, m) := split_after o r in (t :: k, m)
  end.
Definition slot_str (s : option str) : str := match s with Some x => x | None => [] end.

(* o.add_following_siblings("text"): new text object n right after o *)
Definition ch_append (o : oid) (n : tobj) (c : chain) : chain :=
  let '(h, s, a) := c in if Nat.eqb h o then (h, s, n :: a) else (h, s, ins_after o n a).
(* o.content = v  (v non-empty) *)
Definition ch_set (o : oid) (v : str) (c : chain) : chain :=
  let '(h, s, a) := c in
  if Nat.eqb h o then (h, Some v, a)
  else (h, s, map (fun t => if Nat.eqb (t_id t) o then mk_tobj o v else t) a).
(* o.add_preceding_siblings("text"): before a head, the new object becomes the head (its content goes
   to the lxml slot) and o becomes the first appended object carrying its content itself *)
Definition ch_prepend (o : oid) (n : tobj) (c : chain) : chain :=
  let '(h, s, a) := c in
  if Nat.eqb h o then (t_id n, Some (t_s n), mk_tobj o (slot_str s) :: a) else (h, s, ins_before o n a).
(* o.detach(): a head hands its place to the first appended object (or leaves an empty placeholder) *)
Definition ch_detach (o : oid) (fresh : oid) (c : chain) : chain :=
  let '(h, s, a) := c in
  if Nat.eqb h o then match a with [] => (fresh, None, []) | t :: r => (t_id t, Some (t_s t), r) end
  else (h, s, filter (fun t => negb (Nat.eqb (t_id t) o)) a).
(* o.add_following_siblings(<element>): the chain is cut after o; what followed o becomes the tail
   chain of the new element (first object = its TAIL head, content into the tail slot) *)
Definition ch_split (o : oid) (c : chain) : chain * list tobj :=
  let '(h, s, a) := c in
  if Nat.eqb h o then ((h, s, []), a) else let '(k, m) := split_after o a in ((h, s, k), m).

Inductive edit :=
| EAppendText (o : oid) (n : tobj)
| ESetContent (o : oid) (v : str)
| EPrependText (o : oid) (n : tobj)
| EDetachText (o : oid) (fresh : oid)
| EAddElementAfter (o : oid) (ne : nat) (nw p1 p2 : oid).   (* new element id, its wrapper, placeholder heads *)

Definition edit_obj (ed : edit) : oid :=
  match ed with EAppendText o _ | ESetContent o _ | EPrependText o _ | EDetachText o _ | EAddElementAfter o _ _ _ _ => o end.

Definition apply_edit (ed : edit) (e : entry) : list entry :=
  match ed with
  | EAppendText o n => on_chains o e (fun x d => [put_chain x e d (ch_append o n (chain_of x e d))])
  | ESetContent o v => on_chains o e (fun x d => [put_chain x e d (ch_set o v (chain_of x e d))])
  | EPrependText o n => on_chains o e (fun x d => [put_chain x e d (ch_prepend o n (chain_of x e d))])
  | EDetachText o f => on_chains o e (fun x d => [put_chain x e d (ch_detach o f (chain_of x e d))])
  | EAddElementAfter o ne nw p1 p2 =>
      on_chains o e (fun x d =>
        let '(kept, moved) := ch_split o (chain_of x e d) in
        let new :=
          match moved with
          | [] => mk_entry ne None None (Some (mk_wrapper nw true None p1 [] p2 []))
          | t :: r => mk_entry ne None (Some (t_s t)) (Some (mk_wrapper nw true None p1 [] (t_id t) r))
          end in
        [put_chain x e d kept; new])
  end.
Definition apply_world (ed : edit) (w : world) : world :=
  mk_world (flat_map (apply_edit ed) (ents w)) (locks w) (held w).

(* a history of edits with collections placed anywhere between them *)
Inductive step := Collect | Do (ed : edit).
Fixpoint run_sched (h : list step) (w : world) : option world :=
  match h with
  | [] => Some w
  | Collect :: r => match gc_step w with Some w' => run_sched r w' | None => None end
  | Do ed :: r => run_sched r (apply_world ed w)
  end.
(* the same history without any collection *)
Fixpoint run_plain (h : list step) (w : world) : world :=
  match h with
  | [] => w
  | Collect :: r => run_plain r w
  | Do ed :: r => run_plain r (apply_world ed w)
  end.
