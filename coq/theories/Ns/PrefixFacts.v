(* Facts about prefix collection (Ns/Prefixes.v): the invariant of Serializer._collect_prefixes and the
   clauses of C13 that follow from it. *)
From Coq Require Import Lia DecimalN DecimalPos FinFun.
From Delb.Base Require Import PyStr PyStrFacts PyDict PyDictFacts.
From Delb.Gen Require Import GenNames GenNs.
From Delb.Tree Require Import ATree.
From Delb.Ns Require Import Namespaces NamespacesFacts Prefixes.

Notation nsd_name := new_namespace_declaration_name.
Notation nsd_loop := new_namespace_declaration_loop.
Notation nsd_bound := new_namespace_declaration_bound.

(* ---- the generated fresh-prefix loop, read through view lemmas --------------------------------- *)
Lemma uint_chars_inj u v : uint_chars u = uint_chars v -> u = v.
Proof.
  revert v. induction u; destruct v; cbn; intros H; try discriminate; try reflexivity;
    injection H as H; f_equal; apply IHu; exact H.
Qed.
Lemma uint_chars_digits u : forallb is_digit (uint_chars u) = true.
Proof. induction u; cbn; try reflexivity; exact IHu. Qed.
Lemma py_str_of_N_inj i j : py_str_of_N i = py_str_of_N j -> i = j.
Proof. intros H. apply DecimalN.Unsigned.to_uint_inj. apply uint_chars_inj. exact H. Qed.
Lemma py_str_of_N_nonempty i : py_str_of_N i <> [].
Proof.
  unfold py_str_of_N. destruct i as [|p]; cbn; [discriminate|].
  pose proof (DecimalPos.Unsigned.to_uint_nonnil p) as H. destruct (Pos.to_uint p); cbn; try discriminate. contradiction.
Qed.
Lemma nsd_name_eq i : nsd_name i = (NS_ ++ py_str_of_N i) ++ [COLON].
Proof. unfold new_namespace_declaration_name. rewrite <- app_assoc. reflexivity. Qed.
Lemma nsd_name_inj i j : nsd_name i = nsd_name j -> i = j.
Proof.
  rewrite !nsd_name_eq. intros H. apply app_inj_tail in H. destruct H as [H _].
  apply app_inv_head in H. apply py_str_of_N_inj. exact H.
Qed.
Lemma nsd_name_gen_like i q : nsd_name i = q ++ [COLON] -> gen_like q = true.
Proof.
  rewrite nsd_name_eq. intros H. apply app_inj_tail in H. destruct H as [<- _].
  pose proof (py_str_of_N_nonempty i) as NE. unfold py_str_of_N in *.
  pose proof (uint_chars_digits (N.to_uint i)) as D.
  destruct (uint_chars (N.to_uint i)) as [|d r]; [contradiction|]. exact D.
Qed.
Lemma nsd_name_nonempty i : nsd_name i <> [].
Proof. rewrite nsd_name_eq. intros H. apply app_eq_nil in H. destruct H as [_ H]. discriminate. Qed.

Lemma nsd_loop_view fuel : forall i values p,
  nsd_loop fuel i values = Some p -> ~ In p values /\ exists j, p = nsd_name j.
Proof.
  induction fuel as [|f IH]; cbn [new_namespace_declaration_loop]; intros i values p; [discriminate|].
  destruct (py_in_str (nsd_name i) values) eqn:E; cbn [negb].
  - apply IH.
  - intros H. injection H as <-. split; [apply py_in_str_nIn; exact E | exists i; reflexivity].
Qed.
Lemma nsd_loop_none fuel : forall i values,
  nsd_loop fuel i values = None -> forall k, k < fuel -> In (nsd_name (i + N.of_nat k)%N) values.
Proof.
  induction fuel as [|f IH]; cbn [new_namespace_declaration_loop]; intros i values H k Hk; [lia|].
  destruct (py_in_str (nsd_name i) values) eqn:E; cbn [negb] in H; [|discriminate].
  destruct k as [|k].
  - rewrite N.add_0_r. apply py_in_str_In. exact E.
  - replace (i + N.of_nat (S k))%N with (N.succ i + N.of_nat k)%N by lia. apply IH; [exact H | lia].
Qed.
Lemma nsd_loop_total fuel values : length values < fuel -> exists p, nsd_loop fuel 0%N values = Some p.
Proof.
  intros HL. destruct (nsd_loop fuel 0%N values) as [p|] eqn:E; [exists p; reflexivity|]. exfalso.
  pose proof (nsd_loop_none _ _ _ E) as HN.
  set (cands := map (fun k => nsd_name (N.of_nat k)) (seq 0 fuel)).
  assert (ND : NoDup cands).
  { unfold cands. apply FinFun.Injective_map_NoDup; [|apply seq_NoDup].
    intros a b Hab. apply nsd_name_inj in Hab. lia. }
  assert (HI : incl cands values).
  { intros x Hx. unfold cands in Hx. apply in_map_iff in Hx. destruct Hx as [k [<- Hk]]. apply in_seq in Hk.
    specialize (HN k). rewrite N.add_0_l in HN. apply HN. lia. }
  pose proof (NoDup_incl_length ND HI) as HLen. unfold cands in HLen. rewrite map_length, seq_length in HLen. lia.
Qed.

Lemma nnd_view (pm : pmap) n :
  (N.of_nat (length pm) < nsd_bound)%N ->
  exists p i, new_namespace_declaration pm n = Ok (dict_set n p pm) /\ p = nsd_name i /\ ~ In p (dict_values pm).
Proof.
  intros HB. unfold new_namespace_declaration.
  destruct (nsd_loop_total (N.to_nat nsd_bound) (dict_values pm)) as [p Hp].
  { unfold dict_values. rewrite map_length. lia. }
  rewrite Hp. apply nsd_loop_view in Hp. destruct Hp as [Hn [j ->]].
  exists (nsd_name j), j. repeat split. exact Hn.
Qed.

(* ---- the invariant ------------------------------------------------------------------------------ *)
Section Collect.
  Variables (caller : caller_map) (data : dict str).
  Hypothesis NZ : normalized caller data.
  Hypothesis GUARD : no_generated_like caller = true.

  Definition unprefixed (n : str) : Prop := lookup_prefix data n = None \/ lookup_prefix data n = Some [].
  Definition shape (n p : str) : Prop :=
    (p = [] /\ (n = [] \/ unprefixed n))
    \/ (n <> [] /\ unprefixed n /\ exists i, p = nsd_name i)
    \/ (n <> [] /\ exists q, q <> [] /\ lookup_prefix data n = Some q /\ p = q ++ [COLON]).
  Definition Inv (pm : pmap) : Prop :=
    NoDup (dict_keys pm) /\ NoDup (dict_values pm) /\ forall n p, In (n, p) pm -> shape n p.

  Lemma table_not_gen_like :
    forallb (fun kv => negb (gen_like (fst kv))) (global_namespaces ++ common_namespaces) = true.
  Proof. vm_compute. reflexivity. Qed.

  Lemma lookup_not_gen_like n q : lookup_prefix data n = Some q -> gen_like q = false.
  Proof.
    intros H. apply (lookup_prefix_iff _ _ _ _ NZ) in H. apply (nz_origin _ _ NZ) in H.
    pose proof table_not_gen_like as T. rewrite forallb_forall in T.
    destruct H as [H|[[k [Hin ->]]|H]].
    - specialize (T (q, n) (in_or_app _ _ _ (or_introl H))). cbn in T. destruct (gen_like q); [discriminate | reflexivity].
    - unfold no_generated_like in GUARD. rewrite forallb_forall in GUARD. specialize (GUARD _ Hin).
      unfold caller_prefix in GUARD. cbn in GUARD. unfold norm_prefix.
      destruct k; destruct (gen_like _); try discriminate; reflexivity.
    - specialize (T (q, n) (in_or_app _ _ _ (or_intror H))). cbn in T. destruct (gen_like q); [discriminate | reflexivity].
  Qed.

  Lemma Inv_add pm n p : Inv pm -> ~ In p (dict_values pm) -> shape n p -> Inv (dict_set n p pm).
  Proof.
    intros [I1 [I2 I3]] Hp Hs. split; [apply dict_set_NoDup_keys; exact I1|].
    split; [apply dict_set_NoDup_values; assumption|].
    intros x v Hin. apply In_dict_set in Hin. destruct Hin as [[-> ->]|Hin]; [exact Hs | apply I3; exact Hin].
  Qed.

  Lemma shape_empty_prefix n : shape n [] -> n = [] \/ unprefixed n.
  Proof.
    intros [[_ H]|[[_ [_ [i H]]]|[_ [q [_ [_ H]]]]]].
    - exact H.
    - symmetry in H. apply nsd_name_nonempty in H. contradiction.
    - symmetry in H. apply app_eq_nil in H. destruct H as [_ H]. discriminate.
  Qed.

  Lemma step_ok pm n : Inv pm -> (N.of_nat (length pm) < nsd_bound)%N ->
    exists pm', collect_step data pm n = Ok pm' /\ Inv pm' /\ In n (dict_keys pm')
                /\ (forall x, In x (dict_keys pm) -> In x (dict_keys pm'))
                /\ (forall x, In x (dict_keys pm') -> x = n \/ In x (dict_keys pm)).
  Proof.
    intros HI HB. unfold collect_step.
    destruct (dict_has n pm) eqn:EH.
    { exists pm. split; [reflexivity|]. split; [exact HI|]. split; [apply dict_has_In; exact EH|].
      split; [auto | intros x Hx; right; exact Hx]. }
    apply dict_has_false in EH.
    assert (KEYS : forall (p : str) (pm0 : pmap), (forall x, In x (dict_keys pm) -> In x (dict_keys pm0)) ->
                   (forall x, In x (dict_keys pm0) -> In x (dict_keys pm)) ->
                   In n (dict_keys (dict_set n p pm0))
                   /\ (forall x, In x (dict_keys pm) -> In x (dict_keys (dict_set n p pm0)))
                   /\ (forall x, In x (dict_keys (dict_set n p pm0)) -> x = n \/ In x (dict_keys pm))).
    { intros p pm0 K1 K2. split; [apply dict_set_keys_In|]. split.
      - intros x Hx. apply dict_set_keys_incl. apply K1. exact Hx.
      - intros x Hx. apply dict_set_keys_inv in Hx. destruct Hx as [Hx|Hx]; [left; exact Hx | right; apply K2; exact Hx]. }
    destruct HI as [I1 [I2 I3]].
    destruct (null n) eqn:EN.
    - (* the empty namespace *)
      destruct n; [|discriminate]. unfold redeclare_empty_prefix.
      destruct (find (fun kv => null (snd kv)) pm) as [[other p0]|] eqn:EF.
      + apply find_some in EF. destruct EF as [Hin Hnull]. cbn in Hnull. destruct p0; [|discriminate].
        destruct (nnd_view pm other HB) as [p [i [-> [-> Hp]]]]. cbn [bind].
        assert (Hother : other <> []) by (intros ->; apply EH; eapply In_keys; exact Hin).
        assert (Hshape : shape other (nsd_name i)).
        { right. left. split; [exact Hother|]. split; [|exists i; reflexivity].
          destruct (shape_empty_prefix _ (I3 _ _ Hin)); [contradiction | assumption]. }
        pose proof (Inv_add pm other (nsd_name i) (conj I1 (conj I2 I3)) Hp Hshape) as HI1.
        pose proof HI1 as HI1'.
        assert (Hne : ~ In [] (dict_values (dict_set other (nsd_name i) pm))).
        { intros H. apply In_values_ex in H. destruct H as [x H].
          destruct HI1 as [K1 _]. pose proof (In_dict_get _ _ _ K1 H) as G.
          destruct (str_eq_dec x other) as [->|Nx].
          - rewrite dict_get_set_same in G. injection G as G. apply (nsd_name_nonempty i). exact G.
          - rewrite dict_get_set_other in G by exact Nx. apply dict_get_In in G.
            apply Nx. eapply values_inj; eassumption. }
        eexists. split; [reflexivity|]. split.
        * apply Inv_add; [exact HI1' | exact Hne | left; split; [reflexivity | left; reflexivity]].
        * apply KEYS.
          -- intros x Hx. apply dict_set_keys_incl. exact Hx.
          -- intros x Hx. apply dict_set_keys_inv in Hx. destruct Hx as [->|Hx]; [eapply In_keys; exact Hin | exact Hx].
      + cbn [bind]. eexists. split; [reflexivity|]. split; [|apply KEYS; auto].
        apply Inv_add; [exact (conj I1 (conj I2 I3)) | | left; split; [reflexivity | left; reflexivity]].
        intros H. apply In_values_ex in H. destruct H as [x H]. pose proof (find_none _ _ EF _ H) as Hn. discriminate.
    - assert (Hn : n <> []) by (intros ->; discriminate).
      destruct (lookup_prefix data n) as [q|] eqn:EL.
      + destruct (null q && py_in_str [] (dict_values pm))%bool eqn:E1.
        * apply andb_prop in E1. destruct E1 as [Eq _]. destruct q; [|discriminate].
          destruct (nnd_view pm n HB) as [p [i [-> [-> Hp]]]].
          eexists. split; [reflexivity|]. split; [|apply KEYS; auto].
          apply Inv_add; [exact (conj I1 (conj I2 I3)) | exact Hp|].
          right. left. split; [exact Hn|]. split; [right; exact EL | exists i; reflexivity].
        * destruct (null q) eqn:Eq; cbn [negb].
          -- destruct q; [|discriminate]. cbn [andb] in E1. rewrite E1.
             eexists. split; [reflexivity|]. split; [|apply KEYS; auto].
             apply Inv_add; [exact (conj I1 (conj I2 I3)) | apply py_in_str_nIn; exact E1|].
             left. split; [reflexivity | right; right; exact EL].
          -- assert (Hq : q <> []) by (intros ->; discriminate).
             destruct (py_in_str (q ++ [COLON]) (dict_values pm)) eqn:EA.
             ++ (* the assertion cannot fail: the prefix would be a generated one or belong to a namespace already met *)
                exfalso. apply py_in_str_In in EA. apply In_values_ex in EA. destruct EA as [n' Hin'].
                destruct (I3 _ _ Hin') as [[H _]|[[_ [_ [i H]]]|[_ [q' [_ [HL H]]]]]].
                ** apply app_eq_nil in H. destruct H as [_ H]. discriminate.
                ** symmetry in H. apply nsd_name_gen_like in H. rewrite (lookup_not_gen_like _ _ EL) in H. discriminate.
                ** apply app_inj_tail in H. destruct H as [<- _].
                   assert (n = n') by (eapply lookup_prefix_inj; eassumption). subst n'.
                   apply EH. eapply In_keys. exact Hin'.
             ++ eexists. split; [reflexivity|]. split; [|apply KEYS; auto].
                apply Inv_add; [exact (conj I1 (conj I2 I3)) | apply py_in_str_nIn; exact EA|].
                right. right. split; [exact Hn|]. exists q. repeat split; assumption.
      + destruct (nnd_view pm n HB) as [p [i [-> [-> Hp]]]].
        eexists. split; [reflexivity|]. split; [|apply KEYS; auto].
        apply Inv_add; [exact (conj I1 (conj I2 I3)) | exact Hp|].
        right. left. split; [exact Hn|]. split; [left; exact EL | exists i; reflexivity].
  Qed.
End Collect.
