(* Facts about prefix collection (Ns/Prefixes.v): the invariant of Serializer._collect_prefixes and the
   clauses of C13 that follow from it. *)
From Coq Require Import Lia DecimalN DecimalPos FinFun.
From Delb.Base Require Import PyStr PyStrFacts PyDict PyDictFacts.
From Delb.Gen Require Import GenNames GenNs.
From Delb.Tree Require Import ATree.
From Delb.Ns Require Import Namespaces NamespacesFacts Prefixes.

Notation nsd_name := new_namespace_declaration_name.
Notation nsd_loop := new_namespace_declaration_loop.
Notation nsd_bound := new_namespace_declaration_bound.
Notation nsd_name2 := new_namespace_declaration_name2.

(* ---- the generated fresh-prefix loop, read through view lemmas --------------------------------- *)
Lemma uint_chars_inj u v : uint_chars u = uint_chars v -> u = v.
Proof.
  revert v. induction u; destruct v; cbn; intros H; try discriminate; try reflexivity;
    injection H as H; f_equal; apply IHu; exact H.
Qed.
Lemma uint_chars_digits u : forallb is_digit (uint_chars u) = true.
Proof. induction u; cbn; try reflexivity; exact IHu. Qed.
Lemma py_str_of_N_inj i j : py_str_of_N i = py_str_of_N j -> i = j.
Proof. intros H. apply DecimalN.Unsigned.to_uint_inj. apply uint_chars_inj. exact H. Qed.
Lemma py_str_of_N_nonempty i : py_str_of_N i <> [].
Proof.
  unfold py_str_of_N. destruct i as [|p]; cbn; [discriminate|].
  pose proof (DecimalPos.Unsigned.to_uint_nonnil p) as H. destruct (Pos.to_uint p); cbn; try discriminate. contradiction.
Qed.
Lemma nsd_name_eq i : nsd_name i = (NS_ ++ py_str_of_N i) ++ [COLON].
Proof. unfold new_namespace_declaration_name. rewrite <- app_assoc. reflexivity. Qed.
Lemma nsd_name_name2 i : nsd_name i = nsd_name2 i ++ [COLON].
Proof. unfold new_namespace_declaration_name, new_namespace_declaration_name2. rewrite <- app_assoc. reflexivity. Qed.
Lemma nsd_name2_inj i j : nsd_name2 i = nsd_name2 j -> i = j.
Proof. unfold new_namespace_declaration_name2. intros H. apply app_inv_head in H. apply py_str_of_N_inj. exact H. Qed.
Lemma nsd_name_inj i j : nsd_name i = nsd_name j -> i = j.
Proof.
  rewrite !nsd_name_eq. intros H. apply app_inj_tail in H. destruct H as [H _].
  apply app_inv_head in H. apply py_str_of_N_inj. exact H.
Qed.
Lemma nsd_name_gen_like i q : nsd_name i = q ++ [COLON] -> gen_like q = true.
Proof.
  rewrite nsd_name_eq. intros H. apply app_inj_tail in H. destruct H as [<- _].
  pose proof (py_str_of_N_nonempty i) as NE. unfold py_str_of_N in *.
  pose proof (uint_chars_digits (N.to_uint i)) as D.
  destruct (uint_chars (N.to_uint i)) as [|d r]; [contradiction|]. exact D.
Qed.
Lemma nsd_name_nonempty i : nsd_name i <> [].
Proof. rewrite nsd_name_eq. intros H. apply app_eq_nil in H. destruct H as [_ H]. discriminate. Qed.

Lemma nsd_loop_view fuel : forall i values taken p,
  nsd_loop fuel i values taken = Some p -> ~ In p values /\ exists j, p = nsd_name j /\ ~ In (nsd_name2 j) taken.
Proof.
  induction fuel as [|f IH]; cbn [new_namespace_declaration_loop]; intros i values taken p; [discriminate|].
  destruct (py_in_str (nsd_name i) values) eqn:E; cbn [negb andb].
  - apply IH.
  - destruct (py_in_str (nsd_name2 i) taken) eqn:E2; cbn [negb]; [apply IH|].
    intros H. injection H as <-. split; [apply py_in_str_nIn; exact E|]. exists i. split; [reflexivity | apply py_in_str_nIn; exact E2].
Qed.
Lemma nsd_loop_none fuel : forall i values taken,
  nsd_loop fuel i values taken = None ->
  forall k, k < fuel -> In (nsd_name (i + N.of_nat k)%N) values \/ In (nsd_name2 (i + N.of_nat k)%N) taken.
Proof.
  induction fuel as [|f IH]; cbn [new_namespace_declaration_loop]; intros i values taken H k Hk; [lia|].
  destruct k as [|k].
  - rewrite N.add_0_r. destruct (py_in_str (nsd_name i) values) eqn:E; [left; apply py_in_str_In; exact E|].
    destruct (py_in_str (nsd_name2 i) taken) eqn:E2; [right; apply py_in_str_In; exact E2|]. cbn in H. discriminate.
  - replace (i + N.of_nat (S k))%N with (N.succ i + N.of_nat k)%N by lia. apply IH; [|lia].
    destruct (py_in_str (nsd_name i) values); cbn [negb andb] in H; [exact H|].
    destruct (py_in_str (nsd_name2 i) taken); cbn [negb] in H; [exact H | discriminate].
Qed.
Lemma filter_split_length {A} (f : A -> bool) l : length (filter f l) + length (filter (fun x => negb (f x)) l) = length l.
Proof. induction l as [|x r IH]; cbn; [reflexivity|]. destruct (f x); cbn; lia. Qed.
Lemma nsd_loop_total fuel values taken :
  length values + length taken < fuel -> exists p, nsd_loop fuel 0%N values taken = Some p.
Proof.
  intros HL. destruct (nsd_loop fuel 0%N values taken) as [p|] eqn:E; [exists p; reflexivity|]. exfalso.
  pose proof (nsd_loop_none _ _ _ _ E) as HN.
  set (inv := fun k : nat => py_in_str (nsd_name (N.of_nat k)) values).
  set (A := filter inv (seq 0 fuel)). set (B := filter (fun k => negb (inv k)) (seq 0 fuel)).
  assert (LA : length A <= length values).
  { rewrite <- (map_length (fun k => nsd_name (N.of_nat k)) A). apply NoDup_incl_length.
    - apply FinFun.Injective_map_NoDup; [|apply NoDup_filter; apply seq_NoDup].
      intros a b Hab. apply nsd_name_inj in Hab. lia.
    - intros x Hx. apply in_map_iff in Hx. destruct Hx as [k [<- Hk]]. apply filter_In in Hk. destruct Hk as [_ Hk].
      apply py_in_str_In. exact Hk. }
  assert (LB : length B <= length taken).
  { rewrite <- (map_length (fun k => nsd_name2 (N.of_nat k)) B). apply NoDup_incl_length.
    - apply FinFun.Injective_map_NoDup; [|apply NoDup_filter; apply seq_NoDup].
      intros a b Hab. apply nsd_name2_inj in Hab. lia.
    - intros x Hx. apply in_map_iff in Hx. destruct Hx as [k [<- Hk]]. apply filter_In in Hk. destruct Hk as [Hs Hk].
      apply in_seq in Hs. specialize (HN k). rewrite N.add_0_l in HN. destruct HN as [HN|HN]; [lia| |exact HN].
      unfold inv in Hk. apply py_in_str_In in HN. rewrite HN in Hk. discriminate. }
  pose proof (filter_split_length inv (seq 0 fuel)) as HS. fold A B in HS. rewrite seq_length in HS. lia.
Qed.

Lemma nnd_view taken (pm : pmap) n :
  (N.of_nat (length pm + length taken) < nsd_bound)%N ->
  exists p i, new_namespace_declaration taken pm n = Ok (dict_set n p pm) /\ p = nsd_name i
              /\ ~ In (nsd_name2 i) taken /\ ~ In p (dict_values pm).
Proof.
  intros HB. unfold new_namespace_declaration.
  destruct (nsd_loop_total (N.to_nat nsd_bound) (dict_values pm) taken) as [p Hp].
  { unfold dict_values. rewrite map_length. lia. }
  rewrite Hp. apply nsd_loop_view in Hp. destruct Hp as [Hn [j [-> Hj]]].
  exists (nsd_name j), j. repeat split; assumption.
Qed.

(* ---- the invariant ------------------------------------------------------------------------------ *)
Section Collect.
  Variables (caller : caller_map) (data : dict str).
  Hypothesis NZ : normalized caller data.

  Definition unprefixed (n : str) : Prop := lookup_prefix data n = None \/ lookup_prefix data n = Some [].
  Definition shape (n p : str) : Prop :=
    (p = [] /\ (n = [] \/ unprefixed n))
    \/ (n <> [] /\ unprefixed n /\ exists i, p = nsd_name i /\ ~ In (nsd_name2 i) (dict_keys data))
    \/ (n <> [] /\ exists q, q <> [] /\ lookup_prefix data n = Some q /\ p = q ++ [COLON]).
  Definition Inv (pm : pmap) : Prop :=
    NoDup (dict_keys pm) /\ NoDup (dict_values pm) /\ forall n p, In (n, p) pm -> shape n p.

  Lemma Inv_add pm n p : Inv pm -> ~ In p (dict_values pm) -> shape n p -> Inv (dict_set n p pm).
  Proof.
    intros [I1 [I2 I3]] Hp Hs. split; [apply dict_set_NoDup_keys; exact I1|].
    split; [apply dict_set_NoDup_values; assumption|].
    intros x v Hin. apply In_dict_set in Hin. destruct Hin as [[-> ->]|Hin]; [exact Hs | apply I3; exact Hin].
  Qed.

  Lemma shape_empty_prefix n : shape n [] -> n = [] \/ unprefixed n.
  Proof.
    intros [[_ H]|[[_ [_ [i [H _]]]]|[_ [q [_ [_ H]]]]]].
    - exact H.
    - symmetry in H. apply nsd_name_nonempty in H. contradiction.
    - symmetry in H. apply app_eq_nil in H. destruct H as [_ H]. discriminate.
  Qed.

  Lemma step_ok pm n : Inv pm -> (N.of_nat (length pm + length data) < nsd_bound)%N ->
    exists pm', collect_step data pm n = Ok pm' /\ Inv pm' /\ In n (dict_keys pm')
                /\ (forall x, In x (dict_keys pm) -> In x (dict_keys pm'))
                /\ (forall x, In x (dict_keys pm') -> x = n \/ In x (dict_keys pm)).
  Proof.
    intros HI HB. unfold collect_step.
    destruct (dict_has n pm) eqn:EH.
    { exists pm. split; [reflexivity|]. split; [exact HI|]. split; [apply dict_has_In; exact EH|].
      split; [auto | intros x Hx; right; exact Hx]. }
    apply dict_has_false in EH.
    assert (KEYS : forall (p : str) (pm0 : pmap), (forall x, In x (dict_keys pm) -> In x (dict_keys pm0)) ->
                   (forall x, In x (dict_keys pm0) -> In x (dict_keys pm)) ->
                   In n (dict_keys (dict_set n p pm0))
                   /\ (forall x, In x (dict_keys pm) -> In x (dict_keys (dict_set n p pm0)))
                   /\ (forall x, In x (dict_keys (dict_set n p pm0)) -> x = n \/ In x (dict_keys pm))).
    { intros p pm0 K1 K2. split; [apply dict_set_keys_In|]. split.
      - intros x Hx. apply dict_set_keys_incl. apply K1. exact Hx.
      - intros x Hx. apply dict_set_keys_inv in Hx. destruct Hx as [Hx|Hx]; [left; exact Hx | right; apply K2; exact Hx]. }
    destruct HI as [I1 [I2 I3]].
    destruct (null n) eqn:EN.
    - (* the empty namespace *)
      destruct n; [|discriminate]. unfold redeclare_empty_prefix.
      destruct (find (fun kv => null (snd kv)) pm) as [[other p0]|] eqn:EF.
      + apply find_some in EF. destruct EF as [Hin Hnull]. cbn in Hnull. destruct p0; [|discriminate].
        assert (HB' : (N.of_nat (length pm + length (dict_keys data)) < nsd_bound)%N) by (unfold dict_keys; rewrite map_length; exact HB).
        destruct (nnd_view (dict_keys data) pm other HB') as [p [i [-> [-> [Hi Hp]]]]]. cbn [bind].
        assert (Hother : other <> []) by (intros ->; apply EH; eapply In_keys; exact Hin).
        assert (Hshape : shape other (nsd_name i)).
        { right. left. split; [exact Hother|]. split; [|exists i; split; [reflexivity | exact Hi]].
          destruct (shape_empty_prefix _ (I3 _ _ Hin)); [contradiction | assumption]. }
        pose proof (Inv_add pm other (nsd_name i) (conj I1 (conj I2 I3)) Hp Hshape) as HI1.
        pose proof HI1 as HI1'.
        assert (Hne : ~ In [] (dict_values (dict_set other (nsd_name i) pm))).
        { intros H. apply In_values_ex in H. destruct H as [x H].
          destruct HI1 as [K1 _]. pose proof (In_dict_get _ _ _ K1 H) as G.
          destruct (str_eq_dec x other) as [->|Nx].
          - rewrite dict_get_set_same in G. injection G as G. apply (nsd_name_nonempty i). exact G.
          - rewrite dict_get_set_other in G by exact Nx. apply dict_get_In in G.
            apply Nx. eapply values_inj; eassumption. }
        eexists. split; [reflexivity|]. split.
        * apply Inv_add; [exact HI1' | exact Hne | left; split; [reflexivity | left; reflexivity]].
        * apply KEYS.
          -- intros x Hx. apply dict_set_keys_incl. exact Hx.
          -- intros x Hx. apply dict_set_keys_inv in Hx. destruct Hx as [->|Hx]; [eapply In_keys; exact Hin | exact Hx].
      + cbn [bind]. eexists. split; [reflexivity|]. split; [|apply KEYS; auto].
        apply Inv_add; [exact (conj I1 (conj I2 I3)) | | left; split; [reflexivity | left; reflexivity]].
        intros H. apply In_values_ex in H. destruct H as [x H]. pose proof (find_none _ _ EF _ H) as Hn. discriminate.
    - assert (Hn : n <> []) by (intros ->; discriminate).
      assert (HB' : (N.of_nat (length pm + length (dict_keys data)) < nsd_bound)%N) by (unfold dict_keys; rewrite map_length; exact HB).
      destruct (lookup_prefix data n) as [q|] eqn:EL.
      + destruct (null q && py_in_str [] (dict_values pm))%bool eqn:E1.
        * apply andb_prop in E1. destruct E1 as [Eq _]. destruct q; [|discriminate].
          destruct (nnd_view (dict_keys data) pm n HB') as [p [i [-> [-> [Hi Hp]]]]].
          eexists. split; [reflexivity|]. split; [|apply KEYS; auto].
          apply Inv_add; [exact (conj I1 (conj I2 I3)) | exact Hp|].
          right. left. split; [exact Hn|]. split; [right; exact EL | exists i; split; [reflexivity | exact Hi]].
        * destruct (null q) eqn:Eq; cbn [negb].
          -- destruct q; [|discriminate]. cbn [andb] in E1. rewrite E1.
             eexists. split; [reflexivity|]. split; [|apply KEYS; auto].
             apply Inv_add; [exact (conj I1 (conj I2 I3)) | apply py_in_str_nIn; exact E1|].
             left. split; [reflexivity | right; right; exact EL].
          -- assert (Hq : q <> []) by (intros ->; discriminate).
             destruct (py_in_str (q ++ [COLON]) (dict_values pm)) eqn:EA.
             ++ (* the assertion cannot fail: the prefix would be a generated one or belong to a namespace already met *)
                exfalso. apply py_in_str_In in EA. apply In_values_ex in EA. destruct EA as [n' Hin'].
                destruct (I3 _ _ Hin') as [[H _]|[[_ [_ [i [H Hi]]]]|[_ [q' [_ [HL H]]]]]].
                ** apply app_eq_nil in H. destruct H as [_ H]. discriminate.
                ** rewrite nsd_name_name2 in H. apply app_inj_tail in H. destruct H as [H _]. apply Hi. rewrite <- H.
                   apply (lookup_prefix_iff _ _ _ _ NZ) in EL. eapply In_keys. exact EL.
                ** apply app_inj_tail in H. destruct H as [<- _].
                   assert (n = n') by (eapply lookup_prefix_inj; eassumption). subst n'.
                   apply EH. eapply In_keys. exact Hin'.
             ++ eexists. split; [reflexivity|]. split; [|apply KEYS; auto].
                apply Inv_add; [exact (conj I1 (conj I2 I3)) | apply py_in_str_nIn; exact EA|].
                right. right. split; [exact Hn|]. exists q. repeat split; assumption.
      + destruct (nnd_view (dict_keys data) pm n HB') as [p [i [-> [-> [Hi Hp]]]]].
        eexists. split; [reflexivity|]. split; [|apply KEYS; auto].
        apply Inv_add; [exact (conj I1 (conj I2 I3)) | exact Hp|].
        right. left. split; [exact Hn|]. split; [left; exact EL | exists i; split; [reflexivity | exact Hi]].
  Qed.
End Collect.

(* ---- the whole loop, and the clauses -------------------------------------------------------------- *)
Lemma py_sorted_str_In l x : In x (py_sorted_str l) <-> In x l.
Proof.
  assert (HI : forall y r, In x (insert_str y r) <-> x = y \/ In x r).
  { intros y r. induction r as [|z r IH]; cbn; [intuition|].
    destruct (str_ltb z y); cbn; [rewrite IH|]; intuition. }
  induction l as [|y r IH]; cbn; [reflexivity|]. rewrite HI, IH. intuition.
Qed.

Lemma declared_keys (pm : pmap) k : In k (dict_keys (declared_attributes pm)) ->
  (k = XMLNS_ /\ exists n, n <> [] /\ In (n, []) pm)
  \/ (exists p', k = XMLNS_ ++ [COLON] ++ removelast p' /\ ~ In (removelast p') global_prefixes).
Proof.
  unfold declared_attributes, dict_keys. rewrite map_app, in_app_iff. intros [H|H].
  - left. destruct (dict_get [] (dict_inverse pm)) as [n|] eqn:E; [|destruct H].
    destruct (null n) eqn:EN; [destruct H|]. destruct H as [<-|[]]. split; [reflexivity|].
    exists n. split; [intros ->; discriminate | apply dict_inverse_get_inv; exact E].
  - right. rewrite map_map in H. apply in_map_iff in H. destruct H as [p' [<- H]]. cbn [fst].
    apply (proj1 (py_sorted_str_In _ _)) in H. apply filter_In in H. destruct H as [_ H].
    exists p'. split; [reflexivity|]. apply py_in_str_nIn. destruct (py_in_str _ _); [discriminate | reflexivity].
Qed.

Section Clauses.
  Variables (caller : caller_map) (data : dict str).
  Hypothesis NZ : normalized caller data.
  Hypothesis KD : caller_keys_distinct caller.

  Lemma loop_ok U : NoDup U -> (N.of_nat (length U + length data) < nsd_bound)%N ->
    forall nss pm, Inv data pm -> incl (dict_keys pm) U -> incl nss U ->
    exists pm', collect_loop data pm nss = Ok pm' /\ Inv data pm'
                /\ (forall x, In x nss -> In x (dict_keys pm'))
                /\ (forall x, In x (dict_keys pm) -> In x (dict_keys pm')).
  Proof.
    intros NDU HB. induction nss as [|n r IH]; cbn [collect_loop]; intros pm HI HK HN.
    - exists pm. split; [reflexivity|]. split; [exact HI|]. split; [intros x []|auto].
    - assert (HL : (N.of_nat (length pm + length data) < nsd_bound)%N).
      { destruct HI as [K1 _]. pose proof (NoDup_incl_length K1 HK) as H. unfold dict_keys in H.
        rewrite map_length in H. lia. }
      destruct (step_ok caller data NZ pm n HI HL) as [pm1 [E [HI1 [Hn [K1 K2]]]]].
      rewrite E. cbn [bind].
      destruct (IH pm1 HI1) as [pm' [E' [HI' [C1 C2]]]].
      + intros x Hx. destruct (K2 _ Hx) as [->|Hx']; [apply HN; left; reflexivity | apply HK; exact Hx'].
      + intros x Hx. apply HN. right. exact Hx.
      + exists pm'. split; [exact E'|]. split; [exact HI'|]. split.
        * intros x [<-|Hx]; [apply C2; exact Hn | apply C1; exact Hx].
        * intros x Hx. apply C2. apply K1. exact Hx.
  Qed.

  Lemma Inv_initial root_ns : Inv data (initial_prefixes data root_ns).
  Proof.
    unfold initial_prefixes. destruct (py_in_str root_ns (dict_values data)) eqn:E.
    - split; [constructor|]. split; [constructor|]. intros n p [].
    - apply py_in_str_nIn in E. split; [repeat constructor; intros []|]. split; [repeat constructor; intros []|].
      intros n p [H|[]]. injection H as <- <-. left. split; [reflexivity|]. right. left.
      destruct (lookup_prefix data root_ns) as [q|] eqn:EL; [|reflexivity]. exfalso. apply E.
      apply (lookup_prefix_iff _ _ _ _ NZ) in EL. eapply In_values. exact EL.
  Qed.

  Lemma lookup_global p n : In (p, n) global_namespaces -> lookup_prefix data n = Some p.
  Proof. intros H. apply (lookup_prefix_iff _ _ _ _ NZ). apply (nz_global _ _ NZ). exact H. Qed.

  Lemma global_untouched (g gn : str) pm n p : In (g, gn) global_namespaces -> gn <> [] -> g <> [] ->
    (forall i, nsd_name i <> g ++ [COLON]) ->
    Inv data pm -> In (n, p) pm -> (p = g ++ [COLON] <-> n = gn).
  Proof.
    intros HG Hgn Hg Hnsd [_ [_ I3]] Hin. pose proof (lookup_global _ _ HG) as LG. specialize (I3 _ _ Hin). split.
    - intros ->. destruct I3 as [[H _]|[[_ [_ [i [H _]]]]|[_ [q [_ [HL H]]]]]].
      + apply app_eq_nil in H. destruct H as [_ H]. discriminate.
      + symmetry in H. apply Hnsd in H. contradiction.
      + apply app_inj_tail in H. destruct H as [<- _]. eapply lookup_prefix_inj; eassumption.
    - intros ->. destruct I3 as [[_ [H|[H|H]]]|[[_ [[H|H] _]]|[_ [q [_ [HL H]]]]]]; congruence.
  Qed.

  Theorem collect_clauses root_ns nss :
    (N.of_nat (length (dedup (root_ns :: nss)) + length data) < nsd_bound)%N ->
    exists pm, collect_from data root_ns nss = Ok pm /\ Inv data pm /\ c13_clauses caller nss pm.
  Proof.
    intros HB. unfold collect_from.
    assert (DD : forall l : list str, NoDup (dedup l) /\ forall x, In x (dedup l) <-> In x l).
    { induction l as [|y r [IH1 IH2]]; cbn; [split; [constructor | reflexivity]|].
      destruct (py_in_str y r) eqn:E.
      - split; [exact IH1|]. intros x. rewrite IH2. apply py_in_str_In in E. split; [auto | intros [->|H]; assumption].
      - apply py_in_str_nIn in E. split; [constructor; [rewrite IH2; exact E | exact IH1]|].
        intros x. cbn. rewrite IH2. reflexivity. }
    destruct (DD (root_ns :: nss)) as [NDU HU].
    destruct (loop_ok (dedup (root_ns :: nss)) NDU HB nss (initial_prefixes data root_ns) (Inv_initial root_ns))
      as [pm [E [HI [C1 _]]]].
    { intros x Hx. apply HU. unfold initial_prefixes in Hx. destruct (py_in_str root_ns (dict_values data)); [destruct Hx|].
      destruct Hx as [<-|[]]. left. reflexivity. }
    { intros x Hx. apply HU. right. exact Hx. }
    exists pm. split; [exact E|]. split; [exact HI|].
    pose proof HI as [K1 [K2 K3]].
    assert (EMPTY : forall n, In (n, []) pm -> In [] (dict_keys pm) -> n = []).
    { intros n Hin HE. apply In_keys_ex in HE. destruct HE as [v HE].
      assert (v = []).
      { destruct (K3 _ _ HE) as [[H _]|[[H _]|[H _]]]; [exact H | contradiction | contradiction]. }
      subst v. eapply values_inj; eassumption. }
    constructor.
    - intros n Hn. apply C1 in Hn. apply In_keys_ex in Hn. destruct Hn as [p Hp]. exists p. apply In_dict_get; assumption.
    - exact K1.
    - intros n n' p H1 H2. apply dict_get_In in H1. apply dict_get_In in H2. eapply values_inj; eassumption.
    - intros HE. apply C1 in HE. split; [|split].
      + pose proof HE as HE'. apply In_keys_ex in HE'. destruct HE' as [v Hv].
        destruct (K3 _ _ Hv) as [[-> _]|[[H _]|[H _]]]; [|contradiction|contradiction]. apply In_dict_get; assumption.
      + intros n Hn H. apply dict_get_In in H. apply Hn. apply EMPTY; assumption.
      + intros H. apply declared_keys in H. destruct H as [[_ [n [Hn Hin]]]|[p' [H _]]].
        * apply Hn. apply EMPTY; assumption.
        * unfold XMLNS_ in H. cbn in H. discriminate.
    - intros p n Hp Hn Hc Hin. apply C1 in Hin. apply In_keys_ex in Hin. destruct Hin as [v Hv].
      pose proof (nz_caller _ _ NZ KD _ _ Hc) as HD. cbn [norm_prefix] in HD.
      apply (lookup_prefix_iff _ _ _ _ NZ) in HD.
      destruct (K3 _ _ Hv) as [[_ [H|[H|H]]]|[[_ [[H|H] _]]|[_ [q [_ [HL ->]]]]]]; try congruence.
      rewrite HD in HL. injection HL as <-. apply In_dict_get; assumption.
    - intros n p Hin. split.
      + apply (global_untouched XML_ xml_ns pm n p);
          [left; reflexivity | unfold xml_ns; discriminate | discriminate
          | intros i H; unfold new_namespace_declaration_name in H; cbn in H; discriminate | exact HI | exact Hin].
      + apply (global_untouched XMLNS_ xmlns_ns pm n p);
          [right; left; reflexivity | unfold xmlns_ns; discriminate | discriminate
          | intros i H; unfold new_namespace_declaration_name in H; cbn in H; discriminate | exact HI | exact Hin].
    - split; intros H; apply declared_keys in H; destruct H as [[H _]|[p' [H Hn]]]; try discriminate.
      + apply app_inv_head in H. apply app_inv_head in H. apply Hn. rewrite <- H. left. reflexivity.
      + apply app_inv_head in H. apply app_inv_head in H. apply Hn. rewrite <- H. right. left. reflexivity.
  Qed.
End Clauses.

(* ---- from namespace sequences to trees ------------------------------------------------------------ *)
Lemma dedup_spec (l : list str) : NoDup (dedup l) /\ forall x, In x (dedup l) <-> In x l.
Proof.
  induction l as [|y r [IH1 IH2]]; cbn; [split; [constructor | reflexivity]|].
  destruct (py_in_str y r) eqn:E.
  - split; [exact IH1|]. intros x. rewrite IH2. apply py_in_str_In in E. split; [auto | intros [->|H]; assumption].
  - apply py_in_str_nIn in E. split; [constructor; [rewrite IH2; exact E | exact IH1]|].
    intros x. cbn. rewrite IH2. reflexivity.
Qed.
Lemma dedup_length_same_set (a b : list str) : (forall x, In x a <-> In x b) -> length (dedup a) = length (dedup b).
Proof.
  intros H. destruct (dedup_spec a) as [NA SA]. destruct (dedup_spec b) as [NB SB].
  apply Nat.le_antisymm; apply NoDup_incl_length; try assumption; intros x Hx.
  - apply SB. apply H. apply SA. exact Hx.
  - apply SA. apply H. apply SB. exact Hx.
Qed.

Lemma order_ok_same_set bfs ord : order_ok bfs ord ->
  forall x, In x (concat ord) <-> In x (flat_map (fun nn : node_nss => fst nn :: snd nn) bfs).
Proof.
  unfold order_ok. induction 1 as [|nn l bfs' ord' H _ IH]; cbn [concat flat_map]; [reflexivity|].
  intros x. rewrite !in_app_iff, IH, H. reflexivity.
Qed.
Lemma default_order_ok bfs : order_ok bfs (default_order bfs).
Proof. unfold order_ok, default_order. induction bfs; cbn; constructor; [reflexivity | assumption]. Qed.

Lemma root_ns_in_tree_nss t : is_tag t = true -> In (root_ns_of t) (tree_nss t).
Proof. destruct t; try discriminate. intros _. cbn. left. reflexivity. Qed.

Lemma c13_clauses_same_set caller a b pm : (forall x, In x a <-> In x b) -> c13_clauses caller a pm -> c13_clauses caller b pm.
Proof.
  intros H [C1 C2 C3 C4 C5 C6 C7]. constructor; auto.
  - intros n Hn. apply C1. apply H. exact Hn.
  - intros Hn. apply C4. apply H. exact Hn.
  - intros p n Hp Hn Hc Hin. apply C5; auto. apply H. exact Hin.
Qed.

Theorem collect_tree_clauses t caller ord :
  is_tag t = true -> valid_caller caller ->
  order_ok (bfs_of t) ord -> (N.of_nat (n_namespaces t + length caller + 17) < 2 ^ 16)%N ->
  exists data pm, normalize caller = Ok data /\ collect caller (root_ns_of t) ord = Ok pm
                  /\ Inv data pm /\ c13_clauses caller (tree_nss t) pm.
Proof.
  intros HT [KD [data EN]] HO HB.
  pose proof (normalize_ok _ _ EN) as NZ.
  pose proof (order_ok_same_set _ _ HO) as SAME. fold (tree_nss t) in SAME.
  destruct (collect_clauses caller data NZ KD (root_ns_of t) (concat ord)) as [pm [E [HI HC]]].
  { pose proof (normalize_length _ _ EN) as HLen.
    replace (length (dedup (root_ns_of t :: concat ord))) with (n_namespaces t);
      [change nsd_bound with (2 ^ 16)%N; lia|].
    unfold n_namespaces. apply dedup_length_same_set. intros x. cbn. rewrite SAME.
    pose proof (root_ns_in_tree_nss t HT). split; [auto | intros [<-|H']; assumption]. }
  exists data, pm. split; [exact EN|]. split; [unfold collect; rewrite EN; exact E|]. split; [exact HI|].
  eapply c13_clauses_same_set; [exact SAME | exact HC].
Qed.

(* ---- the shape of prefixes, and names that cannot be taken for declarations ----------------------- *)
Lemma split_colon (a b x y : str) : colon_free a -> colon_free b -> a ++ COLON :: x = b ++ COLON :: y -> a = b /\ x = y.
Proof.
  revert b. induction a as [|c a IH]; intros b Ha Hb H.
  - destruct b as [|d b]; cbn in H; [injection H as H; split; [reflexivity | exact H]|].
    injection H as H _. exfalso. apply Hb. left. symmetry. exact H.
  - destruct b as [|d b]; cbn in H.
    + injection H as H _. exfalso. apply Ha. left. exact H.
    + injection H as H1 H2. subst d. destruct (IH b) as [-> ->]; [| |exact H2|split; reflexivity].
      * intros Hin. apply Ha. right. exact Hin.
      * intros Hin. apply Hb. right. exact Hin.
Qed.
Lemma py_prefix_app p s : py_prefix p s = true -> exists r, s = p ++ r.
Proof.
  revert s. induction p as [|a p IH]; intros s H; [exists s; reflexivity|].
  destruct s as [|b s]; cbn in H; [discriminate|]. apply andb_prop in H. destruct H as [H1 H2].
  apply N.eqb_eq in H1. subst. destruct (IH _ H2) as [r ->]. exists r. reflexivity.
Qed.

Lemma tables_colon_free :
  forallb (fun kv => negb (existsb (N.eqb COLON) (fst kv))) (global_namespaces ++ common_namespaces) = true.
Proof. vm_compute. reflexivity. Qed.

Lemma prefix_shape caller data (pm : pmap) :
  normalized caller data -> caller_prefixes_colon_free caller -> Inv data pm ->
  forall n p, In (n, p) pm -> p = [] \/ exists q, p = q ++ [COLON] /\ q <> [] /\ colon_free q.
Proof.
  intros NZ CF [_ [_ I3]] n p Hin.
  destruct (I3 _ _ Hin) as [[-> _]|[[_ [_ [i [-> _]]]]|[_ [q [Hq [HL ->]]]]]]; [left; reflexivity | right | right].
  - exists (NS_ ++ py_str_of_N i). split; [apply nsd_name_eq|]. split; [discriminate|].
    intros H. apply in_app_or in H. destruct H as [H|H].
    + cbn in H. intuition discriminate.
    + unfold py_str_of_N in H. pose proof (uint_chars_digits (N.to_uint i)) as D. rewrite forallb_forall in D.
      specialize (D _ H). discriminate.
  - exists q. split; [reflexivity|]. split; [exact Hq|].
    apply (lookup_prefix_iff _ _ _ _ NZ) in HL. apply (nz_origin _ _ NZ) in HL.
    pose proof tables_colon_free as T. rewrite forallb_forall in T.
    assert (TT : forall kv, In kv (global_namespaces ++ common_namespaces) -> colon_free (fst kv)).
    { intros kv Hkv Hc. specialize (T _ Hkv). cbv beta in T.
      assert (HE : existsb (N.eqb COLON) (fst kv) = true).
      { apply existsb_exists. exists COLON. split; [exact Hc | apply N.eqb_refl]. }
      apply negb_true_iff in T. exact (eq_true_false_abs _ HE T). }
    destruct HL as [H|[[k [Hk ->]]|H]].
    + apply (TT (q, n)). apply in_or_app. left. exact H.
    + apply (CF _ _ Hk).
    + apply (TT (q, n)). apply in_or_app. right. exact H.
Qed.

(* an attribute whose local name is a colon-free name other than "xmlns", in a namespace other than the
   xmlns namespace, is never written under a key an XML reader takes for a declaration *)
Lemma qname_not_decl caller data (pm : pmap) nss ans local :
  normalized caller data -> caller_prefixes_colon_free caller -> Inv data pm -> c13_clauses caller nss pm ->
  colon_free local -> local <> XMLNS_ -> ans <> xmlns_ns ->
  is_decl_key (qname pm ans local) = false.
Proof.
  intros NZ CF HI HC Hl Hx Ha. unfold is_decl_key, qname, prefix_of.
  assert (LOCAL : (str_eqb local XMLNS_ || py_startswith local (XMLNS_ ++ [COLON]))%bool = false).
  { apply orb_false_iff. split; [apply str_eqb_false; exact Hx|].
    destruct (py_startswith local (XMLNS_ ++ [COLON])) eqn:E; [|reflexivity]. exfalso.
    apply py_prefix_app in E. destruct E as [r E]. apply Hl. rewrite E. rewrite <- app_assoc. apply in_or_app. right. left. reflexivity. }
  destruct (dict_get ans pm) as [p|] eqn:EG; [|exact LOCAL].
  apply dict_get_In in EG. destruct (prefix_shape _ _ _ NZ CF HI _ _ EG) as [->|[q [-> [Hq Hc]]]]; [exact LOCAL|].
  rewrite <- app_assoc. cbn [app]. apply orb_false_iff. split.
  - apply str_eqb_false. intros H. assert (HX : In COLON XMLNS_) by (rewrite <- H; apply in_or_app; right; left; reflexivity).
    unfold XMLNS_, COLON in HX. cbn in HX. repeat (destruct HX as [HX|HX]; [discriminate HX|]). exact HX.
  - destruct (py_startswith (q ++ COLON :: local) (XMLNS_ ++ [COLON])) eqn:E; [|reflexivity]. exfalso.
    apply py_prefix_app in E. destruct E as [r E]. rewrite <- app_assoc in E. cbn [app] in E.
    apply split_colon in E; [|exact Hc|unfold colon_free, XMLNS_, COLON; cbn; intros HX; repeat (destruct HX as [HX|HX]; [discriminate HX|]); exact HX]. destruct E as [-> _].
    apply Ha. apply (c_xml _ _ _ HC _ _ EG). reflexivity.
Qed.

(* ---- the table binds nothing but namespaces that were met ------------------------------------------------ *)
Lemma nnd_keys taken (pm pm' : pmap) n : new_namespace_declaration taken pm n = Ok pm' ->
  forall x, In x (dict_keys pm') -> x = n \/ In x (dict_keys pm).
Proof.
  unfold new_namespace_declaration. destruct (nsd_loop _ _ _ _); [|discriminate]. intros H. injection H as <-.
  intros x Hx. apply dict_set_keys_inv in Hx. exact Hx.
Qed.
Lemma step_keys data (pm pm' : pmap) n : collect_step data pm n = Ok pm' ->
  forall x, In x (dict_keys pm') -> x = n \/ In x (dict_keys pm).
Proof.
  unfold collect_step. destruct (dict_has n pm); [intros H; injection H as <-; auto|].
  destruct (null n) eqn:EN.
  - unfold redeclare_empty_prefix. destruct (find (fun kv => null (snd kv)) pm) as [[other p0]|] eqn:EF.
    + apply find_some in EF. destruct EF as [Hin _].
      destruct (new_namespace_declaration (dict_keys data) pm other) as [pm1| | |] eqn:E1; cbn [bind]; try discriminate.
      intros H. injection H as <-. intros x Hx. apply dict_set_keys_inv in Hx. destruct Hx as [->|Hx].
      * left. destruct n; [reflexivity | discriminate].
      * right. destruct (nnd_keys _ _ _ _ E1 x Hx) as [->|H']; [eapply In_keys; exact Hin | exact H'].
    + cbn [bind]. intros H. injection H as <-. intros x Hx. apply dict_set_keys_inv in Hx. destruct Hx as [->|Hx].
      * left. destruct n; [reflexivity | discriminate].
      * right. exact Hx.
  - destruct (lookup_prefix data n) as [q|].
    + destruct (null q && py_in_str [] (dict_values pm))%bool; [apply nnd_keys|].
      destruct (negb (null q)).
      * destruct (py_in_str (q ++ [COLON]) (dict_values pm)); [discriminate|].
        intros H. injection H as <-. intros x Hx. apply dict_set_keys_inv in Hx. exact Hx.
      * destruct (py_in_str [] (dict_values pm)); [discriminate|].
        intros H. injection H as <-. intros x Hx. apply dict_set_keys_inv in Hx. exact Hx.
    + apply nnd_keys.
Qed.
Lemma loop_keys data nss : forall (pm pm' : pmap), collect_loop data pm nss = Ok pm' ->
  forall x, In x (dict_keys pm') -> In x nss \/ In x (dict_keys pm).
Proof.
  induction nss as [|n r IH]; cbn [collect_loop]; intros pm pm' H x Hx.
  - injection H as <-. right. exact Hx.
  - destruct (collect_step data pm n) as [pm1| | |] eqn:E1; cbn [bind] in H; try discriminate.
    destruct (IH _ _ H x Hx) as [H1|H1]; [left; right; exact H1|].
    destruct (step_keys _ _ _ _ E1 x H1) as [->|H2]; [left; left; reflexivity | right; exact H2].
Qed.
Lemma collect_keys caller root_ns ord (pm : pmap) : collect caller root_ns ord = Ok pm ->
  forall x, In x (dict_keys pm) -> x = root_ns \/ In x (concat ord).
Proof.
  unfold collect. destruct (normalize caller) as [data| | |]; cbn [bind]; try discriminate.
  unfold collect_from. intros H x Hx. destruct (loop_keys _ _ _ _ H x Hx) as [H1|H1]; [right; exact H1|].
  unfold initial_prefixes in H1. destruct (py_in_str root_ns (dict_values data)); [destruct H1|].
  destruct H1 as [<-|[]]. left. reflexivity.
Qed.
