(* _delb/nodes.py Serializer._collect_prefixes / __redeclare_empty_prefix and the declaration part of
   serialize_root.  Definitions only.  `_new_namespace_declaration` is generated (Gen/GenNs.v).

   CPython iterates the per-node set {node.namespace} | {a.namespace for a in attributes} in hash
   order, so the sequence in which namespaces are met is not determined by the tree: the model takes,
   for every tag node in breadth-first order, the list in which that node's set was iterated
   (`ord`), and the theorems hold for every `ord` that enumerates the right sets. *)
From Delb.Base Require Import PyStr PyDict.
From Delb.Gen Require Import GenNames GenNs.
From Delb.Tree Require Import ATree.
From Delb.Ns Require Import Namespaces.

Definition COLON : char := 58%N.
Definition pmap := dict str.          (* Serializer._prefixes: namespace -> prefix including its colon, or "" *)

Definition bind {A B} (r : res A) (f : A -> res B) : res B :=
  match r with Ok a => f a | Rejected e => Rejected e | Crash e => Crash e | OutOfFuel => OutOfFuel end.

(* for other_namespace, prefix in self._prefixes.items(): if prefix == "": new declaration; break *)
Definition redeclare_empty_prefix (data : dict str) (pm : pmap) : res pmap :=
  match find (fun kv => null (snd kv)) pm with
  | Some (other, _) => new_namespace_declaration (dict_keys data) pm other
  | None => Ok pm
  end.

(* the body of the inner loop of _collect_prefixes for one namespace *)
Definition collect_step (data : dict str) (pm : pmap) (namespace : str) : res pmap :=
  if dict_has namespace pm then Ok pm else
  if null namespace then
    bind (redeclare_empty_prefix data pm) (fun pm' => Ok (dict_set [] [] pm'))
  else
    match lookup_prefix data namespace with
    | None => new_namespace_declaration (dict_keys data) pm namespace
    | Some prefix =>
        if (null prefix && py_in_str [] (dict_values pm))%bool then new_namespace_declaration (dict_keys data) pm namespace
        else if negb (null prefix) then
          if py_in_str (prefix ++ [COLON]) (dict_values pm) then Crash AssertionError
          else Ok (dict_set namespace (prefix ++ [COLON]) pm)
        else
          if py_in_str [] (dict_values pm) then Crash AssertionError
          else Ok (dict_set namespace [] pm)
    end.

Fixpoint collect_loop (data : dict str) (pm : pmap) (nss : list str) : res pmap :=
  match nss with
  | [] => Ok pm
  | n :: r => bind (collect_step data pm n) (fun pm' => collect_loop data pm' r)
  end.

Definition initial_prefixes (data : dict str) (root_ns : str) : pmap :=
  if py_in_str root_ns (dict_values data) then [] else [(root_ns, [])].

(* nss: the namespaces in the order the two nested loops meet them (concatenation of `ord`) *)
Definition collect_from (data : dict str) (root_ns : str) (nss : list str) : res pmap :=
  collect_loop data (initial_prefixes data root_ns) nss.

Definition collect (caller : caller_map) (root_ns : str) (ord : list (list str)) : res pmap :=
  bind (normalize caller) (fun data => collect_from data root_ns (concat ord)).

(* ---- the breadth-first sequence of tag nodes (traverse_bf_ltr_ttb(root, is_tag_node)) ------------
   levels t = the tag nodes of t level by level; their concatenation is the breadth-first order *)
Definition node_nss := (str * list str)%type.       (* element namespace, attribute namespaces *)
Definition attr_ns (a : attr) : str := fst (fst a).
Fixpoint zip_app {A} (a b : list (list A)) : list (list A) :=
  match a, b with
  | [], _ => b
  | _, [] => a
  | x :: a', y :: b' => (x ++ y) :: zip_app a' b'
  end.
Fixpoint levels (n : node) : list (list node_nss) :=
  match n with
  | Tag ns _ attrs kids =>
      [(ns, map attr_ns attrs)] :: (fix go (l : list node) : list (list node_nss) :=
                                      match l with [] => [] | k :: r => zip_app (levels k) (go r) end) kids
  | _ => []
  end.
Definition bfs_of (n : node) : list node_nss := concat (levels n).
Definition root_ns_of (n : node) : str := match n with Tag ns _ _ _ => ns | _ => [] end.

(* `ord` enumerates, node by node, exactly the set {element namespace} ∪ {attribute namespaces} *)
Definition order_ok (bfs : list node_nss) (ord : list (list str)) : Prop :=
  Forall2 (fun (nn : node_nss) l => forall x, In x l <-> In x (fst nn :: snd nn)) bfs ord.
(* the order a deterministic run would use: element namespace first, then attributes as listed *)
Definition default_order (bfs : list node_nss) : list (list str) := map (fun nn => fst nn :: snd nn) bfs.

(* ---- serialize_root: the declarations written on the root ---------------------------------------
   declarations = {p: n for n, p in self._prefixes.items()}; pop(""); sorted(... not in GLOBAL_PREFIXES) *)
Definition XMLNS_ : str := [120; 109; 108; 110; 115]%N.
Definition declared_attributes (pm : pmap) : list (str * str) :=
  let declarations := dict_inverse pm in
  let dflt := match dict_get [] declarations with
              | Some n => if null n then [] else [(XMLNS_, n)]
              | None => []
              end in
  let declarations := dict_pop [] declarations in
  dflt ++ map (fun p => (XMLNS_ ++ [COLON] ++ removelast p,
                         match dict_get p declarations with Some n => n | None => [] end))
              (py_sorted_str (filter (fun p => negb (py_in_str (removelast p) global_prefixes))
                                     (dict_keys declarations))).

(* the name an element or attribute is written with: self._prefixes[namespace] + local_name *)
Definition prefix_of (pm : pmap) (ns : str) : str := match dict_get ns pm with Some p => p | None => [] end.
Definition qname (pm : pmap) (ns local : str) : str := prefix_of pm ns ++ local.

(* ---- caller prefixes that look like generated ones (the class of the repaired finding
   C13-caller-prefix-looks-generated; no longer a guard of any theorem) -------------------------------- *)
Definition NS_ : str := [110; 115]%N.
Definition gen_like (p : str) : bool :=
  match p with
  | 110%N :: 115%N :: d :: r => forallb is_digit (d :: r)
  | _ => false
  end.
Definition caller_prefix (kv : option str * str) : str := match fst kv with Some p => p | None => [] end.
Definition no_generated_like (c : caller_map) : bool := forallb (fun kv => negb (gen_like (caller_prefix kv))) c.

Definition enc_pmap (r : res pmap) : list N :=
  match r with
  | Ok pm => 0%N :: N.of_nat (length pm) :: flat_map (fun kv => (N.of_nat (length (fst kv)) :: fst kv)
                                                       ++ (N.of_nat (length (snd kv)) :: snd kv)) pm
  | Rejected _ => [1%N]
  | Crash AssertionError => [2%N]
  | Crash _ => [3%N]
  | OutOfFuel => [4%N]
  end.

(* ---- the property's clauses as a decidable check on a prefix table and the declarations written
   (used by the check as oracle on the implementation's own table and output) ---------------------- *)
Definition XML_ : str := [120; 109; 108]%N.
Fixpoint nodup_str (l : list str) : bool :=
  match l with [] => true | x :: r => (negb (py_in_str x r) && nodup_str r)%bool end.
Definition c13_holds_b (caller : caller_map) (nss : list str) (pm : pmap) (decls : list (str * str)) : bool :=
  (* every namespace of the tree bound, to one prefix; different namespaces, different prefixes *)
  (forallb (fun n => dict_has n pm) nss && nodup_str (dict_keys pm) && nodup_str (dict_values pm)
  (* no namespace: no prefix, and no default namespace declared *)
  && (negb (py_in_str [] nss)
      || (match dict_get [] pm with Some [] => true | _ => false end && negb (dict_has XMLNS_ decls)))
  (* the caller's non-empty prefixes *)
  && forallb (fun kv => match fst kv with
                        | Some (c :: p) => (null (snd kv) || negb (py_in_str (snd kv) nss)
                                            || match dict_get (snd kv) pm with
                                               | Some q => str_eqb q ((c :: p) ++ [COLON]) | None => false end)%bool
                        | _ => true end) caller
  (* xml: never declared, never remapped *)
  && negb (dict_has (XMLNS_ ++ [COLON] ++ XML_) decls) && negb (dict_has (XMLNS_ ++ [COLON] ++ XMLNS_) decls)
  && negb (py_in_str xml_ns (dict_values decls))
  && forallb (fun kv => Bool.eqb (str_eqb (snd kv) (XML_ ++ [COLON])) (str_eqb (fst kv) xml_ns)) pm
  (* what is declared is the table: every declaration binds a table entry and every non-empty,
     non-xml namespace of the table is declared *)
  && forallb (fun kv => (null (fst kv) || str_eqb (fst kv) xml_ns
                         || match snd kv with
                            | [] => match dict_get XMLNS_ decls with Some n => str_eqb n (fst kv) | None => false end
                            | p => match dict_get (XMLNS_ ++ [COLON] ++ removelast p) decls with
                                   | Some n => str_eqb n (fst kv) | None => false end
                            end)%bool) pm)%bool.

Definition enc_pairs (l : list (str * str)) : list N :=
  N.of_nat (length l) :: flat_map (fun kv => (N.of_nat (length (fst kv)) :: fst kv)
                                              ++ (N.of_nat (length (snd kv)) :: snd kv)) l.
Definition enc_bfs (l : list node_nss) : list N :=
  N.of_nat (length l) :: flat_map (fun nn => (N.of_nat (length (fst nn)) :: fst nn)
     ++ N.of_nat (length (snd nn)) :: flat_map (fun s => N.of_nat (length s) :: s) (snd nn)) l.
Definition res_pmap_or_empty (r : res pmap) : pmap := match r with Ok pm => pm | _ => [] end.

(* ---- the clauses of C13 on a prefix table (spec; proved of `collect` in PrefixFacts.v) ------------
   nss: the namespaces occurring in the tree (element and attribute namespaces, "" = no namespace) *)
Record c13_clauses (caller : caller_map) (nss : list str) (pm : pmap) : Prop := {
  (* every namespace occurring in the tree is bound ... *)
  c_covers : forall n, In n nss -> exists p, dict_get n pm = Some p;
  (* ... to exactly one prefix (the table is a function), different namespaces to different prefixes *)
  c_function : NoDup (dict_keys pm);
  c_injective : forall n n' p, dict_get n pm = Some p -> dict_get n' pm = Some p -> n = n';
  (* names in no namespace are written without prefix and never fall under a default namespace *)
  c_empty : In [] nss ->
            dict_get [] pm = Some [] /\ (forall n, n <> [] -> dict_get n pm <> Some [])
            /\ ~ In XMLNS_ (dict_keys (declared_attributes pm));
  (* a namespace for which the caller supplied a non-empty prefix is written with that prefix *)
  c_caller : forall p n, p <> [] -> n <> [] -> In (Some p, n) caller -> In n nss ->
             dict_get n pm = Some (p ++ [COLON]);
  (* the xml (and xmlns) prefix is never remapped ... *)
  c_xml : forall n p, In (n, p) pm ->
          (p = XML_ ++ [COLON] <-> n = xml_ns) /\ (p = XMLNS_ ++ [COLON] <-> n = xmlns_ns);
  (* ... and never declared *)
  c_xml_decl : ~ In (XMLNS_ ++ [COLON] ++ XML_) (dict_keys (declared_attributes pm))
               /\ ~ In (XMLNS_ ++ [COLON] ++ XMLNS_) (dict_keys (declared_attributes pm));
}.

(* all namespaces of a tree, and their number *)
Definition tree_nss (t : node) : list str := flat_map (fun nn => fst nn :: snd nn) (bfs_of t).
Fixpoint dedup (l : list str) : list str :=
  match l with [] => [] | x :: r => if py_in_str x r then dedup r else x :: dedup r end.
Definition n_namespaces (t : node) : nat := length (dedup (tree_nss t)).

(* prefixes are names without a colon (what XML requires of a prefix; the code does not check it) *)
Definition colon_free (s : str) : Prop := ~ In COLON s.
Definition caller_prefixes_colon_free (c : caller_map) : Prop := forall k n, In (k, n) c -> colon_free (caller_prefix (k, n)).
(* an attribute key that an XML reader takes for a namespace declaration *)
Definition is_decl_key (k : str) : bool := (str_eqb k XMLNS_ || py_startswith k (XMLNS_ ++ [COLON]))%bool.
