(* _delb/names.py `Namespaces`: what the constructor does to the caller's `namespaces` argument
   (Namespaces.__init_data / __normalize_declarations) and lookup_prefix.  Definitions only.
   The per-declaration validator and the tables are generated (Gen/GenNs.v). *)
From Delb.Base Require Import PyStr PyDict.
From Delb.Gen Require Import GenNames GenNs.

(* the `namespaces` argument: a mapping prefix -> namespace in its iteration order; the prefix may be
   None (default namespace).  `namespaces=None` is the empty mapping (Serializer.__init__). *)
Definition caller_map := list (option str * str).

Definition opt_str_eqb (a b : option str) : bool :=
  match a, b with
  | None, None => true
  | Some x, Some y => str_eqb x y
  | _, _ => false
  end.
Definition has_key (k : option str) (c : caller_map) : bool := existsb (fun kv => opt_str_eqb (fst kv) k) c.

(* for prefix, namespace in declarations.items(): validate; declared_namespaces.add; result[prefix] = namespace *)
Fixpoint normalize_loop (decls : caller_map) (declared : list str) (result : dict str)
  : res (list str * dict str) :=
  match decls with
  | [] => Ok (declared, result)
  | (prefix, namespace) :: r =>
      match validate_declaration prefix namespace declared with
      | Ok prefix' => normalize_loop r (namespace :: declared) (dict_set prefix' namespace result)
      | Rejected e => Rejected e
      | Crash e => Crash e
      | OutOfFuel => OutOfFuel
      end
  end.

(* for prefix, namespace in COMMON_NAMESPACES.items():
       if namespace not in declared_namespaces: result.setdefault(prefix, namespace) *)
Definition add_common (declared : list str) (result : dict str) (pn : str * str) : dict str :=
  if py_in_str (snd pn) declared then result else dict_setdefault (fst pn) (snd pn) result.

Definition normalize (decls : caller_map) : res (dict str) :=
  if (has_key None decls && has_key (Some []) decls)%bool then Rejected ValueError else
  match normalize_loop decls [] global_namespaces with
  | Ok (declared, result) => Ok (fold_left (add_common declared) common_namespaces result)
  | Rejected e => Rejected e
  | Crash e => Crash e
  | OutOfFuel => OutOfFuel
  end.

(* self.__inverse_data.get(namespace or "") with inverse_data = {v: k for k, v in data.items()} *)
Definition lookup_prefix (data : dict str) (namespace : str) : option str :=
  dict_get namespace (dict_inverse data).

(* a Python mapping has each key once *)
Definition caller_keys_distinct (c : caller_map) : Prop := NoDup (map fst c).
(* the caller's argument is a mapping that the Namespaces constructor accepts *)
Definition valid_caller (c : caller_map) : Prop := caller_keys_distinct c /\ exists data, normalize c = Ok data.
