(* Facts about Namespaces normalisation (Ns/Namespaces.v over the generated validator and tables). *)
From Coq Require Import Lia.
From Delb.Base Require Import PyStr PyStrFacts PyDict PyDictFacts.
From Delb.Gen Require Import GenNames GenNs.
From Delb.Ns Require Import Namespaces.

Definition norm_prefix (k : option str) : str := match k with Some p => p | None => [] end.
Definition reserved_ns : list str := [xml_ns; xmlns_ns].

(* what the generated validator guarantees when it accepts (view lemma: the proofs below read the
   validator only through this) *)
Lemma validate_view k n declared p :
  validate_declaration k n declared = Ok p ->
  p = norm_prefix k /\ py_in_optstr k global_prefixes = false /\ ~ In n reserved_ns /\ ~ In n declared.
Proof.
  unfold validate_declaration.
  destruct (py_in_optstr k global_prefixes) eqn:E1; [discriminate|].
  destruct (py_in_str n [xml_ns; xmlns_ns]) eqn:E2; [discriminate|].
  destruct (py_in_str n declared) eqn:E3; [discriminate|].
  intros H. injection H as <-.
  split; [destruct k; reflexivity|]. split; [reflexivity|].
  split; apply py_in_str_nIn; assumption.
Qed.

(* facts about the generated tables, by computation *)
Lemma global_keys_nodup : NoDup (dict_keys global_namespaces).
Proof. cbn. repeat constructor; cbn; intuition discriminate. Qed.
Lemma global_values : dict_values global_namespaces = reserved_ns.
Proof. reflexivity. Qed.
Lemma reserved_nodup : NoDup reserved_ns.
Proof. repeat constructor; cbn; intuition discriminate. Qed.
Fixpoint nodup_strb (l : list str) : bool :=
  match l with [] => true | x :: r => (negb (py_in_str x r) && nodup_strb r)%bool end.
Lemma nodup_strb_NoDup l : nodup_strb l = true -> NoDup l.
Proof.
  induction l as [|x r IH]; cbn; [constructor|].
  intros H. apply andb_prop in H. destruct H as [H1 H2]. constructor; [|apply IH; exact H2].
  apply py_in_str_nIn. destruct (py_in_str x r); [discriminate | reflexivity].
Qed.
Lemma common_values_nodup : NoDup (dict_values common_namespaces).
Proof. apply nodup_strb_NoDup. vm_compute. reflexivity. Qed.
Lemma common_not_reserved : forall n, In n (dict_values common_namespaces) -> ~ In n reserved_ns.
Proof.
  assert (H : forallb (fun n => negb (py_in_str n reserved_ns)) (dict_values common_namespaces) = true)
    by (vm_compute; reflexivity).
  intros n Hn. rewrite forallb_forall in H. specialize (H n Hn). apply py_in_str_nIn.
  destruct (py_in_str n reserved_ns); [discriminate | reflexivity].
Qed.

Lemma opt_in_global_norm k : py_in_optstr k global_prefixes = false -> ~ In (norm_prefix k) global_prefixes.
Proof.
  destruct k as [p|]; cbn [py_in_optstr norm_prefix].
  - apply py_in_str_nIn.
  - intros _. cbn. intuition discriminate.
Qed.

(* ---- the loop over the caller's declarations -------------------------------------------------- *)
Lemma normalize_loop_spec decls : forall declared result declared' result',
  normalize_loop decls declared result = Ok (declared', result') ->
  (NoDup (dict_keys result) -> NoDup (dict_keys result'))
  /\ (NoDup (dict_values result) -> (forall n, In n (dict_values result) -> In n declared \/ In n reserved_ns) ->
      NoDup (dict_values result') /\ (forall n, In n (dict_values result') -> In n declared' \/ In n reserved_ns))
  /\ (forall p n, In (p, n) result' -> In (p, n) result \/ exists k, In (k, n) decls /\ p = norm_prefix k)
  /\ (forall p n, In (p, n) result -> (forall k n', In (k, n') decls -> norm_prefix k <> p) -> In (p, n) result')
  /\ (forall k n, In (k, n) decls -> ~ In (norm_prefix k) global_prefixes)
  /\ (forall n, In n declared' <-> In n declared \/ In n (map snd decls))
  /\ (NoDup (map norm_prefix (map fst decls)) -> forall k n, In (k, n) decls -> In (norm_prefix k, n) result').
Proof.
  induction decls as [|[k n] r IH]; cbn [normalize_loop]; intros declared result declared' result' H.
  - injection H as <- <-.
    split; [auto|]. split; [auto|]. split; [intros p n H; left; exact H|]. split; [auto|].
    split; [intros k n []|]. split; [|intros _ k n []].
    intros n. split; [intros H; left; exact H | intros [H|[]]; exact H].
  - destruct (validate_declaration k n declared) as [p'| | |] eqn:EV; try discriminate.
    apply validate_view in EV. destruct EV as [-> [EG [ER ED]]].
    specialize (IH _ _ _ _ H). destruct IH as [I1 [I2 [I3 [I4 [I5 [I6 I7]]]]]].
    split; [|split; [|split; [|split; [|split; [|split]]]]].
    + intros ND. apply I1. apply dict_set_NoDup_keys. exact ND.
    + intros ND Hv. apply I2.
      * apply dict_set_NoDup_values; [exact ND|]. intros Hin. destruct (Hv _ Hin); contradiction.
      * intros x Hx. apply dict_set_values_incl in Hx. destruct Hx as [->|Hx]; [left; left; reflexivity|].
        destruct (Hv _ Hx) as [H1|H1]; [left; right; exact H1 | right; exact H1].
    + intros p n0 Hin. destruct (I3 _ _ Hin) as [H1|[k' [H1 H2]]].
      * apply In_dict_set in H1. destruct H1 as [[-> ->]|H1]; [right; exists k; split; [left; reflexivity | reflexivity] | left; exact H1].
      * right. exists k'. split; [right; exact H1 | exact H2].
    + intros p n0 Hin Hk. apply I4.
      * apply dict_set_In_other; [|exact Hin]. intros ->. apply (Hk k n); [left; reflexivity | reflexivity].
      * intros k' n' Hin'. apply (Hk k' n'). right. exact Hin'.
    + intros k' n' [Hin|Hin]; [injection Hin as <- <-; apply opt_in_global_norm; exact EG | apply (I5 _ _ Hin)].
    + intros x. rewrite I6. cbn. intuition.
    + cbn [map]. intros ND k' n' [Hin|Hin].
      * injection Hin as <- <-. inversion ND as [|? ? Hn ND']; subst. apply I4; [apply dict_set_In_same|].
        intros k' n' Hin E. apply Hn. rewrite <- E. apply in_map. change k' with (fst (k', n')). apply in_map. exact Hin.
      * inversion ND as [|? ? Hn ND']; subst. apply I7; assumption.
Qed.

(* ---- the loop over COMMON_NAMESPACES ---------------------------------------------------------- *)
Lemma add_common_spec declared cs : forall result,
  let result' := fold_left (add_common declared) cs result in
  (NoDup (dict_keys result) -> NoDup (dict_keys result'))
  /\ (NoDup (dict_values result) -> NoDup (map snd cs) ->
      (forall c, In c cs -> In (snd c) (dict_values result) -> In (snd c) declared) -> NoDup (dict_values result'))
  /\ (forall p n, In (p, n) result' -> In (p, n) result \/ In (p, n) cs)
  /\ (forall p n, In (p, n) result -> In (p, n) result').
Proof.
  induction cs as [|[cp cn] r IH]; cbn [fold_left]; intros result.
  - repeat split; auto.
  - specialize (IH (add_common declared result (cp, cn))). cbn zeta in IH. destruct IH as [I1 [I2 [I3 I4]]].
    unfold add_common in *. cbn [fst snd] in *.
    destruct (py_in_str cn declared) eqn:ED.
    + split; [exact I1|]. split; [|split].
      * intros ND NDc Hc. inversion NDc; subst. apply I2; [exact ND | assumption |].
        intros c Hin. apply Hc. right. exact Hin.
      * intros p n Hin. destruct (I3 _ _ Hin); [left; assumption | right; right; assumption].
      * exact I4.
    + unfold dict_setdefault in *. destruct (dict_has cp result) eqn:EH.
      * split; [exact I1|]. split; [|split].
        -- intros ND NDc Hc. inversion NDc; subst. apply I2; [exact ND | assumption |].
           intros c Hin. apply Hc. right. exact Hin.
        -- intros p n Hin. destruct (I3 _ _ Hin); [left; assumption | right; right; assumption].
        -- exact I4.
      * apply py_in_str_nIn in ED. split; [|split; [|split]].
        -- intros ND. apply I1. apply dict_set_NoDup_keys. exact ND.
        -- intros ND NDc Hc. inversion NDc as [|? ? Hn NDc']; subst. apply I2; [| exact NDc' |].
           ++ apply dict_set_NoDup_values; [exact ND|]. intros Hin. apply ED. apply (Hc (cp, cn)); [left; reflexivity | exact Hin].
           ++ intros c Hin Hv. apply dict_set_values_incl in Hv. destruct Hv as [Hv|Hv].
              ** exfalso. apply Hn. rewrite <- Hv. apply in_map. exact Hin.
              ** apply Hc; [right; exact Hin | exact Hv].
        -- intros p n Hin. destruct (I3 _ _ Hin) as [H1|H1]; [|right; right; exact H1].
           apply In_dict_set in H1. destruct H1 as [[-> ->]|H1]; [right; left; reflexivity | left; exact H1].
        -- intros p n Hin. apply I4. apply dict_has_false in EH. apply dict_set_In_other; [|exact Hin].
           intros ->. apply EH. eapply In_keys. exact Hin.
Qed.

(* ---- what a successful normalisation gives ---------------------------------------------------- *)
Record normalized (caller : caller_map) (data : dict str) : Prop := {
  nz_keys : NoDup (dict_keys data);
  nz_values : NoDup (dict_values data);
  nz_origin : forall p n, In (p, n) data ->
      In (p, n) global_namespaces \/ (exists k, In (k, n) caller /\ p = norm_prefix k) \/ In (p, n) common_namespaces;
  nz_global : forall p n, In (p, n) global_namespaces -> In (p, n) data;
  nz_caller : caller_keys_distinct caller -> forall k n, In (k, n) caller -> In (norm_prefix k, n) data;
}.

Lemma has_key_In k c : has_key k c = true <-> In k (map fst c).
Proof.
  unfold has_key. rewrite existsb_exists. split.
  - intros [[k' n] [Hin E]]. cbn in E. assert (k' = k).
    { destruct k' as [a|], k as [b|]; cbn in E; try discriminate; [apply str_eqb_eq in E; subst|]; reflexivity. }
    subst. change k with (fst (k, n)). apply in_map. exact Hin.
  - rewrite in_map_iff. intros [[k' n] [E Hin]]. cbn in E. subst. exists (k, n). split; [exact Hin|].
    cbn. destruct k; cbn; [apply str_eqb_refl | reflexivity].
Qed.

Lemma norm_keys_distinct caller :
  (has_key None caller && has_key (Some []) caller)%bool = false ->
  NoDup (map fst caller) -> NoDup (map norm_prefix (map fst caller)).
Proof.
  intros HK ND. set (ks := map fst caller) in *.
  assert (HK' : ~ (In None ks /\ In (Some []) ks)).
  { intros [A B]. apply has_key_In in A. apply has_key_In in B. unfold ks in *. rewrite A, B in HK. discriminate. }
  clearbody ks. clear HK.
  induction ks as [|k r IH]; cbn; [constructor|].
  inversion ND as [|? ? Hn ND']; subst. constructor.
  - intros Hin. apply in_map_iff in Hin. destruct Hin as [k' [E Hin]].
    destruct k as [p|], k' as [p'|]; cbn in E; subst.
    + contradiction.
    + apply HK'. split; [right; exact Hin | left; reflexivity].
    + apply HK'. split; [left; reflexivity | right; exact Hin].
    + contradiction.
  - apply IH; [exact ND'|]. intros [A B]. apply HK'. split; right; assumption.
Qed.

Theorem normalize_ok caller data : normalize caller = Ok data -> normalized caller data.
Proof.
  unfold normalize. destruct (has_key None caller && has_key (Some []) caller)%bool eqn:HK; [discriminate|].
  destruct (normalize_loop caller [] global_namespaces) as [[declared result]| | |] eqn:EL; try discriminate.
  intros H. injection H as <-.
  apply normalize_loop_spec in EL. destruct EL as [L1 [L2 [L3 [L4 [L5 [L6 L7]]]]]].
  destruct (add_common_spec declared common_namespaces result) as [C1 [C2 [C3 C4]]].
  destruct L2 as [L2a L2b].
  { rewrite global_values. apply reserved_nodup. }
  { intros n Hn. right. rewrite global_values in Hn. exact Hn. }
  constructor.
  - apply C1. apply L1. apply global_keys_nodup.
  - apply C2; [exact L2a | apply common_values_nodup |].
    intros c Hin Hv. destruct (L2b _ Hv) as [H1|H1]; [exact H1|].
    exfalso. apply (common_not_reserved (snd c)); [apply in_map; exact Hin | exact H1].
  - intros p n Hin. destruct (C3 _ _ Hin) as [H1|H1]; [|right; right; exact H1].
    destruct (L3 _ _ H1) as [H2|H2]; [left; exact H2 | right; left; exact H2].
  - intros p n Hin. apply C4. apply L4; [exact Hin|].
    intros k n' Hin' E. apply (L5 _ _ Hin'). rewrite E. unfold global_prefixes. eapply In_keys. exact Hin.
  - intros KD k n Hin. apply C4. apply L7; [|exact Hin]. apply norm_keys_distinct; assumption.
Qed.

(* lookup_prefix answers exactly the entries of the normalised mapping *)
Lemma lookup_prefix_iff caller data n p : normalized caller data ->
  (lookup_prefix data n = Some p <-> In (p, n) data).
Proof.
  intros NZ. unfold lookup_prefix. split.
  - apply dict_inverse_get_inv.
  - apply dict_inverse_get. apply (nz_values _ _ NZ).
Qed.
Lemma lookup_prefix_inj caller data n n' p : normalized caller data ->
  lookup_prefix data n = Some p -> lookup_prefix data n' = Some p -> n = n'.
Proof.
  intros NZ H1 H2. apply (lookup_prefix_iff _ _ _ _ NZ) in H1. apply (lookup_prefix_iff _ _ _ _ NZ) in H2.
  pose proof (In_dict_get _ _ _ (nz_keys _ _ NZ) H1) as G1.
  pose proof (In_dict_get _ _ _ (nz_keys _ _ NZ) H2) as G2. congruence.
Qed.

(* the normalised mapping has at most two global, the caller's and the common entries *)
Lemma normalize_loop_length decls : forall declared (result : dict str) declared' result',
  normalize_loop decls declared result = Ok (declared', result') -> length result' <= length result + length decls.
Proof.
  induction decls as [|[k n] r IH]; cbn [normalize_loop]; intros declared result declared' result' H.
  - injection H as <- <-. cbn. lia.
  - destruct (validate_declaration k n declared) as [p'| | |]; try discriminate.
    apply IH in H. pose proof (length_dict_set p' n result). cbn [length]. lia.
Qed.
Lemma add_common_length declared cs : forall result : dict str,
  length (fold_left (add_common declared) cs result) <= length result + length cs.
Proof.
  induction cs as [|c r IH]; cbn [fold_left]; intros result; [cbn; lia|].
  specialize (IH (add_common declared result c)).
  assert (length (add_common declared result c) <= S (length result)).
  { unfold add_common, dict_setdefault. destruct (py_in_str (snd c) declared); [apply Nat.le_succ_diag_r|].
    destruct (dict_has (fst c) result); [apply Nat.le_succ_diag_r|]. apply length_dict_set. }
  cbn [length]. lia.
Qed.
Lemma normalize_length caller data : normalize caller = Ok data -> length data <= length caller + 17.
Proof.
  unfold normalize. destruct (has_key None caller && has_key (Some []) caller)%bool; [discriminate|].
  destruct (normalize_loop caller [] global_namespaces) as [[declared result]| | |] eqn:EL; try discriminate.
  intros H. injection H as <-. apply normalize_loop_length in EL.
  pose proof (add_common_length declared common_namespaces result) as HC.
  eapply Nat.le_trans; [exact HC|]. eapply Nat.le_trans; [apply Nat.add_le_mono_r; exact EL|].
  change (length global_namespaces) with 2. change (length common_namespaces) with 15. lia.
Qed.
