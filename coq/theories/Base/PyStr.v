(* Python string primitives as the models use them.  Definitions only; facts are in PyStrFacts.v.
   A character is a Unicode code point (N), a string a list of them.  Whitespace is what
   CPython's str.isspace / regex \s / str.strip() mean: the table is generated from the running
   interpreter into Gen/GenWs.v on every run. *)
From Coq Require Export List NArith ZArith Bool.
From Delb.Gen Require Export GenWs.
Export ListNotations.

Definition char := N.
Definition str := list char.
Definition SP : char := 32%N.
Definition LF : char := 10%N.

Definition is_ws (c : char) : bool := existsb (N.eqb c) ws_table.

Definition null {A} (l : list A) : bool := match l with [] => true | _ => false end.

Fixpoint str_eqb (a b : str) : bool :=
  match a, b with
  | [], [] => true
  | x :: a', y :: b' => (N.eqb x y && str_eqb a' b')%bool
  | _, _ => false
  end.

(* re.sub(r"\s+", " ", s) *)
Fixpoint collapse_aux (inws : bool) (s : str) : str :=
  match s with
  | [] => []
  | c :: r => if is_ws c then (if inws then collapse_aux true r else SP :: collapse_aux true r)
              else c :: collapse_aux false r
  end.
Definition collapse := collapse_aux false.

Fixpoint lstrip (s : str) : str :=
  match s with [] => [] | c :: r => if is_ws c then lstrip r else s end.
Definition rstrip (s : str) : str := rev (lstrip (rev s)).
Definition strip (s : str) : str := rstrip (lstrip s).

Fixpoint py_prefix (p s : str) : bool :=
  match p, s with
  | [], _ => true
  | a :: p', b :: s' => (N.eqb a b && py_prefix p' s')%bool
  | _ :: _, [] => false
  end.
Definition py_startswith (s p : str) : bool := py_prefix p s.
Definition py_endswith (s p : str) : bool := py_prefix (rev p) (rev s).
Definition py_crunch_whitespace : str -> str := collapse.
Definition py_strip : str -> str := strip.
Definition py_lstrip : str -> str := lstrip.
Definition py_rstrip : str -> str := rstrip.
Definition py_bool_str (s : str) : bool := negb (null s).
Definition py_isspace (s : str) : bool := (negb (null s) && forallb is_ws s)%bool.

Definition startswith_sp (s : str) : bool := match s with c :: _ => N.eqb c SP | [] => false end.
Definition endswith_sp (s : str) : bool := startswith_sp (rev s).

(* substring containment: `p in s` *)
Fixpoint py_contains (s p : str) : bool :=
  (py_prefix p s || match s with [] => false | _ :: r => py_contains r p end)%bool.

(* " ".join / sep.join *)
Fixpoint py_join (sep : str) (ls : list str) : str :=
  match ls with [] => [] | [l] => l | l :: r => l ++ sep ++ py_join sep r end.

Fixpoint repeat_str (s : str) (n : nat) : str :=
  match n with O => [] | S k => s ++ repeat_str s k end.

(* ---- index arithmetic on Python ints (Z); only the forms the translated code uses ---- *)
Open Scope Z_scope.
Definition py_len (s : str) : Z := Z.of_nat (length s).
Definition py_slice_to (s : str) (i : Z) : str := firstn (Z.to_nat i) s.        (* s[:i], 0 <= i *)
Definition py_slice_from (s : str) (i : Z) : str := skipn (Z.to_nat i) s.       (* s[i:], 0 <= i *)
Fixpoint find_nat (c : char) (s : str) : option nat :=
  match s with [] => None | x :: r => if N.eqb x c then Some 0%nat else option_map S (find_nat c r) end.
(* s.find(c, start) for a one-character needle *)
Definition py_find1 (s : str) (c : char) (start : Z) : Z :=
  match find_nat c (skipn (Z.to_nat start) s) with
  | Some i => Z.max 0 start + Z.of_nat i
  | None => -1
  end.
Fixpoint rfind_nat (c : char) (s : str) : option nat :=
  match s with
  | [] => None
  | x :: r => match rfind_nat c r with
              | Some i => Some (S i)
              | None => if N.eqb x c then Some 0%nat else None
              end
  end.
(* s.rfind(c, 0, stop) for a one-character needle *)
Definition py_rfind1 (s : str) (c : char) (stop : Z) : Z :=
  match rfind_nat c (firstn (Z.to_nat stop) s) with Some i => Z.of_nat i | None => -1 end.
Close Scope Z_scope.

(* results of model functions that mirror code with partial operations *)
Inductive exn := InvalidOperation | ValueError | TypeError | IndexError | KeyError | AssertionError
               | AttributeError | XPathParsingError | XPathUnsupported | AmbiguousTreeError
               | InvalidCodePath | OtherError.
Inductive res (A : Type) := Ok (a : A) | Rejected (e : exn) | Crash (e : exn) | OutOfFuel.
Arguments Ok {A} a. Arguments Rejected {A} e. Arguments Crash {A} e. Arguments OutOfFuel {A}.

(* s.lower() == lit for a lower-case ASCII literal: `tbl` lists every (c, l) with chr(c).lower() == chr(l) and c <> l for
   the characters l of the literal (generated from the running interpreter, which also checks that no multi-character
   lowering contains a character of the literal) *)
Definition lower_matches (tbl : list (N * N)) (c l : char) : bool :=
  (N.eqb c l || existsb (fun p => N.eqb (fst p) c && N.eqb (snd p) l) tbl)%bool.
Fixpoint py_lower_eq (tbl : list (N * N)) (s lit : str) : bool :=
  match s, lit with
  | [], [] => true
  | c :: s', l :: lit' => (lower_matches tbl c l && py_lower_eq tbl s' lit')%bool
  | _, _ => false
  end.
