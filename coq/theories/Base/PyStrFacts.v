(* Facts about the string primitives.  The whitespace table is used only through is_ws SP = true,
   so these proofs survive a regeneration of the table. *)
From Coq Require Import List NArith Bool Lia.
From Delb.Base Require Import PyStr.
Import ListNotations.

Arguments is_ws : simpl never.
Lemma is_ws_SP : is_ws SP = true. Proof. vm_compute. reflexivity. Qed.

Lemma str_eqb_eq a b : str_eqb a b = true <-> a = b.
Proof.
  revert b. induction a as [|x a IH]; intros [|y b]; cbn.
  - split; reflexivity.
  - split; discriminate.
  - split; discriminate.
  - rewrite andb_true_iff, N.eqb_eq, IH. split; [intros [-> ->]; reflexivity|intros [= -> ->]; auto].
Qed.
Lemma str_eqb_refl a : str_eqb a a = true. Proof. apply str_eqb_eq. reflexivity. Qed.

Definition optsp (b : bool) : str := if b then [SP] else [].
Definition head_nows (k : str) : Prop := match k with c :: _ => is_ws c = false | [] => False end.
Definition last_nows (k : str) : Prop := head_nows (rev k).
Definition all_ws (s : str) : Prop := Forall (fun c => is_ws c = true) s.

Lemma lstrip_head_nows k x : head_nows k -> lstrip (k ++ x) = k ++ x.
Proof. destruct k as [|c k]; cbn; [tauto|]. intros ->. reflexivity. Qed.
Lemma lstrip_optsp a k x : head_nows k -> lstrip (optsp a ++ k ++ x) = k ++ x.
Proof. intros H. destruct a; cbn [optsp app lstrip]; rewrite ?is_ws_SP; apply lstrip_head_nows; exact H. Qed.
Lemma rstrip_optsp x k b : last_nows k -> rstrip (x ++ k ++ optsp b) = x ++ k.
Proof.
  intros H. unfold rstrip. rewrite !rev_app_distr, <- app_assoc.
  replace (rev (optsp b)) with (optsp b) by (destruct b; reflexivity).
  rewrite lstrip_optsp by exact H. rewrite <- rev_app_distr, rev_involutive. reflexivity.
Qed.
Lemma rstrip_optsp0 k b : last_nows k -> rstrip (k ++ optsp b) = k.
Proof. intros H. apply (rstrip_optsp [] k b H). Qed.

(* a "core": non-empty, collapsed, no whitespace at either end *)
Definition core (k : str) : Prop := head_nows k /\ last_nows k /\ collapse k = k.

Lemma collapse_true_core k : head_nows k -> collapse_aux true k = collapse_aux false k.
Proof. destruct k as [|c k]; cbn; [tauto|]. intros ->. reflexivity. Qed.

Lemma collapse_false_true s :
  collapse_aux false s = (match s with c :: _ => if is_ws c then [SP] else [] | [] => [] end) ++ collapse_aux true s.
Proof. destruct s as [|c r]; cbn; [reflexivity|]. destruct (is_ws c); reflexivity. Qed.

Lemma last_nows_cons c k : k <> [] -> last_nows k -> last_nows (c :: k).
Proof.
  unfold last_nows. cbn [rev]. intros Hne H. destruct (rev k) as [|d q] eqn:E.
  - apply (f_equal (@rev _)) in E. rewrite rev_involutive in E. cbn in E. congruence.
  - cbn. exact H.
Qed.
Lemma head_nows_ne k : head_nows k -> k <> [].
Proof. destruct k; cbn; [tauto|congruence]. Qed.

Lemma core_one c : is_ws c = false -> core [c].
Proof. intros H. repeat split; cbn; try exact H. unfold collapse. cbn. rewrite H. reflexivity. Qed.
Lemma core_cons c k : is_ws c = false -> core k -> core (c :: k).
Proof.
  intros H (Hh & Hl & Hc). repeat split; [exact H| apply last_nows_cons; [apply head_nows_ne; exact Hh|exact Hl] |].
  unfold collapse in *. cbn [collapse_aux]. rewrite H. rewrite Hc. reflexivity.
Qed.
Lemma core_cons_sp c k : is_ws c = false -> core k -> core (c :: SP :: k).
Proof.
  intros H (Hh & Hl & Hc). repeat split; [exact H| |].
  - apply last_nows_cons; [discriminate|]. apply last_nows_cons; [apply head_nows_ne; exact Hh|exact Hl].
  - unfold collapse in *. cbn [collapse_aux]. rewrite H, is_ws_SP. rewrite collapse_true_core by exact Hh.
    rewrite Hc. reflexivity.
Qed.

(* the shape of a collapsed string after its optional leading space *)
Inductive view : str -> Prop :=
| V_nil : view []
| V_core b k : core k -> view (k ++ optsp b).

Lemma view_collapse_true s : view (collapse_aux true s).
Proof.
  induction s as [|c r IH]; cbn [collapse_aux]; [constructor|].
  destruct (is_ws c) eqn:Ec; [exact IH|].
  rewrite collapse_false_true.
  destruct r as [|d r']; [cbn; apply (V_core false [c]); apply core_one; exact Ec|].
  remember (collapse_aux true (d :: r')) as X. clear HeqX.
  destruct (is_ws d).
  - inversion IH as [E | b k Hk E]; subst.
    + apply (V_core true [c]). apply core_one; exact Ec.
    + change (c :: [SP] ++ k ++ optsp b) with ((c :: SP :: k) ++ optsp b).
      apply V_core. apply core_cons_sp; assumption.
  - cbn [app]. inversion IH as [E | b k Hk E]; subst.
    + apply (V_core false [c]). apply core_one; exact Ec.
    + change (c :: k ++ optsp b) with ((c :: k) ++ optsp b).
      apply V_core. apply core_cons; assumption.
Qed.

Lemma startswith_core k x : head_nows k -> startswith_sp (k ++ x) = false.
Proof.
  destruct k as [|c k]; cbn; [tauto|]. intros H.
  destruct (N.eqb_spec c SP); [subst; rewrite is_ws_SP in H; discriminate|reflexivity].
Qed.
Lemma endswith_core x k b : last_nows k -> endswith_sp (x ++ k ++ optsp b) = b.
Proof.
  intros H. unfold endswith_sp. rewrite !rev_app_distr.
  destruct b; cbn [optsp rev app]; [reflexivity|]. rewrite <- ?app_assoc. apply startswith_core. exact H.
Qed.
Lemma null_app_core k x : head_nows k -> null (k ++ x) = false.
Proof. destruct k; cbn; [tauto|reflexivity]. Qed.

Lemma py_startswith_sp s : py_startswith s [32%N] = startswith_sp s.
Proof.
  destruct s as [|c r]; [reflexivity|]. unfold py_startswith. cbn [py_prefix startswith_sp]. unfold SP.
  rewrite N.eqb_sym, andb_true_r. reflexivity.
Qed.
Lemma py_endswith_sp s : py_endswith s [32%N] = endswith_sp s.
Proof. unfold py_endswith, endswith_sp. cbn [rev app]. apply py_startswith_sp. Qed.

(* ---- collapse on padded strings ---- *)
Lemma collapse_aux_ws_prefix w s b : all_ws w ->
  collapse_aux b (w ++ s) = (if b then [] else if null w then [] else [SP]) ++ collapse_aux (b || negb (null w)) s.
Proof.
  intros Hw. revert b. induction Hw as [|c w Hc Hw IH]; intros b; cbn [app null].
  - destruct b; cbn; rewrite ?orb_false_r; reflexivity.
  - cbn [collapse_aux]. rewrite Hc. destruct b.
    + rewrite IH. cbn. reflexivity.
    + rewrite IH. cbn. reflexivity.
Qed.

Lemma collapse_aux_app_nows_last k rest b :
  last_nows k -> collapse_aux b (k ++ rest) = collapse_aux b k ++ collapse_aux false rest.
Proof.
  revert b. induction k as [|c k IH]; intros b Hl.
  - unfold last_nows in Hl. cbn in Hl. tauto.
  - destruct k as [|d k'].
    + unfold last_nows in Hl. cbn in Hl. cbn [app collapse_aux]. rewrite Hl. reflexivity.
    + assert (Hl' : last_nows (d :: k')).
      { unfold last_nows in *. cbn [rev] in *.
        destruct (rev k' ++ [d]) eqn:E; [destruct (rev k'); discriminate|]. cbn in *. exact Hl. }
      change ((c :: d :: k') ++ rest) with (c :: (d :: k') ++ rest). cbn [collapse_aux].
      destruct (is_ws c); destruct b; rewrite IH by exact Hl'; reflexivity.
Qed.

Lemma collapse_pad w1 k w2 : all_ws w1 -> all_ws w2 -> core k ->
  collapse (w1 ++ k ++ w2) = optsp (negb (null w1)) ++ k ++ optsp (negb (null w2)).
Proof.
  intros H1 H2 (Hh & Hl & Hc). unfold collapse. rewrite collapse_aux_ws_prefix by exact H1. cbn [orb].
  assert (E : collapse_aux (negb (null w1)) (k ++ w2) = k ++ optsp (negb (null w2))).
  { rewrite collapse_aux_app_nows_last by exact Hl.
    replace (collapse_aux (negb (null w1)) k) with k.
    2:{ destruct (negb (null w1)); [rewrite collapse_true_core by exact Hh|]; symmetry; exact Hc. }
    f_equal. rewrite <- (app_nil_r w2) at 1. rewrite collapse_aux_ws_prefix by exact H2. cbn. rewrite app_nil_r.
    destruct (null w2); reflexivity. }
  rewrite E. destruct (null w1); reflexivity.
Qed.

Lemma collapse_all_ws w : all_ws w -> collapse w = optsp (negb (null w)).
Proof.
  intros H. unfold collapse. rewrite <- (app_nil_r w) at 1. rewrite collapse_aux_ws_prefix by exact H.
  cbn. rewrite app_nil_r. destruct (null w); reflexivity.
Qed.

