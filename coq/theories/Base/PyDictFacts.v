(* Facts about the dict / membership primitives of PyDict.v. *)
From Coq Require Import Lia.
From Delb.Base Require Import PyStr PyStrFacts PyDict.

Lemma str_eqb_false a b : str_eqb a b = false <-> a <> b.
Proof.
  split.
  - intros H E. apply str_eqb_eq in E. congruence.
  - intros H. destruct (str_eqb a b) eqn:E; [apply str_eqb_eq in E; contradiction | reflexivity].
Qed.
Lemma str_eqb_sym a b : str_eqb a b = str_eqb b a.
Proof.
  destruct (str_eqb a b) eqn:E.
  - apply str_eqb_eq in E. subst. symmetry. apply str_eqb_refl.
  - symmetry. apply str_eqb_false. apply str_eqb_false in E. congruence.
Qed.
Lemma str_eq_dec (a b : str) : {a = b} + {a <> b}.
Proof. destruct (str_eqb a b) eqn:E; [left; apply str_eqb_eq; exact E | right; apply str_eqb_false; exact E]. Qed.

Lemma py_in_str_In x l : py_in_str x l = true <-> In x l.
Proof.
  unfold py_in_str. rewrite existsb_exists. split.
  - intros [y [Hy E]]. apply str_eqb_eq in E. subst. exact Hy.
  - intros H. exists x. split; [exact H | apply str_eqb_refl].
Qed.
Lemma py_in_str_nIn x l : py_in_str x l = false <-> ~ In x l.
Proof.
  split.
  - intros H HI. apply py_in_str_In in HI. congruence.
  - intros H. destruct (py_in_str x l) eqn:E; [apply py_in_str_In in E; contradiction | reflexivity].
Qed.

Lemma NoDup_snoc {A} (l : list A) x : NoDup l -> ~ In x l -> NoDup (l ++ [x]).
Proof.
  induction l as [|y r IH]; cbn; intros ND Hn.
  - constructor; [intros [] | constructor].
  - inversion ND as [|? ? Hy ND']; subst. constructor.
    + intros H. apply in_app_or in H. destruct H as [H|[H|[]]]; [contradiction | subst; apply Hn; left; reflexivity].
    + apply IH; [exact ND' | intros H; apply Hn; right; exact H].
Qed.

Section DictFacts.
  Context {V : Type}.
  Implicit Types (d : dict V) (k : str) (v : V).

  Lemma dict_get_In k v d : dict_get k d = Some v -> In (k, v) d.
  Proof.
    induction d as [|[k' v'] r IH]; cbn; [discriminate|].
    destruct (str_eqb k' k) eqn:E.
    - intros H. injection H as <-. apply str_eqb_eq in E. subst. left. reflexivity.
    - intros H. right. apply IH. exact H.
  Qed.
  Lemma dict_get_None k d : dict_get k d = None <-> ~ In k (dict_keys d).
  Proof.
    induction d as [|[k' v'] r IH]; cbn.
    - split; [intros _ [] | reflexivity].
    - destruct (str_eqb k' k) eqn:E.
      + apply str_eqb_eq in E. subst. split; [discriminate | intros H; exfalso; apply H; left; reflexivity].
      + apply str_eqb_false in E. rewrite IH. split.
        * intros H [H1|H1]; [contradiction | contradiction].
        * intros H H1. apply H. right. exact H1.
  Qed.
  Lemma dict_has_In k d : dict_has k d = true <-> In k (dict_keys d).
  Proof.
    unfold dict_has. destruct (dict_get k d) eqn:E.
    - split; [intros _ | reflexivity]. apply dict_get_In in E. unfold dict_keys.
      change k with (fst (k, v)). apply in_map. exact E.
    - apply dict_get_None in E. split; [discriminate | contradiction].
  Qed.
  Lemma dict_has_false k d : dict_has k d = false <-> ~ In k (dict_keys d).
  Proof.
    split.
    - intros H HI. apply dict_has_In in HI. congruence.
    - intros H. destruct (dict_has k d) eqn:E; [apply dict_has_In in E; contradiction | reflexivity].
  Qed.
  Lemma In_keys k v d : In (k, v) d -> In k (dict_keys d).
  Proof. intros H. unfold dict_keys. change k with (fst (k, v)). apply in_map. exact H. Qed.
  Lemma In_values k v d : In (k, v) d -> In v (dict_values d).
  Proof. intros H. unfold dict_values. change v with (snd (k, v)). apply in_map. exact H. Qed.
  Lemma In_values_ex v d : In v (dict_values d) -> exists k, In (k, v) d.
  Proof. unfold dict_values. rewrite in_map_iff. intros [[k v'] [E H]]. cbn in E. subst. exists k. exact H. Qed.
  Lemma In_keys_ex k d : In k (dict_keys d) -> exists v, In (k, v) d.
  Proof. unfold dict_keys. rewrite in_map_iff. intros [[k' v] [E H]]. cbn in E. subst. exists v. exact H. Qed.

  Lemma In_dict_get k v d : NoDup (dict_keys d) -> In (k, v) d -> dict_get k d = Some v.
  Proof.
    induction d as [|[k' v'] r IH]; cbn; [intros _ []|].
    intros ND [H|H].
    - injection H as -> ->. rewrite str_eqb_refl. reflexivity.
    - inversion ND as [|? ? Hn ND']; subst. destruct (str_eqb k' k) eqn:E.
      + apply str_eqb_eq in E. subst. exfalso. apply Hn. eapply In_keys. exact H.
      + apply IH; assumption.
  Qed.

  (* entries of the result: the new one, or old ones (an old entry under the same key, if the dict had the
     key several times, may remain: we do not need to exclude it) *)
  Lemma In_dict_set k v d k' v' :
    In (k', v') (dict_set k v d) -> (k' = k /\ v' = v) \/ In (k', v') d.
  Proof.
    induction d as [|[k0 v0] r IH]; cbn.
    - intros [H|[]]. injection H as <- <-. left. split; reflexivity.
    - destruct (str_eqb k0 k) eqn:E.
      + apply str_eqb_eq in E. subst. intros [H|H].
        * injection H as <- <-. left. split; reflexivity.
        * right. right. exact H.
      + intros [H|H].
        * right. left. exact H.
        * destruct (IH H) as [H1|H1]; [left; exact H1 | right; right; exact H1].
  Qed.
  Lemma dict_set_In_same k v d : In (k, v) (dict_set k v d).
  Proof.
    induction d as [|[k0 v0] r IH]; cbn; [left; reflexivity|].
    destruct (str_eqb k0 k) eqn:E.
    - apply str_eqb_eq in E. subst. left. reflexivity.
    - right. exact IH.
  Qed.
  Lemma dict_set_In_other k v d k' v' : k' <> k -> In (k', v') d -> In (k', v') (dict_set k v d).
  Proof.
    intros N. induction d as [|[k0 v0] r IH]; cbn; [intros []|].
    destruct (str_eqb k0 k) eqn:E.
    - apply str_eqb_eq in E. subst. intros [H|H]; [injection H as -> ->; contradiction | right; exact H].
    - intros [H|H]; [left; exact H | right; apply IH; exact H].
  Qed.
  Lemma dict_set_new k v d : ~ In k (dict_keys d) -> dict_set k v d = d ++ [(k, v)].
  Proof.
    induction d as [|[k0 v0] r IH]; cbn; [reflexivity|].
    intros H. destruct (str_eqb k0 k) eqn:E.
    - apply str_eqb_eq in E. subst. exfalso. apply H. left. reflexivity.
    - f_equal. apply IH. intros H1. apply H. right. exact H1.
  Qed.
  Lemma dict_set_keys_old k v d : In k (dict_keys d) -> dict_keys (dict_set k v d) = dict_keys d.
  Proof.
    induction d as [|[k0 v0] r IH]; cbn; [intros []|].
    destruct (str_eqb k0 k) eqn:E; cbn; [reflexivity|].
    intros [H|H]; [apply str_eqb_false in E; contradiction|]. f_equal. apply IH. exact H.
  Qed.
  Lemma dict_set_keys k v d :
    dict_keys (dict_set k v d) = if dict_has k d then dict_keys d else dict_keys d ++ [k].
  Proof.
    destruct (dict_has k d) eqn:E.
    - apply dict_set_keys_old. apply dict_has_In. exact E.
    - apply dict_has_false in E. rewrite (dict_set_new _ _ _ E). unfold dict_keys. rewrite map_app. reflexivity.
  Qed.
  Lemma dict_set_keys_incl k v d x : In x (dict_keys d) -> In x (dict_keys (dict_set k v d)).
  Proof. rewrite dict_set_keys. destruct (dict_has k d); [auto | intros H; apply in_or_app; left; exact H]. Qed.
  Lemma dict_set_keys_In k v d : In k (dict_keys (dict_set k v d)).
  Proof. eapply In_keys. apply dict_set_In_same. Qed.
  Lemma dict_set_keys_inv k v d x : In x (dict_keys (dict_set k v d)) -> x = k \/ In x (dict_keys d).
  Proof.
    rewrite dict_set_keys. destruct (dict_has k d); [auto|]. intros H. apply in_app_or in H.
    destruct H as [H|[H|[]]]; [right; exact H | left; symmetry; exact H].
  Qed.
  Lemma dict_set_NoDup_keys k v d : NoDup (dict_keys d) -> NoDup (dict_keys (dict_set k v d)).
  Proof.
    intros ND. rewrite dict_set_keys. destruct (dict_has k d) eqn:E; [exact ND|].
    apply dict_has_false in E. apply NoDup_snoc; assumption.
  Qed.
  Lemma dict_get_set_same k v d : dict_get k (dict_set k v d) = Some v.
  Proof.
    induction d as [|[k0 v0] r IH]; cbn; [rewrite str_eqb_refl; reflexivity|].
    destruct (str_eqb k0 k) eqn:E; cbn; rewrite E; [reflexivity | exact IH].
  Qed.
  Lemma dict_get_set_other k v d k' : k' <> k -> dict_get k' (dict_set k v d) = dict_get k' d.
  Proof.
    intros N. induction d as [|[k0 v0] r IH]; cbn.
    - destruct (str_eqb k k') eqn:E; [apply str_eqb_eq in E; congruence | reflexivity].
    - destruct (str_eqb k0 k) eqn:E; cbn.
      + apply str_eqb_eq in E. subst. destruct (str_eqb k k') eqn:E1; [apply str_eqb_eq in E1; congruence | reflexivity].
      + destruct (str_eqb k0 k'); [reflexivity | exact IH].
  Qed.
  Lemma length_dict_set k v d : length (dict_set k v d) <= S (length d).
  Proof.
    induction d as [|[k0 v0] r IH]; cbn; [lia|]. destruct (str_eqb k0 k); cbn; lia.
  Qed.
End DictFacts.


Lemma values_inj (d : dict str) a b v : NoDup (dict_values d) -> In (a, v) d -> In (b, v) d -> a = b.
Proof.
  induction d as [|[k0 v0] r IH]; cbn; [intros _ []|].
  intros ND H1 H2. inversion ND as [|? ? Hn ND']; subst.
  destruct H1 as [H1|H1]; destruct H2 as [H2|H2].
  - congruence.
  - injection H1 as -> ->. exfalso. apply Hn. eapply In_values. exact H2.
  - injection H2 as -> ->. exfalso. apply Hn. eapply In_values. exact H1.
  - apply IH; assumption.
Qed.

Lemma dict_set_values_incl (d : dict str) k v x :
  In x (dict_values (dict_set k v d)) -> x = v \/ In x (dict_values d).
Proof.
  intros H. apply In_values_ex in H. destruct H as [k' H]. apply In_dict_set in H.
  destruct H as [[_ ->]|H]; [left; reflexivity | right; eapply In_values; exact H].
Qed.
Lemma dict_set_NoDup_values (d : dict str) k v :
  NoDup (dict_values d) -> ~ In v (dict_values d) -> NoDup (dict_values (dict_set k v d)).
Proof.
  induction d as [|[k0 v0] r IH]; cbn.
  - intros _ _. constructor; [intros [] | constructor].
  - intros ND Hn. inversion ND as [|? ? Hn0 ND']; subst.
    destruct (str_eqb k0 k) eqn:E; cbn.
    + constructor; [intros H; apply Hn; right; exact H | exact ND'].
    + constructor.
      * intros H. apply dict_set_values_incl in H. destruct H as [->|H]; [apply Hn; left; reflexivity | contradiction].
      * apply IH; [exact ND' | intros H; apply Hn; right; exact H].
Qed.

(* the inverse dict {v: k for k, v in d.items()} *)
Lemma dict_inverse_fold_In (d : dict str) : forall acc n p,
  In (n, p) (fold_left (fun acc kv => dict_set (snd kv) (fst kv) acc) d acc) -> In (n, p) acc \/ In (p, n) d.
Proof.
  induction d as [|[p0 n0] r IH]; cbn; intros acc n p H; [left; exact H|].
  apply IH in H. destruct H as [H|H]; [|right; right; exact H].
  apply In_dict_set in H. destruct H as [[-> ->]|H]; [right; left; reflexivity | left; exact H].
Qed.
Lemma dict_inverse_In d n p : In (n, p) (dict_inverse d) -> In (p, n) d.
Proof. intros H. apply dict_inverse_fold_In in H. destruct H as [[]|H]. exact H. Qed.
Lemma dict_inverse_fold_get (d : dict str) : forall acc n,
  ~ In n (dict_values d) ->
  dict_get n (fold_left (fun acc kv => dict_set (snd kv) (fst kv) acc) d acc) = dict_get n acc.
Proof.
  induction d as [|[p0 n0] r IH]; cbn; intros acc n Hn; [reflexivity|].
  rewrite IH; [|intros H; apply Hn; right; exact H].
  apply dict_get_set_other. intros ->. apply Hn. left. reflexivity.
Qed.
Lemma dict_inverse_fold_get_In (d : dict str) : forall acc n p,
  NoDup (dict_values d) -> In (p, n) d ->
  dict_get n (fold_left (fun acc kv => dict_set (snd kv) (fst kv) acc) d acc) = Some p.
Proof.
  induction d as [|[p0 n0] r IH]; cbn; intros acc n p ND H; [destruct H|].
  inversion ND as [|? ? Hn ND']; subst. destruct H as [H|H].
  - injection H as -> ->. rewrite dict_inverse_fold_get; [apply dict_get_set_same | exact Hn].
  - apply IH; assumption.
Qed.
Lemma dict_inverse_get d n p : NoDup (dict_values d) -> In (p, n) d -> dict_get n (dict_inverse d) = Some p.
Proof. apply dict_inverse_fold_get_In. Qed.
Lemma dict_inverse_get_inv d n p : dict_get n (dict_inverse d) = Some p -> In (p, n) d.
Proof. intros H. apply dict_inverse_In. apply dict_get_In. exact H. Qed.
