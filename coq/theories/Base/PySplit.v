(* `a, b = s.split(c, maxsplit=1)` for a one-character separator, as the generated
   Gen/GenAttr.v uses it.  Definitions only; facts are in Attr/AttrFacts.v.
   s.split(c, maxsplit=1) is [before, after] of the first occurrence of c, or [s] when c does
   not occur; unpacking the latter into two names raises ValueError: that is the `None` here. *)
From Delb.Base Require Import PyStr.

Fixpoint py_split1 (s : str) (c : char) : option (str * str) :=
  match s with
  | [] => None
  | x :: r => if N.eqb x c then Some ([], r)
              else match py_split1 r c with
                   | Some (a, b) => Some (x :: a, b)
                   | None => None
                   end
  end.

(* helpers of the generated Gen/GenAttrKey.v (TagAttributes._etree_key) *)
Definition py_in_keys {V} (k : str) (d : list (str * V)) : bool := existsb (fun e => str_eqb (fst e) k) d.
Definition optstr_eqb (a b : option str) : bool :=
  match a, b with Some x, Some y => str_eqb x y | None, None => true | _, _ => false end.
Definition py_bool_optstr (a : option str) : bool := match a with Some s => py_bool_str s | None => false end.
(* str(x) inside an f-string *)
Definition py_str_optstr (a : option str) : str := match a with Some s => s | None => [78; 111; 110; 101]%N end.
