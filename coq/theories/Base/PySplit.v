(* `a, b = s.split(c, maxsplit=1)` for a one-character separator, as the generated
   Gen/GenAttr.v uses it.  Definitions only; facts are in Attr/AttrFacts.v.
   s.split(c, maxsplit=1) is [before, after] of the first occurrence of c, or [s] when c does
   not occur; unpacking the latter into two names raises ValueError: that is the `None` here. *)
From Delb.Base Require Import PyStr.

Fixpoint py_split1 (s : str) (c : char) : option (str * str) :=
  match s with
  | [] => None
  | x :: r => if N.eqb x c then Some ([], r)
              else match py_split1 r c with
                   | Some (a, b) => Some (x :: a, b)
                   | None => None
                   end
  end.
