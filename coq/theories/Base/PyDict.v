(* Python dict / membership / formatting primitives used by the namespace and serializer models
   (and by the generated Gen/GenNs.v).  Definitions only; facts are in PyDictFacts.v.
   A dict with string keys is an association list in insertion order: `d[k] = v` replaces the value
   of an existing key in place and appends a new key at the end, as CPython's dict does. *)
From Delb.Base Require Import PyStr.
From Coq Require Import Decimal.

(* `x in collection` for strings, and for an optional string (None is never a member of a
   collection of strings) *)
Definition py_in_str (x : str) (l : list str) : bool := existsb (str_eqb x) l.
Definition py_in_optstr (x : option str) (l : list str) : bool :=
  match x with None => false | Some s => py_in_str s l end.

Definition dict (V : Type) := list (str * V).
Fixpoint dict_get {V} (k : str) (d : dict V) : option V :=
  match d with
  | [] => None
  | (k', v) :: r => if str_eqb k' k then Some v else dict_get k r
  end.
Definition dict_has {V} (k : str) (d : dict V) : bool :=
  match dict_get k d with Some _ => true | None => false end.
Fixpoint dict_set {V} (k : str) (v : V) (d : dict V) : dict V :=
  match d with
  | [] => [(k, v)]
  | (k', v') :: r => if str_eqb k' k then (k', v) :: r else (k', v') :: dict_set k v r
  end.
Definition dict_keys {V} (d : dict V) : list str := map fst d.
Definition dict_values {V} (d : dict V) : list V := map snd d.
(* d.setdefault(k, v) *)
Definition dict_setdefault {V} (k : str) (v : V) (d : dict V) : dict V :=
  if dict_has k d then d else dict_set k v d.
(* {v: k for k, v in d.items()} *)
Definition dict_inverse (d : dict str) : dict str :=
  fold_left (fun acc kv => dict_set (snd kv) (fst kv) acc) d [].
Fixpoint dict_pop {V} (k : str) (d : dict V) : dict V :=
  match d with
  | [] => []
  | (k', v) :: r => if str_eqb k' k then r else (k', v) :: dict_pop k r
  end.

(* str(i) / f"{i}" for a non-negative int *)
Fixpoint uint_chars (u : Decimal.uint) : str :=
  match u with
  | Nil => []
  | D0 u => 48%N :: uint_chars u | D1 u => 49%N :: uint_chars u | D2 u => 50%N :: uint_chars u
  | D3 u => 51%N :: uint_chars u | D4 u => 52%N :: uint_chars u | D5 u => 53%N :: uint_chars u
  | D6 u => 54%N :: uint_chars u | D7 u => 55%N :: uint_chars u | D8 u => 56%N :: uint_chars u
  | D9 u => 57%N :: uint_chars u
  end.
Definition py_str_of_N (n : N) : str := uint_chars (N.to_uint n).

(* s.translate(table) for a table {code point: replacement string} *)
Fixpoint table_get (c : char) (t : list (char * str)) : option str :=
  match t with
  | [] => None
  | (k, v) :: r => if N.eqb k c then Some v else table_get c r
  end.
Definition translate_char (t : list (char * str)) (c : char) : str :=
  match table_get c t with Some r => r | None => [c] end.
Definition py_translate (t : list (char * str)) (s : str) : str := flat_map (translate_char t) s.

(* Python's ordering of strings: lexicographic by code point *)
Fixpoint str_ltb (a b : str) : bool :=
  match a, b with
  | _, [] => false
  | [], _ :: _ => true
  | x :: a', y :: b' => (N.ltb x y || (N.eqb x y && str_ltb a' b'))%bool
  end.
Definition is_digit (c : char) : bool := (N.leb 48 c && N.leb c 57)%bool.

(* sorted(strings): insertion sort (stable; on distinct strings any sort gives the same list) *)
Fixpoint insert_str (x : str) (l : list str) : list str :=
  match l with
  | [] => [x]
  | y :: r => if str_ltb y x then y :: insert_str x r else x :: l
  end.
Definition py_sorted_str (l : list str) : list str := fold_right insert_str [] l.
