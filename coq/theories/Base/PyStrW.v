(* Two more Python string primitives, used by the generated _LengthTrackingWriter.__call__. *)
From Delb.Base Require Import PyStr.

(* s[-1] as a one-character string (the translated code only evaluates it on non-empty strings) *)
Definition py_last1 (s : str) : str := match rev s with c :: _ => [c] | [] => [] end.
(* s.lstrip("c") for a one-character argument *)
Fixpoint py_lstrip_char (s : str) (c : char) : str :=
  match s with [] => [] | x :: r => if N.eqb x c then py_lstrip_char r c else s end.
