(* Class (l), junk axes: Ast.AxOther stands for "some other attribute of an Axis object", which the parser accepted until
   /repo commit 757f532.  The parser model (XPath/Parse.v, owned by the C16 builder) turns the generated table
   GenXPath.axis_names (Axis._names with the generator each name resolves to, regenerated from the source on every
   run) into Ast.axis values with axis_of_generator_name.  Every entry of the table yields one of the eleven real
   axes: no expression the parser produces contains AxOther. *)
From Delb.Base Require Import PyStr PyStrFacts.
From Delb.XPath Require Import Ast XBase Parse EvalFaults.
From Delb.Gen Require Import GenXPath.

Lemma parser_axes_are_real :
  forallb (fun kv => axis_real (axis_of_generator_name (snd kv))) axis_names = true.
Proof. vm_compute. reflexivity. Qed.

Lemma axis_ctor_real name a : axis_ctor name = POk a -> axis_real a = true.
Proof.
  unfold axis_ctor. destruct (assoc name axis_names) as [g|] eqn:E; [|discriminate]. intro H. inversion H; subst.
  pose proof parser_axes_are_real as F. rewrite forallb_forall in F.
  assert (Hin : In (name, g) axis_names).
  { clear -E. induction axis_names as [|[k v] l IH]; cbn in E; [discriminate|].
    destruct (str_eqb name k) eqn:Ek; [inversion E; subst; apply str_eqb_eq in Ek; subst; left; reflexivity|right; auto]. }
  exact (F (name, g) Hin).
Qed.
