(* The decidable domain of theorem C06: `in_subset D m e ctx`.  Definitions only.

   delb's evaluator departs from XPath 1.0 beyond the three established deviations in the classes listed in
   DESIGN.md 4/C06 (each a finding or documented behaviour, findings.d/C06.json).  `in_subset` excludes exactly
   the inputs on which one of them *occurs*: the static classes are decided on the expression, the dynamic ones
   on the candidates the reference evaluation actually visits.

   static   (i)  the text() function (documented, not XPath 1.0)                    -> ty_of
            (l)  an axis name that is not one of the eleven generators (AxOther), an unbound or empty prefix   -> deviate = None
   dynamic  (j)  the backend does not distinguish no namespace from the in-scope default namespace d of an element: a prefixed
                 attribute test bound to d finds the plain attribute, an un-prefixed one finds {d}l when there is no plain l -> hazard
   Every other class of the original list ((a)-(h), (k), and (m) (n) (o) found later) was repaired in /repo and is
   inside in_subset now; findings.d/C06.json has the commits. *)
From Delb.Base Require Import PyStr.
From Delb.Tree Require Import ATree ITree.
From Delb.XPath Require Import Ast Nav Num Eval Ref.

Inductive ty := TNum | TStr | TBool | TAttr.
Definition ty_eqb (a b : ty) : bool :=
  match a, b with TNum, TNum | TStr, TStr | TBool, TBool | TAttr, TAttr => true | _, _ => false end.
Definition stringy (t : ty) : bool := match t with TStr | TAttr => true | _ => false end.

Fixpoint ty_of (e : expr) : option ty :=
  match e with
  | AnyValue (VStr _) => Some TStr
  | AnyValue (VNum _) => Some TNum
  | AttributeValue _ _ => Some TAttr
  | HasAttribute _ _ => Some TBool
  | BooleanOperator o l r =>
      match ty_of l, ty_of r with
      | Some a, Some b =>
          match o with
          | OpAnd | OpOr => if negb (ty_eqb a TAttr) && negb (ty_eqb b TAttr) then Some TBool else None
          | _ => Some TBool                                  (* comparisons: every combination *)
          end
      | _, _ => None
      end
  | Function name args =>
      let tys := (fix go (l : list expr) : list (option ty) :=
                    match l with [] => [] | x :: r => ty_of x :: go r end) args in
      if str_is name FN_position || str_is name FN_last then match tys with [] => Some TNum | _ => None end
      else if str_is name FN_not || str_is name FN_boolean then match tys with [Some _] => Some TBool | _ => None end
      else if str_is name FN_contains || str_is name FN_starts_with then
        match tys with [Some _; Some _] => Some TBool | _ => None end
      else if str_is name FN_concat then
        match tys with
        | _ :: _ :: _ => if forallb (fun t => match t with Some _ => true | None => false end) tys then Some TStr else None
        | _ => None
        end
      else None
  end.
(* every attribute prefix is declared (an undeclared one is an XPathEvaluationError in delb and an error in XPath) *)
Definition pfx_ok (m : nsmap) (p : option str) : bool :=
  match p with Some q => match ns_get m q with Some _ => true | None => false end | None => true end.
Fixpoint bound (m : nsmap) (e : expr) : bool :=
  match e with
  | AnyValue _ => true
  | AttributeValue p _ | HasAttribute p _ => pfx_ok m p
  | BooleanOperator _ l r => bound m l && bound m r
  | Function _ args => (fix go (l : list expr) : bool := match l with [] => true | x :: r => bound m x && go r end) args
  end.
Definition pred_ok (m : nsmap) (e : expr) : bool :=
  match ty_of e with Some TBool | Some TNum | Some TStr => bound m e | _ => false end.

(* ---- dynamic classes, decided on one candidate *)
Definition tag_attrs (c : nd) : list attr := payload_attrs (ipayload (snd c)).
(* (j) *)
Definition attr_j (m : nsmap) (p : option str) (l : str) (c : nd) : bool :=
  match (match p with Some q => ns_get m q | None => Some [] end), in_scope_default (ipayload (snd c)) with
  | Some ns, Some d =>
      let has n := match get_attr n l (tag_attrs c) with Some _ => true | None => false end in
      is_tagnode c && ((negb (null ns) && str_eqb d ns)            (* @p:l finds the plain l *)
                       || (null ns && negb (has []) && has d))     (* @l finds {d}l when there is no plain l (badd57c) *)
  | _, _ => false
  end.
Definition attr_of (m : nsmap) (p : option str) (l : str) (c : nd) : option str :=
  if is_tagnode c then get_attr (match p with Some q => opt_default [] (ns_get m q) | None => [] end) l (tag_attrs c) else None.
(* a candidate that is not a tag node has no attributes *)
Definition attr_missing (m : nsmap) (p : option str) (l : str) (c : nd) : bool :=
  match attr_of m p l c with Some _ => false | None => true end.
Definition attr_empty (m : nsmap) (p : option str) (l : str) (c : nd) : bool :=
  match attr_of m p l c with Some v => null v | None => false end.
Fixpoint hazard (m : nsmap) (e : expr) (c : nd) : bool :=
  match e with
  | AnyValue _ => false
  | AttributeValue p l => attr_j m p l c                                       (* (j) *)
  | HasAttribute p l => attr_j m p l c
  | BooleanOperator o l r => hazard m l c || hazard m r c
  | Function name args =>
      (fix go (l : list expr) : bool := match l with [] => false | x :: r => hazard m x c || go r end) args
      (* not(@a) / boolean(@a) reach the evaluator as HasAttribute since fix 0f8d6d4; an AttributeValue argument (which
         the parser no longer produces) would still be judged by its value *)
      || ((str_is name FN_not || str_is name FN_boolean)
          && match args with [AttributeValue p a] => attr_empty m p a c | _ => false end)
  end.

(* ---- one step on one context node *)
Definition downward (a : axis) : bool :=
  match a with AxSelf | AxChild | AxDescendant | AxDescendantOrSelf => true | _ => false end.
Definition doc_passes_wrongly (t : node_test) : bool :=        (* tests the document node passes (or crashes) in delb only *)
  match t with
  | NodeTypeTest KTagNode => false
  | NodeTypeTest _ | ProcessingInstructionTest _ => true
  | _ => false
  end.
Definition step_ok (D : itree) (m : nsmap) (s : step) (n : nd) : bool :=
  let '(LocationStep a t ps) := s in
  match x_axis true a, x_test true m t with
  | Some a', Some t' =>
      forallb (pred_ok m) ps
      && forallb (fun c => forallb (fun p => negb (hazard m p c)) ps) (filter (r_test t') (r_axis D a' n))
  | _, _ => false
  end.
Fixpoint steps_ok (D : itree) (m : nsmap) (ss : list step) (ns : list nd) : bool :=
  match ss with
  | [] => true
  | s :: r => forallb (step_ok D m s) ns
              && match x_step true m s with
                 | Some rs => match r_step D m rs (Some ns) with Some ns' => steps_ok D m r ns' | None => false end
                 | None => false
                 end
  end.
Definition path_ok (D : itree) (m : nsmap) (p : path) (ctx : nd) : bool :=
  let '(LocationPath ab ss) := p in steps_ok D m ss [if ab then ([], D) else ctx].

Definition in_subset (D : itree) (m : nsmap) (e : xpath_expr) (ctx : nd) : bool :=
  forallb (fun p => path_ok D m p ctx) e
  && match deviate m e with
     | Some re => match ref_eval D m re ctx with Some _ => true | None => false end
     | None => false
     end.
