(* Reference semantics: what XPath 1.0 (REC-xpath-19991116) says the expressions of the supported subset
   select, over the trees of Nav.v with a document ("root") node.  Definitions only.  This file is the
   specification side of C06; it is validated on every check run against lxml's (libxml2's) XPath engine.

   * sections 2.2/2.3: the axes, each with its direction (a reverse axis lists its nodes in reverse document
     order, which is the order proximity positions count in); the attribute axis occurs in the subset only
     inside predicates (`@a`), where it is evaluated directly; the namespace axis is not in the subset.
   * section 2.3: node tests against *expanded* names (prefixes are resolved by `to_ref` below with the
     namespace declarations of the expression context; no prefix = no namespace); node(), text(), comment(),
     processing-instruction(), processing-instruction('t').
   * section 2.4: predicates filter a node list with proximity position and size; a number result n means
     position() = n; anything else is converted with boolean().
   * sections 3.4/4: =, != between node-sets and strings are existential over string values; boolean
     conversions; not, boolean, contains, starts-with, concat, position, last.
   * section 3.3: union.

   What is outside the modelled subset evaluates to None (never to a guess): the function text() (it is not an
   XPath 1.0 function).
   Numbers are exact decimals (Num.v).

   Besides the thirteen-minus-two standard axes and the standard tests, the reference language has the three
   constructs delb's *documented* deviations translate to (RFollowingExt, RPrecedingExt, RElementOrRoot); they
   are defined here from the standard notions and are produced only by `deviate`, never by `to_ref`. *)
From Delb.Base Require Import PyStr.
From Delb.Tree Require Import ATree ITree.
From Delb.XPath Require Import Ast Nav Num.

Inductive raxis :=
| RAncestor | RAncestorOrSelf | RChild | RDescendant | RDescendantOrSelf | RFollowing | RFollowingSibling
| RParent | RPreceding | RPrecedingSibling | RSelf
| RFollowingExt        (* following  U  descendant *)
| RPrecedingExt.       (* preceding  U  ancestor, without the root (document) node *)

Inductive rtest :=
| RName (ns local : str)            (* expanded name; ns = [] is "no namespace" *)
| RAnyName (ns : option str)        (* `*` (None) or `p:*` *)
| RNode | RText | RComment
| RPI (target : option str)
| RElementOrRoot.                   (* an element or the root node *)

Inductive rstep := RStep (a : raxis) (t : rtest) (preds : list expr).
Inductive rpath := RPath (absolute : bool) (steps : list rstep).
Definition rexpr := list rpath.

(* ---------------------------------------------------------------- axes *)
Definition r_axis (D : itree) (a : raxis) (n : nd) : list nd :=
  let p := fst n in
  match a with
  | RSelf => [n]
  | RChild => children n
  | RDescendant => descendants n
  | RDescendantOrSelf => n :: descendants n
  | RParent => parent D n
  | RAncestor => ancestors D n
  | RAncestorOrSelf => n :: ancestors D n
  | RFollowingSibling => following_siblings D n
  | RPrecedingSibling => preceding_siblings D n
  (* after the context node in document order, without its descendants *)
  | RFollowing => filter (fun x => negb (is_prefix p (fst x))) (after p (all_nodes D))
  (* before the context node in document order, without its ancestors; reverse axis *)
  | RPreceding => filter (fun x => negb (is_prefix (fst x) p)) (rev (before p (all_nodes D)))
  (* following U descendant for a node of the tree; the root node has no following nodes and gets none *)
  | RFollowingExt => if is_doc n then []
                     else filter (fun x => negb (is_prefix p (fst x)) || is_prefix p (fst x)) (after p (all_nodes D))
  | RPrecedingExt => filter (fun x => (negb (is_prefix (fst x) p) || is_prefix (fst x) p) && negb (is_doc x))
                       (rev (before p (all_nodes D)))
  end.

(* ---------------------------------------------------------------- node tests (principal node type: element) *)
Definition r_test (t : rtest) (c : nd) : bool :=
  if is_doc c then match t with RNode | RElementOrRoot => true | _ => false end
  else match t, ipayload (snd c) with
       | RName ns l, PTag ns' l' _ => str_eqb ns' ns && str_eqb l' l
       | RAnyName None, PTag _ _ _ => true
       | RAnyName (Some ns), PTag ns' _ _ => str_eqb ns' ns
       | RNode, _ => true
       | RText, PText _ => true
       | RComment, PComment _ => true
       | RPI None, PPI _ _ => true
       | RPI (Some t), PPI tg _ => str_eqb tg t
       | RElementOrRoot, PTag _ _ _ => true
       | _, _ => false
       end.

(* ---------------------------------------------------------------- predicate expressions *)
(* values: boolean, number (every number of the subset is a natural: literals, position(), last()), string,
   and the node-set an attribute step yields, represented by the string values of its (0 or 1) nodes *)
Inductive rval := RBool (b : bool) | RNum (n : N) | RStr (s : str) | RAttrs (l : list str).

Definition to_bool (v : rval) : bool :=
  match v with RBool b => b | RNum n => negb (N.eqb n 0) | RStr s => negb (null s) | RAttrs l => negb (null l) end.
Definition to_str (v : rval) : option str :=       (* string(); every number of the subset is a natural *)
  match v with
  | RStr s => Some s
  | RAttrs l => Some (match l with s :: _ => s | [] => [] end)
  | RBool b => Some (if b then STR_true else STR_false)
  | RNum n => Some (N_to_dec n)
  end.

Definition r_attr (m : nsmap) (c : nd) (p : option str) (l : str) : option (list str) :=
  match p with
  | Some q => match ns_get m q with
              | Some ns => Some (if is_tagnode c then match get_attr ns l (payload_attrs (ipayload (snd c))) with
                                                      | Some v => [v] | None => [] end else [])
              | None => None                         (* undeclared prefix: an error, not a value *)
              end
  | None => Some (if is_tagnode c then match get_attr [] l (payload_attrs (ipayload (snd c))) with
                                       | Some v => [v] | None => [] end else [])
  end.

(* section 3.4 / 4.4: conversions.  number() of a string: Num.xpath_number *)
Definition is_rbool (v : rval) : bool := match v with RBool _ => true | _ => false end.
Definition is_rnum (v : rval) : bool := match v with RNum _ => true | _ => false end.
Definition to_number (v : rval) : xnum :=
  match v with
  | RBool b => xnum_of_bool b
  | RNum n => xnum_of_N n
  | RStr s => xpath_number s
  | RAttrs l => xpath_number (match l with s :: _ => s | [] => [] end)
  end.
Definition cmpop_of (o : binop) : option cmpop :=
  match o with OpEq => Some CEq | OpNe => Some CNe | OpLt => Some CLt | OpLe => Some CLe | OpGt => Some CGt | OpGe => Some CGe
             | _ => None end.
(* "neither object is a node-set": = and != compare booleans if one is a boolean, else numbers if one is a number,
   else strings; <, <=, >, >= compare numbers *)
Definition atom_compare (c : cmpop) (a b : rval) : bool :=
  match c with
  | CEq | CNe =>
      if is_rbool a || is_rbool b then
        (match c with CEq => Bool.eqb (to_bool a) (to_bool b) | _ => negb (Bool.eqb (to_bool a) (to_bool b)) end)
      else if is_rnum a || is_rnum b then num_compare c (to_number a) (to_number b)
      else match a, b with
           | RStr x, RStr y => (match c with CEq => str_eqb x y | _ => negb (str_eqb x y) end)
           | _, _ => false
           end
  | _ => num_compare c (to_number a) (to_number b)
  end.
(* with node-sets (here: what an attribute step yields, by string value): existential over the nodes; against a
   boolean the node-set is converted with boolean() *)
Definition r_compare (c : cmpop) (a b : rval) : bool :=
  match a, b with
  | RAttrs la, RAttrs lb => existsb (fun x => existsb (fun y => atom_compare c (RStr x) (RStr y)) lb) la
  | RAttrs la, RBool _ => atom_compare c (RBool (negb (null la))) b
  | RBool _, RAttrs lb => atom_compare c a (RBool (negb (null lb)))
  | RAttrs la, _ => existsb (fun x => atom_compare c (RStr x) b) la
  | _, RAttrs lb => existsb (fun y => atom_compare c a (RStr y)) lb
  | _, _ => atom_compare c a b
  end.

Definition str_is (a b : str) : bool := str_eqb a b.
Definition FN_position : str := [112;111;115;105;116;105;111;110]%N.
Definition FN_last : str := [108;97;115;116]%N.
Definition FN_not : str := [110;111;116]%N.
Definition FN_boolean : str := [98;111;111;108;101;97;110]%N.
Definition FN_contains : str := [99;111;110;116;97;105;110;115]%N.
Definition FN_starts_with : str := [115;116;97;114;116;115;45;119;105;116;104]%N.
Definition FN_concat : str := [99;111;110;99;97;116]%N.

Fixpoint all_some {A} (l : list (option A)) : option (list A) :=
  match l with
  | [] => Some []
  | Some x :: r => option_map (cons x) (all_some r)
  | None :: _ => None
  end.

Definition r_call (name : str) (args : list rval) (pos size : N) : option rval :=
  if str_is name FN_position then match args with [] => Some (RNum pos) | _ => None end
  else if str_is name FN_last then match args with [] => Some (RNum size) | _ => None end
  else if str_is name FN_not then match args with [v] => Some (RBool (negb (to_bool v))) | _ => None end
  else if str_is name FN_boolean then match args with [v] => Some (RBool (to_bool v)) | _ => None end
  else if str_is name FN_contains then
    match args with [a; b] => match to_str a, to_str b with Some x, Some y => Some (RBool (py_contains x y)) | _, _ => None end
                  | _ => None end
  else if str_is name FN_starts_with then
    match args with [a; b] => match to_str a, to_str b with Some x, Some y => Some (RBool (py_startswith x y)) | _, _ => None end
                  | _ => None end
  else if str_is name FN_concat then
    match args with
    | _ :: _ :: _ => option_map (fun ss => RStr (concat ss)) (all_some (map to_str args))
    | _ => None
    end
  else None.

Fixpoint r_expr (m : nsmap) (e : expr) (c : nd) (pos size : N) {struct e} : option rval :=
  match e with
  | AnyValue (VStr s) => Some (RStr s)
  | AnyValue (VNum n) => Some (RNum n)
  | AttributeValue p l => option_map RAttrs (r_attr m c p l)
  | HasAttribute p l => option_map (fun a => RBool (negb (null a))) (r_attr m c p l)     (* boolean(attribute::p:l) *)
  | BooleanOperator OpAnd l r =>
      match r_expr m l c pos size, r_expr m r c pos size with
      | Some a, Some b => Some (RBool (to_bool a && to_bool b)) | _, _ => None end
  | BooleanOperator OpOr l r =>
      match r_expr m l c pos size, r_expr m r c pos size with
      | Some a, Some b => Some (RBool (to_bool a || to_bool b)) | _, _ => None end
  | BooleanOperator o l r =>
      match r_expr m l c pos size, r_expr m r c pos size, cmpop_of o with
      | Some a, Some b, Some cp => Some (RBool (r_compare cp a b)) | _, _, _ => None end
  | Function name args =>
      match all_some ((fix go (l : list expr) : list (option rval) :=
                         match l with [] => [] | x :: r => r_expr m x c pos size :: go r end) args) with
      | Some vs => r_call name vs pos size
      | None => None
      end
  end.

(* section 2.4 *)
Definition keeps (v : rval) (pos : N) : bool := match v with RNum n => N.eqb n pos | _ => to_bool v end.
Fixpoint r_filter (m : nsmap) (p : expr) (size pos : N) (cs : list nd) : option (list nd) :=
  match cs with
  | [] => Some []
  | c :: r => match r_expr m p c pos size, r_filter m p size (pos + 1) r with
              | Some v, Some r' => Some (if keeps v pos then c :: r' else r')
              | _, _ => None
              end
  end.
Fixpoint r_preds (m : nsmap) (ps : list expr) (cs : list nd) : option (list nd) :=
  match ps with
  | [] => Some cs
  | p :: r => match r_filter m p (N.of_nat (length cs)) 1 cs with Some cs' => r_preds m r cs' | None => None end
  end.

Definition r_step1 (D : itree) (m : nsmap) (s : rstep) (n : nd) : option (list nd) :=
  let '(RStep a t ps) := s in r_preds m ps (filter (r_test t) (r_axis D a n)).

(* a step maps a node-set to the union of what it selects from each member *)
Fixpoint r_union_map (f : nd -> option (list nd)) (ns : list nd) : option (list nd) :=
  match ns with
  | [] => Some []
  | n :: r => match f n, r_union_map f r with Some l, Some l' => Some (l ++ l') | _, _ => None end
  end.
Definition r_step (D : itree) (m : nsmap) (s : rstep) (ns : option (list nd)) : option (list nd) :=
  match ns with Some l => option_map dedup (r_union_map (r_step1 D m s) l) | None => None end.
Definition r_path (D : itree) (m : nsmap) (p : rpath) (ctx : nd) : option (list nd) :=
  let '(RPath absolute steps) := p in
  fold_left (fun acc s => r_step D m s acc) steps (Some [if absolute then ([], D) else ctx]).
Fixpoint r_paths (D : itree) (m : nsmap) (ps : list rpath) (ctx : nd) : option (list nd) :=
  match ps with
  | [] => Some []
  | p :: r => match r_path D m p ctx, r_paths D m r ctx with Some l, Some l' => Some (l ++ l') | _, _ => None end
  end.
(* the selected node-set (each node once); None = the expression leaves the modelled subset on this input *)
Definition ref_eval (D : itree) (m : nsmap) (e : rexpr) (ctx : nd) : option (list nd) :=
  option_map dedup (r_paths D m e ctx).

(* ---------------------------------------------------------------- from the parsed expression to the reference language *)
(* dev = false: the XPath 1.0 reading.  dev = true: the same with delb's three established deviations. *)
Definition x_axis (dev : bool) (a : axis) : option raxis :=
  match a with
  | AxAncestor => Some RAncestor | AxAncestorOrSelf => Some RAncestorOrSelf | AxChild => Some RChild
  | AxDescendant => Some RDescendant | AxDescendantOrSelf => Some RDescendantOrSelf
  | AxFollowingSibling => Some RFollowingSibling | AxParent => Some RParent
  | AxPrecedingSibling => Some RPrecedingSibling | AxSelf => Some RSelf
  | AxFollowing => Some (if dev then RFollowingExt else RFollowing)          (* deviation 2 *)
  | AxPreceding => Some (if dev then RPrecedingExt else RPreceding)          (* deviation 2 *)
  | AxOther _ => None
  end.
Definition x_test (dev : bool) (m : nsmap) (t : node_test) : option rtest :=
  match t with
  | NameMatchTest None l =>
      Some (RName (if dev then opt_default [] (ns_get m []) else []) l)      (* deviation 1 *)
  | NameMatchTest (Some p) l => option_map (fun ns => RName ns l) (ns_get m p)
  | AnyNameTest None => Some (RAnyName None)
  | AnyNameTest (Some []) => None                   (* the parser never produces an empty prefix *)
  | AnyNameTest (Some p) => option_map (fun ns => RAnyName (Some ns)) (ns_get m p)
  | NodeTypeTest KTagNode => Some (if dev then RElementOrRoot else RNode)    (* deviation 3 *)
  | NodeTypeTest KTextNode => Some RText
  | NodeTypeTest KCommentNode => Some RComment
  | NodeTypeTest KProcessingInstructionNode => Some (RPI None)
  | ProcessingInstructionTest t => Some (RPI (Some t))
  end.
Definition x_step (dev : bool) (m : nsmap) (s : step) : option rstep :=
  let '(LocationStep a t ps) := s in
  match x_axis dev a, x_test dev m t with Some a', Some t' => Some (RStep a' t' ps) | _, _ => None end.
Definition x_path (dev : bool) (m : nsmap) (p : path) : option rpath :=
  let '(LocationPath ab ss) := p in option_map (RPath ab) (all_some (map (x_step dev m) ss)).
Definition xlate (dev : bool) (m : nsmap) (e : xpath_expr) : option rexpr := all_some (map (x_path dev m) e).
Definition to_ref := xlate false.
Definition deviate := xlate true.
