(* Small primitives shared by the generated XPath tables (Gen/GenXPath.v) and the models
   (Tok.v, Parse.v).  Definitions only. *)
From Coq Require Import List NArith Arith Decimal.
From Delb.Base Require Import PyStr.
Import ListNotations.

(* str(int) for a non-negative int *)
Fixpoint uint_chars (u : Decimal.uint) : str :=
  match u with
  | Decimal.Nil => []
  | Decimal.D0 u => 48%N :: uint_chars u | Decimal.D1 u => 49%N :: uint_chars u
  | Decimal.D2 u => 50%N :: uint_chars u | Decimal.D3 u => 51%N :: uint_chars u
  | Decimal.D4 u => 52%N :: uint_chars u | Decimal.D5 u => 53%N :: uint_chars u
  | Decimal.D6 u => 54%N :: uint_chars u | Decimal.D7 u => 55%N :: uint_chars u
  | Decimal.D8 u => 56%N :: uint_chars u | Decimal.D9 u => 57%N :: uint_chars u
  end.
Definition dec (n : nat) : str :=
  match uint_chars (Nat.to_uint n) with [] => [48%N] | l => l end.

(* s[a:b] for 0 <= a, 0 <= b (b < a gives "") *)
Definition py_slice {A} (s : list A) (a b : nat) : list A := firstn (b - a) (skipn a s).

(* s[1:-1] *)
Definition py_strip_ends {A} (s : list A) : list A := removelast (tl s).

Definition in_ranges (c : N) (rs : list (N * N)) : bool :=
  existsb (fun r => (N.leb (fst r) c && N.leb c (snd r))%bool) rs.

Fixpoint assoc {A} (k : str) (l : list (str * A)) : option A :=
  match l with [] => None | (k', v) :: r => if str_eqb k k' then Some v else assoc k r end.

(* ---------------------------------------------------------------------------------------------
   Results of the XPath front end.

   XPathParsingError(expression, position, message): `position` is optional while the exception
   travels (handlers fill it in; parse() sets None to 0 and attaches the expression);
   x_unsupported = the subclass XPathUnsupportedStandardFeature.

   A crash site is one place of the code where a partial operation can fail with an exception
   that is not an XPathParsingError.  S_guarded_* are the subscripts / isinstance-asserts that
   directly follow a successful token-pattern match (ParseFacts.v proves them unreachable). *)
Record xpe := mkXpe { x_pos : option nat; x_msg : str; x_unsupported : bool }.

Inductive xclass := CIndexError | CKeyError | CAssertionError | CValueError | CNotImplementedError.

Inductive site :=
| S_group_pop                 (* group_enclosed_expressions: openers.pop() (guarded by `if not openers: raise`) *)
| S_group_complement          (* COMPLEMENTING_TOKEN_TYPES[start_token.type] *)
| S_path_first                (* parse_location_path: tokens[0] after expand_axes *)
| S_path_not_implemented      (* parse_location_path: raise NotImplementedError *)
| S_step_all_tokens_last      (* parse_location_step: all_tokens[-1] (guarded by `if not all_tokens: raise`) *)
| S_step_last_not_token       (* assert isinstance(last_token, Token) *)
| S_step_pi_arg_index         (* tokens[2][0] *)
| S_step_pi_arg_not_token     (* assert isinstance(target_name, Token) *)
| S_step_node_type            (* NODE_TYPE_TEST_MAPPING[tokens[0].string] (guarded by `not in`) *)
| S_step_test_index           (* tokens[0] in the final else of the node test *)
| S_step_test_not_token       (* assert isinstance(tokens[0], Token) there *)
| S_step_operators_lookup     (* OPERATORS["="] *)
| S_step_pred_last_index      (* tokens[-1] in the predicate loop (tokens is non-empty there) *)
| S_step_pred_last_not_token  (* assert isinstance(tokens[-1], Token) *)
| S_expr_operators_lookup     (* OPERATORS[token.string] *)
| S_expr_empty                (* the final tokens[0] (guarded by `if not tokens: raise` at the top) *)
| S_expr_first_not_token      (* assert isinstance(tokens[0], Token) at the end *)
| S_guarded_index             (* tokens[k] right after a pattern match of length > k *)
| S_guarded_assert.           (* assert isinstance(tokens[k], Token / Sequence) right after a pattern match *)

Definition site_class (s : site) : xclass :=
  match s with
  | S_group_pop | S_path_first | S_step_all_tokens_last | S_step_pi_arg_index | S_step_test_index
  | S_step_pred_last_index | S_expr_empty | S_guarded_index => CIndexError
  | S_group_complement | S_step_node_type | S_step_operators_lookup | S_expr_operators_lookup => CKeyError
  | S_step_last_not_token | S_step_pi_arg_not_token | S_step_test_not_token
  | S_step_pred_last_not_token | S_expr_first_not_token | S_guarded_assert => CAssertionError
  | S_path_not_implemented => CNotImplementedError
  end.

Definition site_id (s : site) : N :=
  match s with
  | S_group_pop => 0 | S_group_complement => 1 | S_path_first => 2 | S_path_not_implemented => 3
  | S_step_all_tokens_last => 4 | S_step_last_not_token => 5 | S_step_pi_arg_index => 7
  | S_step_pi_arg_not_token => 8 | S_step_node_type => 9 | S_step_test_index => 10 | S_step_test_not_token => 11
  | S_step_operators_lookup => 12 | S_step_pred_last_index => 13 | S_step_pred_last_not_token => 14
  | S_expr_operators_lookup => 17 | S_expr_empty => 18
  | S_expr_first_not_token => 19 | S_guarded_index => 20 | S_guarded_assert => 21
  end%N.

Definition xclass_id (c : xclass) : N :=
  match c with CIndexError => 0 | CKeyError => 1 | CAssertionError => 2 | CValueError => 3
             | CNotImplementedError => 4 end%N.

Inductive pres (A : Type) := POk (a : A) | PRej (e : xpe) | PCrash (c : site) | PFuel.
Arguments POk {A} a. Arguments PRej {A} e. Arguments PCrash {A} c. Arguments PFuel {A}.

Definition pbind {A B} (m : pres A) (f : A -> pres B) : pres B :=
  match m with POk a => f a | PRej e => PRej e | PCrash c => PCrash c | PFuel => PFuel end.
Notation "x <- m ;; k" := (pbind m (fun x => k)) (at level 61, m at next level, right associativity).
Notation "' p <- m ;; k" := (pbind m (fun x => let p := x in k))
  (at level 61, p pattern, m at next level, right associativity).

(* [f(x) for x in xs], left to right, stopping at the first exception *)
Fixpoint pmap {A B} (f : A -> pres B) (l : list A) : pres (list B) :=
  match l with
  | [] => POk []
  | x :: r => y <- f x ;; ys <- pmap f r ;; POk (y :: ys)
  end.

(* except XPathParsingError as e: e.position = p; raise e *)
Definition at_position {A} (p : nat) (m : pres A) : pres A :=
  match m with PRej e => PRej (mkXpe (Some p) (x_msg e) (x_unsupported e)) | r => r end.

(* forgetting position and message: the shared result type of Base/PyStr.v *)
Definition xclass_exn (c : xclass) : exn :=
  match c with CIndexError => IndexError | CKeyError => KeyError | CAssertionError => AssertionError
             | CValueError => ValueError | CNotImplementedError => OtherError end.
Definition to_res {A} (r : pres A) : res A :=
  match r with
  | POk a => Ok a
  | PRej e => Rejected (if x_unsupported e then XPathUnsupported else XPathParsingError)
  | PCrash c => Crash (xclass_exn (site_class c))
  | PFuel => OutOfFuel
  end.
