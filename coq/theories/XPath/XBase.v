(* Small primitives shared by the generated XPath tables (Gen/GenXPath.v) and the models
   (Tok.v, Parse.v).  Definitions only. *)
From Coq Require Import List NArith Arith Decimal.
From Delb.Base Require Import PyStr.
Import ListNotations.

(* str(int) for a non-negative int *)
Fixpoint uint_chars (u : Decimal.uint) : str :=
  match u with
  | Decimal.Nil => []
  | Decimal.D0 u => 48%N :: uint_chars u | Decimal.D1 u => 49%N :: uint_chars u
  | Decimal.D2 u => 50%N :: uint_chars u | Decimal.D3 u => 51%N :: uint_chars u
  | Decimal.D4 u => 52%N :: uint_chars u | Decimal.D5 u => 53%N :: uint_chars u
  | Decimal.D6 u => 54%N :: uint_chars u | Decimal.D7 u => 55%N :: uint_chars u
  | Decimal.D8 u => 56%N :: uint_chars u | Decimal.D9 u => 57%N :: uint_chars u
  end.
Definition dec (n : nat) : str :=
  match uint_chars (Nat.to_uint n) with [] => [48%N] | l => l end.

(* s[a:b] for 0 <= a, 0 <= b (b < a gives "") *)
Definition py_slice {A} (s : list A) (a b : nat) : list A := firstn (b - a) (skipn a s).

(* s[1:-1] *)
Definition py_strip_ends {A} (s : list A) : list A := removelast (tl s).

Definition in_ranges (c : N) (rs : list (N * N)) : bool :=
  existsb (fun r => (N.leb (fst r) c && N.leb c (snd r))%bool) rs.

Fixpoint assoc {A} (k : str) (l : list (str * A)) : option A :=
  match l with [] => None | (k', v) :: r => if str_eqb k k' then Some v else assoc k r end.
