(* Numbers as the predicate comparisons of the XPath subset need them.  Definitions only.

   Every number that occurs is a natural (literals, position(), last()), a boolean converted (0, 1), or the
   conversion of a string: the XPath 1.0 `number()` of a string is the IEEE double nearest to the decimal it spells
   (optional whitespace, optional minus, Digits ('.' Digits?)? | '.' Digits), NaN for any other string.  The model keeps
   the decimal EXACTLY (sign, digits, scale): it agrees with double arithmetic as long as the strings have no more
   significant digits than a double distinguishes (about 15), which is stated as a limit of the model; the checks
   generate shorter numerals.

   The parser is parametrised by the whitespace predicate and the digit valuation, because the implementation
   (`_to_number`: regex \s and \d on str, then float()) admits Unicode whitespace and Unicode decimal digits, where
   XPath 1.0 has #x20 #x9 #xD #xA and the ASCII digits only. *)
From Delb.Base Require Import PyStr.

Inductive xnum := NaN | Dec (neg : bool) (mant : N) (scale : nat).     (* (-1)^neg * mant / 10^scale *)

Definition xnum_of_N (n : N) : xnum := Dec false n 0.
Definition xnum_of_bool (b : bool) : xnum := Dec false (if b then 1 else 0)%N 0.

Definition signed (neg : bool) (m : N) : Z := if neg then Z.opp (Z.of_N m) else Z.of_N m.
Definition pow10 (k : nat) : Z := Z.pow 10 (Z.of_nat k).
(* the two numerators over the common denominator 10^(sa+sb) *)
Definition xnum_cmp (f : Z -> Z -> bool) (nan_result : bool) (a b : xnum) : bool :=
  match a, b with
  | Dec na ma sa, Dec nb mb sb => f (signed na ma * pow10 sb)%Z (signed nb mb * pow10 sa)%Z
  | _, _ => nan_result
  end.
Inductive cmpop := CEq | CNe | CLt | CLe | CGt | CGe.
(* IEEE: every comparison with NaN is false, except != *)
Definition num_compare (o : cmpop) (a b : xnum) : bool :=
  match o with
  | CEq => xnum_cmp Z.eqb false a b
  | CNe => xnum_cmp (fun x y => negb (Z.eqb x y)) true a b
  | CLt => xnum_cmp Z.ltb false a b
  | CLe => xnum_cmp Z.leb false a b
  | CGt => xnum_cmp (fun x y => Z.ltb y x) false a b
  | CGe => xnum_cmp (fun x y => Z.leb y x) false a b
  end.

(* ---- string -> number *)
Section Parse.
  Variable ws : char -> bool.
  Variable digit : char -> option N.

  Fixpoint lstrip_by (s : str) : str := match s with [] => [] | c :: r => if ws c then lstrip_by r else s end.
  Definition strip_by (s : str) : str := rev (lstrip_by (rev (lstrip_by s))).

  (* the value of a run of digits, most significant first; None if a character is not a digit *)
  Fixpoint digits_val (acc : N) (s : str) : option N :=
    match s with
    | [] => Some acc
    | c :: r => match digit c with Some d => digits_val (acc * 10 + d) r | None => None end
    end.
  Fixpoint split_dot (s : str) : str * option str :=
    match s with
    | [] => ([], None)
    | c :: r => if N.eqb c 46 then ([], Some r)
                else let '(a, b) := split_dot r in (c :: a, b)
    end.
  Definition parse_number (s : str) : xnum :=
    let t := strip_by s in
    let '(neg, body) := match t with c :: r => if N.eqb c 45 then (true, r) else (false, t) | [] => (false, t) end in
    let '(ip, fp) := split_dot body in
    match fp with
    | None => match ip, digits_val 0 ip with _ :: _, Some v => Dec neg v 0 | _, _ => NaN end
    | Some f =>
        if null ip && null f then NaN
        else match digits_val 0 (ip ++ f) with Some v => Dec neg v (length f) | None => NaN end
    end.
End Parse.

(* XPath 1.0 / XML: S and the ASCII digits *)
Definition xml_ws (c : char) : bool := N.eqb c 32 || N.eqb c 9 || N.eqb c 13 || N.eqb c 10.
Definition ascii_digit (c : char) : option N := if N.leb 48 c && N.leb c 57 then Some (c - 48)%N else None.
Definition xpath_number (s : str) : xnum := parse_number xml_ws ascii_digit s.

(* ---- number -> string for the naturals (string() of an integral number: its decimal numeral, no leading zeros) *)
Fixpoint dec_digits (fuel : nat) (n : N) (acc : str) : str :=
  match fuel with
  | O => acc
  | S k => let acc' := (48 + N.modulo n 10)%N :: acc in
           if N.ltb n 10 then acc' else dec_digits k (N.div n 10) acc'
  end.
Definition N_to_dec (n : N) : str := dec_digits (S (N.to_nat (N.size n))) n [].
Definition STR_true : str := [116;114;117;101]%N.
Definition STR_false : str := [102;97;108;115;101]%N.
