(* C06_order: QueryResults.in_document_order lists tag results sorted by document position. *)
From Coq Require Import Lia Sorted.
From Delb.Base Require Import PyStr.
From Delb.Tree Require Import ATree ITree.
From Delb.XPath Require Import Ast Nav Eval EvalRef.

Fixpoint sorted (l : list nd) : bool :=
  match l with
  | x :: r => match r with y :: _ => path_ltb (fst x) (fst y) && sorted r | [] => true end
  | [] => true
  end.

Lemma path_trich a : forall b, path_ltb a b = false -> path_eqb a b = false -> path_ltb b a = true.
Proof.
  induction a as [|x a IH]; intros [|y b]; cbn [path_ltb path_eqb]; intros H1 H2; try discriminate; try reflexivity.
  apply orb_false_elim in H1 as [H1 H3]. apply Nat.ltb_ge in H1.
  destruct (Nat.eqb_spec x y) as [->|Hn].
  - rewrite Nat.eqb_refl in *. cbn [andb] in *. rewrite (IH b H3 H2). apply orb_true_r.
  - assert (Hlt : y < x) by lia. apply Nat.ltb_lt in Hlt. rewrite Hlt. reflexivity.
Qed.

Lemma insert_sorted_head x l : sorted l = true ->
  match insert_sorted x l with
  | h :: _ => fst h = fst x \/ (exists y r, l = y :: r /\ fst h = fst y /\ path_ltb (fst y) (fst x) = true)
  | [] => False
  end.
Proof.
  destruct l as [|y r]; cbn; intro H; [left; reflexivity|].
  destruct (path_ltb (fst x) (fst y)) eqn:E1; [left; reflexivity|].
  destruct (path_eqb (fst x) (fst y)) eqn:E2; [left; reflexivity|].
  right. exists y, r. repeat split. apply path_trich; assumption.
Qed.

Lemma sorted_cons_fst x x' r : fst x = fst x' -> sorted (x :: r) = sorted (x' :: r).
Proof. intro E. cbn. destruct r; [reflexivity|]. rewrite E. reflexivity. Qed.

Lemma insert_sorted_sorted x : forall l, sorted l = true -> sorted (insert_sorted x l) = true.
Proof.
  induction l as [|y r IH]; intro H; [reflexivity|].
  cbn [insert_sorted]. destruct (path_ltb (fst x) (fst y)) eqn:E1.
  - cbn [sorted]. rewrite E1. exact H.
  - destruct (path_eqb (fst x) (fst y)) eqn:E2.
    + apply path_eqb_eq in E2. etransitivity; [exact (sorted_cons_fst x y r E2)|exact H].
    + assert (Hyx : path_ltb (fst y) (fst x) = true) by (apply path_trich; assumption).
      assert (Hr : sorted r = true) by (cbn in H; destruct r; [reflexivity|apply andb_prop in H; tauto]).
      specialize (IH Hr). pose proof (insert_sorted_head x r Hr) as Hh.
      cbn [sorted]. destruct (insert_sorted x r) as [|h t] eqn:Ei; [contradiction|].
      rewrite IH, andb_true_r. destruct Hh as [-> | (z & r' & -> & -> & _)]; [exact Hyx|].
      cbn in H. apply andb_prop in H. tauto.
Qed.

Lemma insert_sorted_paths x : forall l p,
  In p (map fst (insert_sorted x l)) <-> p = fst x \/ In p (map fst l).
Proof.
  induction l as [|y r IH]; intro p; cbn [insert_sorted].
  - cbn. intuition.
  - destruct (path_ltb (fst x) (fst y)); [cbn; intuition|].
    destruct (path_eqb (fst x) (fst y)) eqn:E.
    + apply path_eqb_eq in E. cbn. rewrite <- E. intuition.
    + cbn [map In]. rewrite IH. intuition.
Qed.

Lemma fold_insert_sorted : forall l acc, sorted acc = true ->
  sorted (fold_left (fun a x => insert_sorted x a) l acc) = true /\
  (forall p, In p (map fst (fold_left (fun a x => insert_sorted x a) l acc)) <-> In p (map fst l) \/ In p (map fst acc)).
Proof.
  induction l as [|x l IH]; intros acc H; cbn [fold_left].
  - split; [exact H|]. intro p. cbn. intuition.
  - destruct (IH (insert_sorted x acc) (insert_sorted_sorted x acc H)) as [S P]. split; [exact S|].
    intro p. rewrite P, insert_sorted_paths. cbn. intuition.
Qed.

(* ================================================================ the trie of _NodesSorter = sorted insertion *)
Lemma path_ltb_app pre a b : path_ltb (pre ++ a) (pre ++ b) = path_ltb a b.
Proof. induction pre as [|x pre IH]; [reflexivity|]. cbn [app path_ltb]. rewrite Nat.ltb_irrefl, Nat.eqb_refl. exact IH. Qed.
Lemma path_eqb_app pre a b : path_eqb (pre ++ a) (pre ++ b) = path_eqb a b.
Proof. induction pre as [|x pre IH]; [reflexivity|]. cbn [app path_eqb]. rewrite Nat.eqb_refl. exact IH. Qed.
Lemma path_ltb_irrefl p : path_ltb p p = false.
Proof. induction p as [|x p IH]; [reflexivity|]. cbn [path_ltb]. rewrite Nat.ltb_irrefl, Nat.eqb_refl. exact IH. Qed.
Lemma path_ltb_asym a : forall b, path_ltb a b = true -> path_ltb b a = false /\ path_eqb b a = false.
Proof.
  induction a as [|x a IH]; intros [|y b]; cbn [path_ltb path_eqb]; intro H; try discriminate; auto.
  apply orb_prop in H as [H|H].
  - apply Nat.ltb_lt in H. split.
    + apply orb_false_intro; [apply Nat.ltb_ge; lia|]. destruct (Nat.eqb_spec y x); [lia|reflexivity].
    + destruct (Nat.eqb_spec y x); [lia|reflexivity].
  - apply andb_prop in H as [E H]. apply Nat.eqb_eq in E. subst. destruct (IH b H) as [H1 H2].
    rewrite Nat.ltb_irrefl, Nat.eqb_refl, H1, H2. auto.
Qed.

(* the members of a trie below the position `pre`, keys strictly ascending *)
Inductive twf : npath -> strie -> Prop :=
| twf_intro pre x items :
    (forall n, x = Some n -> fst n = pre) ->
    StronglySorted lt (map fst items) ->
    (forall k sub, In (k, sub) items -> twf (pre ++ [k]) sub) ->
    twf pre (STrie x items).

Lemma emit_prefix : forall t pre, twf pre t -> forall y, In y (strie_emit t) -> exists q, fst y = pre ++ q.
Proof.
  fix IH 3. intros t pre H y Hy. destruct H as [pre x items Hx Hs Hsub]. cbn in Hy. apply in_app_or in Hy as [Hy|Hy].
  - destruct x as [n|]; [|contradiction]. destruct Hy as [<-|[]]. exists []. rewrite app_nil_r. apply Hx. reflexivity.
  - apply in_flat_map in Hy as ([k sub] & Hin & Hy). cbn in Hy.
    destruct (IH sub (pre ++ [k]) (Hsub k sub Hin) y Hy) as (q & Hq). exists (k :: q). rewrite Hq, <- app_assoc. reflexivity.
Qed.

Lemma insert_lt_all n l : (forall y, In y l -> path_ltb (fst n) (fst y) = true) -> insert_sorted n l = n :: l.
Proof. destruct l as [|y l]; intro H; [reflexivity|]. cbn. rewrite (H y (or_introl eq_refl)). reflexivity. Qed.
Lemma insert_app_gt n : forall l tail, (forall y, In y tail -> path_ltb (fst n) (fst y) = true) ->
  insert_sorted n (l ++ tail) = insert_sorted n l ++ tail.
Proof.
  induction l as [|x l IH]; intros tail H; [apply insert_lt_all; exact H|]. cbn.
  destruct (path_ltb (fst n) (fst x)); [reflexivity|]. destruct (path_eqb (fst n) (fst x)); [reflexivity|].
  cbn. f_equal. apply IH. exact H.
Qed.
Lemma insert_app_lt n : forall l tail, (forall y, In y l -> path_ltb (fst y) (fst n) = true) ->
  insert_sorted n (l ++ tail) = l ++ insert_sorted n tail.
Proof.
  induction l as [|x l IH]; intros tail H; [reflexivity|]. cbn.
  destruct (path_ltb_asym _ _ (H x (or_introl eq_refl))) as [H1 H2]. rewrite H1, H2. f_equal.
  apply IH. intros; apply H; right; assumption.
Qed.

Lemma emit_add_empty : forall p n, strie_emit (strie_add p n (STrie None [])) = [n].
Proof. induction p as [|k p IH]; intro n; cbn; [reflexivity|]. rewrite IH. reflexivity. Qed.
Lemma twf_add_empty : forall p pre n, fst n = pre ++ p -> twf pre (strie_add p n (STrie None [])).
Proof.
  induction p as [|k p IH]; intros pre n H; cbn.
  - constructor; [intros ? E; inversion E; subst; rewrite H, app_nil_r; reflexivity|constructor|intros ? ? []].
  - constructor; [discriminate|repeat constructor|].
    intros k' sub [E|[]]. inversion E; subst. apply IH. rewrite H, <- app_assoc. reflexivity.
Qed.

(* comparing a member below key k' with one that belongs below key k *)
Lemma key_cmp pre k rest k' q :
  path_ltb (pre ++ k :: rest) (pre ++ k' :: q) = Nat.ltb k k' || (Nat.eqb k k' && path_ltb rest q).
Proof. rewrite path_ltb_app. reflexivity. Qed.

Lemma lt_keys (n y : nd) pre k rest k' q :
  fst n = pre ++ k :: rest -> fst y = pre ++ k' :: q -> k < k' -> path_ltb (fst n) (fst y) = true.
Proof. intros H1 H2 H. rewrite H1, H2, key_cmp. apply Nat.ltb_lt in H. rewrite H. reflexivity. Qed.
Lemma lt_prefix (n y : nd) pre k q : fst n = pre -> fst y = pre ++ k :: q -> path_ltb (fst n) (fst y) = true.
Proof. intros H1 H2. rewrite H1, H2. rewrite <- (app_nil_r pre) at 1. rewrite path_ltb_app. reflexivity. Qed.

Lemma add_emit : forall p pre t n, twf pre t -> fst n = pre ++ p ->
  strie_emit (strie_add p n t) = insert_sorted n (strie_emit t) /\ twf pre (strie_add p n t).
Proof.
  induction p as [|k rest IH]; intros pre [x items] n Hw Hn; inversion Hw as [? ? ? Hx Hs Hsub]; subst.
  - (* the member belongs to this very trie node *)
    rewrite app_nil_r in Hn. cbn [strie_add strie_emit]. split.
    + assert (Hall : forall y, In y (flat_map (fun kv => strie_emit (snd kv)) items) -> path_ltb (fst n) (fst y) = true).
      { intros y Hy. apply in_flat_map in Hy as ([k sub] & Hin & Hy). cbn in Hy.
        destruct (emit_prefix sub _ (Hsub k sub Hin) y Hy) as (q & Hq). rewrite <- app_assoc in Hq.
        eapply lt_prefix; eauto. }
      destruct x as [n0|]; cbn.
      * match goal with |- context [if path_ltb ?a ?b then _ else _] =>
          assert (A : path_ltb a b = false) by
            (transitivity (path_ltb pre pre); [f_equal; [exact Hn|exact (Hx n0 eq_refl)]|apply path_ltb_irrefl]);
          assert (B : path_eqb a b = true) by
            (transitivity (path_eqb pre pre); [f_equal; [exact Hn|exact (Hx n0 eq_refl)]|apply path_eqb_refl]);
          rewrite A, B end. reflexivity.
      * symmetry. apply insert_lt_all. exact Hall.
    + constructor; [intros n' E; injection E as <-; exact Hn|exact Hs|exact Hsub].
  - (* below key k *)
    cbn [strie_add]. set (go := fix go (l : list (nat * strie)) : list (nat * strie) := _).
    assert (Hgo : forall items, StronglySorted lt (map fst items) -> (forall k' sub, In (k', sub) items -> twf (pre ++ [k']) sub) ->
              flat_map (fun kv => strie_emit (snd kv)) (go items) = insert_sorted n (flat_map (fun kv => strie_emit (snd kv)) items) /\
              StronglySorted lt (map fst (go items)) /\ (forall k' sub, In (k', sub) (go items) -> twf (pre ++ [k']) sub) /\
              (forall lo, Forall (lt lo) (map fst items) -> lo < k -> Forall (lt lo) (map fst (go items)))).
    { clear Hs Hsub Hw Hx x items. induction items as [|[k' sub] r IHr]; intros Hs Hsub.
      - cbn. rewrite emit_add_empty. repeat split; [repeat constructor| |intros lo _ Hlo; repeat constructor; exact Hlo].
        intros k' sub [E|[]]. inversion E; subst. apply twf_add_empty. rewrite Hn, <- app_assoc. reflexivity.
      - cbn [map fst] in Hs. inversion Hs as [|? ? Hs' Hlt]; subst.
        assert (Hsub' : forall k'' s, In (k'', s) r -> twf (pre ++ [k'']) s) by (intros; apply Hsub; right; assumption).
        assert (Hr_gt : forall y, In y (flat_map (fun kv => strie_emit (snd kv)) r) -> exists k'' q, k' < k'' /\ fst y = pre ++ k'' :: q).
        { intros y Hy. apply in_flat_map in Hy as ([k'' s] & Hin & Hy). cbn in Hy.
          destruct (emit_prefix s _ (Hsub' k'' s Hin) y Hy) as (q & Hq). exists k'', q. split; [|rewrite Hq, <- app_assoc; reflexivity].
          rewrite Forall_forall in Hlt. apply Hlt. apply in_map_iff. exists (k'', s). auto. }
        assert (Hsub_k : forall y, In y (strie_emit sub) -> exists q, fst y = pre ++ k' :: q).
        { intros y Hy. destruct (emit_prefix sub _ (Hsub k' sub (or_introl eq_refl)) y Hy) as (q & Hq). exists q. rewrite Hq, <- app_assoc. reflexivity. }
        cbn [go]. fold go. cbn [flat_map snd]. destruct (Nat.eqb_spec k' k) as [->|Hne].
        + (* the same key: into the sub-trie *)
          destruct (IH (pre ++ [k]) sub n (Hsub k sub (or_introl eq_refl))) as [He Hwf]; [rewrite Hn, <- app_assoc; reflexivity|].
          cbn [flat_map snd map fst]. rewrite He. repeat split.
          * symmetry. apply insert_app_gt. intros y Hy. destruct (Hr_gt y Hy) as (k'' & q & Hk & Hq). eapply lt_keys; eauto.
          * constructor; assumption.
          * intros k'' s [E|Hin]; [inversion E; subst; exact Hwf|auto].
          * intros lo Hf _. exact Hf.
        + destruct (Nat.ltb_spec k k') as [Hlt'|Hge].
          * (* a new sub-trie before this one *)
            cbn [flat_map snd map fst]. rewrite emit_add_empty. repeat split.
            -- symmetry. cbn [app]. apply insert_lt_all. intros y Hy. apply in_app_or in Hy as [Hy|Hy].
               ++ destruct (Hsub_k y Hy) as (q & Hq). eapply lt_keys; eauto.
               ++ destruct (Hr_gt y Hy) as (k'' & q & Hk & Hq). eapply lt_keys; eauto. lia.
            -- constructor; [constructor; assumption|]. constructor; [exact Hlt'|].
               eapply Forall_impl; [|exact Hlt]. intros; lia.
            -- intros k'' s [E|Hin]; [inversion E; subst; apply twf_add_empty; rewrite Hn, <- app_assoc; reflexivity|apply Hsub; exact Hin].
            -- intros lo Hf Hlo. constructor; [exact Hlo|exact Hf].
          * (* later *)
            assert (Hk'k : k' < k) by lia.
            destruct (IHr Hs' Hsub') as (He & Hsr & Hwr & Hlo).
            cbn [flat_map snd map fst]. rewrite He. repeat split.
            -- symmetry. apply insert_app_lt. intros y Hy. destruct (Hsub_k y Hy) as (q & Hq). eapply lt_keys; eauto.
            -- constructor; [exact Hsr|]. apply Hlo; assumption.
            -- intros k'' s [E|Hin]; [inversion E; subst; apply Hsub; left; reflexivity|auto].
            -- intros lo Hf Hlo'. cbn [map fst] in Hf. inversion Hf; subst. constructor; [assumption|]. apply Hlo; assumption. }
    destruct (Hgo items Hs Hsub) as (He & Hs2 & Hw2 & _). split.
    + cbn [strie_emit]. rewrite He. destruct x as [n0|]; [|reflexivity]. cbn [app].
      assert (Hlt0 : path_ltb (fst n0) (fst n) = true) by (eapply lt_prefix; [exact (Hx n0 eq_refl)|exact Hn]).
      destruct (path_ltb_asym _ _ Hlt0) as [H1 H2]. cbn [insert_sorted].
      match goal with |- context [if path_ltb ?a ?b then _ else _] =>
        replace (path_ltb a b) with false by (symmetry; exact H1); replace (path_eqb a b) with false by (symmetry; exact H2) end.
      reflexivity.
    + constructor; assumption.
Qed.

Lemma fold_trie_is_insertion : forall l t acc, twf [] t -> strie_emit t = acc ->
  strie_emit (fold_left (fun t x => strie_add (fst x) x t) l t) = fold_left (fun a x => insert_sorted x a) l acc.
Proof.
  induction l as [|x l IH]; intros t acc Hw He; [exact He|]. cbn [fold_left].
  destruct (add_emit (fst x) [] t x Hw eq_refl) as [E W]. apply IH; [exact W|]. rewrite E, He. reflexivity.
Qed.
(* the trie sorter is insertion into a list kept sorted by position *)
Lemma in_document_order_is_insertion l :
  in_document_order l = if forallb is_tagnode l then Ok (fold_left (fun a x => insert_sorted x a) l []) else Crash NotImplementedError.
Proof.
  unfold in_document_order. destruct (forallb is_tagnode l); [|reflexivity]. f_equal.
  apply fold_trie_is_insertion; [|reflexivity]. constructor; [discriminate|constructor|intros ? ? []].
Qed.

(* in_document_order: refuses anything but tag nodes (NotImplementedError); otherwise the same positions, strictly
   increasing in document order *)
Lemma in_document_order_sorted l r : in_document_order l = Ok r ->
  forallb is_tagnode l = true /\ sorted r = true /\ (forall p, In p (map fst r) <-> In p (map fst l)).
Proof.
  rewrite in_document_order_is_insertion. destruct (forallb is_tagnode l) eqn:E; [|discriminate]. intro H. inversion H; subst.
  destruct (fold_insert_sorted l [] eq_refl) as [S P]. split; [reflexivity|]. split; [exact S|].
  intro p. rewrite P. cbn. intuition.
Qed.
Lemma in_document_order_refuses l : forallb is_tagnode l = false -> in_document_order l = Crash NotImplementedError.
Proof. rewrite in_document_order_is_insertion. intros ->. reflexivity. Qed.
