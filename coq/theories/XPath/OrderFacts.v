(* C06_order: QueryResults.in_document_order lists tag results sorted by document position. *)
From Coq Require Import Lia.
From Delb.Base Require Import PyStr.
From Delb.Tree Require Import ATree ITree.
From Delb.XPath Require Import Ast Nav Eval EvalRef.

Fixpoint sorted (l : list nd) : bool :=
  match l with
  | x :: r => match r with y :: _ => path_ltb (fst x) (fst y) && sorted r | [] => true end
  | [] => true
  end.

Lemma path_trich a : forall b, path_ltb a b = false -> path_eqb a b = false -> path_ltb b a = true.
Proof.
  induction a as [|x a IH]; intros [|y b]; cbn [path_ltb path_eqb]; intros H1 H2; try discriminate; try reflexivity.
  apply orb_false_elim in H1 as [H1 H3]. apply Nat.ltb_ge in H1.
  destruct (Nat.eqb_spec x y) as [->|Hn].
  - rewrite Nat.eqb_refl in *. cbn [andb] in *. rewrite (IH b H3 H2). apply orb_true_r.
  - assert (Hlt : y < x) by lia. apply Nat.ltb_lt in Hlt. rewrite Hlt. reflexivity.
Qed.

Lemma insert_sorted_head x l : sorted l = true ->
  match insert_sorted x l with
  | h :: _ => fst h = fst x \/ (exists y r, l = y :: r /\ fst h = fst y /\ path_ltb (fst y) (fst x) = true)
  | [] => False
  end.
Proof.
  destruct l as [|y r]; cbn; intro H; [left; reflexivity|].
  destruct (path_ltb (fst x) (fst y)) eqn:E1; [left; reflexivity|].
  destruct (path_eqb (fst x) (fst y)) eqn:E2; [left; reflexivity|].
  right. exists y, r. repeat split. apply path_trich; assumption.
Qed.

Lemma sorted_cons_fst x x' r : fst x = fst x' -> sorted (x :: r) = sorted (x' :: r).
Proof. intro E. cbn. destruct r; [reflexivity|]. rewrite E. reflexivity. Qed.

Lemma insert_sorted_sorted x : forall l, sorted l = true -> sorted (insert_sorted x l) = true.
Proof.
  induction l as [|y r IH]; intro H; [reflexivity|].
  cbn [insert_sorted]. destruct (path_ltb (fst x) (fst y)) eqn:E1.
  - cbn [sorted]. rewrite E1. exact H.
  - destruct (path_eqb (fst x) (fst y)) eqn:E2.
    + apply path_eqb_eq in E2. etransitivity; [exact (sorted_cons_fst x y r E2)|exact H].
    + assert (Hyx : path_ltb (fst y) (fst x) = true) by (apply path_trich; assumption).
      assert (Hr : sorted r = true) by (cbn in H; destruct r; [reflexivity|apply andb_prop in H; tauto]).
      specialize (IH Hr). pose proof (insert_sorted_head x r Hr) as Hh.
      cbn [sorted]. destruct (insert_sorted x r) as [|h t] eqn:Ei; [contradiction|].
      rewrite IH, andb_true_r. destruct Hh as [-> | (z & r' & -> & -> & _)]; [exact Hyx|].
      cbn in H. apply andb_prop in H. tauto.
Qed.

Lemma insert_sorted_paths x : forall l p,
  In p (map fst (insert_sorted x l)) <-> p = fst x \/ In p (map fst l).
Proof.
  induction l as [|y r IH]; intro p; cbn [insert_sorted].
  - cbn. intuition.
  - destruct (path_ltb (fst x) (fst y)); [cbn; intuition|].
    destruct (path_eqb (fst x) (fst y)) eqn:E.
    + apply path_eqb_eq in E. cbn. rewrite <- E. intuition.
    + cbn [map In]. rewrite IH. intuition.
Qed.

Lemma fold_insert_sorted : forall l acc, sorted acc = true ->
  sorted (fold_left (fun a x => insert_sorted x a) l acc) = true /\
  (forall p, In p (map fst (fold_left (fun a x => insert_sorted x a) l acc)) <-> In p (map fst l) \/ In p (map fst acc)).
Proof.
  induction l as [|x l IH]; intros acc H; cbn [fold_left].
  - split; [exact H|]. intro p. cbn. intuition.
  - destruct (IH (insert_sorted x acc) (insert_sorted_sorted x acc H)) as [S P]. split; [exact S|].
    intro p. rewrite P, insert_sorted_paths. cbn. intuition.
Qed.

(* in_document_order: refuses anything but tag nodes (NotImplementedError); otherwise the same positions, strictly
   increasing in document order *)
Lemma in_document_order_sorted l r : in_document_order l = Ok r ->
  forallb is_tagnode l = true /\ sorted r = true /\ (forall p, In p (map fst r) <-> In p (map fst l)).
Proof.
  unfold in_document_order. destruct (forallb is_tagnode l) eqn:E; [|discriminate]. intro H. inversion H; subst.
  destruct (fold_insert_sorted l [] eq_refl) as [S P]. split; [reflexivity|]. split; [exact S|].
  intro p. rewrite P. cbn. intuition.
Qed.
Lemma in_document_order_refuses l : forallb is_tagnode l = false -> in_document_order l = Crash NotImplementedError.
Proof. unfold in_document_order. intros ->. reflexivity. Qed.
