(* Bounded exhaustive sweeps, checked by the kernel's VM: for every string over the alphabet up to
   the bound, if the parser model leaves through a crash site, the string is in that site's class
   (Classify.v).  The unbounded statement  forall s, site_in_class s = true  is not proved; the
   check compares site and class on every generated case of every run. *)
From Coq Require Import List NArith Bool.
From Delb.Base Require Import PyStr.
From Delb.XPath Require Import XBase Tok Ast Parse ParseFacts Classify.
Import ListNotations.

Definition crash_free (s : str) : bool := match parse s with OCrash _ => false | _ => true end.
Definition site_in_class (s : str) : bool :=
  match parse s with OCrash c => existsb (N.eqb (site_cls c)) (classes_of s) | _ => true end.

Fixpoint words (alpha : list N) (k : nat) : list str :=
  match k with O => [[]] | S k' => [] :: flat_map (fun w => map (fun c => c :: w) alpha) (words alpha k') end.

(* a / [ ] ( ) , = @ 1 | : . *  *)
Definition alpha14 : list N := [97; 47; 91; 93; 40; 41; 44; 61; 64; 49; 124; 58; 46; 42]%N.
(* a / [ ] ( ) , = *)
Definition alpha8 : list N := [97; 47; 91; 93; 40; 41; 44; 61]%N.

Lemma sweep_14_3 : forallb site_in_class (words alpha14 3) = true.
Proof. vm_cast_no_check (eq_refl true). Qed.
Lemma sweep_8_5 : forallb site_in_class (words alpha8 5) = true.
Proof. vm_cast_no_check (eq_refl true). Qed.

Lemma words_complete alpha : forall k w, length w <= k -> Forall (fun c => In c alpha) w -> In w (words alpha k).
Proof.
  induction k as [|k IH]; intros w Hl Hw.
  - destruct w; [left; reflexivity|cbn in Hl; inversion Hl].
  - destruct w as [|c w]; [left; reflexivity|]. right. cbn in Hl. inversion Hw; subst.
    apply in_flat_map. exists w. split; [apply IH; [apply le_S_n, Hl|assumption]|].
    apply in_map_iff. exists c. split; [reflexivity|assumption].
Qed.

Lemma sites_in_classes_bounded s :
  (length s <= 3 /\ Forall (fun c => In c alpha14) s) \/ (length s <= 5 /\ Forall (fun c => In c alpha8) s) ->
  site_in_class s = true.
Proof.
  intros [[Hl Hw]|[Hl Hw]].
  - pose proof sweep_14_3 as H. rewrite forallb_forall in H. apply H, words_complete; assumption.
  - pose proof sweep_8_5 as H. rewrite forallb_forall in H. apply H, words_complete; assumption.
Qed.


Lemma total_partial s : crash_free s = true ->
  (exists e, parse s = OOk e)
  \/ (exists p m u, parse s = ORej p m u /\ p <= length s /\ ParseFacts.renders s p m).
Proof.
  unfold crash_free. intros G. pose proof (ParseFacts.parse_from_tokenize_ok s) as H.
  destruct (parse s) as [e|p m u|c|] eqn:E; cbn in H; try discriminate; try contradiction.
  - left. eauto.
  - right. exists p, m, u. repeat split; [exact H|]. eexists. reflexivity.
Qed.
