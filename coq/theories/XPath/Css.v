(* A model of the CSS selector forms the check generates and of the XPath cssselect's GenericTranslator (called by
   delb's _css_to_xpath with prefix "descendant::") produces for them, as the AST the real parser yields for that
   string.  cssselect is third-party and stays an oracle: the model is tied to it on every run (harness/props/c06.py
   renders the selector, calls the real _css_to_xpath and the real parser, and compares the AST encodings).
   Definitions only.

     E            descendant::E                      E F     .../descendant-or-self::*/F
     ns|E, ns|*   descendant::ns:E, ns:*             E > F   .../F
     [k] [ns|k]   [@k]                               E ~ F   .../following-sibling::F
     [k="v"]      [@k = 'v']                         E, F    union
     [k^="v"]     [@k and starts-with(@k, 'v')]      #v      [@id = 'v']
     [k*="v"]     [@k and contains(@k, 'v')]         :not(c) [not(c)]
     [k!="v"]     [not(@k) or @k != 'v']             several conditions: ((c1) and (c2)) and (c3) *)
From Delb.Base Require Import PyStr.
From Delb.XPath Require Import Ast Ref.

Inductive cond :=
| CHas (p : option str) (k : str)
| CEq (k v : str) | CPrefix (k v : str) | CSub (k v : str) | CNe (k v : str)
| CId (v : str)
| CNot (c : cond).
Record simple := { s_prefix : option str; s_name : option str; s_conds : list cond }.
Inductive comb := Descendant | Child | Sibling.
Definition selector := (simple * list (comb * simple))%type.
Definition group := list selector.

Definition STR_id : str := [105;100]%N.
Definition sv (v : str) : expr := AnyValue (VStr v).
Fixpoint tr_cond (c : cond) : expr :=
  match c with
  | CHas p k => HasAttribute p k
  | CEq k v => BooleanOperator OpEq (AttributeValue None k) (sv v)
  | CPrefix k v => BooleanOperator OpAnd (HasAttribute None k) (Function FN_starts_with [AttributeValue None k; sv v])
  | CSub k v => BooleanOperator OpAnd (HasAttribute None k) (Function FN_contains [AttributeValue None k; sv v])
  | CNe k v => BooleanOperator OpOr (Function FN_not [HasAttribute None k]) (BooleanOperator OpNe (AttributeValue None k) (sv v))
  | CId v => BooleanOperator OpEq (AttributeValue None STR_id) (sv v)
  | CNot c => Function FN_not [tr_cond c]
  end.
Definition tr_conds (cs : list cond) : list expr :=
  match cs with
  | [] => []
  | c :: r => [fold_left (fun acc x => BooleanOperator OpAnd acc (tr_cond x)) r (tr_cond c)]
  end.
Definition tr_test (s : simple) : node_test :=
  match s_name s with Some n => NameMatchTest (s_prefix s) n | None => AnyNameTest (s_prefix s) end.
Definition tr_simple (a : axis) (s : simple) : step := LocationStep a (tr_test s) (tr_conds (s_conds s)).
Definition tr_comb (cs : comb * simple) : list step :=
  match fst cs with
  | Child => [tr_simple AxChild (snd cs)]
  | Descendant => [LocationStep AxDescendantOrSelf (AnyNameTest None) []; tr_simple AxChild (snd cs)]
  | Sibling => [tr_simple AxFollowingSibling (snd cs)]
  end.
Definition tr_selector (s : selector) : path :=
  LocationPath false (tr_simple AxDescendant (fst s) :: flat_map tr_comb (snd s)).
Definition css_ast (g : group) : xpath_expr := map tr_selector g.

(* the prefixes a selector uses (element and attribute namespaces) *)
Fixpoint cond_prefixes (c : cond) : list (option str) :=
  match c with CHas p _ => [p] | CNot c => cond_prefixes c | _ => [] end.
Definition simple_prefixes (s : simple) : list (option str) := s_prefix s :: flat_map cond_prefixes (s_conds s).
Definition selector_prefixes (s : selector) : list (option str) :=
  simple_prefixes (fst s) ++ flat_map (fun cs => simple_prefixes (snd cs)) (snd s).
