(* The translation of the modelled selector forms lies in the static part of the proven subset: real axes, typed
   boolean predicates, and -- with the selector's prefixes declared -- every prefix bound.  Hence css_select on them
   never raises (EvalFaults), and in_subset for them comes down to the dynamic class (j) alone. *)
From Delb.Base Require Import PyStr PyStrFacts.
From Delb.Tree Require Import ATree ITree.
From Delb.XPath Require Import Ast Nav Eval Ref Subset EvalRef EvalFaults Css.

Definition pfx_declared (m : nsmap) (p : option str) : bool :=
  match p with Some [] => false | _ => pfx_ok m p end.
Definition css_declared (m : nsmap) (g : group) : bool :=
  forallb (fun s => forallb (pfx_declared m) (selector_prefixes s)) g.

Lemma tr_cond_ty c : ty_of (tr_cond c) = Some TBool.
Proof. induction c; cbn; try reflexivity. rewrite IHc. reflexivity. Qed.
Lemma fold_and_ty : forall r e, ty_of e = Some TBool ->
  ty_of (fold_left (fun acc x => BooleanOperator OpAnd acc (tr_cond x)) r e) = Some TBool.
Proof. induction r as [|c r IH]; intros e H; [exact H|]. cbn [fold_left]. apply IH. cbn. rewrite H, tr_cond_ty. reflexivity. Qed.
Lemma tr_conds_typed cs : forallb typed_pred (tr_conds cs) = true.
Proof.
  destruct cs as [|c r]; [reflexivity|]. cbn. unfold typed_pred. rewrite (fold_and_ty r _ (tr_cond_ty c)). reflexivity.
Qed.
Lemma tr_simple_typed a s : axis_real a = true -> step_typed (tr_simple a s) = true.
Proof. intro H. cbn. rewrite H, tr_conds_typed. reflexivity. Qed.
Lemma css_typed g : typed (css_ast g) = true.
Proof.
  unfold typed, css_ast. rewrite forallb_forall. intros p Hp. apply in_map_iff in Hp as (s & <- & _).
  cbn [tr_selector path_steps forallb]. rewrite tr_simple_typed by reflexivity. cbn [andb].
  rewrite forallb_forall. intros st Hst. apply in_flat_map in Hst as (cs & _ & Hin).
  destruct cs as [[| |] sm]; cbn in Hin; repeat destruct Hin as [<-|Hin]; try contradiction;
    try (apply tr_simple_typed; reflexivity); reflexivity.
Qed.

(* bound prefixes *)
Lemma tr_cond_bound m c : forallb (pfx_declared m) (cond_prefixes c) = true -> bound m (tr_cond c) = true.
Proof.
  induction c as [p k|k v|k v|k v|k v|v|c IH]; cbn [cond_prefixes tr_cond]; intro H; try reflexivity.
  - cbn in H |- *. rewrite andb_true_r in H. unfold pfx_declared in H. destruct p as [[|? ?]|]; auto; discriminate.
  - cbn [bound]. rewrite (IH H). reflexivity.
Qed.
Lemma fold_and_bound m : forall r e, bound m e = true -> forallb (fun c => forallb (pfx_declared m) (cond_prefixes c)) r = true ->
  bound m (fold_left (fun acc x => BooleanOperator OpAnd acc (tr_cond x)) r e) = true.
Proof.
  induction r as [|c r IH]; intros e He H; [exact He|]. cbn in H. apply andb_prop in H as [H1 H2].
  cbn [fold_left]. apply IH; [|exact H2]. cbn. rewrite He, (tr_cond_bound m c H1). reflexivity.
Qed.
Lemma forallb_flat_map {A B} (f : B -> bool) (g : A -> list B) l :
  forallb f (flat_map g l) = forallb (fun x => forallb f (g x)) l.
Proof. induction l as [|x l IH]; [reflexivity|]. cbn. rewrite forallb_app, IH. reflexivity. Qed.
Lemma tr_simple_bound m a s : forallb (pfx_declared m) (simple_prefixes s) = true -> step_bound m (tr_simple a s) = true.
Proof.
  unfold simple_prefixes. cbn [forallb]. intro H. apply andb_prop in H as [H1 H2]. rewrite forallb_flat_map in H2.
  cbn [tr_simple step_bound]. apply andb_true_intro. split.
  - unfold tr_test, pfx_declared in *. destruct (s_name s); cbn; destruct (s_prefix s) as [[|? ?]|]; auto; discriminate.
  - destruct (s_conds s) as [|c r]; [reflexivity|]. cbn in H2 |- *. apply andb_prop in H2 as [Hc Hr].
    rewrite (fold_and_bound m r _ (tr_cond_bound m c Hc) Hr). reflexivity.
Qed.
Lemma css_bound m g : css_declared m g = true -> all_bound m (css_ast g) = true.
Proof.
  unfold css_declared, all_bound, css_ast. rewrite !forallb_forall. intros H p Hp. apply in_map_iff in Hp as (s & <- & Hs).
  specialize (H s Hs). unfold selector_prefixes in H. rewrite forallb_app, forallb_flat_map in H. apply andb_prop in H as [H1 H2].
  cbn [tr_selector path_steps forallb]. rewrite (tr_simple_bound m _ _ H1). cbn [andb].
  rewrite forallb_forall. intros st Hst. apply in_flat_map in Hst as (cs & Hcs & Hin).
  rewrite forallb_forall in H2. specialize (H2 cs Hcs).
  destruct cs as [[| |] sm]; cbn in Hin; repeat destruct Hin as [<-|Hin]; try contradiction;
    try (apply tr_simple_bound; exact H2); reflexivity.
Qed.

(* css_select on the modelled selector forms, with the selector's prefixes declared, never raises: for every tree,
   context node and mapping the evaluation of the translated expression returns a node list *)
Lemma css_no_fault D m g ctx : css_declared m g = true -> exists l, eval D m (css_ast g) ctx = Ok l.
Proof. intro H. apply eval_no_fault; [apply css_typed|apply css_bound; exact H]. Qed.

(* every predicate of the translation is a typed boolean with bound prefixes: the static part of in_subset *)
Lemma css_preds_ok m g : css_declared m g = true ->
  forallb (fun p => forallb (fun s => forallb (pred_ok m) (step_preds s)) (path_steps p)) (css_ast g) = true.
Proof.
  intro H. pose proof (css_bound m g H) as Hb. unfold all_bound in Hb. pose proof (css_typed g) as Ht. unfold typed in Ht.
  rewrite forallb_forall in *. intros p Hp. specialize (Hb p Hp). specialize (Ht p Hp).
  rewrite forallb_forall in *. intros s Hs. specialize (Hb s Hs). specialize (Ht s Hs).
  destruct s as [a t ps]. cbn in *. apply andb_prop in Hb as [_ Hb]. apply andb_prop in Ht as [_ Ht].
  (* the predicates of the translation are boolean *)
  unfold css_ast in Hp. apply in_map_iff in Hp as (sel & <- & _). cbn [tr_selector path_steps] in Hs.
  assert (Hps : exists cs, ps = tr_conds cs).
  { destruct Hs as [Hs|Hs]; [inversion Hs; eauto|]. apply in_flat_map in Hs as (cs & _ & Hin).
    destruct cs as [[| |] sm]; cbn in Hin; repeat destruct Hin as [Hin|Hin]; try contradiction; inversion Hin; subst; eauto; exists []; reflexivity. }
  destruct Hps as ([|c r] & ->); [reflexivity|]. cbn in Hb |- *. unfold pred_ok. rewrite (fold_and_ty r _ (tr_cond_ty c)).
  rewrite andb_true_r in Hb. rewrite Hb. reflexivity.
Qed.
