(* Concrete inputs for the C15 examples (witnesses of findings.d/C15.json, all repaired in /repo).  The `_after` trees
   are what the real implementation (at /repo HEAD 29367a2) left behind, extracted by harness/xq.py, ids aside. *)
From Delb.Base Require Import PyStr.
From Delb.Tree Require Import ATree ITree.
From Delb.XPath Require Import Ast Nav Eval FetchCreate.

(* f_ex : a[@k='1']/c[@j='x' and @k='y']/d  on  <r><a k="1"><b/></a><a k="2"/><!--c--></r>  namespaces=None ambient=default *)
Definition f_ex_tree : itree := (INode 1%N (PTag [] [114]%N []) [(INode 2%N (PTag [] [97]%N [([], [107]%N, [49]%N)]) [(INode 3%N (PTag [] [98]%N []) [])]); (INode 4%N (PTag [] [97]%N [([], [107]%N, [50]%N)]) []); (INode 5%N (PComment [99]%N) [])]).
Definition f_ex_me : nsmap := [([], [])].
Definition f_ex_mc : nsmap := [([], [])].
Definition f_ex_expr : xpath_expr := [(LocationPath false [(LocationStep AxChild (NameMatchTest None [97]%N) [(BooleanOperator OpEq (AttributeValue None [107]%N) (AnyValue (VStr [49]%N)))]); (LocationStep AxChild (NameMatchTest None [99]%N) [(BooleanOperator OpAnd (BooleanOperator OpEq (AttributeValue None [106]%N) (AnyValue (VStr [120]%N))) (BooleanOperator OpEq (AttributeValue None [107]%N) (AnyValue (VStr [121]%N))))]); (LocationStep AxChild (NameMatchTest None [100]%N) [])])].
Definition f_ex_after : itree := (INode 1%N (PTag [] [114]%N []) [(INode 2%N (PTag [] [97]%N [([], [107]%N, [49]%N)]) [(INode 3%N (PTag [] [98]%N []) []); (INode 4%N (PTag [] [99]%N [([], [106]%N, [120]%N); ([], [107]%N, [121]%N)]) [(INode 5%N (PTag [] [100]%N []) [])])]); (INode 6%N (PTag [] [97]%N [([], [107]%N, [50]%N)]) []); (INode 7%N (PComment [99]%N) [])]).
Definition f_ex_pos : npath := [0%nat; 0%nat; 1%nat; 0%nat].
(* f_dns : a[@k='1']/b  on  <r xmlns="d"/>  namespaces=None ambient=default *)
Definition f_dns_tree : itree := (INode 1%N (PTag [100]%N [114]%N [([0]%N, [], [100]%N)]) []).
Definition f_dns_me : nsmap := [([], [100]%N)].
Definition f_dns_mc : nsmap := [([], [100]%N)].
Definition f_dns_expr : xpath_expr := [(LocationPath false [(LocationStep AxChild (NameMatchTest None [97]%N) [(BooleanOperator OpEq (AttributeValue None [107]%N) (AnyValue (VStr [49]%N)))]); (LocationStep AxChild (NameMatchTest None [98]%N) [])])].
Definition f_dns_after : itree := (INode 1%N (PTag [100]%N [114]%N [([0]%N, [], [100]%N)]) [(INode 2%N (PTag [100]%N [97]%N [([], [107]%N, [49]%N); ([0]%N, [], [100]%N)]) [(INode 3%N (PTag [100]%N [98]%N [([0]%N, [], [100]%N)]) [])])]).
Definition f_dns_pos : npath := [0%nat; 0%nat; 0%nat].
(* f_abs : /other/b  on  <r/>  namespaces=None ambient=default *)
Definition f_abs_tree : itree := (INode 1%N (PTag [] [114]%N []) []).
Definition f_abs_me : nsmap := [([], [])].
Definition f_abs_mc : nsmap := [([], [])].
Definition f_abs_expr : xpath_expr := [(LocationPath true [(LocationStep AxChild (NameMatchTest None [111;116;104;101;114]%N) []); (LocationStep AxChild (NameMatchTest None [98]%N) [])])].
Definition f_abs_after : itree := (INode 1%N (PTag [] [114]%N []) []).
(* f_pfx : p:a  on  <r/>  namespaces=None ambient=default *)
Definition f_pfx_tree : itree := (INode 1%N (PTag [] [114]%N []) []).
Definition f_pfx_me : nsmap := [([], [])].
Definition f_pfx_mc : nsmap := [([], [])].
Definition f_pfx_expr : xpath_expr := [(LocationPath false [(LocationStep AxChild (NameMatchTest (Some [112]%N) [97]%N) [])])].
Definition f_pfx_after : itree := (INode 1%N (PTag [] [114]%N []) []).
(* f_amb : a/b  on  <r><a/><a/></r>  namespaces=None ambient=default *)
Definition f_amb_tree : itree := (INode 1%N (PTag [] [114]%N []) [(INode 2%N (PTag [] [97]%N []) []); (INode 3%N (PTag [] [97]%N []) [])]).
Definition f_amb_me : nsmap := [([], [])].
Definition f_amb_mc : nsmap := [([], [])].
Definition f_amb_expr : xpath_expr := [(LocationPath false [(LocationStep AxChild (NameMatchTest None [97]%N) []); (LocationStep AxChild (NameMatchTest None [98]%N) [])])].
Definition f_amb_after : itree := (INode 1%N (PTag [] [114]%N []) [(INode 2%N (PTag [] [97]%N []) []); (INode 3%N (PTag [] [97]%N []) [])]).
(* f_bad : a[1]  on  <r><a/></r>  namespaces=None ambient=default *)
Definition f_bad_tree : itree := (INode 1%N (PTag [] [114]%N []) [(INode 2%N (PTag [] [97]%N []) [])]).
Definition f_bad_me : nsmap := [([], [])].
Definition f_bad_mc : nsmap := [([], [])].
Definition f_bad_expr : xpath_expr := [(LocationPath false [(LocationStep AxChild (NameMatchTest None [97]%N) [(BooleanOperator OpEq (Function [112;111;115;105;116;105;111;110]%N []) (AnyValue (VNum 1%N)))])])].
Definition f_bad_after : itree := (INode 1%N (PTag [] [114]%N []) [(INode 2%N (PTag [] [97]%N []) [])]).
(* f_late : b/p:a  on  <r/>  namespaces=None ambient=default *)
Definition f_late_tree : itree := (INode 1%N (PTag [] [114]%N []) []).
Definition f_late_me : nsmap := [([], [])].
Definition f_late_mc : nsmap := [([], [])].
Definition f_late_expr : xpath_expr := [(LocationPath false [(LocationStep AxChild (NameMatchTest None [98]%N) []); (LocationStep AxChild (NameMatchTest (Some [112]%N) [97]%N) [])])].
Definition f_late_after : itree := (INode 1%N (PTag [] [114]%N []) []).
(* f_empty : a  on  <r xmlns="d"><a/></r>  namespaces={} ambient=default *)
Definition f_empty_tree : itree := (INode 1%N (PTag [100]%N [114]%N [([0]%N, [], [100]%N)]) [(INode 2%N (PTag [100]%N [97]%N [([0]%N, [], [100]%N)]) [])]).
Definition f_empty_me : nsmap := [].
Definition f_empty_mc : nsmap := [].
Definition f_empty_expr : xpath_expr := [(LocationPath false [(LocationStep AxChild (NameMatchTest None [97]%N) [])])].
Definition f_empty_after : itree := (INode 1%N (PTag [100]%N [114]%N [([0]%N, [], [100]%N)]) [(INode 2%N (PTag [100]%N [97]%N [([0]%N, [], [100]%N)]) []); (INode 3%N (PTag [] [97]%N [([0]%N, [], [100]%N)]) [])]).
Definition f_empty_pos : npath := [0%nat; 1%nat].
(* f_vis : a/b  on  <r><a/></r>  namespaces=None ambient=comment *)
Definition f_vis_tree : itree := (INode 1%N (PTag [] [114]%N []) [(INode 2%N (PTag [] [97]%N []) [])]).
Definition f_vis_me : nsmap := [([], [])].
Definition f_vis_mc : nsmap := [([], [])].
Definition f_vis_expr : xpath_expr := [(LocationPath false [(LocationStep AxChild (NameMatchTest None [97]%N) []); (LocationStep AxChild (NameMatchTest None [98]%N) [])])].
Definition f_vis_after : itree := (INode 1%N (PTag [] [114]%N []) [(INode 2%N (PTag [] [97]%N []) [(INode 3%N (PTag [] [98]%N []) [])])]).
Definition f_vis_pos : npath := [0%nat; 0%nat; 0%nat].
(* f_res : b/a[@xmlns='u'] on <r/> *)
Definition f_res_tree : itree := (INode 1%N (PTag [] [114]%N []) []).
Definition f_res_me : nsmap := [([120;109;108;110;115]%N, [104;116;116;112;58;47;47;119;119;119;46;119;51;46;111;114;103;47;50;48;48;48;47;120;109;108;110;115;47]%N); ([], [])].
Definition f_res_expr : xpath_expr := [(LocationPath false [(LocationStep AxChild (NameMatchTest None [98]%N) []); (LocationStep AxChild (NameMatchTest None [97]%N) [(BooleanOperator OpEq (AttributeValue None [120;109;108;110;115]%N) (AnyValue (VStr [117]%N)))])])].
Definition f_res_after : itree := (INode 1%N (PTag [] [114]%N []) []).
