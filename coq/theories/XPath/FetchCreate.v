(* Model of TagNode.fetch_or_create_by_xpath / _create_by_xpath (/repo/_delb/nodes.py) and of
   _is_unambiguously_locatable / _derived_attributes (/repo/_delb/xpath/ast.py).  Definitions only.

   Two namespace mappings occur in the code and both are inputs here: `m_eval`, what evaluate() builds for the first
   query (namespaces None -> {"": self.namespace}; a mapping, even an empty one -> that mapping), and `m_create`,
   used by _create_by_xpath.  Since fix 5732bc1 (`Namespaces({"": self.namespace}) if namespaces is None else namespaces`)
   they are the same mapping; both stay inputs of the model. *)
From Delb.Base Require Import PyStr.
From Delb.Tree Require Import ATree ITree.
From Delb.XPath Require Import Ast Nav Eval.

(* ---- _is_unambiguously_locatable *)
Fixpoint loc_expr (e : expr) : bool :=
  match e with
  | BooleanOperator OpAnd l r => loc_expr l && loc_expr r
  | BooleanOperator OpEq (AttributeValue _ _) (AnyValue (VStr _)) => true
  | BooleanOperator OpEq (AnyValue (VStr _)) (AttributeValue _ _) => true
  | _ => false
  end.
(* one predicate: itself; several: the right-nested `and` of all of them (_anders_predicates) *)
Definition loc_step (s : step) : bool :=
  match s with
  | LocationStep AxChild (NameMatchTest _ _) ps => forallb loc_expr ps
  | _ => false
  end.
Definition locatable (e : xpath_expr) : bool :=
  match e with [LocationPath _ ss] => forallb loc_step ss | _ => false end.

(* ---- _derived_attributes: (prefix or "", local name, value) in the order of the predicates; None = InvalidCodePath / assert *)
Fixpoint derived_expr (e : expr) : option (list (str * str * str)) :=
  match e with
  | BooleanOperator OpAnd l r =>
      match derived_expr l, derived_expr r with Some a, Some b => Some (a ++ b) | _, _ => None end
  | BooleanOperator OpEq (AttributeValue p a) (AnyValue (VStr v)) => Some [(opt_default [] p, a, v)]
  | BooleanOperator OpEq (AnyValue (VStr v)) (AttributeValue p a) => Some [(opt_default [] p, a, v)]
  | _ => None
  end.
Fixpoint derived_preds (ps : list expr) : option (list (str * str * str)) :=
  match ps with
  | [] => Some []
  | p :: r => match derived_expr p, derived_preds r with Some a, Some b => Some (a ++ b) | _, _ => None end
  end.

(* new_node.attributes[(namespaces.get(prefix) or "", local)] = value   on a parentless new element: the store key is
   {ns}local for a non-empty ns, else local; an existing key keeps its place *)
Fixpoint set_attr (ns local v : str) (l : list attr) : list attr :=
  match l with
  | [] => [(ns, local, v)]
  | (n, k, w) :: r => if str_eqb n ns && str_eqb k local then (n, k, v) :: r else (n, k, w) :: set_attr ns local v r
  end.
Definition new_node (m : nsmap) (parent : itree) (prefix : option str) (local : str) (ds : list (str * str * str)) : itree :=
  (* namespaces.get(node_test.prefix or ""): an unprefixed name gets the default namespace of the query (fix 0ffad18) *)
  let ns := opt_default [] (ns_get m (opt_default [] prefix)) in
  (* (namespaces[prefix] if prefix else "", local): an unprefixed attribute has no namespace, as in the evaluation *)
  let attrs := fold_left (fun acc d => let '(p, k, v) := d in
                                       set_attr (if null p then [] else opt_default [] (ns_get m p)) k v acc) ds [] in
  (* after append_children the new element inherits the parent's in-scope default namespace declaration *)
  let inherited := match in_scope_default (ipayload parent) with Some d => [(XMLNS_NS, [], d)] | None => [] end in
  INode 0%N (PTag ns local (attrs ++ inherited)) [].
(* TagAttributes.__setitem__ validates the name that is going to be stored (/repo 528fc02, 139ed14): ValueError for the
   local name `xmlns` and for the namespace of namespace declarations.  The assignment happens on the new element
   before it is appended. *)
Definition STR_xmlns : str := [120;109;108;110;115]%N.
Definition XMLNS_URI : str :=
  [104;116;116;112;58;47;47;119;119;119;46;119;51;46;111;114;103;47;50;48;48;48;47;120;109;108;110;115;47]%N.
Definition reserved_attr (m : nsmap) (d : str * str * str) : bool :=
  let '(p, k, _) := d in
  str_eqb k STR_xmlns || str_eqb (if null p then [] else opt_default [] (ns_get m p)) XMLNS_URI.
Definition unreserved (m : nsmap) (s : step) : bool :=
  match s with
  | LocationStep _ _ ps => match derived_preds ps with Some ds => negb (existsb (reserved_attr m) ds) | None => true end
  end.

(* the prefixes of the name test and of the derived attributes are declared (fixes f228380, 8d47eb7) *)
Definition prefixes_declared (m : nsmap) (prefix : option str) (ds : list (str * str * str)) : bool :=
  forallb (fun p => null p || match ns_get m p with Some _ => true | None => false end)
          (opt_default [] prefix :: map (fun d => fst (fst d)) ds).

(* ---- the tree after node.append_children(new).  fetch_or_create_by_xpath does not reset the ambient default filters,
   and append_children adds after the LAST VISIBLE child (`self.last_child` under the caller's filters; DESIGN.md
   finding 27): with the default filter (tag or text nodes) a new element lands before trailing comments and
   processing instructions; when no child is visible it goes to the end.  `vis` is the ambient filter. *)
Fixpoint last_visible (vis : itree -> bool) (l : list itree) (i : nat) (acc : option nat) : option nat :=
  match l with [] => acc | x :: r => last_visible vis r (S i) (if vis x then Some i else acc) end.
Definition insert_index (vis : itree -> bool) (kids : list itree) : nat :=
  match last_visible vis kids 0 None with Some i => S i | None => length kids end.
Definition insert_nth {A} (i : nat) (x : A) (l : list A) : list A := firstn i l ++ x :: skipn i l.
Definition default_vis (t : itree) : bool :=            (* _is_tag_or_text_node *)
  match ipayload t with PTag _ _ _ | PText _ => true | _ => false end.
(* the ambient filter lets every tag node through (true of the default filter; not of is_text_node, is_comment_node) *)
Definition tags_visible (vis : itree -> bool) : Prop :=
  forall t, match ipayload t with PTag _ _ _ => true | _ => false end = true -> vis t = true.

Fixpoint update_nth {A} (f : A -> A) (i : nat) (l : list A) : list A :=
  match l, i with
  | [], _ => []
  | x :: r, O => f x :: r
  | x :: r, S j => x :: update_nth f j r
  end.
Definition set_kid (t : itree) (i : nat) (k : itree) : itree :=
  match t with INode id p kids => INode id p (update_nth (fun _ => k) i kids) end.
Definition insert_kid (t : itree) (i : nat) (k : itree) : itree :=
  match t with
  | INode id (PTag a b c) kids => INode id (PTag a b c) (insert_nth i k kids)
  | _ => t
  end.
(* the tree with the subtree at relative position q replaced *)
Fixpoint replace_at (t : itree) (q : npath) (new : itree) : itree :=
  match q with
  | [] => new
  | j :: q' => match t with INode i p kids => INode i p (update_nth (fun k => replace_at k q' new) j kids) end
  end.

(* ---- _create_by_xpath.  The code walks a pointer `node` down the tree, one step at a time, and mutates at the point
   where a step has no candidate; functionally: descend into the unique candidate and rebuild on the way back.
   `t0` is the subtree at the current node, `pos` its position ([] = the _DocumentNode).  The result carries the
   subtree afterwards (also at the moment of an exception: a fault after a creation leaves the tree CHANGED) and the
   position of the returned node. *)
(* the candidates the caller's ambient filter lets through; _DocumentNode.iterate_children ignores filters *)
Definition visible_from (vis : itree -> bool) (pos : npath) (l : list nd) : list nd :=
  match pos with [] => l | _ :: _ => filter (fun x => vis (snd x)) l end.

Inductive cres := COk (t' : itree) (p : npath) | CFault (t' : itree) (f : fault).

Fixpoint create_in (vis : itree -> bool) (m : nsmap) (ss : list step) (pos : npath) (t0 : itree) : cres :=
  match ss with
  | [] => COk t0 pos
  | s :: r =>
      (* step.evaluate(node_set=(node,), namespaces) under the filter `vis` in force (until fix 29367a2 the caller's ambient one; now
         none: foc passes all_vis): iterate_children
         passes only the children the filter lets through (for the accepted steps, whose predicates do not look at
         positions, that is the unfiltered result with the invisible nodes removed); the _DocumentNode yields the root regardless *)
      let '(l0, fo) := d_step t0 m s ([(pos, t0)], None) in
      match fo with
      | Some f => CFault t0 f
      | None =>
      match visible_from vis pos l0 with
      | [] =>
          match pos, s with
          | [], _ => CFault t0 (FRejected InvalidOperation)   (* the root doesn't match the first step (fix b721705) *)
          | _ :: _, LocationStep _ (NameMatchTest prefix local) ps =>
              match derived_preds ps with
              | Some ds =>
                  (* the assignment validates the name again; after pre_check this cannot fail any more *)
                  if existsb (reserved_attr m) ds then CFault t0 (FRejected ValueError)
                  else
                  let idx := insert_index vis (tkids t0) in
                  (* node.append_children(new_node); node = new_node; the remaining steps run on the new node *)
                  match create_in vis m r (pos ++ [idx]) (new_node m t0 prefix local ds) with
                  | COk n' p => COk (insert_kid t0 idx n') p
                  | CFault n' f => CFault (insert_kid t0 idx n') f
                  end
              | None => CFault t0 (FCrash OtherError)          (* InvalidCodePath *)
              end
          | _, _ => CFault t0 (FCrash AssertionError)          (* assert isinstance(node_test, NameMatchTest) *)
          end
      | [x] =>
          match create_in vis m r (fst x) (snd x) with
          | COk k' p => COk (set_kid t0 (last (fst x) 0) k') p
          | CFault k' f => CFault (set_kid t0 (last (fst x) 0) k') f
          end
      | _ => CFault t0 (FRejected AmbiguousTreeError)
      end
      end
  end.

(* before anything is created: the prefixes and the attribute names of ALL steps (fixes 8d47eb7, 675c8b0); None = no objection *)
Fixpoint pre_check (m : nsmap) (ss : list step) : option fault :=
  match ss with
  | [] => None
  | LocationStep _ (NameMatchTest prefix _) ps :: r =>
      match derived_preds ps with
      | Some ds =>
          if prefixes_declared m prefix ds
          then (* TagAttributes._validate_name for every derived attribute: nothing may fail after a creation (fix 675c8b0) *)
               if existsb (reserved_attr m) ds then Some (FRejected ValueError) else pre_check m r
          else Some (FRejected XPathEvaluationError)
      | None => Some (FCrash OtherError)                   (* InvalidCodePath *)
      end
  | _ :: _ => Some (FCrash AssertionError)                  (* assert isinstance(step.node_test, NameMatchTest) *)
  end.

Inductive foc_res :=
| FocOk (root' : itree) (p : npath)            (* the tree afterwards, the position of the returned node *)
| FocFault (root' : itree) (f : fault).        (* the tree at the moment of the exception *)

Definition doc_root (D' : itree) (dflt : itree) : itree := match tkids D' with r :: _ => r | [] => dflt end.

(* `vis`, the caller's ambient filter, no longer matters: _create_by_xpath is decorated with @altered_default_filters()
   since fix 29367a2, so the creation walk and its append_children run with no filter (every child is visible, the new
   element goes to the very end).  The parameter is kept so that the theorems can say "for every ambient filter". *)
Definition all_vis (t : itree) : bool := true.
Definition foc (vis : itree -> bool) (root : itree) (m_eval m_create : nsmap) (e : xpath_expr) (ctx : npath) : foc_res :=
  let D := docnode root in
  if negb (locatable e) then FocFault root (FRejected ValueError)
  else match eval D m_eval e (ctx, opt_default D (subtree D ctx)) with
       | Fault f => FocFault root f
       | Ok [x] => FocOk root (fst x)
       | Ok (_ :: _ :: _) => FocFault root (FRejected AmbiguousTreeError)
       | Ok [] =>
           match e, ctx with
           | LocationPath true ss :: _, _ =>
               match pre_check m_create ss with Some f => FocFault root f | None =>
               match create_in all_vis m_create ss [] D with
               | COk D' p => FocOk (doc_root D' root) p
               | CFault D' f => FocFault (doc_root D' root) f
               end end
           | LocationPath false ss :: _, _ :: q =>
               match pre_check m_create ss with Some f => FocFault root f | None =>
               match create_in all_vis m_create ss ctx (opt_default root (subtree root q)) with
               | COk t' p => FocOk (replace_at root q t') p
               | CFault t' f => FocFault (replace_at root q t') f
               end end
           | _, _ => FocFault root (FCrash OtherError)
           end
       end.

(* ---- the domain of the theorems *)
(* no default namespace is in effect for the query (finding C15-default-namespace) and every prefix is declared *)
Definition default_free (m : nsmap) : bool := null (opt_default [] (ns_get m [])).
