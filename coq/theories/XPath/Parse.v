(* Model of /repo/_delb/xpath/parser.py and of the Axis / Function constructors of ast.py, a
   transliteration of the validated blueprint design_probes/xp_model.py.  Definitions only
   (facts: ParseFacts.v, statements: Props/C16.v).

   Every partial operation of the code is explicit: it either is a crash `site` (XBase.v) or one of
   the two generic sites S_guarded_index / S_guarded_assert used for `tokens[k]` and
   `assert isinstance(tokens[k], ...)` directly after a successful pattern match (proved unreachable).
   `model_audit` at the end states, per function of the source, how many operations of each kind
   this model accounts for; ParseFacts.audit_ok proves it equal to the table regenerated from the
   source on every run, so a new subscript / assert / pop / lookup / int() breaks that lemma.

   Recursion: group_enclosed_expressions recurses on a strictly shorter slice of its token list,
   parse_evaluation_expression on token lists with strictly fewer tokens; both take fuel, and
   ParseFacts proves that `S (length expression)` is enough (PFuel never is the result of parse). *)
From Coq Require Import List NArith Arith Bool.
From Delb.Base Require Import PyStr.
From Delb.XPath Require Import XBase Tok TTree Ast.
From Delb.Gen Require Import GenXPath GenXPathFns.
Import ListNotations.


(* number of tokens *)
Fixpoint tsize (t : ttree) : nat :=
  match t with
  | TT _ => 1
  | TG l => (fix ls (l : list ttree) : nat := match l with [] => 0 | x :: r => tsize x + ls r end) l
  end.
Fixpoint lsize (l : list ttree) : nat := match l with [] => 0 | x :: r => tsize x + lsize r end.

(* ---- pattern matching on token lists ------------------------------------------------------- *)
Definition pattern := list (option tkind).            (* None matches an enclosed expression *)

Fixpoint compare_tokens_with_pattern (tokens : list ttree) (pat : pattern) : bool :=
  match tokens, pat with
  | t :: ts, p :: ps =>
      match t, p with
      | TT x, Some k => tkind_eqb (t_kind x) k && compare_tokens_with_pattern ts ps
      | TG _, None => compare_tokens_with_pattern ts ps
      | _, _ => false
      end
  | _, _ => true                                      (* zip stops at the shorter one *)
  end.
Definition all_tokens_match (tokens : list ttree) (pat : pattern) : bool :=
  Nat.eqb (length tokens) (length pat) && compare_tokens_with_pattern tokens pat.
Definition initial_tokens_match (tokens : list ttree) (pat : pattern) : bool :=
  Nat.leb (length pat) (length tokens) && compare_tokens_with_pattern tokens pat.

(* tokens[k] + assert isinstance(tokens[k], Token)  /  Sequence, after a pattern match *)
Definition nth_tok (tokens : list ttree) (k : nat) : pres token :=
  match nth_error tokens k with
  | None => PCrash S_guarded_index
  | Some (TT t) => POk t
  | Some (TG _) => PCrash S_guarded_assert
  end.
Definition nth_group (tokens : list ttree) (k : nat) : pres (list ttree) :=
  match nth_error tokens k with
  | None => PCrash S_guarded_index
  | Some (TG g) => POk g
  | Some (TT _) => PCrash S_guarded_assert
  end.

Definition is_tok_kind (k : tkind) (t : ttree) : bool :=
  match t with TT x => tkind_eqb (t_kind x) k | TG _ => false end.

Fixpoint assoc_kind {A} (k : tkind) (l : list (tkind * A)) : option A :=
  match l with [] => None | (k', v) :: r => if tkind_eqb k k' then Some v else assoc_kind k r end.

(* ---- group_enclosed_expressions ------------------------------------------------------------ *)
Definition is_opener (t : token) : bool :=
  tkind_eqb (t_kind t) OPEN_BRACKET || tkind_eqb (t_kind t) OPEN_PARENS.
Definition is_closer (t : token) : bool :=
  tkind_eqb (t_kind t) CLOSE_BRACKET || tkind_eqb (t_kind t) CLOSE_PARENS.

(* the for loop; `rec` is the recursive call, `tokens` the whole argument (for the slice),
   `rest` what is still to be visited, i its index; openers: top of the stack first *)
Fixpoint group_loop (rec : list token -> pres (list ttree)) (tokens rest : list token) (i : nat)
         (result : list ttree) (openers : list (nat * token)) {struct rest} : pres (list ttree) :=
  match rest with
  | [] =>
      match openers with
      | (_, tok) :: _ => PRej (mkXpe (Some (t_pos tok)) (msg_group_enclosed_expressions_2 (t_str tok)) false)
      | [] => POk result
      end
  | tok :: rest' =>
      if is_opener tok then group_loop rec tokens rest' (S i) result ((i, tok) :: openers)
      else if is_closer tok then
        if null openers then
          PRej (mkXpe (Some (t_pos tok)) (msg_group_enclosed_expressions_0 (t_str tok)) false)
        else
        match openers with
        | [] => PCrash S_group_pop
        | (start_pos, start_token) :: openers' =>
            match assoc_kind (t_kind start_token) complementing with
            | None => PCrash S_group_complement
            | Some k =>
                if negb (tkind_eqb (t_kind tok) k) then
                  PRej (mkXpe (Some (t_pos tok))
                              (msg_group_enclosed_expressions_1 (t_str tok) (t_str start_token)
                                                                (dec (t_pos start_token))) false)
                else
                  match openers' with
                  | [] =>
                      contents <- rec (py_slice tokens (S start_pos) i) ;;
                      group_loop rec tokens rest' (S i)
                                 (result ++ (if null contents then [TT start_token; TT tok]
                                             else [TT start_token; TG contents; TT tok])) []
                  | _ :: _ => group_loop rec tokens rest' (S i) result openers'
                  end
            end
        end
      else
        match openers with
        | [] => group_loop rec tokens rest' (S i) (result ++ [TT tok]) []
        | _ :: _ => group_loop rec tokens rest' (S i) result openers
        end
  end.

Fixpoint group_enclosed_expressions (fuel : nat) (tokens : list token) : pres (list ttree) :=
  match fuel with
  | O => PFuel
  | S fuel' => group_loop (group_enclosed_expressions fuel') tokens tokens 0 [] []
  end.

(* ---- expand_axes, partition_tokens ---------------------------------------------------------- *)
Definition expand1 (t : ttree) : list ttree :=
  match t with
  | TT x =>
      match assoc_kind (t_kind x) axis_expansions with
      | Some l => map (fun sk => TT (mkTok (t_pos x) (fst sk) (snd sk))) l
      | None => [t]
      end
  | TG _ => [t]
  end.
Definition expand_axes (tokens : list ttree) : list ttree := flat_map expand1 tokens.

Fixpoint partition_aux (sep : tkind) (tokens cur : list ttree) : list (list ttree) :=
  match tokens with
  | [] => [cur]
  | t :: r =>
      if is_tok_kind sep t then
        (if null cur then partition_aux sep r [] else cur :: partition_aux sep r [])
      else partition_aux sep r (cur ++ [t])
  end.
Definition partition_tokens (sep : tkind) (tokens : list ttree) : list (list ttree) :=
  partition_aux sep tokens [].

(* ---- constructors of ast.py that can raise -------------------------------------------------- *)
Definition UNDERSCORE : char := 95%N.
Definition HYPHEN : char := 45%N.
Definition s_ancestor : str := [97;110;99;101;115;116;111;114]%N.
Definition s_or_self : str := [95;111;114;95;115;101;108;102]%N.
Definition s_child : str := [99;104;105;108;100]%N.
Definition s_descendant : str := [100;101;115;99;101;110;100;97;110;116]%N.
Definition s_following : str := [102;111;108;108;111;119;105;110;103]%N.
Definition s_sibling : str := [95;115;105;98;108;105;110;103]%N.
Definition s_parent : str := [112;97;114;101;110;116]%N.
Definition s_preceding : str := [112;114;101;99;101;100;105;110;103]%N.
Definition s_self : str := [115;101;108;102]%N.

(* the Ast.axis constructor for generator.__name__ *)
Definition axis_of_generator_name (g : str) : axis :=
  if str_eqb g s_ancestor then AxAncestor
  else if str_eqb g (s_ancestor ++ s_or_self) then AxAncestorOrSelf
  else if str_eqb g s_child then AxChild
  else if str_eqb g s_descendant then AxDescendant
  else if str_eqb g (s_descendant ++ s_or_self) then AxDescendantOrSelf
  else if str_eqb g s_following then AxFollowing
  else if str_eqb g (s_following ++ s_sibling) then AxFollowingSibling
  else if str_eqb g s_parent then AxParent
  else if str_eqb g s_preceding then AxPreceding
  else if str_eqb g (s_preceding ++ s_sibling) then AxPrecedingSibling
  else if str_eqb g s_self then AxSelf
  else AxOther g.

(* Axis(name): `if name not in self._names: raise`; axis_names (generated) = the members of Axis._names with the
   __name__ of getattr(self, name.replace("-", "_")), which the generator checks to exist for each of them *)
Definition axis_ctor (name : str) : pres axis :=
  match assoc name axis_names with
  | None => PRej (mkXpe None msg_Axis_0 false)
  | Some g => POk (axis_of_generator_name g)
  end.

(* Function(name, arguments): xpath_functions is generated (name, number of parameters, *args) *)
Definition function_ctor (name : str) (arguments : list expr) : pres expr :=
  match assoc name xpath_functions with
  | None => PRej (mkXpe None (msg_Function_0 name) false)
  | Some (n, var) =>
      if Nat.ltb 1 n && negb var && negb (Nat.eqb n (length arguments + 1))
      then PRej (mkXpe None (msg_Function_1 name) false)
      else POk (Function name arguments)
  end.

Definition s_TagNode : str := [84;97;103;78;111;100;101]%N.
Definition s_TextNode : str := [84;101;120;116;78;111;100;101]%N.
Definition s_CommentNode : str := [67;111;109;109;101;110;116;78;111;100;101]%N.
Definition s_PINode : str :=
  [80;114;111;99;101;115;115;105;110;103;73;110;115;116;114;117;99;116;105;111;110;78;111;100;101]%N.
Definition kind_of_class_name (c : str) : option node_kind :=
  if str_eqb c s_TagNode then Some KTagNode else if str_eqb c s_TextNode then Some KTextNode
  else if str_eqb c s_CommentNode then Some KCommentNode
  else if str_eqb c s_PINode then Some KProcessingInstructionNode else None.

(* NODE_TYPE_TEST_MAPPING[name]; a value that is not one of the four node class names cannot be
   represented in Ast.node_kind: ParseFacts.node_type_values_known proves there is none *)
Definition node_type_lookup (name : str) : option node_kind :=
  match assoc name node_type_test_mapping with
  | None => None
  | Some c => match kind_of_class_name c with Some k => Some k | None => Some KTagNode end
  end.

Definition s_le : str := [108;101]%N. Definition s_lt : str := [108;116]%N.
Definition s_ge : str := [103;101]%N. Definition s_gt : str := [103;116]%N.
Definition s_eq : str := [101;113]%N. Definition s_ne : str := [110;101]%N.
Definition s_and_ : str := [97;110;100;95]%N. Definition s_or_ : str := [111;114;95]%N.
Definition binop_of_function_name (f : str) : option binop :=
  if str_eqb f s_le then Some OpLe else if str_eqb f s_lt then Some OpLt
  else if str_eqb f s_ge then Some OpGe else if str_eqb f s_gt then Some OpGt
  else if str_eqb f s_eq then Some OpEq else if str_eqb f s_ne then Some OpNe
  else if str_eqb f s_and_ then Some OpAnd else if str_eqb f s_or_ then Some OpOr else None.
(* OPERATORS[symbol] *)
Definition operators_lookup (symbol : str) : option binop :=
  match assoc symbol operators with
  | None => None
  | Some f => match binop_of_function_name f with Some o => Some o | None => Some OpEq end
  end.

(* int(s) for a non-empty run of Unicode decimal digits *)
Fixpoint digit_value_in (c : char) (rs : list (N * N)) : N :=
  match rs with
  | [] => 0%N
  | (lo, hi) :: r => if (N.leb lo c && N.leb c hi)%bool then N.modulo (c - lo) 10 else digit_value_in c r
  end.
(* None = ValueError: more than sys.get_int_max_str_digits() digits (caught by the parser) *)
Definition py_int (s : str) : option N :=
  if Nat.ltb int_max_str_digits (length s) then None
  else Some (fold_left (fun acc c => (acc * 10 + digit_value_in c digit_ranges)%N) s 0%N).

Definition is_node_type_name (s : str) : bool :=
  match assoc s node_type_test_mapping with Some _ => true | None => false end.

Definition attribute_value_of (e : expr) : expr :=
  match e with HasAttribute p l => AttributeValue p l | _ => e end.

(* ---- parse_evaluation_expression ------------------------------------------------------------- *)
Definition S_ := @Some tkind.

Fixpoint find_token (kd : tkind) (s : str) (tokens : list ttree) (i : nat) : option (nat * token) :=
  match tokens with
  | [] => None
  | TT t :: r => if tkind_eqb (t_kind t) kd && str_eqb (t_str t) s then Some (i, t) else find_token kd s r (S i)
  | TG _ :: r => find_token kd s r (S i)
  end.
Fixpoint find_operator (ops : list (tkind * str)) (tokens : list ttree) : option (nat * token) :=
  match ops with
  | [] => None
  | (kd, s) :: r => match find_token kd s tokens 0 with Some x => Some x | None => find_operator r tokens end
  end.

Definition s_position : str := [112;111;115;105;116;105;111;110]%N.
Definition s_equals : str := [61%N].

Definition parse_evaluation_expression_body (rec : list ttree -> pres expr) (tokens : list ttree) : pres expr :=
  if null tokens then PRej (mkXpe None msg_parse_evaluation_expression_0 false)
  else if all_tokens_match tokens [S_ NUMBER] then
    t0 <- nth_tok tokens 0 ;;
    match py_int (t_str t0) with
    | Some n => POk (AnyValue (VNum n))
    | None => PRej (mkXpe (Some (t_pos t0)) msg_parse_evaluation_expression_1 false)     (* except ValueError *)
    end
  else if all_tokens_match tokens [S_ STRING] then
    t0 <- nth_tok tokens 0 ;; POk (AnyValue (VStr (py_strip_ends (t_str t0))))
  else if all_tokens_match tokens [S_ STRUDEL; S_ NAME] then
    t1 <- nth_tok tokens 1 ;; POk (HasAttribute None (t_str t1))
  else if all_tokens_match tokens [S_ STRUDEL; S_ NAME; S_ COLON; S_ NAME] then
    t1 <- nth_tok tokens 1 ;; t3 <- nth_tok tokens 3 ;; POk (HasAttribute (Some (t_str t1)) (t_str t3))
  else if all_tokens_match tokens [S_ NAME; S_ OPEN_PARENS; None; S_ CLOSE_PARENS] then
    t0 <- nth_tok tokens 0 ;;
    g <- nth_group tokens 2 ;;
    (* an attribute argument becomes its value, except for the functions that test it for existence *)
    let keep := existsb (str_eqb (t_str t0)) existence_functions in
    arguments <- pmap (fun x => a <- rec x ;; POk (if keep then a else attribute_value_of a))
                      (partition_tokens COMMA g) ;;
    at_position (t_pos t0) (function_ctor (t_str t0) arguments)
  else if all_tokens_match tokens [S_ NAME; S_ OPEN_PARENS; S_ CLOSE_PARENS] then
    t0 <- nth_tok tokens 0 ;; function_ctor (t_str t0) []
  else if all_tokens_match tokens [S_ OPEN_PARENS; None; S_ CLOSE_PARENS] then
    g <- nth_group tokens 1 ;; rec g
  else
    match find_operator operator_order tokens with
    | Some (i, token) =>
        if Nat.ltb 0 i && Nat.ltb i (length tokens - 1) then
          left <- rec (firstn i tokens) ;;
          right <- rec (skipn (S i) tokens) ;;
          let logical := existsb (str_eqb (t_str token)) logical_operators in
          let left := if logical then left else attribute_value_of left in
          let right := if logical then right else attribute_value_of right in
          match operators_lookup (t_str token) with
          | None => PCrash S_expr_operators_lookup
          | Some op => POk (BooleanOperator op left right)
          end
        else PRej (mkXpe (Some (t_pos token)) (msg_parse_evaluation_expression_2 (t_str token)) false)
    | None =>
        match tokens with
        | [] => PCrash S_expr_empty
        | TG _ :: _ => PCrash S_expr_first_not_token
        | TT t0 :: _ => PRej (mkXpe (Some (t_pos t0)) msg_parse_evaluation_expression_3 false)
        end
    end.

Fixpoint parse_evaluation_expression (fuel : nat) (tokens : list ttree) : pres expr :=
  match fuel with
  | O => PFuel
  | S fuel' => parse_evaluation_expression_body (parse_evaluation_expression fuel') tokens
  end.

(* ---- parse_location_step --------------------------------------------------------------------- *)
Definition number_predicate (p : expr) : pres expr :=
  match p with
  | AnyValue (VNum _) =>
      match operators_lookup s_equals with
      | None => PCrash S_step_operators_lookup
      | Some op => f <- function_ctor s_position [] ;; POk (BooleanOperator op f p)
      end
  | _ => POk p
  end.

(* while tokens: ... *)
Fixpoint parse_predicates (pe : list ttree -> pres expr) (tokens : list ttree) {struct tokens}
  : pres (list expr) :=
  match tokens with
  | [] => POk []
  | _ :: _ =>
      if initial_tokens_match tokens [S_ OPEN_BRACKET; None; S_ CLOSE_BRACKET] then
        match tokens with
        | _ :: TG g :: _ :: rest =>
            predicate <- pe g ;;
            predicate <- number_predicate predicate ;;
            more <- parse_predicates pe rest ;;
            POk (predicate :: more)
        | _ :: TT _ :: _ :: _ => PCrash S_guarded_assert
        | _ => PCrash S_guarded_index
        end
      else
        match last (map Some tokens) None with
        | None => PCrash S_step_pred_last_index
        | Some (TG _) => PCrash S_step_pred_last_not_token
        | Some (TT t) => PRej (mkXpe (Some (t_pos t)) msg_parse_location_step_6 false)
        end
  end.

(* the four sections of parse_location_step, in the order of the source *)
(* axis *)
Definition step_axis (tokens0 : list ttree) : pres (axis * list ttree) :=
  if initial_tokens_match tokens0 [S_ NAME; S_ AXIS_SEPARATOR] then
    t0 <- nth_tok tokens0 0 ;;
    ax <- at_position (t_pos t0) (axis_ctor (t_str t0)) ;;
    POk (ax, skipn 2 tokens0)
  else ax <- axis_ctor s_child ;; POk (ax, tokens0).

(* if not tokens: last_token = all_tokens[-1]; ...; raise "Missing node test." *)
Definition step_missing_test (all_tokens : list ttree) : pres step :=
  match last (map Some all_tokens) None with
  | None => PCrash S_step_all_tokens_last
  | Some (TG _) => PCrash S_step_last_not_token
  | Some (TT last_token) =>
      PRej (mkXpe (Some (t_pos last_token + length (t_str last_token))) msg_parse_location_step_1 false)
  end.

(* name test's prefix *)
Definition step_prefix (tokens1 : list ttree) : pres (option str * list ttree) :=
  if initial_tokens_match tokens1 [S_ NAME; S_ COLON; S_ NAME]
     || initial_tokens_match tokens1 [S_ NAME; S_ COLON; S_ ASTERISK] then
    t0 <- nth_tok tokens1 0 ;; POk (Some (t_str t0), skipn 2 tokens1)
  else POk (None, tokens1).

(* node test *)
Definition step_node_test (prefix : option str) (tokens2 : list ttree) : pres (node_test * list ttree) :=
  if initial_tokens_match tokens2 [S_ NAME; S_ OPEN_PARENS; None; S_ CLOSE_PARENS] then
    t0 <- nth_tok tokens2 0 ;;
    if negb (str_eqb (t_str t0) pi_test_name) then PRej (mkXpe (Some (t_pos t0)) msg_parse_location_step_2 false) else
    g <- nth_group tokens2 2 ;;
    match g with
    | [] => PCrash S_step_pi_arg_index
    | TG _ :: _ => PCrash S_step_pi_arg_not_token
    | TT target_name :: _ =>
        POk (ProcessingInstructionTest (py_strip_ends (t_str target_name)), skipn 4 tokens2)
    end
  else if initial_tokens_match tokens2 [S_ NAME; S_ OPEN_PARENS; S_ CLOSE_PARENS] then
    t0 <- nth_tok tokens2 0 ;;
    if negb (is_node_type_name (t_str t0)) then PRej (mkXpe (Some (t_pos t0)) msg_parse_location_step_3 false) else
    match node_type_lookup (t_str t0) with
    | None => PCrash S_step_node_type
    | Some k => POk (NodeTypeTest k, skipn 3 tokens2)
    end
  else if initial_tokens_match tokens2 [S_ ASTERISK] then POk (AnyNameTest prefix, skipn 1 tokens2)
  else if initial_tokens_match tokens2 [S_ NAME] then
    t0 <- nth_tok tokens2 0 ;; POk (NameMatchTest prefix (t_str t0), skipn 1 tokens2)
  else if initial_tokens_match tokens2 [S_ STRUDEL; S_ NAME] then
    t0 <- nth_tok tokens2 0 ;;
    PRej (mkXpe (Some (t_pos t0)) (msg_unsupported msg_parse_location_step_4) true)
  else
    match tokens2 with
    | [] => PCrash S_step_test_index
    | TG _ :: _ => PCrash S_step_test_not_token
    | TT t0 :: _ => PRej (mkXpe (Some (t_pos t0)) msg_parse_location_step_5 false)
    end.

Definition parse_location_step (pe : list ttree -> pres expr) (tokens0 : list ttree) : pres step :=
  let all_tokens := tokens0 in
  at1 <- step_axis tokens0 ;;
  if null all_tokens then PRej (mkXpe None msg_parse_location_step_0 false)       (* Missing location step. *)
  else if null (snd at1) then step_missing_test all_tokens
  else
    pt <- step_prefix (snd at1) ;;
    nt <- step_node_test (fst pt) (snd pt) ;;
    predicates <- parse_predicates pe (snd nt) ;;      (* predicates *)
    POk (LocationStep (fst at1) (fst nt) predicates).

(* ---- parse_location_path, parse -------------------------------------------------------------- *)
Definition parse_location_path (pe : list ttree -> pres expr) (tokens : list ttree) : pres path :=
  if null tokens then PRej (mkXpe None msg_parse_location_path_0 false)
  else
    let tokens := expand_axes tokens in
    match tokens with
    | [] => PCrash S_path_first
    | TG _ :: _ => PCrash S_path_not_implemented
    | TT t0 :: _ =>
        let absolute := tkind_eqb (t_kind t0) SLASH in
        steps <- pmap (parse_location_step pe) (partition_tokens SLASH tokens) ;;
        POk (LocationPath absolute steps)
    end.

Definition parse_tokens (fuel : nat) (toks : list token) : pres xpath_expr :=
  tokens <- group_enclosed_expressions fuel toks ;;
  let pe := parse_evaluation_expression fuel in
  if existsb (is_tok_kind PASEQ) tokens then
    pmap (parse_location_path pe) (partition_tokens PASEQ tokens)
  else p <- parse_location_path pe tokens ;; POk [p].

(* what a caller of _delb.xpath.parse(expression) observes *)
Inductive outcome :=
| OOk (e : xpath_expr)
| ORej (position : nat) (message : str) (unsupported : bool)     (* e.expression = expression *)
| OCrash (c : site)
| OFuel.

(* except XPathParsingError as e: e.expression = expression; if e.position is None: e.position = 0 *)
Definition finalize (r : pres xpath_expr) : outcome :=
  match r with
  | POk e => OOk e
  | PRej e => ORej (match x_pos e with Some p => p | None => 0 end) (x_msg e) (x_unsupported e)
  | PCrash c => OCrash c
  | PFuel => OFuel
  end.

Definition parse_from (s : str) (toks : pres (list token)) : outcome :=
  finalize (t <- toks ;; parse_tokens (S (length s)) t).
Definition parse (s : str) : outcome := parse_from s (tokenize s).

(* CPython's recursion limit is outside the model: whether the interpreter runs out of stack during a call
   depends on the depth of the caller's stack, so it is an input here.  parse() catches RecursionError
   wherever it arises and raises XPathParsingError(expression, position=0, msg_parse_0) instead. *)
Definition parse_under (stack_overflow : bool) (s : str) : outcome :=
  if stack_overflow then ORej 0 msg_parse_0 false else parse s.

(* str(e): the three asserts of XPathParsingError.__str__, then the generated rendering *)
Definition xpe_str (expression : option str) (position : option nat) (message : option str) : option str :=
  match expression, message, position with
  | Some e, Some m, Some p => Some (xpe_render e p m)
  | _, _, _ => None
  end.

(* ---- functools.lru_cache(maxsize) on tokenize and parse ------------------------------------------
   most recently used first; a hit moves the entry to the front; a miss computes, and stores the
   result only if the call returned (exceptions are not cached); the least recently used entry is
   dropped when the cache is full. *)
Definition cache (V : Type) := list (str * V).
Fixpoint cache_find {V} (c : cache V) (k : str) : option (V * cache V) :=      (* value, cache without k *)
  match c with
  | [] => None
  | (k', v) :: r =>
      if str_eqb k k' then Some (v, r)
      else match cache_find r k with Some (w, r') => Some (w, (k', v) :: r') | None => None end
  end.
Definition cache_put {V} (size : nat) (c : cache V) (k : str) (v : V) : cache V := firstn size ((k, v) :: c).

Record caches := mkCaches { tok_cache : cache (list token); parse_cache : cache xpath_expr }.

Definition tokenize_cached (c : cache (list token)) (s : str) : cache (list token) * pres (list token) :=
  match cache_find c s with
  | Some (v, c') => ((s, v) :: c', POk v)
  | None =>
      match tokenize s with
      | POk v => (cache_put tokenize_cache_size c s v, POk v)
      | r => (c, r)
      end
  end.

Definition parse_cached (cs : caches) (s : str) : caches * outcome :=
  match cache_find (parse_cache cs) s with
  | Some (v, pc') => (mkCaches (tok_cache cs) ((s, v) :: pc'), OOk v)
  | None =>
      let tr := tokenize_cached (tok_cache cs) s in
      let r := parse_from s (snd tr) in
      match r with
      | OOk v => (mkCaches (fst tr) (cache_put parse_cache_size (parse_cache cs) s v), r)
      | _ => (mkCaches (fst tr) (parse_cache cs), r)
      end
  end.

(* ---- functools.cached_property on AST nodes ------------------------------------------------------------
   The nodes of a cached expression are shared by all callers, and three of their members are
   cached_property: the first read computes the value from the node's fields and stores it in the instance,
   later reads return what is stored.  The fields are assigned in __init__ only (the generator fails
   otherwise), so the computation is a function `f` of the node.  Nodes are named by numbers here. *)
Definition memo (V : Type) := list (nat * V).
Fixpoint memo_find {V} (m : memo V) (k : nat) : option V :=
  match m with [] => None | (k', v) :: r => if Nat.eqb k k' then Some v else memo_find r k end.
Definition memo_read {V} (f : nat -> V) (m : memo V) (k : nat) : memo V * V :=
  match memo_find m k with Some v => (m, v) | None => let v := f k in ((k, v) :: m, v) end.
Definition memo_run {V} (f : nat -> V) (reads : list nat) : memo V :=
  fold_left (fun m k => fst (memo_read f m k)) reads [].
(* the cached properties this applies to (ParseFacts.cached_properties_as_modelled ties it to the source) *)
Definition expected_cached_properties : list (str * str) :=
  [([76;111;99;97;116;105;111;110;83;116;101;112]%N, [95;97;110;100;101;114;115;95;112;114;101;100;105;99;97;116;101;115]%N);     (* LocationStep._anders_predicates *)
   ([76;111;99;97;116;105;111;110;83;116;101;112]%N, [95;100;101;114;105;118;101;100;95;97;116;116;114;105;98;117;116;101;115]%N);     (* LocationStep._derived_attributes *)
   ([88;80;97;116;104;69;120;112;114;101;115;115;105;111;110]%N, [95;105;115;95;117;110;97;109;98;105;103;117;111;117;115;108;121;95;108;111;99;97;116;97;98;108;101]%N)].    (* XPathExpression._is_unambiguously_locatable *)

(* earlier calls: parse(s) (also what every xpath()/evaluate call starts with), tokenize(s),
   parse.cache_clear(), tokenize.cache_clear() *)
Inductive event := EvParse (s : str) | EvTokenize (s : str) | EvClearParse | EvClearTokenize.
Definition step_event (cs : caches) (e : event) : caches :=
  match e with
  | EvParse s => fst (parse_cached cs s)
  | EvTokenize s => mkCaches (fst (tokenize_cached (tok_cache cs) s)) (parse_cache cs)
  | EvClearParse => mkCaches (tok_cache cs) []
  | EvClearTokenize => mkCaches [] (parse_cache cs)
  end.
Definition run (history : list event) : caches := fold_left step_event history (mkCaches [] []).

(* ---- what this model accounts for, per function of the source ----------------------------------
   kinds as counted by translate/gen_xpath.py audit_function (alphabetical):
   assert, call_Axis, call_Function, dict_lookup, except_*, getattr, int, pop, raise_*, slice,
   subscript, while.  Comments say where each one lives in the model. *)
Definition a_ (k : list N) (n : N) := (k, n).
Definition k_assert : str := [97;115;115;101;114;116]%N.
Definition k_call_Axis : str := [99;97;108;108;95;65;120;105;115]%N.
Definition k_call_Function : str := [99;97;108;108;95;70;117;110;99;116;105;111;110]%N.
Definition k_dict_lookup : str := [100;105;99;116;95;108;111;111;107;117;112]%N.
Definition k_except_XPE : str :=
  [101;120;99;101;112;116;95;88;80;97;116;104;80;97;114;115;105;110;103;69;114;114;111;114]%N.
Definition k_getattr : str := [103;101;116;97;116;116;114]%N.
Definition k_int : str := [105;110;116]%N.
Definition k_pop : str := [112;111;112]%N.
Definition k_raise_NotImplementedError : str :=
  [114;97;105;115;101;95;78;111;116;73;109;112;108;101;109;101;110;116;101;100;69;114;114;111;114]%N.
Definition k_raise_RuntimeError : str := [114;97;105;115;101;95;82;117;110;116;105;109;101;69;114;114;111;114]%N.
Definition k_raise_XPE : str :=
  [114;97;105;115;101;95;88;80;97;116;104;80;97;114;115;105;110;103;69;114;114;111;114]%N.
Definition k_raise_Unsupported : str :=
  [114;97;105;115;101;95;88;80;97;116;104;85;110;115;117;112;112;111;114;116;101;100;83;116;97;110;100;97;114;100;
   70;101;97;116;117;114;101]%N.
Definition k_raise_e : str := [114;97;105;115;101;95;101]%N.
Definition k_slice : str := [115;108;105;99;101]%N.
Definition k_subscript : str := [115;117;98;115;99;114;105;112;116]%N.
Definition k_while : str := [119;104;105;108;101]%N.

Definition k_except_ValueError : str := [101;120;99;101;112;116;95;86;97;108;117;101;69;114;114;111;114]%N.
Definition k_except_RecursionError : str :=
  [101;120;99;101;112;116;95;82;101;99;117;114;115;105;111;110;69;114;114;111;114]%N.

Definition model_audit_counts : list (list (str * N)) := [
  (* tokenizer.tokenize: assert match is not None / assert isinstance(token, str), getattr(TokenType, ..),
     raise RuntimeError, match[token_type]: cannot fail (header of Tok.v); raise XPE = ERROR branch of lex;
     while = lex *)
  [a_ k_assert 2; a_ k_getattr 1; a_ k_raise_RuntimeError 1; a_ k_raise_XPE 1; a_ k_subscript 1; a_ k_while 1];
  [];   (* parser.all_tokens_match *)
  [];   (* parser.compare_tokens_with_pattern *)
  [];   (* parser.expand_axes *)
  (* parser.group_enclosed_expressions: COMPLEMENTING_TOKEN_TYPES[..] = S_group_complement; pop = S_group_pop
     (after `if not openers: raise`); 3 raises = the three PRej; slice = py_slice; subscripts openers[-1] and
     [..][1] under `if openers` *)
  [a_ k_dict_lookup 1; a_ k_pop 1; a_ k_raise_XPE 3; a_ k_slice 1; a_ k_subscript 2];
  [];   (* parser.initial_tokens_match *)
  (* parser.parse_location_path: S_path_not_implemented; "Missing location path."; tokens[0] twice = S_path_first *)
  [a_ k_raise_NotImplementedError 1; a_ k_raise_XPE 1; a_ k_subscript 2];
  (* parser.parse_location_step:
     asserts 11 = isinstance after a pattern match (S_guarded_assert) + S_step_last_not_token
                  + S_step_pi_arg_not_token + S_step_test_not_token + S_step_pred_last_not_token;
     dict lookups: NODE_TYPE_TEST_MAPPING[..] = S_step_node_type (after the `not in` test), OPERATORS["="] =
     S_step_operators_lookup; except + raise e = at_position around axis_ctor; 6 raise XPE + 1 Unsupported =
     the seven PRej (missing step, missing node test, 3 x unrecognized node test, attribute lookup,
     unrecognized expression); slices = skipn / py_strip_ends; subscripts: guarded ones = nth_tok /
     nth_group / the destructuring in parse_predicates / tokens[0] of the three new raises,
     all_tokens[-1] = S_step_all_tokens_last, tokens[2][0] = S_step_pi_arg_index, tokens[0] in the last
     else = S_step_test_index, tokens[-1] = S_step_pred_last_index; while = parse_predicates *)
  [a_ k_assert 11; a_ k_call_Axis 2; a_ k_call_Function 1; a_ k_dict_lookup 2; a_ k_except_XPE 1; a_ k_raise_XPE 6;
   a_ k_raise_Unsupported 1; a_ k_raise_e 1; a_ k_slice 8; a_ k_subscript 25; a_ k_while 1];
  (* parser.parse_evaluation_expression:
     asserts 11 = isinstance after a pattern match + assert isinstance(token, list) (the type ttree)
                  + the final isinstance = S_expr_first_not_token;
     OPERATORS[token.string] = S_expr_operators_lookup; int() + except ValueError = py_int / its None branch;
     except XPE + raise e = at_position around function_ctor; 4 raise XPE = missing expression, number too
     long, operator misses an operand, unrecognized predicate expression; slices = firstn / skipn /
     py_strip_ends; subscripts: guarded ones = nth_tok / nth_group (tokens[0].string of the existence test included),
     the final tokens[0] = S_expr_empty *)
  [a_ k_assert 11; a_ k_call_Function 2; a_ k_dict_lookup 1; a_ k_except_ValueError 1; a_ k_except_XPE 1; a_ k_int 1;
   a_ k_raise_XPE 4; a_ k_raise_e 1; a_ k_slice 3; a_ k_subscript 23];
  [];   (* parser.partition_tokens *)
  (* parser.parse: finalize; except RecursionError + raise XPE = parse_under true *)
  [a_ k_except_RecursionError 1; a_ k_except_XPE 1; a_ k_raise_XPE 1; a_ k_raise_e 1];
  [a_ k_getattr 1; a_ k_raise_XPE 1];                        (* ast.Axis.__init__: axis_ctor *)
  (* ast.Function.__init__: two PRej of function_ctor; tuple(parameters.values())[-1] is evaluated only when
     len(parameters) > 1 *)
  [a_ k_raise_XPE 2; a_ k_subscript 1];
  [a_ k_assert 3; a_ k_slice 2]                              (* XPathParsingError.__str__: xpe_str / xpe_render *)
].
Definition model_audit : list (str * list (str * N)) := combine (map fst audit) model_audit_counts.
