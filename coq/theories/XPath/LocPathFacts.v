(* Lemmas for C14: evaluating the model's location path from any context gives exactly the node. *)
From Coq Require Import Lia.
From Delb.Base Require Import PyStr PyStrFacts.
From Delb.Tree Require Import ATree ITree.
From Delb.XPath Require Import Ast Nav FnLang Num Eval Ref Subset EvalRef LocPath.
From Delb.Gen Require Import GenXEval.

(* ---- the predicate position() = k keeps exactly the k-th candidate *)
Lemma num_compare_eq_N a b : num_compare CEq (xnum_of_N a) (xnum_of_N b) = N.eqb a b.
Proof.
  unfold num_compare, xnum_cmp, xnum_of_N, signed, pow10. cbn [Z.of_nat Z.pow]. rewrite !Z.mul_1_r.
  destruct (N.eqb_spec a b) as [->|Hn]; [apply Z.eqb_refl|]. apply Z.eqb_neq. intro H. apply N2Z.inj in H. contradiction.
Qed.
Lemma position_is_value m k c pos size :
  d_expr m (position_is k) c pos size = Ok (PBool (N.eqb pos k)).
Proof. rewrite <- num_compare_eq_N. reflexivity. Qed.

Lemma filter_pred_none m k size : forall cs pos, (k < pos)%N ->
  filter_pred m (position_is k) size pos cs = Ok [].
Proof.
  induction cs as [|c cs IH]; intros pos H; [reflexivity|].
  cbn [filter_pred]. rewrite position_is_value. cbn [bind]. rewrite IH by lia. cbn [bind keep_py truthy].
  destruct (N.eqb_spec pos k); [lia|reflexivity].
Qed.

Lemma filter_pred_kth m size : forall pre o c post,
  filter_pred m (position_is (N.of_nat (length pre + S o))) size (N.of_nat (S o)) (pre ++ c :: post) = Ok [c].
Proof.
  induction pre as [|x pre IH]; intros o c post.
  - cbn [app length plus filter_pred]. rewrite position_is_value. cbn [bind]. rewrite N.eqb_refl.
    rewrite filter_pred_none by lia. cbn [bind keep_py truthy]. reflexivity.
  - cbn [app length filter_pred]. rewrite position_is_value. cbn [bind].
    replace (N.of_nat (S o) + 1)%N with (N.of_nat (S (S o))) by lia.
    replace (S (length pre) + S o) with (length pre + S (S o)) by lia.
    rewrite IH. cbn [bind keep_py truthy]. destruct (N.eqb_spec (N.of_nat (S o)) (N.of_nat (length pre + S (S o)))); [lia|reflexivity].
Qed.

Lemma kth_general m size X c Y n : n = length X ->
  filter_pred m (position_is (N.of_nat (S n))) size 1 (X ++ c :: Y) = Ok [c].
Proof.
  intros ->. replace (S (length X)) with (length X + 1) by lia. exact (filter_pred_kth m size X 0 c Y).
Qed.

(* ---- the candidates of child::* are the tag children, in order *)
Definition tagc (x : nd) : bool := is_tag_t (snd x).
Lemma filter_test_star m : forall l, (forall c, In c l -> fst c <> []) ->
  filter_test m (AnyNameTest None) l = Ok (filter tagc l).
Proof.
  induction l as [|c l IH]; intro H; [reflexivity|].
  cbn [filter_test filter]. rewrite IH by (intros; apply H; right; assumption). cbn [bind d_test unknown_prefix].
  assert (E : is_tagnode c = tagc c).
  { unfold is_tagnode, tagc, is_tag_t, is_doc. destruct c as [p t]. cbn. specialize (H (p, t) (or_introl eq_refl)).
    destruct p; [cbn in H; congruence|reflexivity]. }
  rewrite E. destruct (tagc c); reflexivity.
Qed.

Lemma number_from_app {A} (l1 l2 : list A) i :
  number_from i (l1 ++ l2) = number_from i l1 ++ number_from (i + length l1) l2.
Proof.
  revert i; induction l1 as [|x l1 IH]; intro i; cbn [app number_from length].
  - rewrite Nat.add_0_r. reflexivity.
  - rewrite IH. replace (i + S (length l1)) with (S i + length l1) by lia. reflexivity.
Qed.
Lemma filter_numbered_length pre (l : list itree) i :
  length (filter tagc (map (rebase pre) (map (fun ik => ([fst ik], snd ik)) (number_from i l)))) = length (filter is_tag_t l).
Proof.
  revert i; induction l as [|x l IH]; intro i; cbn; [reflexivity|]. unfold tagc at 1. cbn.
  destruct (is_tag_t x); cbn; rewrite IH; reflexivity.
Qed.
Lemma nth_error_split_at {A} (l : list A) i x : nth_error l i = Some x ->
  l = firstn i l ++ x :: skipn (S i) l /\ length (firstn i l) = i.
Proof.
  revert i; induction l as [|y l IH]; intros [|i] H; cbn in *; try discriminate.
  - inversion H. auto.
  - destruct (IH i H) as [E L]. split; [f_equal; exact E|f_equal; exact L].
Qed.

Lemma children_unfold pre t0 :
  children (pre, t0) = map (rebase pre) (map (fun ik => ([fst ik], snd ik)) (number_from 0 (tkids t0))).
Proof. reflexivity. Qed.

Lemma children_nonnil n c : In c (children n) -> fst c <> [].
Proof.
  unfold children. intro H. apply in_map_iff in H as (x & <- & Hx). unfold children_rel in Hx.
  apply in_map_iff in Hx as (y & <- & _). unfold rebase. cbn. destruct (fst n); discriminate.
Qed.

Lemma step_idx D m pre t0 i k : nth_error (tkids t0) i = Some k -> is_tag_t k = true ->
  d_step1 D m (idx_step (S (tag_index (tkids t0) i))) (pre, t0) = Ok [(pre ++ [i], k)].
Proof.
  intros Hn Hk. unfold d_step1, idx_step. cbn [d_axis].
  rewrite filter_test_star by (apply children_nonnil). cbn [bind].
  destruct (nth_error_split_at _ _ _ Hn) as [E L].
  rewrite children_unfold. unfold tag_index. set (A := firstn i (tkids t0)) in *. set (B := skipn (S i) (tkids t0)) in *.
  rewrite E at 1. rewrite number_from_app. cbn [number_from]. rewrite !map_app. cbn [map]. rewrite filter_app. cbn [filter].
  unfold tagc at 2. cbn [snd rebase fst]. rewrite Hk. rewrite L. cbn [plus app].
  cbn [apply_preds]. rewrite kth_general; [reflexivity|]. symmetry. apply filter_numbered_length.
Qed.

Lemma subtree_tag_parent t0 i q k t :
  nth_error (tkids t0) i = Some k -> subtree k q = Some t -> is_tag_t t = true -> is_tag_t k = true.
Proof.
  intros Hn Hs Ht. destruct q as [|j q]; cbn in Hs.
  - inversion Hs; subst. exact Ht.
  - destruct k as [id p kids]. destruct p; cbn in Hs |- *; try reflexivity; destruct j; discriminate.
Qed.

Lemma d_step_single D m s n l : d_step1 D m s n = Ok [l] -> d_step D m s ([n], None) = ([l], None).
Proof. intro H. unfold d_step. cbn. rewrite H. cbn. reflexivity. Qed.

Lemma lp_steps_eval D m : forall q t0 pre t, subtree t0 q = Some t -> is_tag_t t = true ->
  fold_left (fun acc s => d_step D m s acc) (lp_steps t0 q) ([(pre, t0)], None) = ([(pre ++ q, t)], None).
Proof.
  induction q as [|i q IH]; intros t0 pre t Hs Ht; cbn in Hs |- *.
  - inversion Hs; subst. rewrite app_nil_r. reflexivity.
  - destruct (nth_error (tkids t0) i) as [k|] eqn:Hn; [|discriminate]. cbn [fold_left].
    rewrite (d_step_single D m _ _ (pre ++ [i], k)).
    + pose proof (IH k (pre ++ [i]) t Hs Ht) as E. rewrite <- app_assoc in E. exact E.
    + apply step_idx; [exact Hn|]. eapply subtree_tag_parent; eauto.
Qed.

Lemma root_is_tag root q t : subtree root q = Some t -> is_tag_t t = true -> is_tag_t root = true.
Proof.
  destruct q as [|i q]; cbn; intros Hs Ht.
  - inversion Hs; subst. exact Ht.
  - destruct root as [id p kids]. destruct p; cbn in Hs |- *; try reflexivity; destruct i; discriminate.
Qed.

(* evaluating the location path of the tag node at position 0 :: q, from ANY context node and with ANY
   namespace mapping, yields exactly that node *)
Lemma location_path_addresses root m q t ctx :
  subtree root q = Some t -> is_tag_t t = true ->
  eval (docnode root) m (location_path root (0 :: q)) ctx = Ok [(0 :: q, t)].
Proof.
  intros Hs Ht.
  assert (Hr : is_tag_t root = true) by (eapply root_is_tag; eauto).
  assert (H0 : d_step (docnode root) m star_step ([([], docnode root)], None) = ([([0], root)], None)).
  { apply d_step_single. unfold d_step1, star_step. cbn [d_axis].
    rewrite filter_test_star by (apply children_nonnil). cbn. unfold tagc. cbn. rewrite Hr. reflexivity. }
  pose proof (lp_steps_eval (docnode root) m q root [0] t Hs Ht) as E.
  assert (Hp : d_path (docnode root) m (LocationPath true (star_step :: lp_steps root q)) ctx = ([(0 :: q, t)], None)).
  { unfold d_path. cbn [fold_left].
    match goal with |- fold_left ?F ?l ?a = _ =>
      transitivity (fold_left F l ([([0], root)], None)); [apply (f_equal (fold_left F l)); exact H0 | exact E] end. }
  unfold eval, location_path. cbn [d_paths]. rewrite Hp. cbn. reflexivity.
Qed.

Lemma location_path_injective root q t q' t' :
  subtree root q = Some t -> is_tag_t t = true -> subtree root q' = Some t' -> is_tag_t t' = true ->
  location_path root (0 :: q) = location_path root (0 :: q') -> q = q'.
Proof.
  intros H1 H2 H3 H4 E.
  pose proof (location_path_addresses root [] q t ([], docnode root) H1 H2) as A.
  pose proof (location_path_addresses root [] q' t' ([], docnode root) H3 H4) as B.
  rewrite E in A. rewrite A in B. inversion B. reflexivity.
Qed.

Lemma lp_steps_shape : forall q t0, forallb is_indexed_star (lp_steps t0 q) = true.
Proof.
  induction q as [|i q IH]; intro t0; cbn; [reflexivity|].
  destruct (nth_error (tkids t0) i) as [k|]; [|reflexivity]. cbn [forallb]. rewrite IH.
  unfold idx_step, is_indexed_star, position_is. rewrite str_eqb_refl. cbn [andb].
  destruct (N.eqb_spec (N.of_nat (S (tag_index (tkids t0) i))) 0%N); [lia|reflexivity].
Qed.
Lemma location_path_shape root q : lp_shape (location_path root (0 :: q)) = true.
Proof. cbn. apply lp_steps_shape. Qed.
