(* Facts about the parser model (Parse.v): the audit, termination within the stated fuel,
   the guarded subscripts/asserts are unreachable, error positions lie inside the expression,
   the cache is transparent. *)
From Coq Require Import List NArith Arith Bool Lia.
From Delb.Base Require Import PyStr PyStrFacts.
From Delb.XPath Require Import XBase Tok TokFacts Ast Parse.
From Delb.Gen Require Import GenXPath.
Import ListNotations.

(* ---- the audit: the source has exactly the partial operations the model accounts for ---- *)
Lemma audit_ok : audit = model_audit.
Proof. vm_compute. reflexivity. Qed.

(* the generated tables only hold values the AST can represent *)
Lemma node_type_values_known :
  forallb (fun kv => match kind_of_class_name (snd kv) with Some _ => true | None => false end)
          node_type_test_mapping = true.
Proof. vm_compute. reflexivity. Qed.
Lemma operator_values_known :
  forallb (fun kv => match binop_of_function_name (snd kv) with Some _ => true | None => false end)
          operators = true.
Proof. vm_compute. reflexivity. Qed.
(* every operator the expression parser searches for is a key of OPERATORS, and "=" is *)
Lemma operator_order_in_operators :
  forallb (fun o => match operators_lookup (snd o) with Some _ => true | None => false end) operator_order = true
  /\ operators_lookup s_equals = Some OpEq.
Proof. vm_compute. split; reflexivity. Qed.
Lemma openers_have_complements :
  assoc_kind OPEN_BRACKET complementing = Some CLOSE_BRACKET /\ assoc_kind OPEN_PARENS complementing = Some CLOSE_PARENS.
Proof. vm_compute. split; reflexivity. Qed.

(* ---- a result satisfies: E on rejections, C on crash sites, never out of fuel ---- *)
Definition rsat {A} (E : xpe -> Prop) (C : site -> Prop) (r : pres A) : Prop :=
  match r with POk _ => True | PRej e => E e | PCrash c => C c | PFuel => False end.

Lemma rsat_bind {A B} E C (m : pres A) (f : A -> pres B) :
  rsat E C m -> (forall a, m = POk a -> rsat E C (f a)) -> rsat E C (pbind m f).
Proof. destruct m; cbn; auto. Qed.

Lemma rsat_pmap {A B} E C (f : A -> pres B) l :
  (forall x, In x l -> rsat E C (f x)) -> rsat E C (pmap f l).
Proof.
  induction l as [|x l IH]; intros H; cbn [pmap]; [exact I|].
  apply rsat_bind; [apply H; left; reflexivity|]. intros y _.
  apply rsat_bind; [apply IH; intros z Hz; apply H; right; exact Hz|]. intros ys _. exact I.
Qed.

Definition pos_le (n : nat) (e : xpe) : Prop := match x_pos e with Some p => p <= n | None => True end.
Definition unguarded (c : site) : Prop := c <> S_guarded_index /\ c <> S_guarded_assert.
Definition good {A} (n : nat) (r : pres A) : Prop := rsat (pos_le n) unguarded r.

Lemma good_at_position {A} n p (m : pres A) : p <= n -> good n m -> good n (at_position p m).
Proof. intros Hp. destruct m; cbn; auto. Qed.

Lemma unguarded_any c : site_id c <> 20%N -> site_id c <> 21%N -> unguarded c.
Proof. intros A B. split; intros ->; cbn in *; congruence. Qed.
Ltac ung := (split; discriminate).

(* ---- sizes and "all tokens satisfy P" on token trees ---- *)
Lemma tsize_TG l : tsize (TG l) = lsize l.
Proof. induction l as [|x l IH]; cbn in *; [reflexivity|]. rewrite IH. reflexivity. Qed.

Fixpoint tall (P : token -> Prop) (t : ttree) : Prop :=
  match t with
  | TT x => P x
  | TG l => (fix la (l : list ttree) : Prop := match l with [] => True | y :: r => tall P y /\ la r end) l
  end.
Fixpoint lall (P : token -> Prop) (l : list ttree) : Prop :=
  match l with [] => True | y :: r => tall P y /\ lall P r end.
Lemma tall_TG P l : tall P (TG l) <-> lall P l.
Proof. induction l as [|x l IH]; cbn in *; [tauto|]. rewrite IH. tauto. Qed.

Lemma lsize_app a b : lsize (a ++ b) = lsize a + lsize b.
Proof. induction a as [|x a IH]; cbn; [reflexivity|]. rewrite IH. lia. Qed.
Lemma lall_app P a b : lall P (a ++ b) <-> lall P a /\ lall P b.
Proof. induction a as [|x a IH]; cbn; [tauto|]. rewrite IH. tauto. Qed.
Lemma lall_In P l x : lall P l -> In x l -> tall P x.
Proof. induction l as [|y l IH]; cbn; [tauto|]. intros [H1 H2] [->|H]; auto. Qed.
Lemma lall_of_In P l : (forall x, In x l -> tall P x) -> lall P l.
Proof. induction l as [|y l IH]; cbn; [tauto|]. intros H. split; [apply H; auto|apply IH; intros; apply H; auto]. Qed.
Lemma lall_split P l k : lall P l -> lall P (firstn k l) /\ lall P (skipn k l).
Proof. intros H. rewrite <- (firstn_skipn k l) in H. apply lall_app in H. exact H. Qed.
Lemma lsize_split l k : lsize l = lsize (firstn k l) + lsize (skipn k l).
Proof. rewrite <- lsize_app, firstn_skipn. reflexivity. Qed.
Lemma lsize_skipn_le l k : lsize (skipn k l) <= lsize l.
Proof. rewrite (lsize_split l k). lia. Qed.
Lemma tsize_In l x : In x l -> tsize x <= lsize l.
Proof. induction l as [|y l IH]; cbn; [tauto|]. intros [->|H]; [lia|]. apply IH in H. lia. Qed.

(* ---- what a successful pattern match says about the shape of the token list ---- *)
Fixpoint shape_of (pat : pattern) (tokens : list ttree) : Prop :=
  match pat with
  | [] => True
  | Some k :: ps => match tokens with TT t :: ts => tkind_eqb (t_kind t) k = true /\ shape_of ps ts | _ => False end
  | None :: ps => match tokens with TG g :: ts => shape_of ps ts | _ => False end
  end.

Lemma compare_shape pat : forall tokens, length pat <= length tokens ->
  compare_tokens_with_pattern tokens pat = true -> shape_of pat tokens.
Proof.
  induction pat as [|p ps IH]; intros tokens Hl H; [exact I|].
  destruct tokens as [|t ts]; [cbn in Hl; lia|]. cbn in Hl.
  cbn [compare_tokens_with_pattern] in H. destruct t as [x|g], p as [k|]; try discriminate.
  - apply andb_true_iff in H. destruct H as [H1 H2]. cbn. split; [exact H1|]. apply IH; [lia|exact H2].
  - cbn. apply IH; [lia|exact H].
Qed.
Lemma initial_match_shape tokens pat : initial_tokens_match tokens pat = true -> shape_of pat tokens.
Proof.
  unfold initial_tokens_match. intros H. apply andb_true_iff in H. destruct H as [H1 H2].
  apply Nat.leb_le in H1. apply compare_shape; assumption.
Qed.
Lemma all_match_shape tokens pat :
  all_tokens_match tokens pat = true -> shape_of pat tokens /\ length tokens = length pat.
Proof.
  unfold all_tokens_match. intros H. apply andb_true_iff in H. destruct H as [H1 H2].
  apply Nat.eqb_eq in H1. split; [apply compare_shape; [lia|exact H2]|exact H1].
Qed.

(* destructs `tokens` along a shape hypothesis with a concrete pattern *)
Ltac shape H :=
  cbn [shape_of S_] in H;
  repeat match type of H with
         | match ?l with _ => _ end => destruct l as [|[?t|?g] ?ts]; try contradiction
         | _ /\ _ => let K := fresh "K" in destruct H as [K H]
         end.

(* ---- partition_tokens: every part is made of elements of the argument ---- *)
Lemma partition_aux_In sep : forall tokens cur part x,
  In part (partition_aux sep tokens cur) -> In x part -> In x cur \/ In x tokens.
Proof.
  induction tokens as [|t r IH]; intros cur part x Hp Hx; cbn in Hp.
  - destruct Hp as [<-|[]]. left; exact Hx.
  - destruct (is_tok_kind sep t).
    + destruct (null cur).
      * specialize (IH [] part x Hp Hx). destruct IH as [[]|IH]. right; right; exact IH.
      * destruct Hp as [<-|Hp]; [left; exact Hx|].
        specialize (IH [] part x Hp Hx). destruct IH as [[]|IH]. right; right; exact IH.
    + specialize (IH (cur ++ [t]) part x Hp Hx). destruct IH as [IH|IH].
      * apply in_app_or in IH. destruct IH as [IH|[<-|[]]]; [left; exact IH|right; left; reflexivity].
      * right; right; exact IH.
Qed.
Lemma partition_In sep tokens part x : In part (partition_tokens sep tokens) -> In x part -> In x tokens.
Proof. intros Hp Hx. destruct (partition_aux_In sep tokens [] part x Hp Hx) as [[]|H]. exact H. Qed.

Lemma partition_aux_size sep : forall tokens cur part,
  In part (partition_aux sep tokens cur) -> lsize part <= lsize cur + lsize tokens.
Proof.
  induction tokens as [|t r IH]; intros cur part Hp; cbn in Hp.
  - destruct Hp as [<-|[]]. cbn. lia.
  - cbn [lsize]. destruct (is_tok_kind sep t).
    + destruct (null cur).
      * apply IH in Hp. cbn in Hp. lia.
      * destruct Hp as [<-|Hp]; [lia|]. apply IH in Hp. cbn in Hp. lia.
    + apply IH in Hp. rewrite lsize_app in Hp. cbn in Hp. lia.
Qed.
Lemma partition_size sep tokens part : In part (partition_tokens sep tokens) -> lsize part <= lsize tokens.
Proof. intros H. apply partition_aux_size in H. cbn in H. exact H. Qed.
Lemma partition_lall P sep tokens part : lall P tokens -> In part (partition_tokens sep tokens) -> lall P part.
Proof.
  intros H Hp. apply lall_of_In. intros x Hx. eapply lall_In; [exact H|]. eapply partition_In; eassumption.
Qed.

(* ---- parse_evaluation_expression ---- *)
Definition inb (n : nat) (t : token) : Prop := t_pos t < n.

Lemma py_int_good n s : good n (py_int s).
Proof. unfold py_int. destruct (Nat.ltb _ _); cbn; [ung|exact I]. Qed.
Lemma function_ctor_good n name args : good n (function_ctor name args).
Proof.
  unfold function_ctor. destruct (assoc name xpath_functions) as [[k v]|]; [|exact I].
  destruct (_ && _ && _); exact I.
Qed.
Lemma axis_ctor_good n name : good n (axis_ctor name).
Proof. unfold axis_ctor. destruct (assoc _ axis_names); exact I. Qed.

Lemma find_token_spec kd s : forall tokens i0 i t,
  find_token kd s tokens i0 = Some (i, t) -> i0 <= i /\ nth_error tokens (i - i0) = Some (TT t).
Proof.
  induction tokens as [|x r IH]; intros i0 i t H; cbn in H; [discriminate|].
  destruct x as [y|g].
  - destruct (_ && _).
    + inversion H; subst. rewrite Nat.sub_diag. split; [lia|reflexivity].
    + apply IH in H. destruct H as [H1 H2]. split; [lia|].
      replace (i - i0) with (S (i - S i0)) by lia. exact H2.
  - apply IH in H. destruct H as [H1 H2]. split; [lia|].
    replace (i - i0) with (S (i - S i0)) by lia. exact H2.
Qed.
Lemma find_operator_spec ops tokens i t :
  find_operator ops tokens = Some (i, t) -> nth_error tokens i = Some (TT t).
Proof.
  induction ops as [|[kd s] r IH]; cbn; [discriminate|].
  destruct (find_token kd s tokens 0) as [[j u]|] eqn:E; [|exact IH].
  intros H; inversion H; subst. apply find_token_spec in E. destruct E as [_ E].
  rewrite Nat.sub_0_r in E. exact E.
Qed.
Lemma nth_split_size : forall tokens i x, nth_error tokens i = Some x ->
  lsize tokens = lsize (firstn i tokens) + tsize x + lsize (skipn (S i) tokens).
Proof.
  induction tokens as [|y r IH]; intros [|i] x H; cbn in H; try discriminate.
  - inversion H; subst. cbn. lia.
  - apply IH in H. cbn [firstn skipn lsize] in *. lia.
Qed.

Ltac tail_nil L :=
  cbn [length] in L;
  match type of L with context [length ?r] => is_var r; destruct r; [|cbn [length] in L; lia] end.
Ltac exact_shape E L :=
  apply all_match_shape in E; destruct E as [E L]; shape E; tail_nil L.

Lemma body_good n rec tokens :
  lall (inb n) tokens ->
  (forall l, lsize l < lsize tokens -> lall (inb n) l -> good n (rec l)) ->
  good n (parse_evaluation_expression_body rec tokens).
Proof.
  intros Hall Hrec. unfold parse_evaluation_expression_body.
  destruct (all_tokens_match tokens [S_ NUMBER]) eqn:E1.
  { exact_shape E1 L. cbn [nth_tok nth_error pbind]. apply rsat_bind; [apply py_int_good|]. intros; exact I. }
  destruct (all_tokens_match tokens [S_ STRING]) eqn:E2.
  { exact_shape E2 L. exact I. }
  destruct (all_tokens_match tokens [S_ STRUDEL; S_ NAME]) eqn:E3.
  { exact_shape E3 L. exact I. }
  destruct (all_tokens_match tokens [S_ STRUDEL; S_ NAME; S_ COLON; S_ NAME]) eqn:E4.
  { exact_shape E4 L. exact I. }
  destruct (all_tokens_match tokens [S_ NAME; S_ OPEN_PARENS; None; S_ CLOSE_PARENS]) eqn:E5.
  { exact_shape E5 L. cbn [nth_tok nth_group nth_error pbind].
    cbn [lall tall] in Hall. destruct Hall as [Ht [_ [Hg _]]]. apply tall_TG in Hg.
    apply rsat_bind.
    - apply rsat_pmap. intros part Hp. apply rsat_bind; [|intros; exact I].
      apply Hrec; [|eapply partition_lall; eassumption].
      apply partition_size in Hp. cbn [lsize]. rewrite tsize_TG. cbn [tsize]. lia.
    - intros args _. apply good_at_position; [unfold inb in Ht; lia|apply function_ctor_good]. }
  destruct (all_tokens_match tokens [S_ NAME; S_ OPEN_PARENS; S_ CLOSE_PARENS]) eqn:E6.
  { exact_shape E6 L. cbn [nth_tok nth_error pbind]. apply function_ctor_good. }
  destruct (all_tokens_match tokens [S_ OPEN_PARENS; None; S_ CLOSE_PARENS]) eqn:E7.
  { exact_shape E7 L. cbn [nth_tok nth_group nth_error pbind].
    cbn [lall tall] in Hall. destruct Hall as [_ [Hg _]]. apply tall_TG in Hg.
    apply Hrec; [|exact Hg]. cbn [lsize]. rewrite tsize_TG. cbn [tsize]. lia. }
  destruct (find_operator operator_order tokens) as [[i token]|] eqn:F.
  - destruct (Nat.ltb 0 i && Nat.ltb i (length tokens - 1)); [|cbn; ung].
    apply find_operator_spec in F. pose proof (nth_split_size _ _ _ F) as Sz. cbn [tsize] in Sz.
    destruct (lall_split (inb n) tokens i Hall) as [Hl _].
    destruct (lall_split (inb n) tokens (S i) Hall) as [_ Hr].
    apply rsat_bind; [apply Hrec; [lia|exact Hl]|]. intros left _.
    apply rsat_bind; [apply Hrec; [lia|exact Hr]|]. intros right _.
    cbv zeta. destruct (operators_lookup (t_str token)); cbn; [exact I|ung].
  - destruct tokens as [|[t0|g] r]; cbn; try ung.
    cbn in Hall. unfold inb in Hall. unfold pos_le; cbn. lia.
Qed.

Lemma parse_expr_good n : forall fuel tokens,
  lsize tokens < fuel -> lall (inb n) tokens -> good n (parse_evaluation_expression fuel tokens).
Proof.
  induction fuel as [|fuel IH]; intros tokens Hs Hall; [inversion Hs|].
  cbn [parse_evaluation_expression]. apply body_good; [exact Hall|].
  intros l Hl Hal. apply IH; [lia|exact Hal].
Qed.

(* ---- group_enclosed_expressions ---- *)
Definition gspec (n len : nat) (r : pres (list ttree)) : Prop :=
  match r with
  | POk c => lall (real_token n) c /\ lsize c <= len
  | PRej e => pos_le n e
  | PCrash c => unguarded c
  | PFuel => False
  end.

Fixpoint bottom (openers : list (nat * token)) : option nat :=
  match openers with
  | [] => None
  | o :: r => match r with [] => Some (fst o) | _ :: _ => bottom r end
  end.
Definition base_of (openers : list (nat * token)) (i : nat) : nat :=
  match bottom openers with None => i | Some b => b end.

Lemma Forall_split {A} (P : A -> Prop) l k : Forall P l -> Forall P (firstn k l) /\ Forall P (skipn k l).
Proof. intros H. rewrite <- (firstn_skipn k l) in H. apply Forall_app in H. exact H. Qed.

Lemma real_pos_le n t : real_token n t -> t_pos t <= n.
Proof. unfold real_token. lia. Qed.

Lemma bottom_cons o r : exists b, bottom (o :: r) = Some b.
Proof. revert o. induction r as [|x r IH]; intros o; cbn; [eauto|]. apply IH. Qed.
Lemma base_of_cons o r i j : base_of (o :: r) i = base_of (o :: r) j.
Proof. unfold base_of. destruct (bottom_cons o r) as [b ->]. reflexivity. Qed.
Lemma base_of_push x o r i : base_of (x :: o :: r) i = base_of (o :: r) i.
Proof. reflexivity. Qed.

Lemma group_loop_spec n rec tokens :
  Forall (real_token n) tokens ->
  (forall l, length l < length tokens -> Forall (real_token n) l -> gspec n (length l) (rec l)) ->
  forall rest i result openers,
    i + length rest = length tokens ->
    Forall (real_token n) rest ->
    Forall (fun o => fst o < i /\ real_token n (snd o)) openers ->
    lall (real_token n) result -> lsize result <= base_of openers i ->
    gspec n (length tokens) (group_loop rec tokens rest i result openers).
Proof.
  intros Htokens Hrec. induction rest as [|tok rest IH]; intros i result openers Hi Hrest Hop Hres Hsz.
  - cbn [group_loop]. destruct openers as [|[sp st] ops].
    + cbn. unfold base_of in Hsz; cbn in Hsz. cbn in Hi. split; [exact Hres|lia].
    + inversion Hop as [|x y [_ Hreal] _]; subst. cbn. unfold pos_le; cbn. apply real_pos_le, Hreal.
  - inversion Hrest as [|x y Htok Hrest']; subst. cbn [length] in Hi.
    cbn [group_loop]. destruct (is_opener tok).
    { apply IH; [lia|exact Hrest'| | exact Hres|].
      - constructor; [cbn; split; [lia|exact Htok]|].
        eapply Forall_impl; [|exact Hop]. intros o [Ha Hb]. split; [lia|exact Hb].
      - destruct openers as [|o r]; [exact Hsz|].
        rewrite base_of_push, (base_of_cons o r (S i) i). exact Hsz. }
    destruct (is_closer tok).
    { destruct openers as [|[sp st] ops]; [cbn; ung|].
      inversion Hop as [|x y [Hsp Hst] Hops]; subst. cbn [fst snd] in *.
      destruct (assoc_kind (t_kind st) complementing); [|cbn; ung].
      destruct (negb (tkind_eqb (t_kind tok) t)).
      { cbn. unfold pos_le; cbn. apply real_pos_le, Htok. }
      destruct ops as [|o r].
      - unfold base_of in Hsz; cbn in Hsz.
        assert (Hsl : length (py_slice tokens (S sp) i) <= i - S sp) by (unfold py_slice; apply firstn_le_length).
        assert (Hsl2 : length (py_slice tokens (S sp) i) < length tokens) by lia.
        assert (Hslr : Forall (real_token n) (py_slice tokens (S sp) i)).
        { unfold py_slice. apply Forall_split. apply Forall_split. exact Htokens. }
        specialize (Hrec _ Hsl2 Hslr).
        destruct (rec (py_slice tokens (S sp) i)) as [c|e|x|]; cbn [pbind]; cbn in Hrec; try exact Hrec; try contradiction.
        destruct Hrec as [Hc1 Hc2].
        apply IH; [lia|exact Hrest'|constructor| |].
        + apply lall_app. split; [exact Hres|]. destruct (null c).
          * cbn [lall tall]. tauto.
          * change (tall (real_token n) (TT st) /\ (tall (real_token n) (TG c) /\ (tall (real_token n) (TT tok) /\ True))).
            split; [exact Hst|]. split; [apply tall_TG; exact Hc1|]. split; [exact Htok|exact I].
        + unfold base_of; cbn [bottom]. rewrite lsize_app.
          destruct (null c); cbn [lsize]; [cbn [tsize]; lia|]. rewrite tsize_TG. cbn [tsize]. lia.
      - apply IH; [lia|exact Hrest'| |exact Hres|].
        + eapply Forall_impl; [|exact Hops]. intros o' [Ha Hb]. split; [lia|exact Hb].
        + rewrite (base_of_cons o r (S i) i). rewrite base_of_push in Hsz. exact Hsz. }
    destruct openers as [|o r].
    + apply IH; [lia|exact Hrest'|constructor| |].
      * apply lall_app. split; [exact Hres|cbn; split; [exact Htok|exact I]].
      * unfold base_of in *; cbn in *. rewrite lsize_app. cbn. lia.
    + apply IH; [lia|exact Hrest'| |exact Hres|].
      * eapply Forall_impl; [|exact Hop]. intros o' [Ha Hb]. split; [lia|exact Hb].
      * rewrite (base_of_cons o r (S i) i). exact Hsz.
Qed.

Lemma group_spec n : forall fuel tokens, length tokens < fuel -> Forall (real_token n) tokens ->
  gspec n (length tokens) (group_enclosed_expressions fuel tokens).
Proof.
  induction fuel as [|fuel IH]; intros tokens Hl Ht; [inversion Hl|].
  cbn [group_enclosed_expressions]. apply group_loop_spec.
  - exact Ht.
  - intros l Hl' Hr. apply IH; [lia|exact Hr].
  - reflexivity.
  - exact Ht.
  - constructor.
  - exact I.
  - cbn. lia.
Qed.
